/* C04: PRF / PrfShort / MAC+verify / HMAC / KMAC against the reference.
 * usage: c04 <mode prf|prfshort|mac|hmac|kmac> <a 0|1> <pattern> <tier> */
#include "hx.h"
#include "ref.h"
#include <ascon/prf.h>
#include <ascon/hmac.h>
#include <ascon/kmac.h>

static int A, pat, tier;

static void cmpo(const char *key, const uint8_t *got, const uint8_t *exp, size_t n, const char *what, size_t a, size_t b, size_t c, size_t d)
{
    hx_stat("evaluations", 1);
    if (memcmp(got, exp, n)) hx_fail(key, "differs from reference: %s %zu/%zu/%zu/%zu pat=%d", what, a, b, c, d, pat);
    if (!hx_buf_ok(got, n)) hx_fail(key, "wrote outside the output buffer: %s %zu/%zu/%zu/%zu", what, a, b, c, d);
}

/* the same for a result that lies inside a larger harness buffer */
static void cmpi(const char *key, const uint8_t *buf, size_t buflen, size_t off, const uint8_t *exp, size_t n, const uint8_t *rest, const char *what, size_t a, size_t b, size_t c)
{
    hx_stat("evaluations", 1);
    if (memcmp(buf + off, exp, n)) hx_fail(key, "differs from reference: %s %zu/%zu/%zu pat=%d", what, a, b, c, pat);
    for (size_t i = 0; i < buflen; i++) if ((i < off || i >= off + n) && buf[i] != rest[i]) { hx_fail(key, "changed byte %zu outside the %zu-byte result at offset %zu: %s %zu/%zu/%zu", i, n, off, what, a, b, c); break; }
    if (!hx_buf_ok(buf, buflen)) hx_fail(key, "wrote outside the buffer: %s %zu/%zu/%zu", what, a, b, c);
}

static void prf(void)
{
    uint8_t key[16], *msg = malloc(70000), *exp = malloc(70000);
    hx_fill(key, 16, pat, 1); hx_fill(msg, 70000, pat, 4);
    int maxin = tier ? 272 : 72, maxout = tier ? 136 : 40;
    for (int il = 0; il <= maxin; il++) {
        ref_prf(key, 0, msg, il, exp, maxout + 8);
        for (int ol = 0; ol <= maxout; ol++) {
            uint8_t *o = hx_buf(ol);
            ascon_prf(o, ol, HX_OPT(msg, il), il, key);
            cmpo("prf:oneshot", o, exp, ol, "inlen/outlen", il, ol, 0, 0);
            memset(o, 0xAA, ol);
            { ascon_prf_state_t s; ascon_prf_init(&s, key); ascon_prf_absorb(&s, HX_OPT(msg, il), il); ascon_prf_squeeze(&s, o, ol); ascon_prf_free(&s); }
            cmpo("prf:incremental", o, exp, ol, "inlen/outlen", il, ol, 0, 0);
            memset(o, 0xAA, ol);
            /* the same computation with input and output each given in several calls (one empty); split points vary with the shape */
            { size_t i1 = ((size_t)il * 3 + ol + 1) % ((size_t)il + 1), o1 = ((size_t)ol * 5 + il * 3 + 2) % ((size_t)ol + 1), o2 = o1 + (ol - o1) / 2; ascon_prf_state_t s;
              ascon_prf_init(&s, key); ascon_prf_absorb(&s, msg, i1); ascon_prf_absorb(&s, msg + i1, 0); ascon_prf_absorb(&s, msg + i1, il - i1);
              ascon_prf_squeeze(&s, o, o1); ascon_prf_squeeze(&s, o + o1, 0); ascon_prf_squeeze(&s, o + o1, o2 - o1); ascon_prf_squeeze(&s, o + o2, ol - o2); ascon_prf_free(&s);
              cmpo("prf:incremental-chunked", o, exp, ol, "inlen/outlen/split-in/split-out", il, ol, i1, o1); memset(o, 0xAA, ol); }
            /* every pair of split points of the longest output, for a few input lengths: three squeezes whose boundaries meet every position of the 16-byte output block */
            if (ol == maxout && (il == 0 || il == 5 || il == 32 || il == maxin))
                for (int p1 = 0; p1 <= ol; p1++) for (int p2 = p1; p2 <= ol; p2++) {
                    ascon_prf_state_t s; ascon_prf_init(&s, key); ascon_prf_absorb(&s, HX_OPT(msg, il), il);
                    ascon_prf_squeeze(&s, o, p1); ascon_prf_squeeze(&s, o + p1, p2 - p1); ascon_prf_squeeze(&s, o + p2, ol - p2); ascon_prf_free(&s);
                    cmpo("prf:incremental-all-splits", o, exp, ol, "inlen/outlen/split-out-1/split-out-2", il, ol, p1, p2); memset(o, 0xAA, ol); }
            uint8_t *e2 = malloc(ol + 1); ref_prf(key, ol, msg, il, e2, ol);
            ascon_prf_fixed(o, ol, HX_OPT(msg, il), il, key);
            cmpo("prf:fixed", o, e2, ol, "inlen/outlen", il, ol, 0, 0);
            memset(o, 0xAA, ol);
            { ascon_prf_state_t s; ascon_prf_fixed_init(&s, key, ol); ascon_prf_absorb(&s, HX_OPT(msg, il), il); ascon_prf_squeeze(&s, o, ol); ascon_prf_free(&s); }
            cmpo("prf:fixed-incremental", o, e2, ol, "inlen/outlen", il, ol, 0, 0);
            if (ol == 0 || ol == 9 || ol == 16 || ol == maxout) {
                /* the same through reinit / fixed_reinit on an object with a past (other key, pending input, already squeezed, other declared length) */
                uint8_t k2[16], t[24]; for (int i = 0; i < 16; i++) k2[i] = (uint8_t)(key[i] ^ 0x5c); ascon_prf_state_t s; int hist = (il + ol) % 4;
                memset(o, 0xAA, ol);
                if (hist == 0) ascon_prf_init(&s, k2); else if (hist == 1) { ascon_prf_init(&s, k2); ascon_prf_absorb(&s, msg, 32); } else if (hist == 2) { ascon_prf_fixed_init(&s, k2, 20); ascon_prf_absorb(&s, msg, 5); ascon_prf_squeeze(&s, t, 20); } else { ascon_prf_init(&s, key); ascon_prf_absorb(&s, msg, 3); }
                ascon_prf_reinit(&s, key); ascon_prf_absorb(&s, HX_OPT(msg, il), il); ascon_prf_squeeze(&s, o, ol);
                cmpo("prf:reinit", o, exp, ol, "inlen/outlen/history", il, ol, hist, 0);
                memset(o, 0xAA, ol);
                ascon_prf_fixed_reinit(&s, key, ol); ascon_prf_absorb(&s, HX_OPT(msg, il), il); ascon_prf_squeeze(&s, o, ol); ascon_prf_free(&s);
                cmpo("prf:fixed-reinit", o, e2, ol, "inlen/outlen/history", il, ol, hist, 0);
            }
            free(e2); hx_free(o); hx_stat("nontrivial", 1);
        }
    }
    static const size_t longs[] = {255, 256, 257, 1023, 1024, 1025, 4095, 4096, 4097, 65535, 65536, 65537};
    for (unsigned i = 0; i < 12; i++) {   /* long lengths in every tier */
        uint8_t *o = hx_buf(40);
        ref_prf(key, 0, msg, longs[i], exp, 40); ascon_prf(o, 40, msg, longs[i], key); cmpo("prf:oneshot", o, exp, 40, "long inlen", longs[i], 40, 0, 0);
        hx_free(o); o = hx_buf(longs[i]);
        ref_prf(key, 0, msg, 9, exp, longs[i]); ascon_prf(o, longs[i], msg, 9, key); cmpo("prf:oneshot", o, exp, longs[i], "long outlen", 9, longs[i], 0, 0);
        hx_free(o);
    }
    /* declared lengths other than the squeezed length */
    static const size_t decl[] = {1, 15, 16, 17, 32, 255, 65536, ((size_t)1 << 29) - 1};
    for (unsigned d = 0; d < 8; d++) for (int il = 0; il <= 33; il += 11) {
        uint8_t *o = hx_buf(40); ascon_prf_state_t s;
        ref_prf(key, decl[d], msg, il, exp, 40);
        ascon_prf_fixed_init(&s, key, decl[d]); ascon_prf_absorb(&s, msg, il); ascon_prf_squeeze(&s, o, 40); ascon_prf_free(&s);
        cmpo("prf:fixed-incremental", o, exp, 40, "declared/inlen", decl[d], il, 0, 0); hx_free(o);
    }
    /* declared lengths whose bit count does not fit the 32-bit field of the initial value: documented to mean arbitrary-length output (the same as declared 0) */
    static const size_t big[] = {(size_t)1 << 29, ((size_t)1 << 29) + 1, (size_t)1 << 31, (size_t)1 << 32, ((size_t)1 << 61) + 2, (size_t)-1};
    for (unsigned d = 0; d < 6; d++) for (int re = 0; re < 2; re++) {
        uint8_t *o = hx_buf(40); ascon_prf_state_t s;
        ref_prf(key, 0, msg, 13, exp, 40);
        if (re) { ascon_prf_fixed_init(&s, key, 24); ascon_prf_absorb(&s, msg, 5); ascon_prf_fixed_reinit(&s, key, big[d]); } else ascon_prf_fixed_init(&s, key, big[d]);
        ascon_prf_absorb(&s, msg, 13); ascon_prf_squeeze(&s, o, 40); ascon_prf_free(&s);
        cmpo("prf:fixed-incremental", o, exp, 40, "declared (too large: arbitrary length)/reinit", big[d], re, 0, 0); hx_free(o);
    }
    hx_sample("prf: inlen 0..%d x outlen 0..%d, one-shot / incremental / fixed / fixed-incremental, pattern %d", maxin, maxout, pat);
    free(msg); free(exp);
}

static void prfshort(void)
{
    uint8_t key[16], msg[32]; hx_fill(key, 16, pat, 1); hx_fill(msg, 32, pat, 4);
    for (int il = 0; il <= 20; il++) for (int ol = 0; ol <= 20; ol++) {
        uint8_t *o = hx_buf(ol), e[32];
        int r = ascon_prf_short(o, ol, HX_OPT(msg, il), il, key);
        int rr = ref_prf_short(key, msg, il, e, ol);
        hx_stat("evaluations", 1); hx_stat("nontrivial", 1);
        if (rr < 0) { if (r >= 0) hx_fail("prfshort:limit", "inlen=%d outlen=%d accepted (result %d), must report an error", il, ol, r); }
        else if (r != 0) hx_fail("prfshort:status", "inlen=%d outlen=%d result %d, expected 0", il, ol, r);
        else if (memcmp(o, e, ol)) hx_fail("prfshort:value", "inlen=%d outlen=%d differs from reference pat=%d", il, ol, pat);
        if (!hx_buf_ok(o, ol)) hx_fail("prfshort:stray-write", "inlen=%d outlen=%d", il, ol);
        hx_free(o);
    }
    static const size_t big[] = {17, 255, 256, 257, 272, 65536, ((size_t)1 << 32) + 8, (size_t)-1};
    for (unsigned i = 0; i < 8; i++) {
        uint8_t o[16];
        if (ascon_prf_short(o, 16, msg, big[i], key) >= 0) hx_fail("prfshort:limit", "inlen=%zu accepted", big[i]);
        if (ascon_prf_short(o, big[i], msg, 8, key) >= 0) hx_fail("prfshort:limit", "outlen=%zu accepted", big[i]);
        hx_stat("evaluations", 2);
    }
    hx_sample("prfshort: inlen,outlen in 0..20 + huge lengths (error above 16), pattern %d", pat);
}

static void mac(void)
{
    uint8_t key[16], *msg = malloc(70000), e[16]; hx_fill(key, 16, pat, 1); hx_fill(msg, 70000, pat, 4);
    int maxin = tier ? 272 : 80;
    for (int il = 0; il <= maxin; il++) {
        uint8_t *t = hx_buf(16);
        ref_prf(key, 16, msg, il, e, 16);
        ascon_mac(t, HX_OPT(msg, il), il, key);
        cmpo("mac:value", t, e, 16, "inlen", il, 0, 0, 0);
        hx_stat("evaluations", 1);
        if (ascon_mac_verify(e, HX_OPT(msg, il), il, key) != 0) hx_fail("mac:verify-rejects-correct", "inlen=%d", il);
        for (int b = 0; b < 128; b++) {
            e[b / 8] ^= (uint8_t)(1 << (b % 8));
            hx_stat("evaluations", 1); hx_stat("nontrivial", 1);
            if (ascon_mac_verify(e, HX_OPT(msg, il), il, key) >= 0) hx_fail("mac:verify-accepts-wrong", "bit %d flipped inlen=%d", b, il);
            e[b / 8] ^= (uint8_t)(1 << (b % 8));
        }
        if (il < 3 || il == 32 || il == 33 || (tier && il % 16 == 0))
            for (int i = 0; i < 16; i++) for (int v = 1; v < 256; v++) {
                e[i] ^= (uint8_t)v; hx_stat("evaluations", 1); hx_stat("nontrivial", 1);
                if (ascon_mac_verify(e, HX_OPT(msg, il), il, key) >= 0) hx_fail("mac:verify-accepts-wrong", "byte %d xor %02x inlen=%d", i, v, il);
                e[i] ^= (uint8_t)v;
            }
        /* wrong message / wrong key with the right tag */
        if (il) { msg[il - 1] ^= 1; if (ascon_mac_verify(e, msg, il, key) >= 0) hx_fail("mac:verify-accepts-wrong", "message changed inlen=%d", il); msg[il - 1] ^= 1; }
        key[15] ^= 0x80; if (ascon_mac_verify(e, msg, il, key) >= 0) hx_fail("mac:verify-accepts-wrong", "key changed inlen=%d", il); key[15] ^= 0x80;
        hx_free(t);
    }
    hx_sample("mac: inlen 0..%d tag == reference; verify: correct tag, 128 bit flips, 16x255 byte XORs, changed message/key", maxin);
    free(msg);
}

static void hmac(void)
{
    static const int kls_q[] = {0, 1, 31, 32, 33, 63, 64, 65, 66, 70, 95, 96, 97, 127, 128, 129, 130, 1000};
    uint8_t *key = malloc(2048), *msg = malloc(70000), e[32];
    hx_fill(key, 2048, pat, 1); hx_fill(msg, 70000, pat, 4);
    int nk = tier ? 140 : (int)(sizeof kls_q / sizeof kls_q[0]);
    int maxm = tier ? 200 : 80;
    for (int ki = 0; ki < nk + (tier ? 1 : 0); ki++) {
        size_t kl = tier ? (ki < nk ? (size_t)ki : 1000) : (size_t)kls_q[ki];
        for (int ml = 0; ml <= maxm; ml++) {
            if (tier && kl > 70 && kl != 1000 && kl != 96 && kl != 97 && kl != 128 && kl != 129 && ml > 34) continue;
            uint8_t *o = hx_buf(32);
            ref_hmac(A, key, kl, msg, ml, e);
            if (A) ascon_hmaca(o, HX_OPT(key, kl), kl, HX_OPT(msg, ml), ml); else ascon_hmac(o, HX_OPT(key, kl), kl, HX_OPT(msg, ml), ml);
            cmpo(A ? "hmaca:oneshot" : "hmac:oneshot", o, e, 32, "keylen/msglen", kl, ml, 0, 0);
            /* the output written over the inputs (in-place ratchet k = HMAC(k, label); tag written over the message): the inputs are what the buffers hold when the call is made.
             * The interface has no restrict qualifiers and the code keeps the inner digest in a local buffer, so these calls are well defined on this tree. */
            if (ml <= 20 && kl >= 1 && kl <= 200) {
                uint8_t *kb = hx_buf(kl + 64); size_t offs[3] = {0, kl - 1, kl / 2};
                for (int oi = 0; oi < 3; oi++) {
                    uint8_t rest[264]; memcpy(kb, key, kl); memset(kb + kl, 0xAA, 64); memcpy(rest, kb, kl + 64);
                    if (A) ascon_hmaca(kb + offs[oi], kb, kl, HX_OPT(msg, ml), ml); else ascon_hmac(kb + offs[oi], kb, kl, HX_OPT(msg, ml), ml);
                    cmpi(A ? "hmaca:oneshot-output-over-key" : "hmac:oneshot-output-over-key", kb, kl + 64, offs[oi], e, 32, rest, "keylen/msglen/offset", kl, ml, offs[oi]);
                }
                hx_free(kb);
                if (ml >= 1) { uint8_t *mb = hx_buf(ml + 40), rest[64]; memcpy(mb, msg, ml); memset(mb + ml, 0xAA, 40); memcpy(rest, mb, ml + 40); if (A) ascon_hmaca(mb, HX_OPT(key, kl), kl, mb, ml); else ascon_hmac(mb, HX_OPT(key, kl), kl, mb, ml);
                    cmpi(A ? "hmaca:oneshot-output-over-message" : "hmac:oneshot-output-over-message", mb, ml + 40, 0, e, 32, rest, "keylen/msglen", kl, ml, 0); hx_free(mb); }
            }
            memset(o, 0xAA, 32);
            if (A) { ascon_hmaca_state_t s; ascon_hmaca_init(&s, key, kl); ascon_hmaca_update(&s, msg, ml); ascon_hmaca_finalize(&s, key, kl, o); ascon_hmaca_free(&s); }
            else { ascon_hmac_state_t s; ascon_hmac_init(&s, key, kl); ascon_hmac_update(&s, msg, ml); ascon_hmac_finalize(&s, key, kl, o); ascon_hmac_free(&s); }
            cmpo(A ? "hmaca:incremental" : "hmac:incremental", o, e, 32, "keylen/msglen", kl, ml, 0, 0);
            { size_t i1 = ((size_t)ml * 3 + kl + 1) % ((size_t)ml + 1); memset(o, 0xAA, 32);
              if (A) { ascon_hmaca_state_t s; ascon_hmaca_init(&s, key, kl); ascon_hmaca_update(&s, msg, i1); ascon_hmaca_update(&s, msg + i1, 0); ascon_hmaca_update(&s, msg + i1, ml - i1); ascon_hmaca_finalize(&s, key, kl, o); ascon_hmaca_free(&s); }
              else { ascon_hmac_state_t s; ascon_hmac_init(&s, key, kl); ascon_hmac_update(&s, msg, i1); ascon_hmac_update(&s, msg + i1, 0); ascon_hmac_update(&s, msg + i1, ml - i1); ascon_hmac_finalize(&s, key, kl, o); ascon_hmac_free(&s); }
              cmpo(A ? "hmaca:incremental-chunked" : "hmac:incremental-chunked", o, e, 32, "keylen/msglen/split", kl, ml, i1, 0); }
            {   /* reinit of an object keyed with another key of another length class, with pending input */
                uint8_t k2[80]; for (int i = 0; i < 80; i++) k2[i] = (uint8_t)(0x3c + i); size_t k2l = (size_t)((kl + ml) % 3 == 0 ? 5 : (kl + ml) % 3 == 1 ? 64 : 70); memset(o, 0xAA, 32);
                /* the past: 0, 3, 8, 13, 16, 40 or 64 bytes of an unfinished message (whole blocks included), or a finalised computation */
                static const size_t pends[7] = {0, 3, 8, 13, 16, 40, 64}; size_t pend = pends[(kl * 5 + (size_t)ml) % 7]; int fin = ((kl + (size_t)ml) % 5) == 4; uint8_t t32[32];
                if (A) { ascon_hmaca_state_t s; ascon_hmaca_init(&s, k2, k2l); ascon_hmaca_update(&s, k2, pend); if (fin) ascon_hmaca_finalize(&s, k2, k2l, t32); ascon_hmaca_reinit(&s, key, kl); ascon_hmaca_update(&s, msg, ml); ascon_hmaca_finalize(&s, key, kl, o); ascon_hmaca_free(&s); }
                else { ascon_hmac_state_t s; ascon_hmac_init(&s, k2, k2l); ascon_hmac_update(&s, k2, pend); if (fin) ascon_hmac_finalize(&s, k2, k2l, t32); ascon_hmac_reinit(&s, key, kl); ascon_hmac_update(&s, msg, ml); ascon_hmac_finalize(&s, key, kl, o); ascon_hmac_free(&s); }
                cmpo(A ? "hmaca:reinit" : "hmac:reinit", o, e, 32, "keylen/msglen/previous-keylen", kl, ml, k2l, 0); }
            hx_free(o); hx_stat("nontrivial", 1);
        }
    }
    hx_sample("hmac a=%d: key lengths incl. 0,63,64,65,96,97,128,129,1000 x message 0..%d, one-shot and incremental", A, maxm);
    free(key); free(msg);
}

static void kmac(void)
{
    uint8_t key[64], msg[64], cust[64], e[80];
    hx_fill(key, 64, pat, 1); hx_fill(msg, 64, pat, 4); hx_fill(cust, 64, pat, 5);
    /* declared output lengths around and beyond the 32-bit bit-count field (2^29 bytes and more mean arbitrary length), through init and through reinit; the first 40 bytes are compared */
    { static const size_t big[] = {((size_t)1 << 29) - 1, (size_t)1 << 29, ((size_t)1 << 29) + 1, (size_t)1 << 31, (size_t)1 << 32, ((size_t)1 << 61) + 3, (size_t)-1};
      for (unsigned d = 0; d < sizeof big / sizeof big[0]; d++) for (int cl = 0; cl <= 5; cl += 5) for (int re = 0; re < 2; re++) {
        uint8_t o[40]; ref_cxof2(A, (const uint8_t *)"KMAC", 4, cust, cl, big[d], key, 19, msg, 11, e, 40);
        if (A) { ascon_kmaca_state_t s; if (re) { ascon_kmaca_init(&s, msg, 3, key, 2, 32); ascon_kmaca_absorb(&s, msg, 5); ascon_kmaca_reinit(&s, key, 19, cust, cl, big[d]); } else ascon_kmaca_init(&s, key, 19, cust, cl, big[d]); ascon_kmaca_absorb(&s, msg, 11); ascon_kmaca_squeeze(&s, o, 40); ascon_kmaca_free(&s); }
        else { ascon_kmac_state_t s; if (re) { ascon_kmac_init(&s, msg, 3, key, 2, 32); ascon_kmac_absorb(&s, msg, 5); ascon_kmac_reinit(&s, key, 19, cust, cl, big[d]); } else ascon_kmac_init(&s, key, 19, cust, cl, big[d]); ascon_kmac_absorb(&s, msg, 11); ascon_kmac_squeeze(&s, o, 40); ascon_kmac_free(&s); }
        hx_stat("evaluations", 1); hx_stat("nontrivial", 1);
        if (memcmp(o, e, 40)) hx_fail(A ? "kmaca:declared-large" : "kmac:declared-large", "declared output length %zu (%s, customisation of %d bytes) differs from cXOF('KMAC', custom, declared)", big[d], re ? "reinit" : "init", cl);
      } }
    int maxk = tier ? 40 : 40, maxm = tier ? 20 : 17, maxc = tier ? 20 : 17;
    static const int outs[] = {0, 1, 7, 8, 9, 16, 31, 32, 33, 40, 64};
    for (int kl = 0; kl <= maxk; kl += (tier || kl < 18) ? 1 : 11)
        for (int ml = 0; ml <= maxm; ml += (tier || ml < 2) ? 1 : 4)
            for (int cl = 0; cl <= maxc; cl += (tier || cl < 2) ? 1 : 4)
                for (unsigned oi = 0; oi < sizeof outs / sizeof outs[0]; oi++) {
                    int ol = outs[oi];
                    uint8_t *o = hx_buf(ol);
                    ref_kmac(A, key, kl, msg, ml, cust, cl, e, ol);
                    if (A) ascon_kmaca(HX_OPT(key, kl), kl, HX_OPT(msg, ml), ml, HX_OPT(cust, cl), cl, o, ol);
                    else ascon_kmac(HX_OPT(key, kl), kl, HX_OPT(msg, ml), ml, HX_OPT(cust, cl), cl, o, ol);
                    cmpo(A ? "kmaca:oneshot" : "kmac:oneshot", o, e, ol, "key/msg/custom/out", kl, ml, cl, ol);
                    memset(o, 0xAA, ol);
                    if (A) { ascon_kmaca_state_t s; ascon_kmaca_init(&s, key, kl, cust, cl, ol); ascon_kmaca_absorb(&s, msg, ml); ascon_kmaca_squeeze(&s, o, ol); ascon_kmaca_free(&s); }
                    else { ascon_kmac_state_t s; ascon_kmac_init(&s, key, kl, cust, cl, ol); ascon_kmac_absorb(&s, msg, ml); ascon_kmac_squeeze(&s, o, ol); ascon_kmac_free(&s); }
                    cmpo(A ? "kmaca:incremental" : "kmac:incremental", o, e, ol, "key/msg/custom/out", kl, ml, cl, ol);
                    if (ol == 33 || ol == 9) {
                        /* declared length 0 = arbitrary-length output: cXOF("KMAC", custom, 0) over key || message */
                        uint8_t e0[48], o0[48], km[200]; memcpy(km, key, kl); memcpy(km + kl, msg, ml);
                        ref_cxof(A, (const uint8_t *)"KMAC", 4, cust, cl, 0, km, kl + ml, e0, 40);
                        if (A) { ascon_kmaca_state_t s; ascon_kmaca_init(&s, key, kl, cust, cl, 0); ascon_kmaca_absorb(&s, msg, ml); ascon_kmaca_squeeze(&s, o0, 11); ascon_kmaca_squeeze(&s, o0 + 11, 29); ascon_kmaca_reinit(&s, key, kl, cust, cl, 0); ascon_kmaca_absorb(&s, msg, ml); ascon_kmaca_squeeze(&s, o0 + 40, 8); ascon_kmaca_free(&s); }
                        else { ascon_kmac_state_t s; ascon_kmac_init(&s, key, kl, cust, cl, 0); ascon_kmac_absorb(&s, msg, ml); ascon_kmac_squeeze(&s, o0, 11); ascon_kmac_squeeze(&s, o0 + 11, 29); ascon_kmac_reinit(&s, key, kl, cust, cl, 0); ascon_kmac_absorb(&s, msg, ml); ascon_kmac_squeeze(&s, o0 + 40, 8); ascon_kmac_free(&s); }
                        hx_stat("evaluations", 1);
                        if (memcmp(o0, e0, 40) || memcmp(o0 + 40, e0, 8)) hx_fail(A ? "kmaca:declared-0" : "kmac:declared-0", "init / reinit with declared length 0 differs from cXOF('KMAC', custom, 0): key/msg/custom %d/%d/%d pat=%d", kl, ml, cl, pat);
                    }
                    {   /* reinit of an object used with key and custom exchanged and another output length (the default 32 and others) */
                        size_t ol2 = (kl + ml + cl) % 2 ? 32 : 17; uint8_t t[8]; memset(o, 0xAA, ol);
                        if (A) { ascon_kmaca_state_t s; ascon_kmaca_init(&s, cust, cl, key, kl, ol2); ascon_kmaca_absorb(&s, msg, 9); if (ml & 1) ascon_kmaca_squeeze(&s, t, 8); ascon_kmaca_reinit(&s, key, kl, cust, cl, ol); ascon_kmaca_absorb(&s, msg, ml); ascon_kmaca_squeeze(&s, o, ol); ascon_kmaca_free(&s); }
                        else { ascon_kmac_state_t s; ascon_kmac_init(&s, cust, cl, key, kl, ol2); ascon_kmac_absorb(&s, msg, 9); if (ml & 1) ascon_kmac_squeeze(&s, t, 8); ascon_kmac_reinit(&s, key, kl, cust, cl, ol); ascon_kmac_absorb(&s, msg, ml); ascon_kmac_squeeze(&s, o, ol); ascon_kmac_free(&s); }
                        cmpo(A ? "kmaca:reinit" : "kmac:reinit", o, e, ol, "key/msg/custom/out", kl, ml, cl, ol); }
                    hx_free(o); hx_stat("nontrivial", 1);
                }
    hx_sample("kmac a=%d: key 0..%d x msg 0..%d x custom 0..%d x outlen {0,1,7,8,9,16,31,32,33,40,64}", A, maxk, maxm, maxc);
}

int main(int argc, char **argv)
{
    hx_init();
    if (argc < 5) return 2;
    A = atoi(argv[2]); pat = atoi(argv[3]); tier = atoi(argv[4]);
    if (!strcmp(argv[1], "prf")) prf();
    else if (!strcmp(argv[1], "prfshort")) prfshort();
    else if (!strcmp(argv[1], "mac")) mac();
    else if (!strcmp(argv[1], "hmac")) hmac();
    else kmac();
    hx_finish();
    return 0;
}
