/* C20 (byte_array part): explicit-state search over the non-STL byte_array against std::vector.
 * Build with -DASCON_NO_STL and ASan in recover mode.  usage: c20_ba <nvars> <depth> */
#include <vector>
#include <string>
#include <set>
#include <deque>
#include <ascon/utility.h>
extern "C" {
#include "hx.h"
}
typedef std::vector<unsigned char> vec;
using ascon::byte_array;

/* allocation-failure injection: while armed, the k-th allocation through operator new / new[] throws std::bad_alloc (what std::vector answers with the strong guarantee: the value is unchanged) */
#include <new>
#include <cstdlib>
static long alloc_countdown = 0; static long alloc_refused = 0;
static void *vp_alloc(size_t n) { if (alloc_countdown > 0 && --alloc_countdown == 0) { alloc_refused++; throw std::bad_alloc(); } void *p = malloc(n ? n : 1); if (!p) throw std::bad_alloc(); return p; }
void *operator new(size_t n) { return vp_alloc(n); }
void *operator new[](size_t n) { return vp_alloc(n); }
void operator delete(void *p) noexcept { free(p); }
void operator delete[](void *p) noexcept { free(p); }
void operator delete(void *p, size_t) noexcept { free(p); }
void operator delete[](void *p, size_t) noexcept { free(p); }
#define OFF (alloc_countdown = 0)   /* the injection covers the byte_array half of an operation only; the std::vector model then runs undisturbed */
static volatile int asan_hit;
extern "C" void __asan_on_error(void) { asan_hit = 1; }

enum { O_CONS, O_ASSIGN, O_COPYCONS, O_WRITE, O_HOLDREF, O_RESIZE, O_RESERVE, O_PUSH, O_POP, O_CLEAR, O_DATAW, O_ITER, O_READ, O_ENDFIRST, O_BEGINW };
struct op { unsigned char k, x, y; unsigned short n; };
static const char *opn[] = {"construct", "assign", "copy-construct", "index-write", "hold-ref-across-index", "resize", "reserve", "push_back", "pop_back", "clear", "data-write", "iterate", "index-read", "end-before-begin", "write-through-begin"};
static int NV;

struct world { byte_array a[3]; vec m[3]; };

static bool applicable(const op &o, const world &w)
{
    size_t sz = w.m[o.x].size();
    switch (o.k) {
    case O_WRITE: case O_READ: return o.n == 0 ? sz > 0 : sz > 1;   /* n=0: first element, n=1: last element */
    case O_HOLDREF: return sz >= 2;
    case O_POP: return sz > 0;             /* pop_back on an empty std::vector is undefined */
    case O_DATAW: case O_BEGINW: return sz > 0;
    default: return true;
    }
}
static long itersum; static int iterbad;
static void apply(world &w, const op &o)
{
    byte_array &a = w.a[o.x]; vec &m = w.m[o.x];
    switch (o.k) {
    case O_CONS: a = byte_array(o.n, 7); OFF; m = vec(o.n, 7); break;
    case O_ASSIGN: a = w.a[o.y]; OFF; m = w.m[o.y]; break;
    case O_COPYCONS: { byte_array t(w.a[o.y]); a = t; OFF; vec tm(w.m[o.y]); m = tm; break; }
    case O_WRITE: { size_t i = o.n == 0 ? 0 : m.size() - 1; a[i] = 9; OFF; m[i] = 9; break; }
    case O_READ: { size_t i = o.n == 0 ? 0 : m.size() - 1; const byte_array &ca = a; itersum += ca[i]; itersum += a[i]; break; }
    case O_HOLDREF: { unsigned char &r = a[0]; a[1] = 3; r = 4; OFF; unsigned char &mr = m[0]; m[1] = 3; mr = 4; break; }
    case O_RESIZE: a.resize(o.n); OFF; m.resize(o.n); break;
    case O_RESERVE: a.reserve(o.n); OFF; m.reserve(o.n); break;
    case O_PUSH: a.push_back(5); OFF; m.push_back(5); break;
    case O_POP: a.pop_back(); OFF; m.pop_back(); break;
    case O_CLEAR: a.clear(); OFF; m.clear(); break;
    case O_DATAW: a.data()[0] = 11; OFF; m.data()[0] = 11; break;
    case O_ENDFIRST: {  /* end() taken before begin(): both must delimit this value's own elements, and a write through end()-1 must change this value only */
                   byte_array::iterator e = a.end(); byte_array::iterator b = a.begin(); if ((size_t)(e - b) != m.size()) iterbad |= 2;
                   const byte_array &ca = a; if ((size_t)(ca.end() - ca.begin()) != m.size() || ca.begin() != ca.cbegin() || ca.end() != ca.cend()) iterbad |= 2;
                   if (m.size()) { *(e - 1) = 13; OFF; m.back() = 13; } OFF; break; }
    case O_BEGINW: { *a.begin() = 12; OFF; *m.begin() = 12; break; }
    case O_ITER: { long s1 = 0, s2 = 0; for (byte_array::iterator it = a.begin(); it != a.end(); ++it) s1 += *it; for (vec::iterator it = m.begin(); it != m.end(); ++it) s2 += *it;
                   const byte_array &ca = a; for (byte_array::const_iterator it = ca.cbegin(); it != ca.cend(); ++it) s1 -= *it; itersum += s1 - s2 + s2; if (s1 != 0) iterbad |= 1; break; }
    }
}
static std::string describe(const std::vector<op> &h)
{
    std::string s; char b[64];
    for (size_t i = 0; i < h.size(); i++) { snprintf(b, sizeof b, "%s%c.%s(%c,%d)", i ? ";" : "", "abc"[h[i].x], opn[h[i].k], "abc"[h[i].y], h[i].n); s += b; }
    return s;
}
/* observers: every observer of every value compared with the model */
static const char *observe(world &w)
{
    static char why[160];
    for (int i = 0; i < NV; i++) {
        const byte_array &a = w.a[i]; const vec &m = w.m[i];
        if (a.size() != m.size()) { snprintf(why, sizeof why, "%c.size() = %zu, vector has %zu", "abc"[i], a.size(), m.size()); return why; }
        if (a.empty() != m.empty()) { snprintf(why, sizeof why, "%c.empty() disagrees", "abc"[i]); return why; }
        if (a.capacity() < a.size()) { snprintf(why, sizeof why, "%c.capacity() < size()", "abc"[i]); return why; }
        const unsigned char *d = a.data();
        for (size_t k = 0; k < m.size(); k++) if (d[k] != m[k]) { snprintf(why, sizeof why, "%c[%zu] = %d, vector has %d", "abc"[i], k, d[k], m[k]); return why; }
        for (int j = 0; j < NV; j++) {
            const byte_array &b = w.a[j]; const vec &n = w.m[j];
            if ((a == b) != (m == n)) { snprintf(why, sizeof why, "%c == %c disagrees with vector", "abc"[i], "abc"[j]); return why; }
            if ((a != b) != (m != n)) { snprintf(why, sizeof why, "%c != %c disagrees with vector", "abc"[i], "abc"[j]); return why; }
            if ((a < b) != (m < n)) { snprintf(why, sizeof why, "%c < %c gives %d, vector gives %d", "abc"[i], "abc"[j], a < b, m < n); return why; }
            if ((a <= b) != (m <= n)) { snprintf(why, sizeof why, "%c <= %c disagrees with vector", "abc"[i], "abc"[j]); return why; }
            if ((a > b) != (m > n)) { snprintf(why, sizeof why, "%c > %c disagrees with vector", "abc"[i], "abc"[j]); return why; }
            if ((a >= b) != (m >= n)) { snprintf(why, sizeof why, "%c >= %c disagrees with vector", "abc"[i], "abc"[j]); return why; }
        }
    }
    return 0;
}
/* canonical key: contents + sharing partition (which values share a buffer) + capacity classes.
 * Sharing and capacity are invisible to the vector model but decide the futures of the implementation. */
static std::string canon(world &w)
{
    std::string k;
    for (int i = 0; i < NV; i++) {
        const byte_array &a = w.a[i];
        k += (char)(a.size() & 0xff); k.append((const char *)w.m[i].data(), w.m[i].size()); k += '|';
        size_t cap = a.capacity(); k += (char)(cap == 0 ? 0 : cap == a.size() ? 1 : 2);
        k += (char)(a.data() == 0 ? 'n' : 'p');
        for (int j = 0; j < i; j++) k += (char)((a.data() != 0 && a.data() == const_cast<const byte_array &>(w.a[j]).data()) ? 's' : 'd');
        k += '/';
    }
    return k;
}

int main(int argc, char **argv)
{
    hx_init();
    NV = argc > 1 ? atoi(argv[1]) : 2; int depth = argc > 2 ? atoi(argv[2]) : 4;
    std::vector<op> alphabet;
    static const int cons_n[] = {0, 1, 16, 17}, rs_n[] = {0, 1, 2, 16, 17, 40}, rv_n[] = {0, 20, 64};
    for (int x = 0; x < NV; x++) {
        for (int i = 0; i < 4; i++) alphabet.push_back(op{O_CONS, (unsigned char)x, 0, (unsigned short)cons_n[i]});
        for (int y = 0; y < NV; y++) { alphabet.push_back(op{O_ASSIGN, (unsigned char)x, (unsigned char)y, 0}); alphabet.push_back(op{O_COPYCONS, (unsigned char)x, (unsigned char)y, 0}); }
        for (int n = 0; n < 2; n++) { alphabet.push_back(op{O_WRITE, (unsigned char)x, 0, (unsigned short)n}); alphabet.push_back(op{O_READ, (unsigned char)x, 0, (unsigned short)n}); }
        alphabet.push_back(op{O_HOLDREF, (unsigned char)x, 0, 0});
        for (int i = 0; i < 6; i++) alphabet.push_back(op{O_RESIZE, (unsigned char)x, 0, (unsigned short)rs_n[i]});
        for (int i = 0; i < 3; i++) alphabet.push_back(op{O_RESERVE, (unsigned char)x, 0, (unsigned short)rv_n[i]});
        alphabet.push_back(op{O_PUSH, (unsigned char)x, 0, 0}); alphabet.push_back(op{O_POP, (unsigned char)x, 0, 0}); alphabet.push_back(op{O_CLEAR, (unsigned char)x, 0, 0});
        alphabet.push_back(op{O_DATAW, (unsigned char)x, 0, 0}); alphabet.push_back(op{O_ITER, (unsigned char)x, 0, 0});
        alphabet.push_back(op{O_ENDFIRST, (unsigned char)x, 0, 0}); alphabet.push_back(op{O_BEGINW, (unsigned char)x, 0, 0});
    }
    std::set<std::string> seen; std::deque<std::vector<op> > frontier;
    { world w; seen.insert(canon(w)); frontier.push_back(std::vector<op>()); }
    long transitions = 0, fails = 0, faulted = 0; size_t maxd = 0; std::vector<op> lasth;
    while (!frontier.empty()) {
        std::vector<op> h = frontier.front(); frontier.pop_front();
        if (h.size() > maxd) maxd = h.size();
        for (size_t ai = 0; ai < alphabet.size(); ai++) {
            world *w = new world();        /* fresh objects, history replayed */
            for (size_t i = 0; i < h.size(); i++) apply(*w, h[i]);
            if (!applicable(alphabet[ai], *w)) { delete w; continue; }
            asan_hit = 0;
            apply(*w, alphabet[ai]); transitions++;
            std::vector<op> nh(h); nh.push_back(alphabet[ai]);
            const char *why = observe(*w);
            if (asan_hit) { char kb[64]; snprintf(kb, sizeof kb, "byte_array:memory-error:%s", opn[alphabet[ai].k]); if (fails++ < 40) hx_fail(kb, "AddressSanitizer report during the last operation of history [%s]", describe(nh).c_str()); delete w; continue; }
            if (why) { char kb[64]; snprintf(kb, sizeof kb, "byte_array:semantics:%s", opn[alphabet[ai].k]); if (fails++ < 40) hx_fail(kb, "%s after history [%s]", why, describe(nh).c_str()); delete w; continue; }
            std::string k = canon(*w);
            delete w;
            if (asan_hit) { if (fails++ < 40) hx_fail("byte_array:memory-error:destructor", "AddressSanitizer report while observing/destroying after history [%s]", describe(nh).c_str()); continue; }
            if (seen.insert(k).second) { lasth = nh; if (nh.size() < (size_t)depth) frontier.push_back(nh); }
            /* the same last operation with the 1st, 2nd or 3rd allocation it asks for refused (histories of up to 2 earlier operations): either it completes, or it throws and the
             * value is what it was; the array then takes 24 more bytes and a resize, all compared with the vector again (a capacity claimed but not owned shows up here) */
            if (h.size() <= 2) for (long kth = 1; kth <= 3; kth++) {
                world *w2 = new world(); for (size_t i = 0; i < h.size(); i++) apply(*w2, h[i]);
                asan_hit = 0; long before = alloc_refused; bool threw = false;
                alloc_countdown = kth; try { apply(*w2, alphabet[ai]); } catch (const std::bad_alloc &) { threw = true; } OFF;
                if (alloc_refused == before) { delete w2; break; }      /* the operation asks for fewer allocations than that */
                const char *why2 = observe(*w2); faulted++;
                if (!why2 && !asan_hit) { byte_array &fa = w2->a[alphabet[ai].x]; vec &fm = w2->m[alphabet[ai].x]; for (int q = 0; q < 24; q++) { fa.push_back((unsigned char)q); fm.push_back((unsigned char)q); } fa.resize(fa.size() + 9); fm.resize(fm.size() + 9); why2 = observe(*w2); }
                if (why2 || asan_hit) { if (fails++ < 40) hx_fail("byte_array:allocation-failure", "allocation %ld refused during the last operation of history [%s] (%s): %s", kth, describe(nh).c_str(), threw ? "std::bad_alloc thrown" : "no exception", why2 ? why2 : "memory error afterwards"); }
                delete w2;
            }
        }
    }
    /* many holders of one value: 2, 255, 256, 257, 300, 65537 copies; writing through one of them (every way of writing) leaves all the others as they were */
    { static const int counts[] = {2, 255, 256, 257, 300, 65537};
      for (unsigned ci = 0; ci < sizeof counts / sizeof counts[0]; ci++) for (int way = 0; way < 5; way++) {
        int n = counts[ci]; std::vector<byte_array> v; byte_array first(20, 7); v.reserve(n); for (int i = 0; i < n; i++) v.push_back(first);
        byte_array &w = v[n / 2]; asan_hit = 0;
        switch (way) { case 0: w[3] = 9; break; case 1: w.data()[3] = 9; break; case 2: *(w.begin() + 3) = 9; break; case 3: w.resize(10); break; default: w.push_back(9); break; }
        bool ok = first.size() == 20; for (size_t k = 0; ok && k < 20; k++) ok = first[k] == 7;
        for (int i = 0; ok && i < n; i += (n > 1000 ? 997 : 1)) if (i != n / 2) { const byte_array &o = v[i]; ok = o.size() == 20; for (size_t k = 0; ok && k < 20; k++) ok = o.data()[k] == 7; }
        transitions++;
        if (!ok || asan_hit) { hx_fail("byte_array:semantics:many-holders", "%d arrays hold one value; writing through one of them (way %d: index / data() / iterator / resize / push_back) %s", n, way, asan_hit ? "raised a memory error" : "changed another one"); break; }
      } }
    if (iterbad & 2) hx_fail("byte_array:semantics:iterate", "end() - begin() is not size(), or the const iterators disagree");
    if (iterbad & 1) hx_fail("byte_array:semantics:iterate", "iterator and const_iterator sums disagree");
    hx_stat("fault_plans", faulted);
    hx_stat("states", (long long)seen.size()); hx_stat("transitions", transitions); hx_stat("traces_validated", transitions);
    printf("SETMAX max_depth %zu\n", maxd + 1);
    hx_sample("byte_array vs std::vector: %d values, alphabet of %zu operations, BFS to depth %d: %zu states, %ld transitions", NV, alphabet.size(), depth, seen.size(), transitions);
    hx_sample("last new state reached by [%s]", describe(lasth).c_str());
    hx_finish();
    return 0;
}
