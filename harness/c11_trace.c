/* C11 monitor 2: instruction / data-address trace equality.  All secret material (keys, plaintext, entropy
 * tape, fed data) is read from stdin into fixed buffers, so two runs that differ only in the stdin bytes execute
 * the same harness code on the same addresses; `valgrind --tool=lackey --trace-mem=yes` traces of such runs must be
 * identical if no branch or address in the library depends on a secret.  Nothing secret-dependent is printed.
 * usage: c11_trace <group>   (stdin: 4096 secret bytes) */
#define _GNU_SOURCE
#include <stdint.h>
#include <stdio.h>
#include <string.h>
#include <unistd.h>
#include <sys/types.h>
#include "api.h"
#include <ascon/prf.h>
#include <ascon/hmac.h>
#include <ascon/kmac.h>
#include <ascon/kdf.h>
#include <ascon/hkdf.h>
#include <ascon/pbkdf2.h>
#include <ascon/random.h>

static uint8_t SEC[4096];
/* every entropy request is served from the same secret bytes at the same address, so that two calls of the same
 * primitive have identical address traces whatever happened before them */
ssize_t getrandom(void *buf, size_t n, unsigned flags) { (void)flags; memcpy(buf, SEC + 2048, n > 1024 ? 1024 : n); return (ssize_t)n; }

static const int SH[] = {0, 1, 8, 9, 17, 33};
#define NSH 6
static uint8_t N[16], ADB[64], sink[256];
static volatile int rsink;

static void aead_group(int fam)
{
    for (int alg = 0; alg < 3; alg++) for (int ai = 0; ai < NSH; ai += 2) for (int li = 0; li < NSH; li++) {
        int a = SH[ai], l = SH[li]; uint8_t c[96], p[96]; size_t cl = 0, ml = 0;
        const uint8_t *key = SEC + 64 * alg, *m = SEC + 512 + 8 * li;
        switch (fam) {
        case 0: api_aead_enc[alg](c, &cl, m, l, ADB, a, N, key); break;
        case 1: { api_inc_state st; api_inc_init[alg](&st, N, key); api_inc_start[alg](&st, ADB, a); api_inc_enc[alg](&st, m, c, l / 2); api_inc_enc[alg](&st, m + l / 2, c + l / 2, l - l / 2); api_inc_encfin[alg](&st, c + l); api_inc_free[alg](&st); break; }
        case 2: { api_masked_key mk; api_masked_key_init(alg, &mk, key); api_masked_enc[alg](c, &cl, m, l, ADB, a, N, &mk); api_masked_key_free(alg, &mk); break; }
        case 3: api_siv_enc[alg](c, &cl, m, l, ADB, a, N, key); break;
        case 4: { api_isap_key pk; api_isap_init[alg](&pk, key); api_isap_enc[alg](c, &cl, m, l, ADB, a, N, &pk); api_isap_free[alg](&pk); break; }
        }
        /* decrypt the genuine ciphertext (accept) and three forgeries (reject at byte 0, byte 15, all bytes); the outcome is public and the same in every run */
        for (int how = 0; how < 4; how++) {
            uint8_t ct[96]; memcpy(ct, c, l + 16);
            if (how == 0) ct[l] ^= 1; else if (how == 1) ct[l + 15] ^= 0x80; else if (how == 2) for (int i = 0; i < 16; i++) ct[l + i] ^= 0x5a;
            if (how < 3) c11_marker_rej();
            switch (fam) {
            case 0: rsink = api_aead_dec[alg](p, &ml, ct, l + 16, ADB, a, N, key); break;
            case 1: { api_inc_state st; api_inc_init[alg](&st, N, key); api_inc_start[alg](&st, ADB, a); api_inc_dec[alg](&st, ct, p, l); rsink = api_inc_decfin[alg](&st, ct + l); api_inc_free[alg](&st); break; }
            case 2: { api_masked_key mk; api_masked_key_init(alg, &mk, key); rsink = api_masked_dec[alg](p, &ml, ct, l + 16, ADB, a, N, &mk); api_masked_key_free(alg, &mk); break; }
            case 3: rsink = api_siv_dec[alg](p, &ml, ct, l + 16, ADB, a, N, key); break;
            case 4: { api_isap_key pk; api_isap_init[alg](&pk, key); rsink = api_isap_dec[alg](p, &ml, ct, l + 16, ADB, a, N, &pk); api_isap_free[alg](&pk); break; }
            }
            c11_marker_other();
        }
    }
}
static void mac_group(void)
{
    for (int li = 0; li < NSH; li++) for (int oi = 0; oi < NSH; oi += 2) {
        int l = SH[li], ol = SH[oi]; const uint8_t *key = SEC + 16 * li, *m = SEC + 700; uint8_t tag[16];
        ascon_prf(sink, ol, m, l, key); ascon_prf_fixed(sink, ol, m, l, key);
        if (l <= 16 && ol <= 16) ascon_prf_short(sink, ol, m, l, key);
        ascon_mac(tag, m, l, key);
        for (int how = 0; how < 4; how++) { uint8_t t2[16]; memcpy(t2, tag, 16); if (how == 0) t2[0] ^= 1; else if (how == 1) t2[15] ^= 0x80; else if (how == 2) for (int i = 0; i < 16; i++) t2[i] ^= 0x5a; if (how < 3) c11_marker_rej(); rsink = ascon_mac_verify(t2, m, l, key); c11_marker_other(); }
        static const int kls[] = {0, 16, 33, 64, 65, 80};
        for (int ki = 0; ki < 6; ki++) { int kl = kls[ki]; const uint8_t *big = SEC + 900;
            ascon_hmac(sink, big, kl, m, l); ascon_hmaca(sink, big, kl, m, l);
            if (oi == 0) { ascon_kmac(big, kl, m, l, ADB, 5, sink, 32); ascon_kmaca(big, kl, m, l, ADB, 5, sink, 40); ascon_kdf(sink, 40, big, kl, ADB, 5); ascon_kdfa(sink, 33, big, kl, 0, 0);
                ascon_hkdf(sink, 50, big, kl, ADB, l % 17, m, 7); ascon_hkdfa(sink, 33, big, kl, 0, 0, 0, 0); } }
        if (oi == 0 && li < 3) { ascon_pbkdf2(sink, 40, SEC + 1000, 9 + l, ADB, 8, 3); ascon_pbkdf2_hmac(sink, 40, SEC + 1000, 9 + l, ADB, 8, 3); }
    }
}
static void prng_group(void)
{
    ascon_random_state_t rs2; static uint8_t bigo[16400];
    rsink = ascon_random_init(&rs2);
    static const int fs[] = {0, 1, 8, 33, 200};
    for (int i = 0; i < 5; i++) ascon_random_fetch(&rs2, sink, fs[i]);
    ascon_random_feed(&rs2, SEC + 1200, 40); ascon_random_feed(&rs2, SEC + 1300, 13);
    rsink = ascon_random_reseed(&rs2);
    ascon_random_fetch(&rs2, bigo, 16384); ascon_random_fetch(&rs2, bigo, 32);
    ascon_random_free(&rs2);
    rsink = ascon_random(sink, 48);
    { ascon_masked_key_128_t k1; ascon_masked_key_128_init(&k1, SEC); ascon_masked_key_128_randomize(&k1); ascon_masked_key_128_extract(&k1, sink); ascon_masked_key_128_free(&k1); }
    { ascon_masked_key_160_t k2; ascon_masked_key_160_init(&k2, SEC + 32); ascon_masked_key_160_randomize(&k2); ascon_masked_key_160_extract(&k2, sink); ascon_masked_key_160_free(&k2); }
}
__attribute__((noinline)) void c11_marker_rej(void) { __asm__ volatile("" ::: "memory"); }
__attribute__((noinline)) void c11_marker_other(void) { __asm__ volatile("" ::: "memory"); }
__attribute__((noinline)) void c11_marker_begin(void) { __asm__ volatile("" ::: "memory"); }
__attribute__((noinline)) void c11_marker_end(void) { __asm__ volatile("" ::: "memory"); }
int main(int argc, char **argv)
{
    size_t got = 0; while (got < sizeof SEC) { ssize_t r = read(0, SEC + got, sizeof SEC - got); if (r <= 0) break; got += (size_t)r; }
    if (got != sizeof SEC || argc < 2) return 2;
    for (int i = 0; i < 16; i++) N[i] = (uint8_t)(i * 17 + 3);
    for (int i = 0; i < 64; i++) ADB[i] = (uint8_t)(i * 29 + 1);
    c11_marker_begin();
    if (!strcmp(argv[1], "aead")) aead_group(argv[2][0] - '0');
    else if (!strcmp(argv[1], "mac")) mac_group();
    else prng_group();
    c11_marker_end();
    return 0;
}
