/* C02: decryption inverts encryption, rejects every forgery, wipes plaintext on failure.
 * usage: c02 <family 0..4> <alg 0..2> <pattern> <tier 0|1>
 * family: 0 one-shot, 1 incremental, 2 masked, 3 siv, 4 isap, 5..8 the C++ classes (aead, masked, siv, isap; keyed alternately by set_key and by the key constructor) */
#include "hx.h"
#include "api.h"

static int fam, alg, klen;
/* an empty associated data string is alternately NULL and a valid pointer with length 0 */
static unsigned adp_toggle;
#define ADP(p, n) ((n) ? (p) : ((adp_toggle++ & 1) ? (p) : 0))
static const char *famname[] = {"oneshot", "incremental", "masked", "siv", "isap", "cpp-aead", "cpp-masked", "cpp-siv", "cpp-isap"};
static char keybase[64];

static void do_enc(uint8_t *c, const uint8_t *m, size_t mlen, const uint8_t *ad, size_t adlen, const uint8_t *n, const uint8_t *k)
{
    size_t clen = 0;
    switch (fam) {
    case 0: api_aead_enc[alg](c, &clen, m, mlen, ad, adlen, n, k); break;
    case 1: {
        api_inc_state st; api_inc_init[alg](&st, n, k); api_inc_start[alg](&st, ad, adlen);
        api_inc_enc[alg](&st, m, c, mlen); api_inc_encfin[alg](&st, c + mlen); api_inc_free[alg](&st); break; }
    case 2: { api_masked_key mk; api_masked_key_init(alg, &mk, k); api_masked_enc[alg](c, &clen, m, mlen, ad, adlen, n, &mk); api_masked_key_free(alg, &mk); break; }
    case 3: api_siv_enc[alg](c, &clen, m, mlen, ad, adlen, n, k); break;
    case 4: { api_isap_key pk; api_isap_init[alg](&pk, k); api_isap_enc[alg](c, &clen, m, mlen, ad, adlen, n, &pk); api_isap_free[alg](&pk); break; }
    default: cpp_encrypt(fam - 5, alg, k, n, c, m, mlen, ad, adlen); break;
    }
}
/* returns library result; *mlen as reported (SIZE_MAX if not reported) */
static int do_dec(uint8_t *m, size_t *mlen, const uint8_t *c, size_t clen, const uint8_t *ad, size_t adlen, const uint8_t *n, const uint8_t *k)
{
    int r = 0; *mlen = (size_t)-1;
    switch (fam) {
    case 0: r = api_aead_dec[alg](m, mlen, c, clen, ad, adlen, n, k); break;
    case 1: {
        /* the incremental interface has no length check of its own: the caller splits off the tag */
        if (clen < 16) return -1;
        api_inc_state st; api_inc_init[alg](&st, n, k); api_inc_start[alg](&st, ad, adlen);
        /* alternately out of place and in place (documented for the block functions: "out may be the same buffer as in") */
        /* every third call gives the ciphertext in four chunks, one of them empty and placed in the middle of a block */
        { static unsigned ip; ip++; size_t n = clen - 16;
          if (ip % 3 == 2) { size_t k1 = (adlen * 5 + n * 3 + 1) % (n + 1), k2 = k1 + (n - k1) / 2; api_inc_dec[alg](&st, c, m, k1); api_inc_dec[alg](&st, c + k1, m + k1, 0); api_inc_dec[alg](&st, c + k1, m + k1, k2 - k1); api_inc_dec[alg](&st, c + k2, m + k2, n - k2); }
          else if (ip & 1) { memcpy(m, c, n); api_inc_dec[alg](&st, m, m, n); } else api_inc_dec[alg](&st, c, m, n); }
        r = api_inc_decfin[alg](&st, c + clen - 16); api_inc_free[alg](&st);
        *mlen = clen - 16; break; }
    case 2: { api_masked_key mk; api_masked_key_init(alg, &mk, k);
        /* every other call uses the key after it has been re-randomised (once or twice): same key value, other shares */
        { static unsigned flip; flip++; for (unsigned q = 0; q < flip % 3; q++) api_masked_key_randomize(alg, &mk); }
        r = api_masked_dec[alg](m, mlen, c, clen, ad, adlen, n, &mk); api_masked_key_free(alg, &mk); break; }
    case 3: r = api_siv_dec[alg](m, mlen, c, clen, ad, adlen, n, k); break;
    case 4: { api_isap_key pk; api_isap_init[alg](&pk, k);
        /* every other call decrypts with a key object that was saved and loaded again (the encrypting side always uses the object made by init) */
        { static unsigned rl; if (rl++ & 1) { uint8_t blob[80]; api_isap_save[alg](&pk, blob); api_isap_free[alg](&pk); memset(&pk, 0x5C, sizeof pk); api_isap_load[alg](&pk, blob); } }
        r = api_isap_dec[alg](m, mlen, c, clen, ad, adlen, n, &pk); api_isap_free[alg](&pk); break; }
    default: {  /* C++: raw pointers after set_key, raw pointers after the key constructor, byte_array overloads (two- / three-argument, output array arriving empty / short / long) */
        static unsigned alt; unsigned v = alt++ & 3; size_t pre = (alt >> 2) % 3 == 0 ? 0 : (alt >> 2) % 3 == 1 ? 7 : clen + 9;
        r = v == 0 ? cpp_decrypt(fam - 5, alg, k, n, m, c, clen, ad, adlen) : v == 1 ? cpp_decrypt_ctor(fam - 5, alg, k, n, m, c, clen, ad, adlen) : cpp_decrypt_ba(fam - 5, alg, k, n, m, c, clen, ad, adlen, (int)v - 1, pre);
        if (clen < 18) {    /* around the tag length every form must give the same answer */
            uint8_t t[8]; int r2[4] = {cpp_decrypt(fam - 5, alg, k, n, t, c, clen, ad, adlen), cpp_decrypt_ctor(fam - 5, alg, k, n, t, c, clen, ad, adlen), cpp_decrypt_ba(fam - 5, alg, k, n, t, c, clen, ad, adlen, 1, pre), cpp_decrypt_ba(fam - 5, alg, k, n, t, c, clen, ad, adlen, 2, pre)};
            for (int q = 0; q < 4; q++) if (r2[q] != r) { hx_fail(keybase, "C++ decrypt forms disagree on a %zu-byte packet: form %d returns %d, form %u returned %d", clen, q, r2[q], v, r); break; }
        }
        if (r >= 0) { *mlen = (size_t)r; r = 0; } break; }
    }
    return r;
}

static long forged;
static void expect_reject(const char *what, size_t pos, uint8_t *mout, size_t mcap, const uint8_t *c, size_t clen,
                          const uint8_t *ad, size_t adlen, const uint8_t *n, const uint8_t *k, size_t adl0, size_t ml0, const char *pat)
{
    char kb[96]; size_t ml;
    memset(mout, 0xAA, mcap);
    int r = do_dec(mout, &ml, c, clen, ADP(ad, adlen), adlen, n, k);
    hx_stat("evaluations", 1); forged++;
    if (r >= 0) {
        snprintf(kb, sizeof kb, "%s:accepts-forgery:%s", keybase, what);
        hx_fail(kb, "modification '%s' at %zu accepted (result %d) adlen=%zu mlen=%zu pat=%s", what, pos, r, adl0, ml0, pat);
    } else if (fam != 1 && clen >= 16) {
        for (size_t i = 0; i < clen - 16; i++) if (mout[i] != 0) {
            snprintf(kb, sizeof kb, "%s:plaintext-not-wiped", keybase);
            hx_fail(kb, "after rejected '%s' at %zu plaintext byte %zu = %02x adlen=%zu mlen=%zu pat=%s", what, pos, i, mout[i], adl0, ml0, pat);
            break;
        }
    }
    if (!hx_buf_ok(mout, mcap)) { snprintf(kb, sizeof kb, "%s:stray-write", keybase); hx_fail(kb, "decrypt wrote outside plaintext buffer adlen=%zu mlen=%zu", adl0, ml0); }
}

static void shape(size_t adlen, size_t mlen, int pat, int full_tag)
{
    uint8_t key[20], nonce[16];
    uint8_t *ad = hx_buf(adlen), *m = hx_buf(mlen), *c = hx_buf(mlen + 16 + 16), *m2 = hx_buf(mlen);
    size_t clen = mlen + 16, ml; char kb[96]; char ps[8]; snprintf(ps, sizeof ps, "%d", pat);
    hx_fill(key, klen, pat, 1); hx_fill(nonce, 16, pat, 2); hx_fill(ad, adlen, pat, 3); hx_fill(m, mlen, pat, 4);
    do_enc(c, m, mlen, ADP(ad, adlen), adlen, nonce, key);
    memset(m2, 0xAA, mlen);
    int r = do_dec(m2, &ml, c, clen, ADP(ad, adlen), adlen, nonce, key);
    hx_stat("evaluations", 1);
    snprintf(kb, sizeof kb, "%s:roundtrip", keybase);
    if (r != 0) hx_fail(kb, "unmodified ciphertext rejected (result %d) adlen=%zu mlen=%zu pat=%d", r, adlen, mlen, pat);
    else if (memcmp(m2, m, mlen)) hx_fail(kb, "plaintext differs after round trip adlen=%zu mlen=%zu pat=%d", adlen, mlen, pat);
    else if (ml != mlen) hx_fail(kb, "reported plaintext length %zu != %zu adlen=%zu", ml, mlen, adlen);
    /* (ii) single-bit flips */
    for (size_t i = 0; i < clen; i++) for (int b = 0; b < 8; b++) { c[i] ^= (uint8_t)(1 << b); expect_reject(i < mlen ? "ciphertext-bit" : "tag-bit", i, m2, mlen, c, clen, ad, adlen, nonce, key, adlen, mlen, ps); c[i] ^= (uint8_t)(1 << b); }
    for (size_t i = 0; i < adlen; i++) for (int b = 0; b < 8; b++) { ad[i] ^= (uint8_t)(1 << b); expect_reject("ad-bit", i, m2, mlen, c, clen, ad, adlen, nonce, key, adlen, mlen, ps); ad[i] ^= (uint8_t)(1 << b); }
    for (size_t i = 0; i < 16; i++) for (int b = 0; b < 8; b++) { nonce[i] ^= (uint8_t)(1 << b); expect_reject("nonce-bit", i, m2, mlen, c, clen, ad, adlen, nonce, key, adlen, mlen, ps); nonce[i] ^= (uint8_t)(1 << b); }
    for (size_t i = 0; i < (size_t)klen; i++) for (int b = 0; b < 8; b++) { key[i] ^= (uint8_t)(1 << b); expect_reject("key-bit", i, m2, mlen, c, clen, ad, adlen, nonce, key, adlen, mlen, ps); key[i] ^= (uint8_t)(1 << b); }
    /* AD length changes: drop last byte / append a zero byte */
    if (adlen) expect_reject("ad-truncated", adlen - 1, m2, mlen, c, clen, ad, adlen - 1, nonce, key, adlen, mlen, ps);
    { uint8_t *ad2 = hx_buf(adlen + 1); memcpy(ad2, ad, adlen); ad2[adlen] = 0; expect_reject("ad-extended", adlen, m2, mlen, c, clen, ad2, adlen + 1, nonce, key, adlen, mlen, ps);
      ad2[adlen] = 0x80; expect_reject("ad-extended-80", adlen, m2, mlen, c, clen, ad2, adlen + 1, nonce, key, adlen, mlen, ps); hx_free(ad2); }
    /* (iii) every byte x every non-zero XOR value on the tag */
    if (full_tag) for (size_t i = mlen; i < clen; i++) for (int v = 1; v < 256; v++) { c[i] ^= (uint8_t)v; expect_reject("tag-byte", i - mlen, m2, mlen, c, clen, ad, adlen, nonce, key, adlen, mlen, ps); c[i] ^= (uint8_t)v; }
    /* multi-bit: complement whole tag / whole ciphertext */
    for (size_t i = mlen; i < clen; i++) c[i] ^= 0xff;
    expect_reject("tag-complement", 0, m2, mlen, c, clen, ad, adlen, nonce, key, adlen, mlen, ps);
    for (size_t i = mlen; i < clen; i++) c[i] ^= 0xff;
    /* (iv) truncation to every shorter length, extension by 1, 8, 16 */
    for (size_t t = 0; t < clen; t++) {
        uint8_t *ct = hx_buf(t); memcpy(ct, c, t);
        size_t cap = t >= 16 ? t - 16 : 0; uint8_t *mo = hx_buf(cap);
        expect_reject(t < 16 ? "shorter-than-tag" : "truncated", t, mo, cap, ct, t, ad, adlen, nonce, key, adlen, mlen, ps);
        hx_free(ct); hx_free(mo);
    }
    static const int ext[] = {1, 8, 16};
    for (int e = 0; e < 3; e++) {
        size_t t = clen + ext[e]; uint8_t *ct = hx_buf(t); memcpy(ct, c, clen); memset(ct + clen, 0, ext[e]);
        uint8_t *mo = hx_buf(t - 16);
        expect_reject("extended", t, mo, t - 16, ct, t, ad, adlen, nonce, key, adlen, mlen, ps);
        hx_free(ct); hx_free(mo);
    }
    hx_stat("shapes", 1);
    hx_free(ad); hx_free(m); hx_free(c); hx_free(m2);
}

/* incremental family only: packets 2 and 3 of a session on one state object (start() again without init): a valid one-shot ciphertext under nonce N+i must decrypt,
 * and forgeries must be rejected, whatever the previous packet was (encrypted / decrypted-accepted / decrypted-rejected / started and abandoned) and however long it was */
static void nonce_add(uint8_t n[16], unsigned v) { for (int i = 15; i >= 0 && v; i--) { v += n[i]; n[i] = (uint8_t)v; v >>= 8; } }
static void sessions(int pat, int tier)
{
    static const int qs[] = {0, 1, 7, 8, 9, 15, 16, 17, 31, 32, 33, 55};
    uint8_t key[20], nonce[16], n2[16], ad[64], m[64], c[96], prev[96], out[64], tag[16]; char kb[96]; size_t clen;
    hx_fill(key, klen, pat, 1); hx_fill(nonce, 16, pat, 2); hx_fill(ad, 64, pat, 3); hx_fill(m, 64, pat, 4);
    if (tier) memset(nonce + 9, 0xff, 7);   /* carries across packets */
    int nq = tier ? 12 : 9;
    /* re-initialisation of a used object with a NULL nonce and/or NULL key (documented: all-zero): a genuine packet made under the all-zero value must decrypt, one made under the old value must not */
    for (int v = 0; v < 3; v++) for (int li = 0; li < nq; li++) {
        static const uint8_t zk[20], zn[16]; size_t l = (size_t)qs[li]; api_inc_state st; memset(&st, 0xEE, sizeof st);
        const uint8_t *kk = (v & 1) ? key : 0, *nn = (v & 2) ? nonce : 0;     /* v=0 both NULL, 1 NULL nonce, 2 NULL key */
        api_inc_init[alg](&st, nonce, key); api_inc_start[alg](&st, ad, 5); api_inc_enc[alg](&st, m, prev, l); api_inc_encfin[alg](&st, tag);
        api_inc_reinit[alg](&st, nn, kk);
        api_aead_enc[alg](c, &clen, m, l, ad, 3, nn ? nn : zn, kk ? kk : zk);
        api_inc_start[alg](&st, ad, 3); api_inc_dec[alg](&st, c, out, l); int r = api_inc_decfin[alg](&st, c + l); hx_stat("evaluations", 1);
        snprintf(kb, sizeof kb, "%s:session:reinit-null", keybase);
        if (r != 0 || memcmp(out, m, l)) hx_fail(kb, "after reinit with %s a genuine packet made under the all-zero value is %s (mlen=%zu)", v == 0 ? "NULL key and NULL nonce" : v == 1 ? "a NULL nonce" : "a NULL key", r ? "rejected" : "decrypted wrongly", l);
        api_aead_enc[alg](c, &clen, m, l, ad, 3, nonce, key);
        api_inc_reinit[alg](&st, nn, kk); api_inc_start[alg](&st, ad, 3); api_inc_dec[alg](&st, c, out, l); r = api_inc_decfin[alg](&st, c + l); hx_stat("evaluations", 1); forged++;
        if (r >= 0) hx_fail(kb, "after reinit with %s a packet made under the old key and nonce is accepted (mlen=%zu)", v == 0 ? "NULL key and NULL nonce" : v == 1 ? "a NULL nonce" : "a NULL key", l);
        api_inc_free[alg](&st);
    }
    for (int pk = 0; pk < 4; pk++) for (int pi = 0; pi < nq; pi++) for (int pa = 0; pa < 3; pa++) for (int li = 0; li < nq; li++) for (int ai = 0; ai < 3; ai++) {
        size_t pl = (size_t)qs[pi], l = (size_t)qs[li], padl = (size_t)qs[pa * 2], adl = (size_t)qs[ai * 3 % 7];
        api_inc_state st; api_inc_init[alg](&st, nonce, key);
        /* packet 1 */
        api_inc_start[alg](&st, padl ? ad + 5 : 0, padl);
        if (pk == 0) { api_inc_enc[alg](&st, m + 3, prev, pl); api_inc_encfin[alg](&st, tag); }
        else if (pk == 1 || pk == 2) {
            memcpy(n2, nonce, 16); api_aead_enc[alg](prev, &clen, m + 3, pl, padl ? ad + 5 : 0, padl, n2, key);
            if (pk == 2) prev[pl + 3] ^= 4;
            api_inc_dec[alg](&st, prev, out, pl); int r1 = api_inc_decfin[alg](&st, prev + pl);
            snprintf(kb, sizeof kb, "%s:session:first-packet", keybase);
            if ((pk == 1) != (r1 == 0)) hx_fail(kb, "packet 1 (%s) of %zu bytes: result %d", pk == 1 ? "valid" : "forged", pl, r1);
        } else { api_inc_enc[alg](&st, m + 3, prev, pl); /* abandoned: no finalize */ }
        /* packet 2: nonce N+1 */
        memcpy(n2, nonce, 16); nonce_add(n2, 1);
        api_aead_enc[alg](c, &clen, m, l, adl ? ad : 0, adl, n2, key);
        api_inc_start[alg](&st, adl ? ad : 0, adl);
        memset(out, 0xAA, sizeof out);
        /* decrypt in two chunks */
        api_inc_dec[alg](&st, c, out, l / 2); api_inc_dec[alg](&st, c + l / 2, out + l / 2, l - l / 2);
        int r = api_inc_decfin[alg](&st, c + l); hx_stat("evaluations", 1);
        snprintf(kb, sizeof kb, "%s:session:roundtrip", keybase);
        if (r != 0 || memcmp(out, m, l)) hx_fail(kb, "packet 2 of a session (previous packet: %s, %zu bytes, adlen %zu; this packet mlen=%zu adlen=%zu): valid ciphertext under nonce+1 %s",
                                                 pk == 0 ? "encrypted" : pk == 1 ? "decrypted" : pk == 2 ? "rejected" : "abandoned", pl, padl, l, adl, r ? "rejected" : "decrypts to different plaintext");
        /* packet 3: forged tag under nonce N+2 must be rejected, then packet 4 valid */
        memcpy(n2, nonce, 16); nonce_add(n2, 2);
        api_aead_enc[alg](c, &clen, m, l, adl ? ad : 0, adl, n2, key); c[l + (l % 16)] ^= 0x20;
        api_inc_start[alg](&st, adl ? ad : 0, adl); api_inc_dec[alg](&st, c, out, l); r = api_inc_decfin[alg](&st, c + l); hx_stat("evaluations", 1); forged++;
        snprintf(kb, sizeof kb, "%s:session:accepts-forgery", keybase);
        if (r >= 0) hx_fail(kb, "packet 3 of a session with a forged tag accepted (mlen=%zu adlen=%zu)", l, adl);
        memcpy(n2, nonce, 16); nonce_add(n2, 3);
        api_aead_enc[alg](c, &clen, m + 1, l, 0, 0, n2, key);
        api_inc_start[alg](&st, 0, 0); api_inc_dec[alg](&st, c, out, l); r = api_inc_decfin[alg](&st, c + l); hx_stat("evaluations", 1);
        snprintf(kb, sizeof kb, "%s:session:roundtrip", keybase);
        if (r != 0 || memcmp(out, m + 1, l)) hx_fail(kb, "packet 4 of a session (after a rejected packet, mlen=%zu): valid ciphertext under nonce+3 %s", l, r ? "rejected" : "decrypts to different plaintext");
        api_inc_free[alg](&st);
        hx_stat("shapes", 1);
    }
}

int main(int argc, char **argv)
{
    hx_init();
    if (argc < 5) return 2;
    fam = atoi(argv[1]); alg = atoi(argv[2]); int pat = atoi(argv[3]); int tier = atoi(argv[4]);
    klen = (fam == 4 || fam == 8) ? ref_isap_keylen(alg) : ref_keylen(alg);
    snprintf(keybase, sizeof keybase, "decrypt:%s:%s", famname[fam], (fam == 4 || fam == 8) ? api_isap_name[alg] : api_alg_name[alg]);
    static const int qs[] = {0, 1, 7, 8, 9, 15, 16, 17, 24, 31, 32, 33};
    if (!tier) {
        for (unsigned a = 0; a < 12; a++) for (unsigned l = 0; l < 12; l++) shape(qs[a], qs[l], pat, (qs[a] <= 1 && (qs[l] == 0 || qs[l] == 1 || qs[l] == 16)));
    } else {
        int max = (fam == 4 || fam == 8) ? 40 : fam >= 5 ? 33 : 48;
        for (int a = 0; a <= max; a++) for (int l = 0; l <= max; l++) shape(a, l, pat, (a <= 1 && (l <= 1 || l == 16 || l == 17)));
    }
    /* long lengths: round trip, one forged tag bit, one flipped ciphertext bit in the last block, truncation by one byte */
    {
        static const size_t longs[] = {255, 256, 257, 1023, 1024, 1025, 4095, 4096, 4097, 65535, 65536, 65537};
        uint8_t key[20], nonce[16]; uint8_t *ad = malloc(70000), *m = malloc(70000), *c = malloc(70100), *p = hx_buf(65537);
        hx_fill(key, klen, pat, 1); hx_fill(nonce, 16, pat, 2); hx_fill(ad, 70000, pat, 3); hx_fill(m, 70000, pat, 4);
        char kb[96];
        for (unsigned i = 0; i < 12; i++) for (int which = 0; which < 2; which++) {
            if ((fam == 4 || fam == 8) && alg != 0 && i > 5) continue;
            size_t a = which ? longs[i] : 9, l = which ? 9 : longs[i], ml = 0;
            do_enc(c, m, l, ad, a, nonce, key);
            int r = do_dec(p, &ml, c, l + 16, ad, a, nonce, key); hx_stat("evaluations", 1);
            snprintf(kb, sizeof kb, "%s:roundtrip", keybase);
            if (r != 0 || ml != l || memcmp(p, m, l)) hx_fail(kb, "long lengths adlen=%zu mlen=%zu: round trip fails (result %d)", a, l, r);
            snprintf(kb, sizeof kb, "%s:accepts-forgery:long", keybase);
            c[l + 7] ^= 0x10; r = do_dec(p, &ml, c, l + 16, ad, a, nonce, key); c[l + 7] ^= 0x10; hx_stat("evaluations", 1); forged++;
            if (r >= 0) hx_fail(kb, "forged tag accepted for adlen=%zu mlen=%zu", a, l);
            c[l - 1] ^= 1; r = do_dec(p, &ml, c, l + 16, ad, a, nonce, key); c[l - 1] ^= 1; hx_stat("evaluations", 1); forged++;
            if (r >= 0) hx_fail(kb, "modified last ciphertext byte accepted for adlen=%zu mlen=%zu", a, l);
            ad[a - 1] ^= 1; r = do_dec(p, &ml, c, l + 16, ad, a, nonce, key); ad[a - 1] ^= 1; forged++;
            if (r >= 0) hx_fail(kb, "modified last AD byte accepted for adlen=%zu mlen=%zu", a, l);
            r = do_dec(p, &ml, c, l + 15, ad, a, nonce, key); forged++;
            if (r >= 0) hx_fail(kb, "ciphertext truncated by one byte accepted for adlen=%zu mlen=%zu", a, l);
            if (!hx_buf_ok(p, 65537)) hx_fail(kb, "wrote outside the plaintext buffer");
        }
        free(ad); free(m); free(c); hx_free(p);
    }
    if (fam == 1) sessions(pat, tier);
    hx_stat("forgeries", forged);
    hx_sample("family=%s alg=%d pattern=%d: per shape round trip + every bit flip of ct/tag/ad/nonce/key + tag byte XORs + every truncation + extensions", famname[fam], alg, pat);
    hx_finish();
    return 0;
}
