/* C17: every documented member of the C++ classes compiles when used and equals the C API for every
 * construction / keying path.  Explicit instantiation forces every template member body to compile. */
#include <ascon/aead.h>
#include <ascon/aead-masked.h>
#include <ascon/siv.h>
#include <ascon/isap.h>
#include <ascon/hash.h>
#include <ascon/xof.h>
#include <ascon/utility.h>
#include <string.h>
#if !defined(ASCON_NO_STL)
#include <string>
#endif
extern "C" {
#include "hx.h"
}
#include "api.h"

template class ascon::xof_with_output_length<0>;
template class ascon::xof_with_output_length<1>;
template class ascon::xof_with_output_length<32>;
template class ascon::xof_with_output_length<64>;
template class ascon::xofa_with_output_length<0>;
template class ascon::xofa_with_output_length<1>;
template class ascon::xofa_with_output_length<32>;
template class ascon::xofa_with_output_length<64>;

static unsigned char K[20], K2[20], ZK[20], NONCE[16], ADB[40], MSG[64];
static const int SH[] = {0, 1, 8, 17};

/* the corresponding C function: family 0 aead, 1 masked, 2 siv, 3 isap */
static void c_encrypt(int fam, int alg, const unsigned char *key, const unsigned char *n, const unsigned char *ad, size_t adl, const unsigned char *m, size_t ml, unsigned char *out)
{
    size_t cl = 0;
    if (fam == 0) api_aead_enc[alg](out, &cl, m, ml, ad, adl, n, key);
    else if (fam == 1) { api_masked_key mk; api_masked_key_init(alg, &mk, key); api_masked_enc[alg](out, &cl, m, ml, ad, adl, n, &mk); api_masked_key_free(alg, &mk); }
    else if (fam == 2) api_siv_enc[alg](out, &cl, m, ml, ad, adl, n, key);
    else { api_isap_key pk; api_isap_init[alg](&pk, key); api_isap_enc[alg](out, &cl, m, ml, ad, adl, n, &pk); api_isap_free[alg](&pk); }
}

static ascon::byte_array mk_ba(const unsigned char *p, size_t n) { return ascon::bytes_from_data(p, n); }

/* after keying `obj` by some path, its behaviour must equal the C functions under `key` */
template <class T> static void behaves_like(T &obj, const char *cls, const char *path, int fam, int alg, const unsigned char *key)
{
    char kb[96]; snprintf(kb, sizeof kb, "cpp:%s:%s", cls, path);
    for (unsigned ai = 0; ai < 4; ai++) for (unsigned li = 0; li < 4; li++) {
        size_t adl = SH[ai], ml = SH[li]; unsigned char exp[96], out[96], pt[96];
        c_encrypt(fam, alg, key, NONCE, ADB, adl, MSG, ml, exp);
        hx_stat("evaluations", 4);
        /* raw pointers */
        obj.set_nonce(NONCE, 16);
        int r = obj.encrypt(out, MSG, ml, adl ? ADB : 0, adl);
        if (r != (int)ml + 16 || memcmp(out, exp, ml + 16)) { hx_fail(kb, "encrypt(ptr) differs from the C function (adlen=%zu mlen=%zu)", adl, ml); return; }
        obj.set_nonce(NONCE, 16);
        r = obj.decrypt(pt, exp, ml + 16, adl ? ADB : 0, adl);
        if (r != (int)ml || memcmp(pt, MSG, ml)) { hx_fail(kb, "decrypt(ptr) of the C ciphertext returned %d (adlen=%zu mlen=%zu)", r, adl, ml); return; }
        /* byte_array overloads */
        ascon::byte_array bm = mk_ba(MSG, ml), bad = mk_ba(ADB, adl), bc(3, 0x55), bp(5, 0x66);
        obj.set_nonce(NONCE, 16);
        /* with no associated data: alternately the two-argument overload and the three-argument one with an empty array */
        if (adl || ((ai + li) & 1)) obj.encrypt(bc, bm, bad); else obj.encrypt(bc, bm);
        if (bc.size() != ml + 16 || memcmp(bc.data(), exp, ml + 16)) { hx_fail(kb, "encrypt(byte_array) result has size %zu / differs from the C function (adlen=%zu mlen=%zu)", bc.size(), adl, ml); return; }
        ascon::byte_array kept(bc), keptp;   /* copies the caller keeps: later calls that write into bc / bp must not change them */
        obj.set_nonce(NONCE, 16);
        bool ok = (adl || ((ai + li) & 1)) ? obj.decrypt(bp, bc, bad) : obj.decrypt(bp, bc);
        if (!ok || bp.size() != ml || (ml && memcmp(bp.data(), MSG, ml))) { hx_fail(kb, "decrypt(byte_array) failed or returned %zu bytes (adlen=%zu mlen=%zu)", bp.size(), adl, ml); return; }
        keptp = bp;
        /* failure: cleared output and false */
        bc[ml + 5] ^= 1; obj.set_nonce(NONCE, 16); bp = ascon::byte_array(7, 0x11);
        ok = adl ? obj.decrypt(bp, bc, bad) : obj.decrypt(bp, bc);
        if (ok || bp.size() != 0) { hx_fail(kb, "decrypt(byte_array) of a forged packet returned %d with %zu output bytes (must be false and empty)", (int)ok, bp.size()); return; }
        ascon::byte_array shortc(9, 0); bp = ascon::byte_array(7, 0x11);
        if (obj.decrypt(bp, shortc) || bp.size() != 0) { hx_fail(kb, "decrypt(byte_array) of a packet shorter than the tag must fail with an empty result"); return; }
        /* every length below the tag size, through both overloads, with and without associated data: false, empty output, no exception (the C function returns -1) */
        for (size_t sl = 0; sl < 16; sl++) for (int form = 0; form < 3; form++) {
            ascon::byte_array sc = mk_ba(exp, sl), so(4, 0x22), noad; bool r = true, threw = false;
            try { r = form == 0 ? obj.decrypt(so, sc) : form == 1 ? obj.decrypt(so, sc, noad) : obj.decrypt(so, sc, bad); } catch (...) { threw = true; }
            if (threw || r || so.size() != 0) { hx_fail(kb, "decrypt(byte_array%s) of a %zu-byte packet: %s (must return false with an empty array)", form ? ", ad" : "", sl, threw ? "a C++ exception left the call" : r ? "returned true" : "output not empty"); return; }
        }
        if (obj.decrypt(pt, exp, 9, 0, 0) >= 0) { hx_fail(kb, "decrypt(ptr) of a packet shorter than the tag must fail"); return; }
        {   /* a shorter packet into the same output arrays, then the kept copies */
            unsigned char exp0[96]; c_encrypt(fam, alg, key, NONCE, ADB, 0, MSG, ml, exp0);
            obj.set_nonce(NONCE, 16); obj.encrypt(bc, bm); ascon::byte_array kept2(bc);      /* bc and kept2 share storage now */
            ascon::byte_array half = mk_ba(MSG, ml / 2); obj.set_nonce(NONCE, 16); obj.encrypt(bc, half); obj.set_nonce(NONCE, 16); obj.decrypt(bp, bc);
            if (kept2.size() != ml + 16 || memcmp(kept2.data(), exp0, ml + 16)) { hx_fail(kb, "a copy sharing storage with an encrypt(byte_array) result changed when that output array was written again (size %zu, mlen=%zu)", kept2.size(), ml); return; }
            if (kept.size() != ml + 16 || memcmp(kept.data(), exp, ml + 16)) { hx_fail(kb, "a kept copy of an encrypt(byte_array) result changed when the same output array was written again (size %zu, adlen=%zu mlen=%zu)", kept.size(), adl, ml); return; }
            if (keptp.size() != ml || (ml && memcmp(keptp.data(), MSG, ml))) { hx_fail(kb, "a kept copy of a decrypt(byte_array) result changed when the same output array was written again (size %zu, mlen=%zu)", keptp.size(), ml); return; }
        }
        {   /* output arrays that are, at the time of the call, copies of a longer array the caller still holds (they share storage in the copy-on-write byte_array of ASCON_NO_STL builds) */
            ascon::byte_array big(200, 0x33), o1(big), o2(big), o3(big); unsigned char exp0[96]; c_encrypt(fam, alg, key, NONCE, ADB, 0, MSG, ml, exp0);
            obj.set_nonce(NONCE, 16); obj.encrypt(o1, bm); obj.set_nonce(NONCE, 16); bool k2 = obj.decrypt(o2, o1); o3.resize(ml + 1);
            bool same = big.size() == 200 && o3.size() == ml + 1; for (size_t i = 0; same && i < 200; i++) same = big[i] == 0x33 && (i > ml || o3[i] == 0x33);
            if (!same) { hx_fail(kb, "an array the caller still holds changed when a copy of it was used as an output array (mlen=%zu)", ml); return; }
            if (o1.size() != ml + 16 || memcmp(o1.data(), exp0, ml + 16) || !k2 || o2.size() != ml || (ml && memcmp(o2.data(), MSG, ml))) { hx_fail(kb, "encrypt / decrypt into an output array that was a copy of a longer array gives a wrong result (mlen=%zu)", ml); return; }
        }
        /* documented in aead.h: the nonce is not incremented if decryption fails, and is after a success: forged, genuine, then the next packet, without touching the nonce */
        {
            unsigned char forged[96], n1[16], exp2[96]; memcpy(forged, exp, ml + 16); forged[ml + 2] ^= 0x10;
            obj.set_nonce(NONCE, 16);
            if (obj.decrypt(pt, forged, ml + 16, adl ? ADB : 0, adl) >= 0) { hx_fail(kb, "decrypt(ptr) accepted a forged tag"); return; }
            if (obj.decrypt(pt, 0, 3, 0, 0) >= 0) { hx_fail(kb, "decrypt(ptr) of 3 bytes must fail"); return; }
            r = obj.decrypt(pt, exp, ml + 16, adl ? ADB : 0, adl);
            if (r != (int)ml || memcmp(pt, MSG, ml)) { hx_fail(kb, "after two refused packets the genuine packet for the same nonce is not decrypted (result %d): the nonce moved on failure (adlen=%zu mlen=%zu)", r, adl, ml); return; }
            memcpy(n1, NONCE, 16); for (int i = 15; i >= 0; i--) if (++n1[i]) break;
            c_encrypt(fam, alg, key, n1, ADB, adl, MSG, ml, exp2);
            r = obj.encrypt(out, MSG, ml, adl ? ADB : 0, adl);
            if (r != (int)ml + 16 || memcmp(out, exp2, ml + 16)) { hx_fail(kb, "packet after a successful decryption is not the C result under nonce+1 (adlen=%zu mlen=%zu)", adl, ml); return; }
        }
    }
    hx_stat("nontrivial", 1);
}

/* set_key is documented to leave the nonce as-is: a nonce (or counter) set BEFORE keying must still be the one used afterwards, and the first
 * packet after keying must equal the C function under that nonce (the next one under nonce+1) */
template <class T, class F> static void keeps_nonce(T &o, const char *cls, const char *path, int fam, int alg, const unsigned char *key, F keying)
{
    char kb[96]; snprintf(kb, sizeof kb, "cpp:%s:%s:nonce-kept", cls, path);
    unsigned char n2[16], exp[64], out[64];
    for (int variant = 0; variant < 6; variant++) {
        for (int i = 0; i < 16; i++) n2[i] = (unsigned char)(0xC1 + 7 * i + variant);
        /* variants 3 and 4: the increment after the first packet carries out of the low 8 bytes / wraps around 2^128 */
        if (variant == 3) { memset(n2, 0, 16); memset(n2 + 8, 0xff, 8); o.set_counter(0xffffffffffffffffULL); }
        else if (variant == 4) { memset(n2, 0xff, 16); o.set_nonce(n2, 16); }
        else if (variant == 1) { memset(n2, 0, 16); n2[8] = 0x80; n2[15] = 0xff; o.set_counter(0x80000000000000ffULL); }
        else if (variant == 2) { memset(n2, 0, 16); memcpy(n2 + 11, NONCE, 5); o.set_nonce(NONCE, 5); }
        else if (variant == 5) { unsigned char lng[27]; memcpy(lng, n2, 16); for (int i = 16; i < 27; i++) lng[i] = (unsigned char)(0x35 + i); o.set_nonce(lng, 27); }   /* over-long: the first 16 bytes count */
        else o.set_nonce(n2, 16);
        if (!keying(o)) { hx_fail(kb, "keying returned false"); return; }
        c_encrypt(fam, alg, key, n2, ADB, 7, MSG, 21, exp); hx_stat("evaluations", 2);
        int r = o.encrypt(out, MSG, 21, ADB, 7);
        if (r != 37 || memcmp(out, exp, 37)) { hx_fail(kb, "first packet after keying differs from the C function under the nonce set before keying (variant %d)", variant); return; }
        for (int i = 15; i >= 0; i--) if (++n2[i]) break;
        c_encrypt(fam, alg, key, n2, 0, 0, MSG, 5, exp);
        r = o.encrypt(out, MSG, 5, 0, 0);
        if (r != 21 || memcmp(out, exp, 21)) { hx_fail(kb, "second packet after keying differs from the C function under nonce+1 (variant %d)", variant); return; }
    }
    hx_stat("nontrivial", 1);
}

template <class T> static void cipher_suite(const char *cls, int fam, int alg)
{
    size_t kl = fam == 3 ? (size_t)ref_isap_keylen(alg) : (size_t)ref_keylen(alg);
    { T o; keeps_nonce(o, cls, "set_key-full", fam, alg, K, [&](T &x) { return x.set_key(K, kl); });
      keeps_nonce(o, cls, "set_key-null-0-after-full", fam, alg, ZK, [&](T &x) { return x.set_key(0, 0); });
      keeps_nonce(o, cls, "set_key-second-key", fam, alg, K2, [&](T &x) { return x.set_key(K2, kl); });
      keeps_nonce(o, cls, "set_key-nonnull-0-after-full", fam, alg, ZK, [&](T &x) { return x.set_key(K, 0); }); }
    { T o; keeps_nonce(o, cls, "set_key-null-0", fam, alg, ZK, [&](T &x) { return x.set_key(0, 0); }); }
    { T o; keeps_nonce(o, cls, "set_key-nonnull-0", fam, alg, ZK, [&](T &x) { return x.set_key(K, 0); }); }
    char kb[96]; snprintf(kb, sizeof kb, "cpp:%s", cls);
    { T o; if (o.key_size() != kl || o.tag_size() != 16 || o.nonce_size() != 16) hx_fail(kb, "key_size/tag_size/nonce_size = %zu/%zu/%zu", o.key_size(), o.tag_size(), o.nonce_size());
      behaves_like(o, cls, "default-constructor", fam, alg, ZK);
      /* set_counter: 64-bit big-endian counter in the low 8 bytes */
      unsigned char cn[16], exp[40], out[40]; memset(cn, 0, 16); cn[8] = 0x01; cn[15] = 0x09;
      c_encrypt(fam, alg, ZK, cn, ADB, 3, MSG, 9, exp); o.set_counter(0x0100000000000009ULL);
      if (o.encrypt(out, MSG, 9, ADB, 3) != 25 || memcmp(out, exp, 25)) hx_fail(kb, "set_counter does not give the documented nonce"); }
    { T o; if (!o.set_key(K, kl)) hx_fail(kb, "set_key(full length) returned false"); behaves_like(o, cls, "set_key-full", fam, alg, K);
      /* re-key the same object: zero length means the all-zero key */
      if (!o.set_key(0, 0)) hx_fail(kb, "set_key(nullptr, 0) returned false"); behaves_like(o, cls, "set_key-null-0-after-full", fam, alg, ZK);
      if (!o.set_key(K2, kl)) hx_fail(kb, "set_key(second key) returned false"); behaves_like(o, cls, "set_key-second-key", fam, alg, K2);
      if (!o.set_key(K, 0)) hx_fail(kb, "set_key(non-null, 0) returned false"); behaves_like(o, cls, "set_key-nonnull-0-after-full", fam, alg, ZK);
      o.clear(); }
    { T o; if (!o.set_key(0, 0)) hx_fail(kb, "set_key(nullptr, 0) returned false"); behaves_like(o, cls, "set_key-null-0", fam, alg, ZK); }
    { T o; if (!o.set_key(K, 0)) hx_fail(kb, "set_key(non-null, 0) returned false"); behaves_like(o, cls, "set_key-nonnull-0", fam, alg, ZK); }
    { T o; o.set_key(K, kl);
      static const size_t bad[] = {1, 8, 15, 17, 19, 21, 32, 79, 81};
      for (unsigned i = 0; i < sizeof bad / sizeof bad[0]; i++) {
          if (bad[i] == kl || (fam == 3 && bad[i] == 80)) continue;
          unsigned char junk[96]; memset(junk, 0x77, sizeof junk);
          if (o.set_key(junk, bad[i])) hx_fail(kb, "set_key with unsupported length %zu returned true", bad[i]);
      }
      if (o.set_key(0, kl)) hx_fail(kb, "set_key(nullptr, full length) returned true");
      /* refused keying calls leave the accepted key in force */
      behaves_like(o, cls, "after-refused-set_key", fam, alg, K); hx_stat("evaluations", 9); }
}
/* objects built in storage that held other bytes: every constructor documents an all-zero nonce (and an all-zero key for the default constructor and a NULL key),
 * so the first packets without any set_nonce / set_counter must be the C results under nonce 0 and nonce 1 */
#include <new>
template <class T, class F> static void on_dirty_storage(const char *cls, const char *path, int fam, int alg, const unsigned char *key, F construct)
{
    char kb[96]; snprintf(kb, sizeof kb, "cpp:%s:%s:dirty-storage", cls, path);
    static const unsigned char fills[] = {0xA5, 0xFF, 0x00};
    for (unsigned f = 0; f < 3; f++) {
        alignas(64) static unsigned char raw[1024]; memset(raw, fills[f], sizeof raw);
        T *o = construct(raw);
        unsigned char n0[16] = {0}, n1[16] = {0}, exp[64], out[64]; n1[15] = 1;
        c_encrypt(fam, alg, key, n0, ADB, 3, MSG, 11, exp); hx_stat("evaluations", 2);
        int r = o->encrypt(out, MSG, 11, ADB, 3);
        if (r != 27 || memcmp(out, exp, 27)) { hx_fail(kb, "first packet of an object constructed in storage filled with %02x is not the C result under the all-zero nonce", fills[f]); o->~T(); return; }
        c_encrypt(fam, alg, key, n1, 0, 0, MSG, 4, exp);
        r = o->encrypt(out, MSG, 4, 0, 0);
        if (r != 20 || memcmp(out, exp, 20)) { hx_fail(kb, "second packet of an object constructed in storage filled with %02x is not the C result under nonce 1", fills[f]); o->~T(); return; }
        o->~T();
    }
    hx_stat("nontrivial", 1);
}
template <class T> static void key_ctor(const char *cls, int fam, int alg) {
    on_dirty_storage<T>(cls, "key-constructor", fam, alg, K, [](void *p) { return new (p) T(K); });
    on_dirty_storage<T>(cls, "key-constructor-null", fam, alg, ZK, [](void *p) { return new (p) T((const unsigned char *)0); });
    on_dirty_storage<T>(cls, "default-constructor", fam, alg, ZK, [](void *p) { return new (p) T(); }); T o(K); behaves_like(o, cls, "key-constructor", fam, alg, K); T z(0); behaves_like(z, cls, "key-constructor-null", fam, alg, ZK); }
template <class T> static void masked_extra(const char *cls, int alg) { { T q(K); keeps_nonce(q, cls, "randomize_key", 1, alg, K, [&](T &x) { x.randomize_key(); return true; }); } T o(K); o.randomize_key(); behaves_like(o, cls, "key-constructor+randomize_key", 1, alg, K); o.randomize_key(); o.randomize_key(); behaves_like(o, cls, "randomize_key-x3", 1, alg, K); }
template <class T> static void isap_extra(const char *cls, int alg)
{
    size_t kl = (size_t)ref_isap_keylen(alg); char kb[96]; snprintf(kb, sizeof kb, "cpp:%s", cls);
    unsigned char blob[80], cblob[80]; api_isap_key pk; api_isap_init[alg](&pk, K); api_isap_save[alg](&pk, cblob); api_isap_free[alg](&pk);
    on_dirty_storage<T>(cls, "key-constructor", 3, alg, K, [&](void *p) { return new (p) T(K, kl); });
    on_dirty_storage<T>(cls, "key-constructor-null-0", 3, alg, ZK, [](void *p) { return new (p) T((const unsigned char *)0, 0); });
    on_dirty_storage<T>(cls, "default-constructor", 3, alg, ZK, [](void *p) { return new (p) T(); });
    { T o(K, kl); behaves_like(o, cls, "key-constructor", 3, alg, K); o.save_key(blob); if (memcmp(blob, cblob, 80)) hx_fail(kb, "save_key differs from the C function"); }
    { T o(0, 0); behaves_like(o, cls, "key-constructor-null-0", 3, alg, ZK); }
    { T o(K, 0); behaves_like(o, cls, "key-constructor-nonnull-0", 3, alg, ZK); }
    { T o(cblob, 80); behaves_like(o, cls, "saved-key-constructor", 3, alg, K); }
    { T q; keeps_nonce(q, cls, "set_key-saved", 3, alg, K, [&](T &x) { return x.set_key(cblob, 80); }); }
    { T o; if (!o.set_key(cblob, 80)) hx_fail(kb, "set_key(saved key, 80) returned false"); behaves_like(o, cls, "set_key-saved", 3, alg, K); memset(blob, 0, 80); o.save_key(blob); if (memcmp(blob, cblob, 80)) hx_fail(kb, "save_key after loading a saved key differs"); }
}

/* hash / hasha */
template <class H> static void hash_suite(const char *cls, int a)
{
    char kb[64]; snprintf(kb, sizeof kb, "cpp:%s", cls);
    unsigned char exp[32], got[32]; const char *text = "the quick brown fox";
    /* call-for-call equivalence with two objects (x and a snapshot): every sequence of up to 4 calls over {update 3 / 0 bytes, finalize(ptr), finalize() -> byte_array, reset,
     * snapshot = x, x = snapshot, x = H(x)}, the C states driven by update / finalize / reinit / copy in lockstep; every digest and a final one are compared */
    for (int depth = 1; depth <= 4; depth++) { int total = 1; for (int i = 0; i < depth; i++) total *= 8;
      for (int code = 0; code < total; code++) {
        union cst { ascon_hash_state_t h; ascon_hasha_state_t ha; }; cst cx, cs, ct; H x, snap; unsigned char co[32], xo[32]; int c = code, bad = -1; char hist[40] = ""; size_t at = 0;
        if (a) { ascon_hasha_init(&cx.ha); ascon_hasha_init(&cs.ha); } else { ascon_hash_init(&cx.h); ascon_hash_init(&cs.h); }
        for (int i = 0; i < depth && bad < 0; i++, c /= 8) { int op = c % 8; size_t hl = strlen(hist); snprintf(hist + hl, sizeof hist - hl, "%d", op);
            switch (op) {
            case 0: case 1: { size_t n = op == 0 ? 3 : 0; if (a) ascon_hasha_update(&cx.ha, MSG + at, n); else ascon_hash_update(&cx.h, MSG + at, n); x.update(MSG + at, n); at += n; break; }
            case 2: if (a) ascon_hasha_finalize(&cx.ha, co); else ascon_hash_finalize(&cx.h, co); x.finalize(xo); if (memcmp(co, xo, 32)) bad = i; break;
            case 3: { if (a) ascon_hasha_finalize(&cx.ha, co); else ascon_hash_finalize(&cx.h, co); ascon::byte_array d = x.finalize(); if (d.size() != 32 || memcmp(co, d.data(), 32)) bad = i; break; }
            case 4: if (a) ascon_hasha_reinit(&cx.ha); else ascon_hash_reinit(&cx.h); x.reset(); break;
            case 5: if (a) { ascon_hasha_free(&cs.ha); ascon_hasha_copy(&cs.ha, &cx.ha); } else { ascon_hash_free(&cs.h); ascon_hash_copy(&cs.h, &cx.h); } snap = x; break;
            case 6: if (a) { ascon_hasha_free(&cx.ha); ascon_hasha_copy(&cx.ha, &cs.ha); } else { ascon_hash_free(&cx.h); ascon_hash_copy(&cx.h, &cs.h); } x = snap; break;
            default: if (a) { ascon_hasha_copy(&ct.ha, &cx.ha); ascon_hasha_free(&cx.ha); ascon_hasha_copy(&cx.ha, &ct.ha); ascon_hasha_free(&ct.ha); } else { ascon_hash_copy(&ct.h, &cx.h); ascon_hash_free(&cx.h); ascon_hash_copy(&cx.h, &ct.h); ascon_hash_free(&ct.h); }
                     { H t(x); x = t; } break;
            } }
        if (a) { ascon_hasha_finalize(&cx.ha, co); ascon_hasha_free(&cx.ha); ascon_hasha_free(&cs.ha); } else { ascon_hash_finalize(&cx.h, co); ascon_hash_free(&cx.h); ascon_hash_free(&cs.h); }
        x.finalize(xo); hx_stat("evaluations", 1);
        if (bad >= 0 || memcmp(co, xo, 32)) { hx_fail(kb, "call sequence [%s] (0/1 update 3/0, 2 finalize(ptr), 3 finalize(), 4 reset, 5 snapshot = x, 6 x = snapshot, 7 x = H(x)): the object's digest differs from the C state driven by the same calls%s", hist, bad >= 0 ? " (inside the sequence)" : " (final digest)"); depth = 9; break; }
      } }
    for (size_t l = 0; l <= 40; l += 5) {
        if (a) ascon_hasha(exp, MSG, l); else ascon_hash(exp, MSG, l);
        { H h; h.update(MSG, l); h.finalize(got); if (memcmp(got, exp, 32)) hx_fail(kb, "update(ptr)+finalize(ptr) differs from the C function (len %zu)", l); }
        { H h; h.update(mk_ba(MSG, l)); ascon::byte_array d = h.finalize(); if (d.size() != 32 || memcmp(d.data(), exp, 32)) hx_fail(kb, "update(byte_array)+finalize() differs (len %zu)", l); }
        { H h; h.update(MSG, l / 2); H c(h); H e; e = h; e = e; h.update(MSG + l / 2, l - l / 2); c.update(MSG + l / 2, l - l / 2); e.update(MSG + l / 2, l - l / 2);
          h.finalize(got); if (memcmp(got, exp, 32)) hx_fail(kb, "split update differs (len %zu)", l);
          c.finalize(got); if (memcmp(got, exp, 32)) hx_fail(kb, "copy-constructed object diverges from its original (len %zu)", l);
          e.finalize(got); if (memcmp(got, exp, 32)) hx_fail(kb, "assigned object diverges from its original (len %zu)", l); }
        { H h; h.update(MSG, 7); h.finalize(got); h.reset(); h.update(MSG, l); h.finalize(got); if (memcmp(got, exp, 32)) hx_fail(kb, "reset() is not a fresh object (len %zu)", l); }
        H::digest(got, MSG, l); if (memcmp(got, exp, 32)) hx_fail(kb, "static digest differs (len %zu)", l);
        hx_stat("evaluations", 7);
    }
    if (a) ascon_hasha(exp, (const unsigned char *)text, strlen(text)); else ascon_hash(exp, (const unsigned char *)text, strlen(text));
    { H h; h.update(text); h.finalize(got); if (memcmp(got, exp, 32)) hx_fail(kb, "update(const char*) differs"); h.update((const char *)0); const H &ch = h; (void)ch.state(); (void)h.state(); }
#if !defined(ASCON_NO_STL)
    { H h; h.update(std::string(text)); h.finalize(got); if (memcmp(got, exp, 32)) hx_fail(kb, "update(std::string) differs"); }
    /* a std::string is a byte container: embedded NUL and high bytes are data, in one or several calls */
    for (size_t l = 1; l <= 40; l += 3) {
        unsigned char raw[64]; for (size_t i = 0; i < l; i++) raw[i] = (unsigned char)((i % 3 == 0) ? 0 : (0x80 + i)); raw[l - 1] = 0;
        if (a) ascon_hasha(exp, raw, l); else ascon_hash(exp, raw, l);
        std::string s1(reinterpret_cast<const char *>(raw), l / 2), s2(reinterpret_cast<const char *>(raw) + l / 2, l - l / 2);
        { H h; h.update(std::string(reinterpret_cast<const char *>(raw), l)); h.finalize(got); if (memcmp(got, exp, 32)) hx_fail(kb, "update(std::string) with embedded NUL bytes differs from the C function (len %zu)", l); }
        { H h; h.update(s1); h.update(s2); h.finalize(got); if (memcmp(got, exp, 32)) hx_fail(kb, "update(std::string) in two calls with embedded NUL bytes differs (len %zu)", l); }
        hx_stat("evaluations", 2);
    }
#endif
    hx_stat("nontrivial", 1);
}
/* xof / xofa templates */
template <class X> static void xof_suite(const char *cls, int a, size_t declared)
{
    char kb[64]; snprintf(kb, sizeof kb, "cpp:%s<%zu>", cls, declared);
    unsigned char exp[80], got[80]; const char *text = "the quick brown fox";
    for (size_t l = 0; l <= 40; l += 8) {
        { union { ascon_xof_state_t x; ascon_xofa_state_t xa; } s;
          if (a) { ascon_xofa_init_fixed(&s.xa, declared); ascon_xofa_absorb(&s.xa, MSG, l); ascon_xofa_squeeze(&s.xa, exp, 72); ascon_xofa_free(&s.xa); }
          else { ascon_xof_init_fixed(&s.x, declared); ascon_xof_absorb(&s.x, MSG, l); ascon_xof_squeeze(&s.x, exp, 72); ascon_xof_free(&s.x); } }
        { X x; x.absorb(MSG, l); x.squeeze(got, 72); if (memcmp(got, exp, 72)) hx_fail(kb, "absorb(ptr)+squeeze(ptr) differs from the C functions (len %zu)", l); }
        { X x; x.absorb(mk_ba(MSG, l)); ascon::byte_array o = x.squeeze(33); ascon::byte_array o2 = x.squeeze(39); if (o.size() != 33 || o2.size() != 39 || memcmp(o.data(), exp, 33) || memcmp(o2.data(), exp + 33, 39)) hx_fail(kb, "absorb(byte_array)+squeeze(len) differs (len %zu)", l); }
        { X x; x.absorb(MSG, l / 2); X c(x); X e; e = x; e = e; x.absorb(MSG + l / 2, l - l / 2); c.absorb(MSG + l / 2, l - l / 2); e.absorb(MSG + l / 2, l - l / 2);
          c.squeeze(got, 40); if (memcmp(got, exp, 40)) hx_fail(kb, "copy-constructed object diverges (len %zu)", l);
          e.squeeze(got, 40); if (memcmp(got, exp, 40)) hx_fail(kb, "assigned object diverges (len %zu)", l); }
        { X x; x.absorb(MSG, 3); x.squeeze(got, 5); x.reset(); x.absorb(MSG, l); x.squeeze(got, 40); if (memcmp(got, exp, 40)) hx_fail(kb, "reset() is not a fresh object (len %zu)", l); }
        hx_stat("evaluations", 5);
    }
    /* call-for-call equivalence: every sequence of up to 4 member calls over {absorb 3 / 0 bytes, squeeze 5 / 0 bytes through the pointer form, squeeze 5 / 0 bytes
     * through the byte_array form, pad, reset}, the C state driven by the corresponding C calls in lockstep; every squeezed byte and a final 16-byte squeeze are compared */
    for (int depth = 1; depth <= 4; depth++) { int total = 1; for (int i = 0; i < depth; i++) total *= 8;
      for (int code = 0; code < total; code++) {
        union { ascon_xof_state_t x; ascon_xofa_state_t xa; } s; X x; unsigned char co[16], xo[16]; int c = code, bad = -1; char hist[40] = ""; size_t at = 0;
        if (a) ascon_xofa_init_fixed(&s.xa, declared); else ascon_xof_init_fixed(&s.x, declared);
        for (int i = 0; i < depth && bad < 0; i++, c /= 8) { int op = c % 8; size_t hl = strlen(hist); snprintf(hist + hl, sizeof hist - hl, "%d", op);
            switch (op) {
            case 0: case 1: { size_t n = op == 0 ? 3 : 0; if (a) ascon_xofa_absorb(&s.xa, MSG + at, n); else ascon_xof_absorb(&s.x, MSG + at, n); x.absorb(MSG + at, n); at += n; break; }
            case 2: case 3: { size_t n = op == 2 ? 5 : 0; if (a) ascon_xofa_squeeze(&s.xa, co, n); else ascon_xof_squeeze(&s.x, co, n); x.squeeze(xo, n); if (memcmp(co, xo, n)) bad = i; break; }
            case 4: case 5: { size_t n = op == 4 ? 5 : 0; if (a) ascon_xofa_squeeze(&s.xa, co, n); else ascon_xof_squeeze(&s.x, co, n); ascon::byte_array o = x.squeeze(n); if (o.size() != n || (n && memcmp(co, o.data(), n))) bad = i; break; }
            case 6: if (a) ascon_xofa_pad(&s.xa); else ascon_xof_pad(&s.x); x.pad(); break;
            default: if (a) ascon_xofa_reinit_fixed(&s.xa, declared); else ascon_xof_reinit_fixed(&s.x, declared); x.reset(); break;
            } }
        if (a) { ascon_xofa_squeeze(&s.xa, co, 16); ascon_xofa_free(&s.xa); } else { ascon_xof_squeeze(&s.x, co, 16); ascon_xof_free(&s.x); }
        x.squeeze(xo, 16); hx_stat("evaluations", 1);
        if (bad >= 0 || memcmp(co, xo, 16)) { hx_fail(kb, "call sequence [%s] (0/1 absorb 3/0, 2/3 squeeze(ptr) 5/0, 4/5 squeeze(len) 5/0, 6 pad, 7 reset): the object's output differs from the C state driven by the same calls%s", hist, bad >= 0 ? " (inside the sequence)" : " (final squeeze)"); depth = 9; break; }
      } }
    /* customised constructors */
    { union { ascon_xof_state_t x; ascon_xofa_state_t xa; } s;
      if (a) { ascon_xofa_init_custom(&s.xa, "name", ADB, 9, declared); ascon_xofa_absorb(&s.xa, MSG, 13); ascon_xofa_squeeze(&s.xa, exp, 40); ascon_xofa_free(&s.xa); }
      else { ascon_xof_init_custom(&s.x, "name", ADB, 9, declared); ascon_xof_absorb(&s.x, MSG, 13); ascon_xof_squeeze(&s.x, exp, 40); ascon_xof_free(&s.x); }
      { X x("name", ADB, 9); x.absorb(MSG, 13); x.squeeze(got, 40); if (memcmp(got, exp, 40)) hx_fail(kb, "constructor(name, custom, len) differs from init_custom"); }
      { X x("name", mk_ba(ADB, 9)); x.absorb(MSG, 13); x.squeeze(got, 40); if (memcmp(got, exp, 40)) hx_fail(kb, "constructor(name, byte_array) differs from init_custom"); }
      /* documented: the function name may be NULL or empty, with or without a customisation string */
      for (int nm = 0; nm < 2; nm++) for (size_t cl = 0; cl <= 9; cl += 9) { const char *fn = nm ? "" : (const char *)0;
        if (a) { ascon_xofa_init_custom(&s.xa, fn, ADB, cl, declared); ascon_xofa_absorb(&s.xa, MSG, 13); ascon_xofa_squeeze(&s.xa, exp, 40); ascon_xofa_free(&s.xa); }
        else { ascon_xof_init_custom(&s.x, fn, ADB, cl, declared); ascon_xof_absorb(&s.x, MSG, 13); ascon_xof_squeeze(&s.x, exp, 40); ascon_xof_free(&s.x); }
        { X x(fn, ADB, cl); x.absorb(MSG, 13); x.squeeze(got, 40); if (memcmp(got, exp, 40)) hx_fail(kb, "constructor(%s name, custom, %zu) differs from init_custom", nm ? "empty" : "NULL", cl); }
        { X x(fn, mk_ba(ADB, cl)); x.absorb(MSG, 13); x.squeeze(got, 40); if (memcmp(got, exp, 40)) hx_fail(kb, "constructor(%s name, byte_array of %zu) differs from init_custom", nm ? "empty" : "NULL", cl); }
        hx_stat("evaluations", 2); }
      if (a) { ascon_xofa_init_custom(&s.xa, "name", ADB, 9, declared); ascon_xofa_absorb(&s.xa, MSG, 13); ascon_xofa_squeeze(&s.xa, exp, 40); ascon_xofa_free(&s.xa); }
      else { ascon_xof_init_custom(&s.x, "name", ADB, 9, declared); ascon_xof_absorb(&s.x, MSG, 13); ascon_xof_squeeze(&s.x, exp, 40); ascon_xof_free(&s.x); }
      if (a) { ascon_xofa_init_custom(&s.xa, "name", 0, 0, declared); ascon_xofa_squeeze(&s.xa, exp, 40); ascon_xofa_free(&s.xa); }
      else { ascon_xof_init_custom(&s.x, "name", 0, 0, declared); ascon_xof_squeeze(&s.x, exp, 40); ascon_xof_free(&s.x); }
      { X x("name"); x.squeeze(got, 40); if (memcmp(got, exp, 40)) hx_fail(kb, "constructor(name) differs from init_custom"); } }
    /* string overloads and pad */
    { union { ascon_xof_state_t x; ascon_xofa_state_t xa; } s; size_t tl = strlen(text);
      if (a) { ascon_xofa_init_fixed(&s.xa, declared); ascon_xofa_absorb(&s.xa, (const unsigned char *)text, tl); ascon_xofa_pad(&s.xa); ascon_xofa_absorb(&s.xa, MSG, 3); ascon_xofa_squeeze(&s.xa, exp, 40); ascon_xofa_free(&s.xa); }
      else { ascon_xof_init_fixed(&s.x, declared); ascon_xof_absorb(&s.x, (const unsigned char *)text, tl); ascon_xof_pad(&s.x); ascon_xof_absorb(&s.x, MSG, 3); ascon_xof_squeeze(&s.x, exp, 40); ascon_xof_free(&s.x); }
      { X x; x.absorb(text); x.absorb((const char *)0); x.pad(); x.absorb(MSG, 3); x.squeeze(got, 40); if (memcmp(got, exp, 40)) hx_fail(kb, "absorb(const char*) / pad() differ from the C functions"); const X &cx = x; (void)cx.state(); (void)x.state(); }
#if !defined(ASCON_NO_STL)
      { X x; x.absorb(std::string(text)); x.pad(); x.absorb(MSG, 3); x.squeeze(got, 40); if (memcmp(got, exp, 40)) hx_fail(kb, "absorb(std::string) differs from the C functions"); }
      for (size_t l = 1; l <= 40; l += 3) {
          unsigned char raw[64]; for (size_t i = 0; i < l; i++) raw[i] = (unsigned char)((i % 3 == 0) ? 0 : (0x80 + i)); raw[l - 1] = 0;
          if (a) { ascon_xofa_init_fixed(&s.xa, declared); ascon_xofa_absorb(&s.xa, raw, l); ascon_xofa_squeeze(&s.xa, exp, 40); ascon_xofa_free(&s.xa); }
          else { ascon_xof_init_fixed(&s.x, declared); ascon_xof_absorb(&s.x, raw, l); ascon_xof_squeeze(&s.x, exp, 40); ascon_xof_free(&s.x); }
          X x; x.absorb(std::string(reinterpret_cast<const char *>(raw), l / 2)); x.absorb(std::string(reinterpret_cast<const char *>(raw) + l / 2, l - l / 2)); x.squeeze(got, 40);
          if (memcmp(got, exp, 40)) hx_fail(kb, "absorb(std::string) with embedded NUL bytes differs from the C functions (len %zu)", l);
          ascon::byte_array ba = mk_ba(raw, l); X y; y.absorb(ba); y.squeeze(got, 40); if (memcmp(got, exp, 40)) hx_fail(kb, "absorb(byte_array) with NUL bytes differs (len %zu)", l);
          hx_stat("evaluations", 2);
      }
#endif
    }
    hx_stat("nontrivial", 1);
}

/* objects with static storage duration in the application's translation unit: they are constructed before main(), in an order relative to the library's own
 * dynamic initialisers that the language leaves open (with a static library the application's objects come first on the link line) */
static const unsigned char SK[20] = {0x11, 0x32, 0x53, 0x74, 0x95, 0xb6, 0xd7, 0xf8, 0x19, 0x3a, 0x5b, 0x7c, 0x9d, 0xbe, 0xdf, 0xf0, 0x21, 0x42, 0x63, 0x84};
#define STATIC_OBJS(T, n) static T g0_##n; static T g1_##n((const unsigned char *)0); static T g2_##n(SK);
STATIC_OBJS(ascon::aead128, a128) STATIC_OBJS(ascon::aead128a, a128a) STATIC_OBJS(ascon::aead80pq, a80pq)
STATIC_OBJS(ascon::aead128_masked, m128) STATIC_OBJS(ascon::aead128a_masked, m128a) STATIC_OBJS(ascon::aead80pq_masked, m80pq)
STATIC_OBJS(ascon::siv128, s128) STATIC_OBJS(ascon::siv128a, s128a) STATIC_OBJS(ascon::siv80pq, s80pq)
static ascon::isap128a g0_i128a, g1_i128a((const unsigned char *)0, 0), g2_i128a(SK, 16), g3_i128a(SK, 0);
static ascon::isap128 g0_i128, g1_i128((const unsigned char *)0, 0), g2_i128(SK, 16), g3_i128(SK, 0);
static ascon::isap80pq g0_i80pq, g1_i80pq((const unsigned char *)0, 0), g2_i80pq(SK, 20), g3_i80pq(SK, 0);
static ascon::hash g_hash; static ascon::hasha g_hasha; static ascon::xof g_xof; static ascon::xofa g_xofa; static ascon::xof_with_output_length<32> g_xof32;
#define STATIC_CHECK(n, cls, fam, alg) behaves_like(g0_##n, cls, "static-object-default-constructor", fam, alg, ZK); behaves_like(g1_##n, cls, "static-object-null-key-constructor", fam, alg, ZK); behaves_like(g2_##n, cls, "static-object-key-constructor", fam, alg, SK);
static void static_objects()
{
    STATIC_CHECK(a128, "aead128", 0, 0) STATIC_CHECK(a128a, "aead128a", 0, 1) STATIC_CHECK(a80pq, "aead80pq", 0, 2)
    STATIC_CHECK(m128, "aead128_masked", 1, 0) STATIC_CHECK(m128a, "aead128a_masked", 1, 1) STATIC_CHECK(m80pq, "aead80pq_masked", 1, 2)
    STATIC_CHECK(s128, "siv128", 2, 0) STATIC_CHECK(s128a, "siv128a", 2, 1) STATIC_CHECK(s80pq, "siv80pq", 2, 2)
    STATIC_CHECK(i128a, "isap128a", 3, 0) STATIC_CHECK(i128, "isap128", 3, 1) STATIC_CHECK(i80pq, "isap80pq", 3, 2)
    behaves_like(g3_i128a, "isap128a", "static-object-zero-length-key-constructor", 3, 0, ZK); behaves_like(g3_i128, "isap128", "static-object-zero-length-key-constructor", 3, 1, ZK); behaves_like(g3_i80pq, "isap80pq", "static-object-zero-length-key-constructor", 3, 2, ZK);
    /* a second use after clear(): back to the all-zero key */
    g2_i128a.clear(); behaves_like(g2_i128a, "isap128a", "static-object-clear", 3, 0, ZK); g2_i128.clear(); behaves_like(g2_i128, "isap128", "static-object-clear", 3, 1, ZK); g2_i80pq.clear(); behaves_like(g2_i80pq, "isap80pq", "static-object-clear", 3, 2, ZK);
    unsigned char d[32], e[32], o[40], oe[40];
    g_hash.update(MSG, 13); g_hash.finalize(d); ascon_hash(e, MSG, 13); if (memcmp(d, e, 32)) hx_fail("cpp:hash:static-object", "digest of a static hash object differs from ascon_hash");
    g_hasha.update(MSG, 13); g_hasha.finalize(d); ascon_hasha(e, MSG, 13); if (memcmp(d, e, 32)) hx_fail("cpp:hasha:static-object", "digest of a static hasha object differs from ascon_hasha");
    g_xof.absorb(MSG, 13); g_xof.squeeze(o, 32); ascon_xof(oe, MSG, 13); if (memcmp(o, oe, 32)) hx_fail("cpp:xof:static-object", "output of a static xof object differs from ascon_xof");
    g_xofa.absorb(MSG, 13); g_xofa.squeeze(o, 32); ascon_xofa(oe, MSG, 13); if (memcmp(o, oe, 32)) hx_fail("cpp:xofa:static-object", "output of a static xofa object differs from ascon_xofa");
    { ascon_xof_state_t st; ascon_xof_init_fixed(&st, 32); ascon_xof_absorb(&st, MSG, 13); ascon_xof_squeeze(&st, oe, 32); ascon_xof_free(&st); g_xof32.absorb(MSG, 13); g_xof32.squeeze(o, 32); if (memcmp(o, oe, 32)) hx_fail("cpp:xof:static-object", "output of a static xof_with_output_length<32> object differs from the C functions"); }
}

int main()
{
    hx_init();
    hx_fill(K, 20, HX_P_DENSE, 1); hx_fill(K2, 20, HX_P_DENSE2, 8); hx_fill(NONCE, 16, HX_P_DENSE, 2); hx_fill(ADB, 40, HX_P_DENSE, 3); hx_fill(MSG, 64, HX_P_DENSE, 4);
    for (int i = 16; i < 20; i++) { if (!K[i]) K[i] = 0x5a; }
    cipher_suite<ascon::aead128>("aead128", 0, 0); cipher_suite<ascon::aead128a>("aead128a", 0, 1); cipher_suite<ascon::aead80pq>("aead80pq", 0, 2);
    key_ctor<ascon::aead128>("aead128", 0, 0); key_ctor<ascon::aead128a>("aead128a", 0, 1); key_ctor<ascon::aead80pq>("aead80pq", 0, 2);
    cipher_suite<ascon::aead128_masked>("aead128_masked", 1, 0); cipher_suite<ascon::aead128a_masked>("aead128a_masked", 1, 1); cipher_suite<ascon::aead80pq_masked>("aead80pq_masked", 1, 2);
    key_ctor<ascon::aead128_masked>("aead128_masked", 1, 0); key_ctor<ascon::aead128a_masked>("aead128a_masked", 1, 1); key_ctor<ascon::aead80pq_masked>("aead80pq_masked", 1, 2);
    masked_extra<ascon::aead128_masked>("aead128_masked", 0); masked_extra<ascon::aead128a_masked>("aead128a_masked", 1); masked_extra<ascon::aead80pq_masked>("aead80pq_masked", 2);
    cipher_suite<ascon::siv128>("siv128", 2, 0); cipher_suite<ascon::siv128a>("siv128a", 2, 1); cipher_suite<ascon::siv80pq>("siv80pq", 2, 2);
    key_ctor<ascon::siv128>("siv128", 2, 0); key_ctor<ascon::siv128a>("siv128a", 2, 1); key_ctor<ascon::siv80pq>("siv80pq", 2, 2);
    cipher_suite<ascon::isap128a>("isap128a", 3, 0); cipher_suite<ascon::isap128>("isap128", 3, 1); cipher_suite<ascon::isap80pq>("isap80pq", 3, 2);
    isap_extra<ascon::isap128a>("isap128a", 0); isap_extra<ascon::isap128>("isap128", 1); isap_extra<ascon::isap80pq>("isap80pq", 2);
    hash_suite<ascon::hash>("hash", 0); hash_suite<ascon::hasha>("hasha", 1);
    xof_suite<ascon::xof>("xof", 0, 0); xof_suite<ascon::xof_with_output_length<1> >("xof", 0, 1); xof_suite<ascon::xof_with_output_length<32> >("xof", 0, 32); xof_suite<ascon::xof_with_output_length<64> >("xof", 0, 64);
    xof_suite<ascon::xofa>("xofa", 1, 0); xof_suite<ascon::xofa_with_output_length<1> >("xofa", 1, 1); xof_suite<ascon::xofa_with_output_length<32> >("xofa", 1, 32); xof_suite<ascon::xofa_with_output_length<64> >("xofa", 1, 64);
    static_objects();
    /* helper functions of utility.h */
    { ascon::byte_array b = ascon::bytes_from_hex("0a0B 0c"); if (b.size() != 3 || b[0] != 10 || b[2] != 12) hx_fail("cpp:utility", "bytes_from_hex(const char*)");
      b = ascon::bytes_from_hex("ff00", 4); if (b.size() != 2) hx_fail("cpp:utility", "bytes_from_hex(str,len)");
      b = ascon::bytes_from_data(MSG, 5); if (b.size() != 5 || memcmp(b.data(), MSG, 5)) hx_fail("cpp:utility", "bytes_from_data");
#if !defined(ASCON_NO_STL)
      { std::string z("0011\0" "2233", 9); unsigned char t[8]; int cr = ascon_bytes_from_hex(t, sizeof t, z.data(), z.size()); b = ascon::bytes_from_hex(z);
        if (b.size() != (cr < 0 ? 0u : (size_t)cr)) hx_fail("cpp:utility", "bytes_from_hex(std::string) of a 9-character string holding a NUL returned %zu bytes, the C function returned %d", b.size(), cr); b = ascon::bytes_from_data(MSG, 5); }
      std::string h = ascon::bytes_to_hex(MSG, 3), h2 = ascon::bytes_to_hex(b, true); b = ascon::bytes_from_hex(h2); if (h.size() != 6 || h2.size() != 10 || b.size() != 5) hx_fail("cpp:utility", "bytes_to_hex / bytes_from_hex(std::string)");
#endif
    }
    hx_sample("C++: 12 cipher classes x {default ctor, key ctor(s), set_key full / (nullptr,0) / (ptr,0) / re-key after full / wrong lengths, ISAP saved key} x 16 shapes x {raw pointer, byte_array} + hash/hasha + xof/xofa<0,1,32,64> overloads");
    hx_finish();
    return 0;
}
