/* C08: permutation and byte-range primitives through the public interface.
 * usage: c08 perm <first_round|all> <tier>     |   c08 bytes <tier> */
#include "hx.h"
#include "ref.h"
#include <ascon/permutation.h>

static void load(ascon_state_t *st, const uint8_t b[40]) { ascon_init(st); ascon_overwrite_bytes(st, b, 0, 40); }
static void store(ascon_state_t *st, uint8_t b[40]) { ascon_extract_bytes(st, b, 0, 40); }

static long nperm;
static void perm_one(const uint8_t in[40], int r, const char *what, int i, int j)
{
    ascon_state_t st; uint8_t got[40], exp[40];
    load(&st, in); ascon_permute(&st, (uint8_t)r); store(&st, got); ascon_free(&st);
    memcpy(exp, in, 40); ref_permute(exp, r);
    nperm++;
    if (memcmp(got, exp, 40)) {
        char kb[48]; snprintf(kb, sizeof kb, "permute:first_round=%d", r);
        hx_fail(kb, "state %s(%d,%d) -> differs from the specification's %d-round permutation", what, i, j, 12 - r);
    }
}
static void setbit(uint8_t b[40], int bit) { b[bit / 8] ^= (uint8_t)(0x80 >> (bit % 8)); }

static void perm(int r0, int r1, int tier)
{
    uint8_t s[40];
    for (int r = r0; r <= r1; r++) {
        for (int comp = 0; comp < 2; comp++) {
            memset(s, comp ? 0xff : 0, 40); perm_one(s, r, comp ? "~zero" : "zero", 0, 0);
            for (int i = 0; i < 320; i++) {
                memset(s, comp ? 0xff : 0, 40); setbit(s, i); perm_one(s, r, comp ? "~unit" : "unit", i, 0);
                for (int j = i + 1; j < 320; j++) { memset(s, comp ? 0xff : 0, 40); setbit(s, i); setbit(s, j); perm_one(s, r, comp ? "~pair" : "pair", i, j); }
            }
        }
        for (int d = 0; d < (tier ? 4096 : 64); d++) { hx_fill(s, 40, d & 1 ? HX_P_DENSE : HX_P_DENSE2, 100 + d); perm_one(s, r, "dense", d, 0); }
    }
    hx_stat("evaluations", nperm); hx_stat("nontrivial", nperm);
    hx_sample("permutation: all states of weight <= 2 and their complements + dense states, first_round %d..%d (%ld calls)", r0, r1, nperm);
}

/* byte-range ops against the byte-array semantics on the canonical state */
enum { B_ADD, B_OVER, B_ZERO, B_EXTRACT, B_XADD, B_XOVER, B_XOVER_INPLACE, B_NOPS };
static const char *bname[] = {"add_bytes", "overwrite_bytes", "overwrite_with_zeroes", "extract_bytes", "extract_and_add_bytes", "extract_and_overwrite_bytes", "extract_and_overwrite_bytes-inplace"};
static long nbytes;
static void byte_case(int op, unsigned off, unsigned size, const uint8_t st0[40], const uint8_t *data)
{
    ascon_state_t st; uint8_t got[40], exp[40], eout[40];
    uint8_t *in = hx_buf(size), *out = hx_buf(size);
    memcpy(in, data, size); memset(out, 0xAA, size);
    memcpy(exp, st0, 40); memset(eout, 0xAA, 40);
    load(&st, st0);
    int has_out = 0;
    switch (op) {
    case B_ADD: ascon_add_bytes(&st, in, off, size); for (unsigned i = 0; i < size; i++) exp[off + i] ^= data[i]; break;
    case B_OVER: ascon_overwrite_bytes(&st, in, off, size); for (unsigned i = 0; i < size; i++) exp[off + i] = data[i]; break;
    case B_ZERO: ascon_overwrite_with_zeroes(&st, off, size); for (unsigned i = 0; i < size; i++) exp[off + i] = 0; break;
    case B_EXTRACT: ascon_extract_bytes(&st, out, off, size); for (unsigned i = 0; i < size; i++) eout[i] = st0[off + i]; has_out = 1; break;
    case B_XADD: ascon_extract_and_add_bytes(&st, in, out, off, size); for (unsigned i = 0; i < size; i++) eout[i] = st0[off + i] ^ data[i]; has_out = 1; break;
    case B_XOVER: ascon_extract_and_overwrite_bytes(&st, in, out, off, size); for (unsigned i = 0; i < size; i++) { eout[i] = st0[off + i] ^ data[i]; exp[off + i] = data[i]; } has_out = 1; break;
    case B_XOVER_INPLACE: ascon_extract_and_overwrite_bytes(&st, in, in, off, size); for (unsigned i = 0; i < size; i++) { eout[i] = st0[off + i] ^ data[i]; exp[off + i] = data[i]; } memcpy(out, in, size); has_out = 1; break;
    }
    store(&st, got); ascon_free(&st);
    nbytes++;
    char kb[64]; snprintf(kb, sizeof kb, "bytes:%s", bname[op]);
    if (memcmp(got, exp, 40)) { int i = 0; while (got[i] == exp[i]) i++; hx_fail(kb, "state byte %d wrong after offset=%u size=%u (got %02x expected %02x)", i, off, size, got[i], exp[i]); }
    if (has_out && memcmp(out, eout, size)) hx_fail(kb, "output bytes wrong for offset=%u size=%u", off, size);
    if (op != B_XOVER_INPLACE && memcmp(in, data, size)) hx_fail(kb, "input buffer modified offset=%u size=%u", off, size);
    if (!hx_buf_ok(in, size) || !hx_buf_ok(out, size)) hx_fail(kb, "wrote outside a buffer offset=%u size=%u", off, size);
    hx_free(in); hx_free(out);
}
static void bytes(int tier)
{
    uint8_t st0[40], data[40], z[40]; memset(z, 0, 40);
    for (unsigned off = 0; off <= 40; off++) for (unsigned size = 0; off + size <= 40; size++) for (int op = 0; op < B_NOPS; op++) {
        byte_case(op, off, size, z, z);
        for (int b = 0; b < 320; b++) { memset(st0, 0, 40); setbit(st0, b); byte_case(op, off, size, st0, z); }
        if (op != B_ZERO && op != B_EXTRACT) for (unsigned b = 0; b < size * 8; b++) { memset(data, 0, 40); setbit(data, b); byte_case(op, off, size, z, data); }
        for (int d = 0; d < (tier ? 16 : 4); d++) { hx_fill(st0, 40, HX_P_DENSE, 200 + d); hx_fill(data, 40, HX_P_DENSE2, 300 + d); byte_case(op, off, size, st0, data); }
        memset(st0, 0xff, 40); memset(data, 0xff, 40); byte_case(op, off, size, st0, data);
    }
    hx_stat("evaluations", nbytes); hx_stat("nontrivial", nbytes);
    hx_sample("byte-range ops: all 861 (offset,size) x 7 op variants x {zero, 320 unit state bits, unit data bits, dense pairs, all-ones} (%ld calls)", nbytes);
}

int main(int argc, char **argv)
{
    hx_init();
    if (argc < 3) return 2;
    if (!strcmp(argv[1], "perm")) { int r = atoi(argv[2]); perm(r, r, atoi(argv[3])); }
    else bytes(atoi(argv[2]));
    hx_finish();
    return 0;
}
