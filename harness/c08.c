/* C08: permutation and byte-range primitives through the public interface.
 * usage: c08 perm <first_round|all> <tier>     |   c08 bytes <tier>   |   c08 seq <depth> */
#include "hx.h"
#include "ref.h"
#include <ascon/permutation.h>

static void load(ascon_state_t *st, const uint8_t b[40]) { ascon_init(st); ascon_overwrite_bytes(st, b, 0, 40); }
static void store(ascon_state_t *st, uint8_t b[40]) { ascon_extract_bytes(st, b, 0, 40); }

static long nperm;
static void perm_one(const uint8_t in[40], int r, const char *what, int i, int j)
{
    ascon_state_t st; uint8_t got[40], exp[40];
    load(&st, in); ascon_permute(&st, (uint8_t)r); store(&st, got); ascon_free(&st);
    memcpy(exp, in, 40); ref_permute(exp, r);
    nperm++;
    if (memcmp(got, exp, 40)) {
        char kb[48]; snprintf(kb, sizeof kb, "permute:first_round=%d", r);
        hx_fail(kb, "state %s(%d,%d) -> differs from the specification's %d-round permutation", what, i, j, 12 - r);
    }
}
static void setbit(uint8_t b[40], int bit) { b[bit / 8] ^= (uint8_t)(0x80 >> (bit % 8)); }

static void perm(int r0, int r1, int tier)
{
    uint8_t s[40];
    for (int r = r0; r <= r1; r++) {
        for (int comp = 0; comp < 2; comp++) {
            memset(s, comp ? 0xff : 0, 40); perm_one(s, r, comp ? "~zero" : "zero", 0, 0);
            for (int i = 0; i < 320; i++) {
                memset(s, comp ? 0xff : 0, 40); setbit(s, i); perm_one(s, r, comp ? "~unit" : "unit", i, 0);
                for (int j = i + 1; j < 320; j++) { memset(s, comp ? 0xff : 0, 40); setbit(s, i); setbit(s, j); perm_one(s, r, comp ? "~pair" : "pair", i, j); }
            }
        }
        for (int d = 0; d < (tier ? 4096 : 64); d++) { hx_fill(s, 40, d & 1 ? HX_P_DENSE : HX_P_DENSE2, 100 + d); perm_one(s, r, "dense", d, 0); }
    }
    hx_stat("evaluations", nperm); hx_stat("nontrivial", nperm);
    hx_sample("permutation: all states of weight <= 2 and their complements + dense states, first_round %d..%d (%ld calls)", r0, r1, nperm);
}

/* byte-range ops against the byte-array semantics on the canonical state */
enum { B_ADD, B_OVER, B_ZERO, B_EXTRACT, B_XADD, B_XOVER, B_XOVER_INPLACE, B_NOPS };
static const char *bname[] = {"add_bytes", "overwrite_bytes", "overwrite_with_zeroes", "extract_bytes", "extract_and_add_bytes", "extract_and_overwrite_bytes", "extract_and_overwrite_bytes-inplace"};
static long nbytes;
static void byte_case(int op, unsigned off, unsigned size, const uint8_t st0[40], const uint8_t *data)
{
    ascon_state_t st; uint8_t got[40], exp[40], eout[40];
    uint8_t *in = hx_buf(size), *out = hx_buf(size);
    memcpy(in, data, size); memset(out, 0xAA, size);
    memcpy(exp, st0, 40); memset(eout, 0xAA, 40);
    load(&st, st0);
    int has_out = 0;
    switch (op) {
    case B_ADD: ascon_add_bytes(&st, in, off, size); for (unsigned i = 0; i < size; i++) exp[off + i] ^= data[i]; break;
    case B_OVER: ascon_overwrite_bytes(&st, in, off, size); for (unsigned i = 0; i < size; i++) exp[off + i] = data[i]; break;
    case B_ZERO: ascon_overwrite_with_zeroes(&st, off, size); for (unsigned i = 0; i < size; i++) exp[off + i] = 0; break;
    case B_EXTRACT: ascon_extract_bytes(&st, out, off, size); for (unsigned i = 0; i < size; i++) eout[i] = st0[off + i]; has_out = 1; break;
    case B_XADD: ascon_extract_and_add_bytes(&st, in, out, off, size); for (unsigned i = 0; i < size; i++) eout[i] = st0[off + i] ^ data[i]; has_out = 1; break;
    case B_XOVER: ascon_extract_and_overwrite_bytes(&st, in, out, off, size); for (unsigned i = 0; i < size; i++) { eout[i] = st0[off + i] ^ data[i]; exp[off + i] = data[i]; } has_out = 1; break;
    case B_XOVER_INPLACE: ascon_extract_and_overwrite_bytes(&st, in, in, off, size); for (unsigned i = 0; i < size; i++) { eout[i] = st0[off + i] ^ data[i]; exp[off + i] = data[i]; } memcpy(out, in, size); has_out = 1; break;
    }
    store(&st, got); ascon_free(&st);
    nbytes++;
    char kb[64]; snprintf(kb, sizeof kb, "bytes:%s", bname[op]);
    if (memcmp(got, exp, 40)) { int i = 0; while (got[i] == exp[i]) i++; hx_fail(kb, "state byte %d wrong after offset=%u size=%u (got %02x expected %02x)", i, off, size, got[i], exp[i]); }
    if (has_out && memcmp(out, eout, size)) hx_fail(kb, "output bytes wrong for offset=%u size=%u", off, size);
    if (op != B_XOVER_INPLACE && memcmp(in, data, size)) hx_fail(kb, "input buffer modified offset=%u size=%u", off, size);
    if (!hx_buf_ok(in, size) || !hx_buf_ok(out, size)) hx_fail(kb, "wrote outside a buffer offset=%u size=%u", off, size);
    hx_free(in); hx_free(out);
}
static void bytes(int tier)
{
    uint8_t st0[40], data[40], z[40]; memset(z, 0, 40);
    for (unsigned off = 0; off <= 40; off++) for (unsigned size = 0; off + size <= 40; size++) for (int op = 0; op < B_NOPS; op++) {
        byte_case(op, off, size, z, z);
        for (int b = 0; b < 320; b++) { memset(st0, 0, 40); setbit(st0, b); byte_case(op, off, size, st0, z); }
        if (op != B_ZERO && op != B_EXTRACT) for (unsigned b = 0; b < size * 8; b++) { memset(data, 0, 40); setbit(data, b); byte_case(op, off, size, z, data); }
        for (int d = 0; d < (tier ? 16 : 4); d++) { hx_fill(st0, 40, HX_P_DENSE, 200 + d); hx_fill(data, 40, HX_P_DENSE2, 300 + d); byte_case(op, off, size, st0, data); }
        memset(st0, 0xff, 40); memset(data, 0xff, 40); byte_case(op, off, size, st0, data);
    }
    hx_stat("evaluations", nbytes); hx_stat("nontrivial", nbytes);
    hx_sample("byte-range ops: all 861 (offset,size) x 7 op variants x {zero, 320 unit state bits, unit data bits, dense pairs, all-ones} (%ld calls)", nbytes);
}

/* every sequence of operations up to a depth on two real states (a, b) against two 40-byte models:
 * catches representation drift between operations (lazy conversions, partial-word updates, copy), which single calls from a freshly loaded state cannot */
enum { S_PERM0, S_PERM6, S_PERM11, S_ADD_0_8, S_ADD_3_7, S_ADD_33_7, S_OVER_0_16, S_OVER_5_1, S_ZERO_8_32, S_ZERO_39_1, S_XOVER_0_8, S_XOVER_7_9, S_XADD_12_20, S_EXTRACT_1_39,
       S_COPY_AB, S_COPY_BA, S_RELACQ, S_SWAP, S_NOPS };
static const char *sname[] = {"permute(0)", "permute(6)", "permute(11)", "add(0,8)", "add(3,7)", "add(33,7)", "overwrite(0,16)", "overwrite(5,1)", "zero(8,32)", "zero(39,1)", "xover(0,8)", "xover-inplace(7,9)",
                              "xadd(12,20)", "extract(1,39)", "copy(a->b)", "copy(b->a)", "release+acquire", "work-on-b"};
static long nseq, nseqops;
static void seq_run(const int *ops, int n, int startpat)
{
    ascon_state_t A, B; uint8_t ma[40], mb[40], d[40], out[40], eo[40], got[40];
    ascon_state_t *cur = &A, *oth = &B; uint8_t *mc = ma, *mo = mb;
    hx_fill(ma, 40, HX_P_DENSE, 400 + startpat); hx_fill(mb, 40, HX_P_DENSE2, 500 + startpat);
    if (startpat == 0) { memset(ma, 0, 40); memset(mb, 0xff, 40); }
    load(&A, ma); load(&B, mb);
    char trace[256]; trace[0] = 0;
    for (int k = 0; k < n; k++) {
        int op = ops[k]; unsigned off = 0, size = 0; int chk_out = 0;
        hx_fill(d, 40, HX_P_DENSE, 600 + 7 * k + op);
        strncat(trace, sname[op], sizeof trace - strlen(trace) - 2); strncat(trace, ";", sizeof trace - strlen(trace) - 1);
        switch (op) {
        case S_PERM0: case S_PERM6: case S_PERM11: { int r = op == S_PERM0 ? 0 : op == S_PERM6 ? 6 : 11; ascon_permute(cur, (uint8_t)r); ref_permute(mc, r); break; }
        case S_ADD_0_8: off = 0; size = 8; goto add; case S_ADD_3_7: off = 3; size = 7; goto add; case S_ADD_33_7: off = 33; size = 7;
        add: ascon_add_bytes(cur, d, off, size); for (unsigned i = 0; i < size; i++) mc[off + i] ^= d[i]; break;
        case S_OVER_0_16: off = 0; size = 16; goto over; case S_OVER_5_1: off = 5; size = 1;
        over: ascon_overwrite_bytes(cur, d, off, size); memcpy(mc + off, d, size); break;
        case S_ZERO_8_32: off = 8; size = 32; goto zero; case S_ZERO_39_1: off = 39; size = 1;
        zero: ascon_overwrite_with_zeroes(cur, off, size); memset(mc + off, 0, size); break;
        case S_XOVER_0_8: off = 0; size = 8; ascon_extract_and_overwrite_bytes(cur, d, out, off, size);
            for (unsigned i = 0; i < size; i++) { eo[i] = mc[off + i] ^ d[i]; mc[off + i] = d[i]; } chk_out = 1; break;
        case S_XOVER_7_9: off = 7; size = 9; memcpy(out, d, size); ascon_extract_and_overwrite_bytes(cur, out, out, off, size);
            for (unsigned i = 0; i < size; i++) { eo[i] = mc[off + i] ^ d[i]; mc[off + i] = d[i]; } chk_out = 1; break;
        case S_XADD_12_20: off = 12; size = 20; ascon_extract_and_add_bytes(cur, d, out, off, size); for (unsigned i = 0; i < size; i++) eo[i] = mc[off + i] ^ d[i]; chk_out = 1; break;
        case S_EXTRACT_1_39: off = 1; size = 39; ascon_extract_bytes(cur, out, off, size); memcpy(eo, mc + off, size); chk_out = 1; break;
        case S_COPY_AB: ascon_release(cur); ascon_copy(oth, cur); ascon_acquire(cur); memcpy(mo, mc, 40); break;
        case S_COPY_BA: ascon_release(oth); ascon_copy(cur, oth); ascon_acquire(oth); memcpy(mc, mo, 40); break;
        case S_RELACQ: ascon_release(cur); ascon_acquire(cur); break;
        case S_SWAP: { ascon_state_t *t = cur; cur = oth; oth = t; uint8_t *m = mc; mc = mo; mo = m; break; }
        }
        nseqops++;
        if (chk_out && memcmp(out, eo, size)) { hx_fail("sequence:output", "after [%s] (start %d) the output of the last call differs from the byte model", trace, startpat); break; }
    }
    store(cur, got); if (memcmp(got, mc, 40)) hx_fail("sequence:state", "after [%s] (start %d) the worked-on state differs from the byte model", trace, startpat);
    store(oth, got); if (memcmp(got, mo, 40)) hx_fail("sequence:other-state", "after [%s] (start %d) the other state differs from the byte model", trace, startpat);
    ascon_free(&A); ascon_free(&B); nseq++;
}
static void seqs(int depth)
{
    int ops[8];
    for (int n = 1; n <= depth; n++) {
        long total = 1; for (int k = 0; k < n; k++) total *= S_NOPS;
        for (long c = 0; c < total; c++) { long x = c; for (int k = 0; k < n; k++) { ops[k] = (int)(x % S_NOPS); x /= S_NOPS; } for (int sp = 0; sp < 2; sp++) seq_run(ops, n, sp); }
    }
    hx_stat("evaluations", nseqops); hx_stat("nontrivial", nseq); hx_stat("op_sequences", nseq);
    hx_sample("all sequences of <= %d operations from an alphabet of %d (permute at 3 rounds, 11 byte-range calls, copy both ways, release+acquire, switch object) on two live states x 2 starting values (%ld sequences)", depth, S_NOPS, nseq);
}

int main(int argc, char **argv)
{
    hx_init();
    if (argc < 3) return 2;
    if (!strcmp(argv[1], "perm")) { int r = atoi(argv[2]); perm(r, r, atoi(argv[3])); }
    else if (!strcmp(argv[1], "order")) {   /* call history: the first permutation calls of the process start at rounds f1 (and f2), then the whole sweep over every starting round */
        int f1 = atoi(argv[2]), f2 = atoi(argv[3]); uint8_t s[40];
        hx_fill(s, 40, HX_P_DENSE, 7); perm_one(s, f1, "first-call", f1, 0);
        if (f2 >= 0) { hx_fill(s, 40, HX_P_DENSE2, 8); perm_one(s, f2, "second-call", f2, 0); }
        perm(0, 11, atoi(argv[4]));
    }
    else if (!strcmp(argv[1], "seq")) seqs(atoi(argv[2]));
    else bytes(atoi(argv[2]));
    hx_finish();
    return 0;
}
