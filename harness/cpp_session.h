#ifndef CPP_SESSION_H
#define CPP_SESSION_H
#include <stddef.h>
#include <stdint.h>
#ifdef __cplusplus
extern "C" {
#endif
/* family 0 aead, 1 masked, 2 siv, 3 isap; alg index as in api.h (isap: 0 = 128a, 1 = 128, 2 = 80pq) */
void *cpps_new(int family, int alg);
void cpps_delete(void *h);
int cpps_set_key(void *h, const unsigned char *k, size_t len);
void cpps_set_nonce(void *h, const unsigned char *n, size_t len);
void cpps_set_counter(void *h, uint64_t n);
int cpps_encrypt(void *h, unsigned char *c, const unsigned char *m, size_t len, const unsigned char *ad, size_t adlen);
int cpps_decrypt(void *h, unsigned char *m, const unsigned char *c, size_t len, const unsigned char *ad, size_t adlen);
int cpps_encrypt_ba(void *h, unsigned char *c, const unsigned char *m, size_t len, const unsigned char *ad, size_t adlen, int form);
void cpps_consume_shared_ba(void *h, unsigned char *out, const void *shared);
void *cpps_ba_new(const unsigned char *d, size_t n);
int cpps_decrypt_shared_ba(void *h, unsigned char *m, const void *shared_ct, const unsigned char *ad, size_t adlen, int form);
int cpps_decrypt_ba(void *h, unsigned char *m, const unsigned char *c, size_t len, const unsigned char *ad, size_t adlen, int form);
size_t cpps_key_size(void *h);
#ifdef __cplusplus
}
#endif
#endif
