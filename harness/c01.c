/* C01: AEAD encryption == ASCON v1.2 for every shape x pattern x entry family.
 * usage: c01 <alg 0..2> <pattern 0..4|walk> <maxlen> <long 0|1> */
#include "hx.h"
#include "api.h"

static int alg, maxlen, do_long;
static uint8_t key[20], nonce[16];

static void one(const uint8_t *ad, size_t adlen, const uint8_t *m, size_t mlen, const char *pat)
{
    size_t clen = mlen + 16;
    uint8_t *exp = hx_buf(clen);
    ref_aead_encrypt(alg, key, nonce, ad, adlen, m, mlen, exp);
    char kb[64];
    /* an empty associated data string is given once as NULL and once as a valid pointer with length 0 */
    for (int nv = 0; nv < (adlen ? 1 : 2); nv++) {
    const uint8_t *adp = adlen ? ad : (nv ? ad : 0);
    for (int entry = 0; entry < 11; entry++) {
        uint8_t *c = hx_buf(clen);
        size_t got = (size_t)-1;
        static const char *en[] = {"oneshot", "incremental", "masked", "cpp", "cpp-masked", "cpp-key-constructor", "cpp-masked-key-constructor", "cpp-re-key", "cpp-masked-re-key", "cpp-byte_array", "cpp-masked-byte_array"};
        if (entry == 0) {
            api_aead_enc[alg](c, &got, m, mlen, adp, adlen, nonce, key);
        } else if (entry == 1) {
            api_inc_state st;
            api_inc_init[alg](&st, nonce, key);
            api_inc_start[alg](&st, adp, adlen);
            api_inc_enc[alg](&st, m, c, mlen);
            api_inc_encfin[alg](&st, c + mlen);
            api_inc_free[alg](&st);
            got = clen;
            /* associated data taken from the object's own public nonce field (start(&st, st.nonce, n)): the data is what the field holds when the call is made */
            if (adlen <= 16 && adlen > 0 && mlen <= 24) {
                uint8_t *c3 = hx_buf(clen), *e3 = hx_buf(clen);
                ref_aead_encrypt(alg, key, nonce, nonce, adlen, m, mlen, e3);
                api_inc_init[alg](&st, nonce, key);
                api_inc_start[alg](&st, api_inc_nonce(alg, &st), adlen);
                api_inc_enc[alg](&st, m, c3, mlen); api_inc_encfin[alg](&st, c3 + mlen); api_inc_free[alg](&st);
                hx_stat("evaluations", 1);
                if (memcmp(c3, e3, clen) != 0 || !hx_buf_ok(c3, clen))
                    hx_fail("encrypt:incremental-ad-is-nonce-field", "alg=%s result with the first %zu bytes of the object's own nonce field as associated data differs from the specification (mlen=%zu pat=%s)", api_alg_name[alg], adlen, mlen, pat);
                hx_free(c3); hx_free(e3);
            }
            /* the same packet in four calls (one of them empty), split points varying with the shape */
            {
                uint8_t *c2 = hx_buf(clen);
                size_t k1 = (adlen * 5 + mlen * 3 + 1) % (mlen + 1), k2 = k1 + (mlen - k1) / 2;
                api_inc_init[alg](&st, nonce, key);
                api_inc_start[alg](&st, adp, adlen);
                api_inc_enc[alg](&st, m, c2, k1);
                api_inc_enc[alg](&st, m + k1, c2 + k1, 0);
                api_inc_enc[alg](&st, m + k1, c2 + k1, k2 - k1);
                api_inc_enc[alg](&st, m + k2, c2 + k2, mlen - k2);
                api_inc_encfin[alg](&st, c2 + mlen);
                api_inc_free[alg](&st);
                hx_stat("evaluations", 1);
                if (memcmp(c2, exp, clen) != 0 || !hx_buf_ok(c2, clen))
                    hx_fail("encrypt:incremental-chunked", "alg=%s split %zu+0+%zu+%zu differs from specification adlen=%zu mlen=%zu pat=%s", api_alg_name[alg], k1, k2 - k1, mlen - k2, adlen, mlen, pat);
                hx_free(c2);
            }
        } else if (entry == 2) {
            api_masked_key mk;
            api_masked_key_init(alg, &mk, key);
            for (size_t q = 0; q < (adlen + mlen) % 3; q++) api_masked_key_randomize(alg, &mk);   /* the key object after 0-2 re-randomisations: same key, other shares */
            api_masked_enc[alg](c, &got, m, mlen, adp, adlen, nonce, &mk);
            api_masked_key_free(alg, &mk);
        } else if (entry >= 9) {
            /* byte_array overloads; the output array arrives empty, shorter, exactly as long as, or longer than the result */
            size_t pre[4] = {0, 5, clen, clen + 23};
            int r = cpp_encrypt_ba(entry - 9, alg, key, nonce, c, m, mlen, adp, adlen, nv ? 2 : 1, pre[(adlen + mlen + (size_t)nv) % 4]);
            got = (size_t)r;
        } else {
            int r = entry < 5 ? cpp_encrypt(entry == 3 ? 0 : 1, alg, key, nonce, c, m, mlen, adp, adlen) : entry < 7 ? cpp_encrypt_ctor(entry == 5 ? 0 : 1, alg, key, nonce, c, m, mlen, adp, adlen) : cpp_encrypt_rekey(entry == 7 ? 0 : 1, alg, key, nonce, c, m, mlen, adp, adlen);
            got = (size_t)r;
        }
        hx_stat("evaluations", 1);
        snprintf(kb, sizeof kb, "encrypt:%s:%s", en[entry], api_alg_name[alg]);
        if (got != clen) hx_fail(kb, "reported length %zu != %zu adlen=%zu mlen=%zu pat=%s", got, clen, adlen, mlen, pat);
        else if (memcmp(c, exp, clen) != 0) {
            size_t i = 0; while (c[i] == exp[i]) i++;
            hx_fail(kb, "output differs from specification at byte %zu adlen=%zu mlen=%zu pat=%s", i, adlen, mlen, pat);
        }
        if (!hx_buf_ok(c, clen)) hx_fail(kb, "wrote outside output buffer adlen=%zu mlen=%zu pat=%s", adlen, mlen, pat);
        hx_free(c);
    }
    }
    /* documented: a NULL key / NULL nonce given to the incremental init or reinit means all-zero; on a used object nothing of the old key or nonce may survive */
    {
        static const uint8_t zk[20], zn[16]; uint8_t *c = hx_buf(clen), *e0 = hx_buf(clen); api_inc_state st;
        for (int v = 0; v < 3; v++) {
            const uint8_t *kk = (v & 1) ? key : 0, *nn = (v & 2) ? nonce : 0;      /* v=0: both NULL, 1: NULL nonce, 2: NULL key */
            ref_aead_encrypt(alg, kk ? kk : zk, nn ? nn : zn, ad, adlen, m, mlen, e0);
            memset(&st, 0xEE, sizeof st);
            if ((adlen + mlen + v) & 1) { api_inc_init[alg](&st, nonce, key); api_inc_start[alg](&st, ad, adlen); api_inc_enc[alg](&st, m, c, mlen); api_inc_reinit[alg](&st, nn, kk); }
            else api_inc_init[alg](&st, nn, kk);
            api_inc_start[alg](&st, adlen ? ad : 0, adlen); api_inc_enc[alg](&st, m, c, mlen); api_inc_encfin[alg](&st, c + mlen); api_inc_free[alg](&st);
            hx_stat("evaluations", 1);
            if (memcmp(c, e0, clen) || !hx_buf_ok(c, clen))
                hx_fail("encrypt:incremental-null-key-or-nonce", "alg=%s %s with %s differs from the specification under the all-zero value adlen=%zu mlen=%zu pat=%s", api_alg_name[alg],
                        ((adlen + mlen + v) & 1) ? "reinit of a used object" : "init of an object on dirty storage", v == 0 ? "NULL key and NULL nonce" : v == 1 ? "NULL nonce" : "NULL key", adlen, mlen, pat);
        }
        hx_free(c); hx_free(e0);
    }
    /* second packet on the same incremental object: the entry point must compute the function under the stored nonce + 1 (128-bit big-endian, carry through 0..5 trailing 0xFF bytes) */
    {
        uint8_t n2[16], n3[16], *c = hx_buf(clen), *e0 = hx_buf(clen), *scratch = hx_buf(clen); api_inc_state st;
        int k = (int)((adlen * 3 + mlen) % 6); memcpy(n2, nonce, 16); for (int i = 0; i < k; i++) n2[15 - i] = 0xff;
        memcpy(n3, n2, 16); for (int i = 15; i >= 0; i--) if (++n3[i]) break;
        ref_aead_encrypt(alg, key, n3, ad, adlen, m, mlen, e0);
        api_inc_init[alg](&st, n2, key); api_inc_start[alg](&st, adlen ? ad : 0, adlen); api_inc_enc[alg](&st, m, scratch, mlen); api_inc_encfin[alg](&st, scratch + mlen);
        api_inc_start[alg](&st, adlen ? ad : 0, adlen); api_inc_enc[alg](&st, m, c, mlen); api_inc_encfin[alg](&st, c + mlen); api_inc_free[alg](&st);
        hx_stat("evaluations", 1);
        if (memcmp(c, e0, clen) || !hx_buf_ok(c, clen)) hx_fail("encrypt:incremental-second-packet", "alg=%s second packet of a session differs from the specification under nonce+1 (%d trailing FF bytes) adlen=%zu mlen=%zu pat=%s", api_alg_name[alg], k, adlen, mlen, pat);
        hx_free(c); hx_free(e0); hx_free(scratch);
    }
    if (adlen + mlen > 0) hx_stat("nontrivial_shapes", 1);
    hx_free(exp);
}

int main(int argc, char **argv)
{
    hx_init();
    if (argc < 5) return 2;
    alg = atoi(argv[1]);
    const char *pat = argv[2];
    maxlen = atoi(argv[3]); do_long = atoi(argv[4]);
    static const size_t longs[] = {255, 256, 257, 1023, 1024, 1025, 4095, 4096, 4097, 65535, 65536, 65537};
    size_t maxbuf = do_long ? 65537 : (size_t)(maxlen < 64 ? 64 : maxlen);
    uint8_t *ad = malloc(maxbuf + 1), *m = malloc(maxbuf + 1);
    int kl = ref_keylen(alg);
    if (!strcmp(pat, "chunks")) {
        /* chunk sizes of the incremental calls around the widths of small counters: a first chunk of p bytes leaves a partial block, then one chunk of L bytes
         * with p + L around 256, 512, 768, 65536 (and small), then a tail; encryption and decryption, against the one-shot specification */
        static const size_t base[] = {0, 256, 512, 768, 1024, 65536, 131072};
        size_t cap = 131072 + 64; uint8_t *mm = malloc(cap), *exp = malloc(cap + 16), *c = malloc(cap + 16), *back = malloc(cap);
        hx_fill(key, kl, 3, 1); hx_fill(nonce, 16, 3, 2); hx_fill(mm, cap, 3, 4); hx_fill(ad, 8, 3, 3);
        long n = 0;
        for (unsigned b = 0; b < (do_long ? 7 : 5); b++) for (size_t p = 0; p <= 17; p++) for (int dl = -20; dl <= 20; dl++) for (size_t tail = 0; tail <= 9; tail += 9) {
            long L = (long)base[b] + dl - (long)p; if (L < 0 || (b == 0 && dl < 0)) continue;
            if (b >= 5 && ((p > 1 && p < 7) || (p > 9 && p < 15) || dl < -9 || dl > 9)) continue;   /* the long ones on a thinner grid */
            size_t mlen = p + (size_t)L + tail, adlen = (p + tail) % 8;
            ref_aead_encrypt(alg, key, nonce, ad, adlen, mm, mlen, exp);
            api_inc_state st;
            api_inc_init[alg](&st, nonce, key); api_inc_start[alg](&st, ad, adlen);
            api_inc_enc[alg](&st, mm, c, p); api_inc_enc[alg](&st, mm + p, c + p, (size_t)L); api_inc_enc[alg](&st, mm + p + L, c + p + L, tail);
            api_inc_encfin[alg](&st, c + mlen); api_inc_free[alg](&st); n++;
            if (memcmp(c, exp, mlen + 16)) hx_fail("encrypt:incremental-chunk-sizes", "alg=%s chunks %zu+%ld+%zu differ from the specification (adlen %zu)", api_alg_name[alg], p, L, tail, adlen);
            api_inc_init[alg](&st, nonce, key); api_inc_start[alg](&st, ad, adlen);
            api_inc_dec[alg](&st, exp, back, p); api_inc_dec[alg](&st, exp + p, back + p, (size_t)L); api_inc_dec[alg](&st, exp + p + L, back + p + L, tail);
            int r = api_inc_decfin[alg](&st, exp + mlen); api_inc_free[alg](&st); n++;
            if (r != 0 || memcmp(back, mm, mlen)) hx_fail("decrypt:incremental-chunk-sizes", "alg=%s chunks %zu+%ld+%zu: result %d / plaintext differs from the specification (adlen %zu)", api_alg_name[alg], p, L, tail, r, adlen);
        }
        hx_stat("evaluations", n); hx_stat("nontrivial", n);
        hx_sample("alg=%s incremental chunk sizes p + L with p in 0..17 and p + L within 20 of 0/256/512/768/1024%s, tails 0/9 (%ld sessions)", api_alg_name[alg], do_long ? "/65536/131072" : "", n);
        hx_finish(); return 0;
    }
    if (strcmp(pat, "walk") != 0) {
        int p = atoi(pat);
        hx_fill(key, kl, p, 1); hx_fill(nonce, 16, p, 2); hx_fill(ad, maxbuf, p, 3); hx_fill(m, maxbuf, p, 4);
        for (int a = 0; a <= maxlen; a++)
            for (int l = 0; l <= maxlen; l++) one(ad, a, m, l, pat);
        if (do_long)
            for (unsigned i = 0; i < sizeof longs / sizeof longs[0]; i++) {
                one(ad, longs[i], m, 9, pat); one(ad, 9, m, longs[i], pat);
                if (i % 3 == 1) one(ad, longs[i], m, longs[i], pat);
            }
        hx_sample("alg=%s pattern=%s adlen,mlen in 0..%d x entries {oneshot,incremental,masked,cpp}%s", api_alg_name[alg], pat, maxlen, do_long ? " + long lengths up to 65537" : "");
    } else {
        /* single-bit walks over key and nonce on a reduced shape set */
        static const int shapes[][2] = {{0, 0}, {1, 1}, {0, 17}, {17, 0}, {8, 16}, {16, 8}, {33, 31}};
        hx_fill(ad, 64, HX_P_DENSE, 3); hx_fill(m, 64, HX_P_DENSE, 4);
        for (int bit = 0; bit < kl * 8 + 128; bit++) {
            memset(key, 0, sizeof key); memset(nonce, 0, sizeof nonce);
            if (bit < kl * 8) key[bit / 8] = (uint8_t)(0x80 >> (bit % 8));
            else nonce[(bit - kl * 8) / 8] = (uint8_t)(0x80 >> (bit % 8));
            for (unsigned s = 0; s < sizeof shapes / sizeof shapes[0]; s++) one(ad, shapes[s][0], m, shapes[s][1], "walk");
        }
        hx_sample("alg=%s single-bit walk over %d key+nonce bits x 7 shapes", api_alg_name[alg], kl * 8 + 128);
    }
    hx_finish();
    return 0;
}
