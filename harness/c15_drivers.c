/* C15, the system-source drivers of the other platforms (Arduino Due, ESP32, STM32 HAL, Windows CryptoAPI, Zephyr csrand / Bluetooth): each driver file is compiled for this
 * host against stand-in platform headers (harness/stubs) whose functions deliver a scripted source: slot k of the source either delivers or fails, per plan.  Oracles, through
 * the public PRNG interface: the status is "working" exactly when no slot consumed by the call failed (the ESP driver cannot see failures and always says working); the output
 * is a function of the delivered data (same plan twice -> same bytes; one flipped delivered bit -> other bytes); on Windows every acquired provider is released exactly once. */
#include <ascon/random.h>
#include <stdio.h>
#include <string.h>
#include <stdint.h>
#include "hx.h"

static unsigned junk;   /* what a FAILING request leaves in the caller's buffer: unspecified by every one of these platforms, so the outputs must not depend on it */
static unsigned slot, polls; static uint64_t fail_mask; static int hit_failure, flip_slot = -1; static unsigned acquires, releases, acquire_fail;
static int slot_fails(unsigned k) { return k < 64 && ((fail_mask >> k) & 1); }
static uint32_t slot_word(unsigned k) { uint32_t w = (uint32_t)(0x9E3779B9u * (k + 1) + 0x7F4A7C15u) ^ (uint32_t)(k << 24); if ((int)k == flip_slot) w ^= 0x00010000u; return w; }
static void fill(unsigned char *b, size_t n) { for (size_t i = 0; i < n; i += 4) { uint32_t w = slot_word(slot + (unsigned)(i / 4) * 131u + 7u); memcpy(b + i, &w, n - i < 4 ? n - i : 4); } if ((int)slot == flip_slot && n) b[n / 2] ^= 4; }
/* Arduino Due */
uint32_t stub_reg_cr, stub_reg_idr;
int stub_due_ready(void) { if (!slot_fails(slot)) return 1; hit_failure = 1; if (++polls >= 100) { polls = 0; slot++; } return 0; }
uint32_t stub_due_data(void) { polls = 0; return slot_word(slot++); }
/* ESP32 */
uint32_t esp_random(void) { return slot_word(slot++); }
/* STM32 HAL */
typedef struct { int instance; } RNG_HandleTypeDef; RNG_HandleTypeDef hrng;
int HAL_RNG_GenerateRandomNumber(RNG_HandleTypeDef *h, uint32_t *x) { (void)h; unsigned k = slot++; if (slot_fails(k)) { hit_failure = 1; *x = 0x01010101u * junk; return 1 + (int)(k % 3); } *x = slot_word(k); return 0; }   /* failures answer HAL_ERROR, HAL_BUSY or HAL_TIMEOUT in turn: the word is left unwritten */
uint32_t HAL_GetTick(void) { return 12345; }
/* Windows CryptoAPI */
int CryptAcquireContextW(uintptr_t *prov, const void *c, const void *p, unsigned long type, unsigned long flags) { (void)c; (void)p; (void)type; (void)flags; if (acquire_fail) { hit_failure = 1; return 0; } acquires++; *prov = 0x1234; return 1; }
int CryptGenRandom(uintptr_t prov, unsigned long len, unsigned char *buf) { (void)prov; unsigned k = slot; if (slot_fails(k)) { slot++; hit_failure = 1; memset(buf, (int)junk, len); return 0; } fill(buf, len); slot++; return 1; }
int CryptReleaseContext(uintptr_t prov, unsigned long flags) { (void)prov; (void)flags; releases++; return 1; }
/* Zephyr */
int sys_csrand_get(void *dst, size_t len) { unsigned k = slot; if (slot_fails(k)) { slot++; hit_failure = 1; memset(dst, (int)junk, len); return -5; } fill(dst, len); slot++; return 0; }
int bt_rand(void *buf, size_t len) { return sys_csrand_get(buf, len); }
/* the non-cryptographic generator next to it: never a substitute for the source the driver is documented to use, and it cannot fail */
void sys_rand_get(void *dst, size_t len) { memset(dst, 0x5C, len); }
uint32_t sys_rand32_get(void) { return 0x5C5C5C5Cu; }

typedef struct { int st[3]; uint8_t out[2][24]; int failed[3]; unsigned slots; } result;
static void scenario(int sc, uint64_t mask, int flip, int afail, result *r)
{
    slot = 0; polls = 0; fail_mask = mask; flip_slot = flip; acquire_fail = afail; memset(r, 0, sizeof *r);
    if (sc == 0) { hit_failure = 0; r->st[0] = ascon_random(r->out[0], 24); r->failed[0] = hit_failure; hit_failure = 0; r->st[1] = ascon_random(r->out[1], 24); r->failed[1] = hit_failure; }
    else { ascon_random_state_t s; hit_failure = 0; r->st[0] = ascon_random_init(&s); r->failed[0] = hit_failure; ascon_random_fetch(&s, r->out[0], 24);
           hit_failure = 0; r->st[1] = ascon_random_reseed(&s); r->failed[1] = hit_failure; ascon_random_fetch(&s, r->out[1], 24); ascon_random_free(&s); }
    r->slots = slot;
}
int main(int argc, char **argv)
{
    hx_init(); const char *drv = argc > 1 ? argv[1] : "?"; int sees_failures = strcmp(drv, "esp") != 0; char kb[64]; snprintf(kb, sizeof kb, "prng:driver:%s", drv);
    for (int sc = 0; sc < 2; sc++) {
        result base, again, r; scenario(sc, 0, -1, 0, &base); scenario(sc, 0, -1, 0, &again); hx_stat("runs", 2);
        if (memcmp(&base, &again, sizeof base)) hx_fail(kb, "scenario %d: two runs over the same source data differ", sc);
        if (!base.st[0] || !base.st[1]) hx_fail(kb, "scenario %d: a healthy source is reported as failed (%d, %d)", sc, base.st[0], base.st[1]);
        if (base.slots < 2) hx_fail(kb, "scenario %d: the source was consulted %u times only", sc, base.slots);
        /* every single failing slot, every pair of adjacent ones, and a source that always fails */
        for (unsigned k = 0; k <= base.slots + 1 && k < 62; k++) for (int two = 0; two < 3; two++) {
            uint64_t mask = two == 2 ? ~(uint64_t)0 : ((uint64_t)1 << k) | (two ? (uint64_t)1 << (k + 1) : 0); if (two == 2 && k) continue;
            result r2; junk = 0xA7; scenario(sc, mask, -1, 0, &r2); junk = 0; scenario(sc, mask, -1, 0, &r); hx_stat("runs", 2); hx_stat("nontrivial", 1);
            if (memcmp(&r, &r2, sizeof r)) hx_fail(kb, "scenario %d with failing source slots %#llx: the results depend on what the failing request left in the buffer", sc, (unsigned long long)mask);
            for (int c = 0; c < 2; c++) { int want = sees_failures ? !r.failed[c] : 1;
                if ((r.st[c] != 0) != want) hx_fail(kb, "scenario %d call %d with failing source slots %#llx: status %d, %s", sc, c, (unsigned long long)mask, r.st[c], r.failed[c] ? "although a request of this call failed" : "although every request of this call was served"); }
        }
        /* influence of every delivered slot */
        for (unsigned k = 0; k < base.slots; k++) { scenario(sc, 0, (int)k, 0, &r); hx_stat("runs", 1);
            if (!memcmp(r.out[1], base.out[1], 24) && !memcmp(r.out[0], base.out[0], 24)) hx_fail(kb, "scenario %d: the data of source slot %u has no influence on any output", sc, k); }
        if (!strcmp(drv, "windows")) { scenario(sc, 0, -1, 1, &r); if (r.st[0] || r.st[1]) hx_fail(kb, "scenario %d: provider cannot be acquired but the status says working", sc); }
    }
    if (!strcmp(drv, "windows") && acquires != releases) hx_fail(kb, "%u providers acquired, %u released", acquires, releases);
    hx_sample("driver %s: statuses under every single / adjacent-pair / total failure of the source slots, determinism, influence of every delivered slot", drv);
    hx_finish();
    return 0;
}
