/* C18 (host part): x86-64 assembly entry points through an ABI-checking trampoline, state between guard pages.
 * usage: c18_host */
#define _GNU_SOURCE
#include "hx.h"
#include "ref.h"
#include <sys/mman.h>
#include <unistd.h>
#include <ascon/permutation.h>
#include "masking/ascon-masked-word.h"
#include "masking/ascon-masked-state.h"

extern void ascon_backend_free(ascon_state_t *state);   /* register-scrubbing entry point of the assembly back end */
struct abi_report { uint64_t rsp_before, rsp_after; };
uint64_t abi_call(void *fn, void *a1, void *a2, void *a3, void *a4, struct abi_report *rep);
static const char *bits(uint64_t m) { static char b[128]; b[0] = 0; const char *n[] = {"rbx", "rbp", "r12", "r13", "r14", "r15", "rsp", "direction-flag", "write-above-return-address"}; for (int i = 0; i < 9; i++) if (m & (1u << i)) { strcat(b, n[i]); strcat(b, " "); } return b; }
static long ncalls;
static void chk(const char *fn, uint64_t m) { ncalls++; if (m) { char kb[96]; snprintf(kb, sizeof kb, "abi:%s", fn); hx_fail(kb, "not preserved across the call: %s", bits(m)); } }
static void setbit(uint8_t b[40], int bit) { b[bit / 8] ^= (uint8_t)(0x80 >> (bit % 8)); }

int main(void)
{
    hx_init();
    long PG = sysconf(_SC_PAGESIZE);
    uint8_t *region = mmap(0, 4 * PG, PROT_READ | PROT_WRITE, MAP_PRIVATE | MAP_ANONYMOUS, -1, 0);
    mprotect(region, PG, PROT_NONE); mprotect(region + 3 * PG, PG, PROT_NONE);
    struct abi_report rep; ascon_trng_state_t trng; ascon_trng_init(&trng);
    /* plain permutation: state flush against the trailing guard page, then against the leading one */
    for (int pos = 0; pos < 2; pos++) {
        ascon_state_t *st = (ascon_state_t *)(pos ? region + PG : region + 3 * PG - sizeof(ascon_state_t));
        for (int r = 0; r < 12; r++) for (int i = -1; i < 320; i += (i < 0 ? 1 : 7)) {
            uint8_t in[40], exp[40], got[40]; memset(in, 0, 40); if (i >= 0) { setbit(in, i); setbit(in, (i * 13 + 5) % 320); } else hx_fill(in, 40, HX_P_DENSE, r);
            ascon_init(st); ascon_overwrite_bytes(st, in, 0, 40);
            chk("ascon_permute", abi_call((void *)ascon_permute, st, (void *)(uintptr_t)r, 0, 0, &rep));
            { uint8_t raw[sizeof(ascon_state_t)]; memcpy(raw, st, sizeof raw); chk("ascon_backend_free", abi_call((void *)ascon_backend_free, st, 0, 0, 0, &rep));
              if (memcmp(raw, st, sizeof raw)) hx_fail("abi:ascon_backend_free:value", "ascon_backend_free modified the state memory"); }
            ascon_extract_bytes(st, got, 0, 40); ascon_free(st); memcpy(exp, in, 40); ref_permute(exp, r);
            if (memcmp(got, exp, 40)) hx_fail("abi:ascon_permute:value", "result differs from the specification (first_round %d)", r);
        }
        /* masked permutations */
        ascon_masked_state_t *ms = (ascon_masked_state_t *)(pos ? region + PG : region + 3 * PG - sizeof(ascon_masked_state_t));
        uint64_t preserve[4] = {11, 22, 33, 44};
        for (int r = 0; r < 12; r++) for (int d = 0; d < 6; d++) {
            uint8_t in[40], exp[40], got[40]; hx_fill(in, 40, HX_P_DENSE, 100 + d + r); ascon_state_t pl, o; ascon_init(&pl); ascon_overwrite_bytes(&pl, in, 0, 40);
            memcpy(exp, in, 40); ref_permute(exp, r);
#define MP(N) do { ascon_x##N##_copy_from_x1(ms, &pl, &trng); chk("ascon_x" #N "_permute", abi_call((void *)ascon_x##N##_permute, ms, (void *)(uintptr_t)r, preserve, 0, &rep)); \
              ascon_x##N##_copy_to_x1(&o, ms); ascon_extract_bytes(&o, got, 0, 40); ascon_free(&o); if (memcmp(got, exp, 40)) hx_fail("abi:ascon_x" #N "_permute:value", "unmasked result differs from the specification (first_round %d)", r); } while (0)
            MP(2);
#if ASCON_MASKED_MAX_SHARES >= 3
            MP(3);
#endif
#if ASCON_MASKED_MAX_SHARES >= 4
            MP(4);
#endif
            ascon_free(&pl);
        }
        /* masked word assembly functions: word object against the guard page */
        ascon_masked_word_t *w = (ascon_masked_word_t *)(pos ? region + PG : region + 3 * PG - sizeof(ascon_masked_word_t)); ascon_masked_word_t w2; uint8_t data[8] = {1, 2, 3, 4, 5, 6, 7, 8}, out[8];
#define WCALL(name, a1, a2, a3, a4) chk(#name, abi_call((void *)name, (void *)(a1), (void *)(uintptr_t)(a2), (void *)(uintptr_t)(a3), (void *)(uintptr_t)(a4), &rep))
#define WSET(N) do { WCALL(ascon_masked_word_x##N##_zero, w, &trng, 0, 0); WCALL(ascon_masked_word_x##N##_load, w, data, &trng, 0); WCALL(ascon_masked_word_x##N##_load_32, w, data, data + 4, &trng); \
        for (unsigned sz = 1; sz <= 7; sz++) { WCALL(ascon_masked_word_x##N##_load_partial, w, data, sz, &trng); WCALL(ascon_masked_word_x##N##_store_partial, out, sz, w, 0); if (memcmp(out, data, sz)) hx_fail("abi:masked_word_x" #N ":value", "load_partial/store_partial(%u)", sz); } \
        WCALL(ascon_masked_word_x##N##_load, w, data, &trng, 0); WCALL(ascon_masked_word_x##N##_store, out, w, 0, 0); if (memcmp(out, data, 8)) hx_fail("abi:masked_word_x" #N ":value", "load/store"); \
        WCALL(ascon_masked_word_x##N##_randomize, w, w, &trng, 0); WCALL(ascon_masked_word_x##N##_load, &w2, data, &trng, 0); WCALL(ascon_masked_word_x##N##_xor, w, &w2, 0, 0); WCALL(ascon_masked_word_x##N##_replace, w, &w2, 3, 0); } while (0)
        WSET(2);
#if ASCON_MASKED_MAX_SHARES >= 3
        WSET(3); WCALL(ascon_masked_word_x2_from_x3, w, w, &trng, 0); WCALL(ascon_masked_word_x3_from_x2, w, w, &trng, 0);
#endif
#if ASCON_MASKED_MAX_SHARES >= 4
        WSET(4); WCALL(ascon_masked_word_x3_from_x4, w, w, &trng, 0); WCALL(ascon_masked_word_x4_from_x3, w, w, &trng, 0); WCALL(ascon_masked_word_x2_from_x4, w, w, &trng, 0); WCALL(ascon_masked_word_x4_from_x2, w, w, &trng, 0);
#endif
        WCALL(ascon_masked_word_pad, w, 5, 0, 0); WCALL(ascon_masked_word_separator, w, 0, 0, 0);
    }
    hx_stat("evaluations", ncalls); hx_stat("nontrivial", ncalls);
    hx_sample("x86-64 host: %ld calls of assembly entry points through the ABI trampoline (callee-saved registers, rsp, DF, canaries above the return address), objects flush against guard pages", ncalls);
    hx_finish();
    return 0;
}
