/* Lengths at and beyond 2^32: every one-shot / single-call function taking a size_t length is run once with a
 * length of 2^32 + 40 (and the incremental block functions with one such call) and compared with a streaming
 * fast reference.  The fast reference (64-bit words, algebraic normal form of the S-box) is independent of the
 * library and is itself checked against the table-S-box reference ref.c on random states at start-up.
 * The input is a 16 MiB pattern mapped repeatedly (little real memory); the output buffer is real.
 * usage: huge <what> [length]    what: aead:<alg> aead-ad:<alg> inc:<alg> masked:<alg> siv:<alg> siv-ad:<alg> isap:<alg> isap-ad:<alg> hash ... (default length 2^32 + 40)
 *                              hash:<a> xof-in:<a> xof-out:<a> prf-in prf-out hmac:<a> kmac:<a> masked:<alg> */
#define _GNU_SOURCE
#include "hx.h"
#include "api.h"
#include <sys/mman.h>
#include <unistd.h>
#include <ascon/hash.h>
#include <ascon/xof.h>
#include <ascon/kdf.h>
#include <ascon/pbkdf2.h>
#include <ascon/hkdf.h>
#include <ascon/prf.h>
#include <ascon/hmac.h>
#include <ascon/kmac.h>

#define HUGE_LEN ((((size_t)1) << 32) + 40)
#define PAT (16 * 1024 * 1024)

/* ---------- fast reference permutation ---------- */
typedef struct { uint64_t x[5]; } fst;
static inline uint64_t ror(uint64_t v, int n) { return (v >> n) | (v << (64 - n)); }
static void fperm(fst *s, int first)
{
    uint64_t x0 = s->x[0], x1 = s->x[1], x2 = s->x[2], x3 = s->x[3], x4 = s->x[4], t0, t1, t2, t3, t4;
    for (int r = first; r < 12; r++) {
        x2 ^= (uint64_t)(((0xf - r) << 4) | r);
        x0 ^= x4; x4 ^= x3; x2 ^= x1;
        t0 = ~x0 & x1; t1 = ~x1 & x2; t2 = ~x2 & x3; t3 = ~x3 & x4; t4 = ~x4 & x0;
        x0 ^= t1; x1 ^= t2; x2 ^= t3; x3 ^= t4; x4 ^= t0;
        x1 ^= x0; x0 ^= x4; x3 ^= x2; x2 = ~x2;
        x0 ^= ror(x0, 19) ^ ror(x0, 28); x1 ^= ror(x1, 61) ^ ror(x1, 39); x2 ^= ror(x2, 1) ^ ror(x2, 6); x3 ^= ror(x3, 10) ^ ror(x3, 17); x4 ^= ror(x4, 7) ^ ror(x4, 41);
    }
    s->x[0] = x0; s->x[1] = x1; s->x[2] = x2; s->x[3] = x3; s->x[4] = x4;
}
static uint64_t ldbe(const uint8_t *p) { uint64_t v = 0; for (int i = 0; i < 8; i++) v = (v << 8) | p[i]; return v; }
static void stbe(uint8_t *p, uint64_t v) { for (int i = 7; i >= 0; i--) { p[i] = (uint8_t)v; v >>= 8; } }
static void f_from(fst *s, const uint8_t b[40]) { for (int i = 0; i < 5; i++) s->x[i] = ldbe(b + 8 * i); }
static void f_to(const fst *s, uint8_t b[40]) { for (int i = 0; i < 5; i++) stbe(b + 8 * i, s->x[i]); }
static void f_xor_bytes(fst *s, size_t off, const uint8_t *d, size_t n) { uint8_t b[40]; f_to(s, b); for (size_t i = 0; i < n; i++) b[off + i] ^= d[i]; f_from(s, b); }
static void selfcheck(void)
{
    for (int t = 0; t < 2000; t++) { uint8_t a[40], b[40]; hx_fill(a, 40, t & 1 ? HX_P_DENSE : HX_P_DENSE2, 5000 + t); memcpy(b, a, 40); int r = t % 12;
        fst s; f_from(&s, a); fperm(&s, r); f_to(&s, a); ref_permute(b, r); if (memcmp(a, b, 40)) { printf("HARNESS-ERROR fast reference permutation disagrees with ref.c\n"); exit(3); } }
}

/* ---------- streaming fast reference modes (data supplied by get(i) = byte i of the repeated pattern) ---------- */
static const uint8_t *PATTERN;            /* PAT bytes */
static inline uint8_t inb(size_t i) { return PATTERN[i & (PAT - 1)]; }
static void absorb_stream(fst *s, int rate, int rounds, size_t len, int final_permute)
{   /* absorbs len pattern bytes + 0x80 padding, permuting after every full block (and after the padded block if requested) */
    size_t i = 0;
    while (len - i >= (size_t)rate) { for (int w = 0; w < rate / 8; w++) s->x[w] ^= ldbe(PATTERN + ((i + 8 * w) & (PAT - 1))); fperm(s, 12 - rounds); i += rate; }
    uint8_t last[32]; size_t rem = len - i; memset(last, 0, sizeof last); for (size_t k = 0; k < rem; k++) last[k] = inb(i + k); last[rem] = 0x80;
    f_xor_bytes(s, 0, last, rem + 1);
    if (final_permute) fperm(s, 12 - rounds);
}
static void aead_setup(int alg, int ivor, const uint8_t *k, const uint8_t *n, fst *s)
{
    uint8_t b[40]; int kl = ref_keylen(alg); memset(b, 0, 40);
    if (alg == 0) { b[0] = 0x80; b[1] = 0x40; b[2] = 0x0c; b[3] = 0x06; memcpy(b + 8, k, 16); memcpy(b + 24, n, 16); }
    else if (alg == 1) { b[0] = 0x80; b[1] = 0x80; b[2] = 0x0c; b[3] = 0x08; memcpy(b + 8, k, 16); memcpy(b + 24, n, 16); }
    else { b[0] = 0xa0; b[1] = 0x40; b[2] = 0x0c; b[3] = 0x06; memcpy(b + 4, k, 20); memcpy(b + 24, n, 16); }
    b[0] |= (uint8_t)ivor; f_from(s, b); fperm(s, 0); f_xor_bytes(s, 40 - kl, k, kl);
}
static void aead_fin(int alg, fst *s, const uint8_t *k, uint8_t tag[16])
{
    int kl = ref_keylen(alg), rate = ref_rate(alg); uint8_t b[40];
    f_xor_bytes(s, rate, k, kl); fperm(s, 0); f_to(s, b); for (int i = 0; i < 16; i++) tag[i] = b[24 + i] ^ k[kl - 16 + i];
}
/* compares the library's ciphertext (out, mlen bytes + tag) with the streaming reference; returns first mismatch offset or -1 */
static long long aead_check(int alg, int siv_stream, const uint8_t *k, const uint8_t *n_or_tag, size_t adlen, size_t mlen, const uint8_t *out, uint8_t tag[16])
{
    int rate = ref_rate(alg), b = alg == 1 ? 8 : 6; fst s; size_t i = 0;
    if (siv_stream) {
        aead_setup(alg, 2, k, n_or_tag, &s);
        while (i < mlen) { fperm(&s, 12 - b); uint8_t ks[16]; stbe(ks, s.x[0]); if (rate == 16) stbe(ks + 8, s.x[1]); size_t t = mlen - i < (size_t)rate ? mlen - i : (size_t)rate;
            for (size_t q = 0; q < t; q++) if ((uint8_t)(inb(i + q) ^ ks[q]) != out[i + q]) return (long long)(i + q); i += t; }
        return -1;
    }
    aead_setup(alg, 0, k, n_or_tag, &s);
    if (adlen) absorb_stream(&s, rate, b, adlen, 1);
    s.x[4] ^= 1;
    while (mlen - i >= (size_t)rate) {
        for (int w = 0; w < rate / 8; w++) { s.x[w] ^= ldbe(PATTERN + ((i + 8 * w) & (PAT - 1))); if (s.x[w] != ldbe(out + i + 8 * w)) return (long long)(i + 8 * w); }
        fperm(&s, 12 - b); i += rate;
    }
    { uint8_t last[32]; size_t rem = mlen - i; memset(last, 0, sizeof last); for (size_t q = 0; q < rem; q++) last[q] = inb(i + q); last[rem] = 0x80; f_xor_bytes(&s, 0, last, rem + 1);
      uint8_t sb[40]; f_to(&s, sb); for (size_t q = 0; q < rem; q++) if (sb[q] != out[i + q]) return (long long)(i + q); }
    aead_fin(alg, &s, k, tag);
    return memcmp(tag, out + mlen, 16) ? (long long)mlen : -1;
}
static void siv_tag(int alg, const uint8_t *k, const uint8_t *n, size_t adlen, size_t mlen, uint8_t tag[16])
{
    int rate = ref_rate(alg), b = alg == 1 ? 8 : 6; fst s; aead_setup(alg, 1, k, n, &s);
    if (adlen) absorb_stream(&s, rate, b, adlen, 1);
    s.x[4] ^= 1; absorb_stream(&s, rate, b, mlen, 0); aead_fin(alg, &s, k, tag);
}
static void hash_ref(int a, size_t declared_bits_is_hash, size_t len, uint8_t *out, size_t outlen_small)
{
    uint8_t b[40]; memset(b, 0, 40); b[1] = 0x40; b[2] = 0x0c; b[3] = a ? 4 : 0; if (declared_bits_is_hash) { b[6] = 1; }
    fst s; f_from(&s, b); fperm(&s, 0); int rb = a ? 8 : 12;
    absorb_stream(&s, 8, rb, len, 0); fperm(&s, 0);
    for (size_t i = 0; i < outlen_small; i += 8) { uint8_t w[8]; stbe(w, s.x[0]); memcpy(out + i, w, outlen_small - i < 8 ? outlen_small - i : 8); if (i + 8 < outlen_small) fperm(&s, 12 - rb); }
}

static uint8_t *map_pattern(size_t len)
{   /* len bytes of virtual memory backed by one 16 MiB pattern file */
    int fd = memfd_create("pat", 0); uint8_t *pat = malloc(PAT); for (size_t i = 0; i < PAT; i++) pat[i] = (uint8_t)((i * 2654435761u) >> 13 ^ (i >> 5)); if (write(fd, pat, PAT) != PAT) exit(3); free(pat);
    size_t total = (len + PAT) & ~(size_t)(PAT - 1); uint8_t *base = mmap(0, total, PROT_NONE, MAP_PRIVATE | MAP_ANONYMOUS | MAP_NORESERVE, -1, 0);
    if (base == MAP_FAILED) { printf("HARNESS-ERROR cannot reserve %zu bytes\n", total); exit(3); }
    for (size_t o = 0; o < total; o += PAT) if (mmap(base + o, PAT, PROT_READ, MAP_SHARED | MAP_FIXED, fd, 0) == MAP_FAILED) { printf("HARNESS-ERROR mmap pattern\n"); exit(3); }
    PATTERN = base; return base;
}

int main(int argc, char **argv)
{
    hx_init(); selfcheck();
    if (argc < 2) return 2;
    char what[32]; snprintf(what, sizeof what, "%s", argv[1]); char *colon = strchr(what, ':'); int arg = 0; if (colon) { *colon = 0; arg = atoi(colon + 1); }
    size_t L = argc > 2 ? strtoull(argv[2], 0, 0) : HUGE_LEN;
    uint8_t *in = map_pattern(L + 64);
    uint8_t key[20], nonce[16], tag[16]; hx_fill(key, 20, HX_P_DENSE, 1); hx_fill(nonce, 16, HX_P_DENSE, 2);
    char kb[64]; snprintf(kb, sizeof kb, "huge-length:%s", argv[1]);
    size_t cl = 0;
    if (!strcmp(what, "aead") || !strcmp(what, "inc") || !strcmp(what, "masked")) {
        uint8_t *out = malloc(L + 16 + 64); memset(out + L + 16, 0xC5, 64);
        if (!out) { printf("HARNESS-ERROR out of memory\n"); return 3; }
        if (!strcmp(what, "aead")) api_aead_enc[arg](out, &cl, in, L, in, 13, nonce, key);
        else if (!strcmp(what, "masked")) { api_masked_key mk; api_masked_key_init(arg, &mk, key); api_masked_enc[arg](out, &cl, in, L, in, 13, nonce, &mk); api_masked_key_free(arg, &mk); }
        else { api_inc_state st; api_inc_init[arg](&st, nonce, key); api_inc_start[arg](&st, in, 13); api_inc_enc[arg](&st, in, out, 5); api_inc_enc[arg](&st, in + 5, out + 5, L - 5); api_inc_encfin[arg](&st, out + L); api_inc_free[arg](&st); cl = L + 16; }
        long long bad = aead_check(arg, 0, key, nonce, 13, L, out, tag);
        if (cl != L + 16) hx_fail(kb, "reported length %zu for a %zu-byte message", cl, L);
        if (bad >= 0) hx_fail(kb, "output differs from the specification at byte %lld of a %zu-byte message (2^32 = 4294967296)", bad, L);
        for (int i = 0; i < 64; i++) if (out[L + 16 + i] != 0xC5) { hx_fail(kb, "wrote beyond the output"); break; }
        /* decrypt in place and compare with the input */
        if (!strcmp(what, "aead") && bad < 0) { size_t ml = 0; int r = api_aead_dec[arg](out, &ml, out, L + 16, in, 13, nonce, key);
            if (r != 0 || ml != L) hx_fail(kb, "decryption of the %zu-byte message fails (%d)", L, r);
            else for (size_t i = 0; i < L; i += 1) if (out[i] != in[i]) { hx_fail(kb, "in-place decryption differs from the plaintext at byte %zu", i); break; } }
        free(out);
    } else if (!strcmp(what, "aead-ad")) {
        uint8_t out[64]; api_aead_enc[arg](out, &cl, in, 9, in, L, nonce, key);
        long long bad = aead_check(arg, 0, key, nonce, L, 9, out, tag);
        if (bad >= 0) hx_fail(kb, "output differs from the specification for %zu bytes of associated data", L);
        /* a packet made under L bytes of associated data must be rejected under its first L mod 2^32 bytes and under L-1 bytes */
        { uint8_t pt[16]; size_t ml = 0; if (api_aead_dec[arg](pt, &ml, out, 25, in, L, nonce, key) != 0) hx_fail(kb, "genuine packet with %zu bytes of associated data rejected", L);
          if (L > 0xffffffffu && api_aead_dec[arg](pt, &ml, out, 25, in, L & 0xffffffffu, nonce, key) == 0) hx_fail(kb, "packet accepted under the first %zu of %zu bytes of associated data", L & 0xffffffffu, L);
          if (api_aead_dec[arg](pt, &ml, out, 25, in, L - 1, nonce, key) == 0) hx_fail(kb, "packet accepted under %zu of %zu bytes of associated data", L - 1, L); }
    } else if (!strcmp(what, "masked-ad")) {
        uint8_t out[64], pt[16]; size_t ml = 0; api_masked_key mk; api_masked_key_init(arg, &mk, key);
        api_masked_enc[arg](out, &cl, in, 9, in, L, nonce, &mk);
        long long bad = aead_check(arg, 0, key, nonce, L, 9, out, tag);
        if (bad >= 0) hx_fail(kb, "masked output differs from the specification for %zu bytes of associated data", L);
        if (api_masked_dec[arg](pt, &ml, out, 25, in, L, nonce, &mk) != 0) hx_fail(kb, "masked decryption rejects the genuine packet with %zu bytes of associated data", L);
        if (L > 0xffffffffu && api_masked_dec[arg](pt, &ml, out, 25, in, L & 0xffffffffu, nonce, &mk) == 0) hx_fail(kb, "masked decryption accepts the packet under the first %zu of %zu bytes of associated data", L & 0xffffffffu, L);
        if (api_masked_dec[arg](pt, &ml, out, 25, in, L - 1, nonce, &mk) == 0) hx_fail(kb, "masked decryption accepts the packet under %zu of %zu bytes of associated data", L - 1, L);
        api_masked_key_free(arg, &mk);
    } else if (!strcmp(what, "siv-ad")) {
        uint8_t out[64], pt[16]; size_t ml = 0; api_siv_enc[arg](out, &cl, in, 9, in, L, nonce, key);
        siv_tag(arg, key, nonce, L, 9, tag);
        if (cl != 25 || memcmp(out + 9, tag, 16)) hx_fail(kb, "SIV tag differs from the documented construction for %zu bytes of associated data", L);
        if (api_siv_dec[arg](pt, &ml, out, 25, in, L, nonce, key) != 0) hx_fail(kb, "genuine packet with %zu bytes of associated data rejected", L);
        if (L > 0xffffffffu && api_siv_dec[arg](pt, &ml, out, 25, in, L & 0xffffffffu, nonce, key) == 0) hx_fail(kb, "packet accepted under the first %zu of %zu bytes of associated data", L & 0xffffffffu, L);
        if (api_siv_dec[arg](pt, &ml, out, 25, in, L - 1, nonce, key) == 0) hx_fail(kb, "packet accepted under %zu of %zu bytes of associated data", L - 1, L);
    } else if (!strcmp(what, "isap-ad")) {
        /* no streaming reference for the ISAP MAC: the tag must depend on all of the associated data (prefix and L-1 variants rejected, tag differs from the prefix's tag) */
        uint8_t out[64], o2[64], pt[16]; size_t ml = 0; api_isap_key pk; api_isap_init[arg](&pk, key);
        api_isap_enc[arg](out, &cl, in, 9, in, L, nonce, &pk);
        if (cl != 25) hx_fail(kb, "reported length %zu", cl);
        if (api_isap_dec[arg](pt, &ml, out, 25, in, L, nonce, &pk) != 0 || ml != 9 || memcmp(pt, in, 9)) hx_fail(kb, "genuine packet with %zu bytes of associated data rejected", L);
        if (L > 0xffffffffu) { api_isap_enc[arg](o2, &cl, in, 9, in, L & 0xffffffffu, nonce, &pk); if (!memcmp(out + 9, o2 + 9, 16)) hx_fail(kb, "tag for %zu bytes of associated data equals the tag for its first %zu bytes", L, L & 0xffffffffu);
          if (api_isap_dec[arg](pt, &ml, out, 25, in, L & 0xffffffffu, nonce, &pk) == 0) hx_fail(kb, "packet accepted under the first %zu of %zu bytes of associated data", L & 0xffffffffu, L); }
        if (api_isap_dec[arg](pt, &ml, out, 25, in, L - 1, nonce, &pk) == 0) hx_fail(kb, "packet accepted under %zu of %zu bytes of associated data", L - 1, L);
        api_isap_free[arg](&pk);
    } else if (!strcmp(what, "siv")) {
        uint8_t *out = malloc(L + 16 + 64); memset(out + L + 16, 0xC5, 64);
        api_siv_enc[arg](out, &cl, in, L, in, 13, nonce, key);
        siv_tag(arg, key, nonce, 13, L, tag);
        if (cl != L + 16) hx_fail(kb, "reported length %zu", cl);
        if (memcmp(out + L, tag, 16)) hx_fail(kb, "SIV tag differs from the documented construction for a %zu-byte message", L);
        long long bad = aead_check(arg, 1, key, tag, 0, L, out, 0);
        if (bad >= 0) hx_fail(kb, "ciphertext differs from the keystream pass at byte %lld of a %zu-byte message (2^32 = 4294967296)", bad, L);
        if (bad < 0) { size_t ml = 0; int r = api_siv_dec[arg](out, &ml, out, L + 16, in, 13, nonce, key); if (r != 0 || ml != L) hx_fail(kb, "decryption fails (%d)", r); else for (size_t i = 0; i < L; i++) if (out[i] != in[i]) { hx_fail(kb, "in-place decryption differs at byte %zu", i); break; } }
        free(out);
    } else if (!strcmp(what, "isap")) {
        /* structural oracle: keystream positions are independent of the length, so the first 2^32 bytes must equal those of the
         * library's own encryption of the first 64 KiB repeated?  No: compare a short prefix and the tail against the reference of
         * the same function applied to shorter inputs is not possible for the tag; use round trip + prefix + tail-not-prefill. */
        uint8_t *out = malloc(L + 16 + 64); memset(out, 0xA7, L + 16 + 64); api_isap_key pk; api_isap_init[arg](&pk, key);
        api_isap_enc[arg](out, &cl, in, L, in, 13, nonce, &pk);
        uint8_t *small = malloc(70000); size_t scl; api_isap_enc[arg](small, &scl, in, 65536, in, 13, nonce, &pk);
        if (cl != L + 16) hx_fail(kb, "reported length %zu", cl);
        if (memcmp(out, small, 65536)) hx_fail(kb, "first 64 KiB of the ciphertext differ from the encryption of the 64 KiB prefix (the keystream does not depend on the length)");
        size_t same = 0; for (size_t i = L - 64; i < L; i++) if (out[i] == 0xA7) same++; if (same > 8) hx_fail(kb, "the last bytes of the %zu-byte ciphertext were not written", L);
        size_t ml = 0; int r = api_isap_dec[arg](out, &ml, out, L + 16, in, 13, nonce, &pk);
        if (r != 0 || ml != L) hx_fail(kb, "decryption of the %zu-byte message fails (%d)", L, r); else for (size_t i = 0; i < L; i++) if (out[i] != in[i]) { hx_fail(kb, "round trip differs at byte %zu", i); break; }
        api_isap_free[arg](&pk); free(out); free(small);
    } else if (!strcmp(what, "hash")) {
        uint8_t o[32], e[32]; if (arg) ascon_hasha(o, in, L); else ascon_hash(o, in, L); hash_ref(arg, 1, L, e, 32);
        if (memcmp(o, e, 32)) hx_fail(kb, "digest of a %zu-byte message differs from the specification", L);
        union { ascon_hash_state_t h; ascon_hasha_state_t ha; } st; memset(o, 0, 32);
        if (arg) { ascon_hasha_init(&st.ha); ascon_hasha_update(&st.ha, in, 3); ascon_hasha_update(&st.ha, in + 3, L - 3); ascon_hasha_finalize(&st.ha, o); } else { ascon_hash_init(&st.h); ascon_hash_update(&st.h, in, 3); ascon_hash_update(&st.h, in + 3, L - 3); ascon_hash_finalize(&st.h, o); }
        if (memcmp(o, e, 32)) hx_fail(kb, "incremental digest (3 + %zu bytes) differs from the specification", L - 3);
        if (L > 0xffffffffu) {   /* a pending partial block of c bytes, then ONE call of 2^32 + d bytes with d smaller than what the block still lacks (the low 32 bits alone would fit) */
            size_t c = 3, n2 = ((size_t)1 << 32) + 2; memset(o, 0, 32);
            if (arg) { ascon_hasha_init(&st.ha); ascon_hasha_update(&st.ha, in, c); ascon_hasha_update(&st.ha, in + c, n2); ascon_hasha_finalize(&st.ha, o); } else { ascon_hash_init(&st.h); ascon_hash_update(&st.h, in, c); ascon_hash_update(&st.h, in + c, n2); ascon_hash_finalize(&st.h, o); }
            hash_ref(arg, 1, c + n2, e, 32); if (memcmp(o, e, 32)) hx_fail(kb, "incremental digest (%zu + %zu bytes) differs from the specification", c, n2);
        }
    } else if (!strcmp(what, "xof-in")) {
        uint8_t o[40], e[40]; union { ascon_xof_state_t x; ascon_xofa_state_t xa; } st;
        if (L > 0xffffffffu) {
            size_t c = 7, n2 = ((size_t)1 << 32);
            if (arg) { ascon_xofa_init(&st.xa); ascon_xofa_absorb(&st.xa, in, c); ascon_xofa_absorb(&st.xa, in + c, n2); ascon_xofa_squeeze(&st.xa, o, 40); } else { ascon_xof_init(&st.x); ascon_xof_absorb(&st.x, in, c); ascon_xof_absorb(&st.x, in + c, n2); ascon_xof_squeeze(&st.x, o, 40); }
            hash_ref(arg, 0, c + n2, e, 40); if (memcmp(o, e, 40)) hx_fail(kb, "XOF of %zu + %zu bytes (two calls) differs from the specification", c, n2);
        }
        if (arg) { ascon_xofa_init(&st.xa); ascon_xofa_absorb(&st.xa, in, L); ascon_xofa_squeeze(&st.xa, o, 40); } else { ascon_xof_init(&st.x); ascon_xof_absorb(&st.x, in, L); ascon_xof_squeeze(&st.x, o, 40); }
        hash_ref(arg, 0, L, e, 40); if (memcmp(o, e, 40)) hx_fail(kb, "XOF of a %zu-byte message differs from the specification", L);
    } else if (!strcmp(what, "xof-out")) {
        uint8_t *out = malloc(L + 64); memset(out + L, 0xC5, 64); union { ascon_xof_state_t x; ascon_xofa_state_t xa; } st;
        if (arg) { ascon_xofa_init(&st.xa); ascon_xofa_absorb(&st.xa, in, 9); ascon_xofa_squeeze(&st.xa, out, 5); ascon_xofa_squeeze(&st.xa, out + 5, L - 5); } else { ascon_xof_init(&st.x); ascon_xof_absorb(&st.x, in, 9); ascon_xof_squeeze(&st.x, out, 5); ascon_xof_squeeze(&st.x, out + 5, L - 5); }
        uint8_t b[40]; memset(b, 0, 40); b[1] = 0x40; b[2] = 0x0c; b[3] = arg ? 4 : 0; fst s; f_from(&s, b); fperm(&s, 0); int rb = arg ? 8 : 12; absorb_stream(&s, 8, rb, 9, 0); fperm(&s, 0);
        for (size_t i = 0; i < L; i += 8) { uint8_t w[8]; stbe(w, s.x[0]); size_t t = L - i < 8 ? L - i : 8; if (memcmp(out + i, w, t)) { hx_fail(kb, "XOF output differs from the specification at byte %zu of %zu", i, L); break; } fperm(&s, 12 - rb); }
        for (int i = 0; i < 64; i++) if (out[L + i] != 0xC5) { hx_fail(kb, "wrote beyond the output"); break; }
        free(out);
    } else if (!strcmp(what, "prf-in") || !strcmp(what, "prf-out")) {
        uint8_t b[40]; memset(b, 0, 40); b[0] = 0x80; b[1] = 0x80; b[2] = 0x8c; memcpy(b + 8, key, 16); fst s; f_from(&s, b); fperm(&s, 0);
        size_t inl = !strcmp(what, "prf-in") ? L : 9, outl = !strcmp(what, "prf-in") ? 40 : L;
        uint8_t *out = malloc(outl + 64); memset(out + outl, 0xC5, 64);
        ascon_prf(out, outl, in, inl, key);
        { size_t i = 0; while (inl - i >= 32) { for (int w = 0; w < 4; w++) s.x[w] ^= ldbe(PATTERN + ((i + 8 * w) & (PAT - 1))); fperm(&s, 0); i += 32; }
          uint8_t last[40]; size_t rem = inl - i; memset(last, 0, 40); for (size_t q = 0; q < rem; q++) last[q] = inb(i + q); last[rem] = 0x80; f_xor_bytes(&s, 0, last, rem + 1); s.x[4] ^= 1; }
        for (size_t i = 0; i < outl; i += 16) { fperm(&s, 0); uint8_t w[16]; stbe(w, s.x[0]); stbe(w + 8, s.x[1]); size_t t = outl - i < 16 ? outl - i : 16; if (memcmp(out + i, w, t)) { hx_fail(kb, "PRF output differs from the specification at byte %zu (inlen %zu, outlen %zu)", i, inl, outl); break; } }
        for (int i = 0; i < 64; i++) if (out[outl + i] != 0xC5) { hx_fail(kb, "wrote beyond the output"); break; }
        free(out);
    } else if (!strcmp(what, "hmac") || !strcmp(what, "kmac")) {
        /* oracle: the incremental interface fed in 1 GiB calls (each below 2^32) must equal the single call */
        uint8_t o1[32], o2[32];
        if (!strcmp(what, "hmac")) {
            if (arg) { ascon_hmaca(o1, key, 20, in, L); ascon_hmaca_state_t st; ascon_hmaca_init(&st, key, 20); for (size_t i = 0; i < L; i += (size_t)1 << 30) ascon_hmaca_update(&st, in + i, L - i < ((size_t)1 << 30) ? L - i : (size_t)1 << 30); ascon_hmaca_finalize(&st, key, 20, o2); }
            else { ascon_hmac(o1, key, 20, in, L); ascon_hmac_state_t st; ascon_hmac_init(&st, key, 20); for (size_t i = 0; i < L; i += (size_t)1 << 30) ascon_hmac_update(&st, in + i, L - i < ((size_t)1 << 30) ? L - i : (size_t)1 << 30); ascon_hmac_finalize(&st, key, 20, o2); }
        } else {
            if (arg) { ascon_kmaca(key, 20, in, L, in, 5, o1, 32); ascon_kmaca_state_t st; ascon_kmaca_init(&st, key, 20, in, 5, 32); for (size_t i = 0; i < L; i += (size_t)1 << 30) ascon_kmaca_absorb(&st, in + i, L - i < ((size_t)1 << 30) ? L - i : (size_t)1 << 30); ascon_kmaca_squeeze(&st, o2, 32); }
            else { ascon_kmac(key, 20, in, L, in, 5, o1, 32); ascon_kmac_state_t st; ascon_kmac_init(&st, key, 20, in, 5, 32); for (size_t i = 0; i < L; i += (size_t)1 << 30) ascon_kmac_absorb(&st, in + i, L - i < ((size_t)1 << 30) ? L - i : (size_t)1 << 30); ascon_kmac_squeeze(&st, o2, 32); }
        }
        if (memcmp(o1, o2, 32)) hx_fail(kb, "single call over %zu bytes differs from the same data fed in 1 GiB calls", L);
    } else if (!strcmp(what, "kdf-out")) {
        /* one-shot ASCON-KDF / KDFA of L bytes (declared length L: at 2^29 and above the documented meaning is arbitrary length) against the incremental interface in three
         * calls and against the library's own customised XOF named "KDF" over the key (checked against the specification in C03) */
        uint8_t *o1 = malloc(L + 64), *o2 = malloc(L + 64); memset(o1 + L, 0xC5, 64); size_t k1 = L / 3, k2 = L - L / 5;
        if (arg) { ascon_kdfa(o1, L, key, 20, in, 7); ascon_kdfa_state_t st; ascon_kdfa_init(&st, key, 20, in, 7, L); ascon_kdfa_squeeze(&st, o2, k1); ascon_kdfa_squeeze(&st, o2 + k1, k2 - k1); ascon_kdfa_squeeze(&st, o2 + k2, L - k2); ascon_kdfa_free(&st); }
        else { ascon_kdf(o1, L, key, 20, in, 7); ascon_kdf_state_t st; ascon_kdf_init(&st, key, 20, in, 7, L); ascon_kdf_squeeze(&st, o2, k1); ascon_kdf_squeeze(&st, o2 + k1, k2 - k1); ascon_kdf_squeeze(&st, o2 + k2, L - k2); ascon_kdf_free(&st); }
        if (memcmp(o1, o2, L)) { size_t i = 0; while (o1[i] == o2[i]) i++; hx_fail(kb, "one-shot output of %zu bytes differs from init + squeeze with the same declared length at byte %zu", L, i); }
        if (arg) { ascon_xofa_state_t x; ascon_xofa_init_custom(&x, "KDF", in, 7, L); ascon_xofa_absorb(&x, key, 20); ascon_xofa_squeeze(&x, o2, L); ascon_xofa_free(&x); }
        else { ascon_xof_state_t x; ascon_xof_init_custom(&x, "KDF", in, 7, L); ascon_xof_absorb(&x, key, 20); ascon_xof_squeeze(&x, o2, L); ascon_xof_free(&x); }
        if (memcmp(o1, o2, L)) { size_t i = 0; while (o1[i] == o2[i]) i++; hx_fail(kb, "one-shot output of %zu bytes differs from the customised XOF named KDF at byte %zu", L, i); }
        for (int i = 0; i < 64; i++) if (o1[L + i] != 0xC5) { hx_fail(kb, "wrote beyond the output"); break; }
        free(o1); free(o2);
    } else if (!strcmp(what, "pbkdf2-salt") || !strcmp(what, "pbkdf2-pw")) {
        /* secondary parameters of length L: the salt (arg 0: XOF-based PBKDF2, arg 1: the HMAC version) or the password; count 2, 40 output bytes, against RFC 8018 spelled with the
         * library's incremental customised XOF / HMAC interfaces (checked in C03 / C04) */
        int pw = !strcmp(what, "pbkdf2-pw"); const uint8_t *P = pw ? in : key, *S = pw ? key : in; size_t pl = pw ? L : 20, sl = pw ? 20 : L; uint8_t o[40], e[64];
        if (arg) ascon_pbkdf2_hmac(o, 40, P, pl, S, sl, 2); else ascon_pbkdf2(o, 40, P, pl, S, sl, 2);
        for (uint32_t blk = 1; blk <= 2; blk++) { uint8_t idx[4] = {0, 0, 0, (uint8_t)blk}, u1[32], u2[32];
            if (arg) { ascon_hmac_state_t h; ascon_hmac_init(&h, P, pl); ascon_hmac_update(&h, S, sl); ascon_hmac_update(&h, idx, 4); ascon_hmac_finalize(&h, P, pl, u1);
                       ascon_hmac_reinit(&h, P, pl); ascon_hmac_update(&h, u1, 32); ascon_hmac_finalize(&h, P, pl, u2); ascon_hmac_free(&h); }
            else { ascon_xof_state_t x; ascon_xof_init_custom(&x, "PBKDF2", P, pl, 32); ascon_xof_absorb(&x, S, sl); ascon_xof_absorb(&x, idx, 4); ascon_xof_squeeze(&x, u1, 32); ascon_xof_free(&x);
                   ascon_xof_init_custom(&x, "PBKDF2", P, pl, 32); ascon_xof_absorb(&x, u1, 32); ascon_xof_squeeze(&x, u2, 32); ascon_xof_free(&x); }
            for (int i = 0; i < 32; i++) e[(blk - 1) * 32 + i] = u1[i] ^ u2[i]; }
        if (memcmp(o, e, 40)) hx_fail(kb, "PBKDF2 (%s) with a %s of %zu bytes differs from RFC 8018 over the library's own PRF", arg ? "HMAC" : "XOF", pw ? "password" : "salt", L);
    } else if (!strcmp(what, "hkdf-salt") || !strcmp(what, "hkdf-info")) {
        /* HKDF with a salt or an info string of length L: one-shot against extract + expand in two calls and against RFC 5869 spelled with the incremental HMAC interface */
        int inf = !strcmp(what, "hkdf-info"); const uint8_t *S = inf ? key : in, *I = inf ? in : nonce; size_t sl = inf ? 9 : L, il = inf ? L : 11; uint8_t o[48], o2[48], prk[32], t1[32], t2[32], one = 1, two = 2;
        int r = arg ? ascon_hkdfa(o, 48, key, 20, S, sl, I, il) : ascon_hkdf(o, 48, key, 20, S, sl, I, il);
        if (arg) { ascon_hkdfa_state_t st; ascon_hkdfa_extract(&st, key, 20, S, sl); ascon_hkdfa_expand(&st, I, il, o2, 17); ascon_hkdfa_expand(&st, I, il, o2 + 17, 31); ascon_hkdfa_free(&st);
                   ascon_hmaca_state_t h; ascon_hmaca_init(&h, S, sl); ascon_hmaca_update(&h, key, 20); ascon_hmaca_finalize(&h, S, sl, prk);
                   ascon_hmaca_reinit(&h, prk, 32); ascon_hmaca_update(&h, I, il); ascon_hmaca_update(&h, &one, 1); ascon_hmaca_finalize(&h, prk, 32, t1);
                   ascon_hmaca_reinit(&h, prk, 32); ascon_hmaca_update(&h, t1, 32); ascon_hmaca_update(&h, I, il); ascon_hmaca_update(&h, &two, 1); ascon_hmaca_finalize(&h, prk, 32, t2); ascon_hmaca_free(&h); }
        else { ascon_hkdf_state_t st; ascon_hkdf_extract(&st, key, 20, S, sl); ascon_hkdf_expand(&st, I, il, o2, 17); ascon_hkdf_expand(&st, I, il, o2 + 17, 31); ascon_hkdf_free(&st);
               ascon_hmac_state_t h; ascon_hmac_init(&h, S, sl); ascon_hmac_update(&h, key, 20); ascon_hmac_finalize(&h, S, sl, prk);
               ascon_hmac_reinit(&h, prk, 32); ascon_hmac_update(&h, I, il); ascon_hmac_update(&h, &one, 1); ascon_hmac_finalize(&h, prk, 32, t1);
               ascon_hmac_reinit(&h, prk, 32); ascon_hmac_update(&h, t1, 32); ascon_hmac_update(&h, I, il); ascon_hmac_update(&h, &two, 1); ascon_hmac_finalize(&h, prk, 32, t2); ascon_hmac_free(&h); }
        if (r != 0 || memcmp(o, o2, 48)) hx_fail(kb, "one-shot HKDF with a %s of %zu bytes returned %d or differs from extract + expand", inf ? "context string" : "salt", L, r);
        if (memcmp(o, t1, 32) || memcmp(o + 32, t2, 16)) hx_fail(kb, "HKDF with a %s of %zu bytes differs from RFC 5869 over the library's own HMAC", inf ? "context string" : "salt", L);
    } else { fprintf(stderr, "unknown %s\n", what); return 2; }
    hx_stat("evaluations", 1); hx_stat("nontrivial", 1); hx_stat("huge_length_calls", 1);
    hx_sample("%s with a length of %zu bytes (2^32 + 40) against the streaming fast reference", argv[1], L);
    hx_finish();
    return 0;
}
