/* C20: the C++ decoding/encoding helpers return exactly the decoded / encoded value. */
#include <ascon/utility.h>
#include <string>
#include <vector>
extern "C" {
#include "hx.h"
#include "ref.h"
}
static void one(const std::string &s)
{
    unsigned char e[64]; int rr = ref_hex_decode(e, s.size() / 2, s.data(), s.size());
    ascon::byte_array r1 = ascon::bytes_from_hex(s.data(), s.size());
    ascon::byte_array r2 = ascon::bytes_from_hex(s.c_str());
    hx_stat("evaluations", 2); hx_stat("nontrivial", 1);
    size_t want = rr < 0 ? 0 : (size_t)rr;
    bool nul = s.find('\0') != std::string::npos;
    if (r1.size() != want || (want && memcmp(r1.data(), e, want))) hx_fail("hex:cpp:bytes_from_hex", "bytes_from_hex(str,len) of a %zu-character text returned %zu bytes, the decoded value has %zu", s.size(), r1.size(), want);
    if (!nul && (r2.size() != want || (want && memcmp(r2.data(), e, want)))) hx_fail("hex:cpp:bytes_from_hex", "bytes_from_hex(const char*) of a %zu-character text returned %zu bytes, expected %zu", s.size(), r2.size(), want);
#if !defined(ASCON_NO_STL)
    ascon::byte_array r3 = ascon::bytes_from_hex(s);
    if (r3.size() != want || (want && memcmp(r3.data(), e, want))) hx_fail("hex:cpp:bytes_from_hex", "bytes_from_hex(std::string) returned %zu bytes, expected %zu", r3.size(), want);
    if (rr >= 0) {
        std::string h = ascon::bytes_to_hex(r3), H = ascon::bytes_to_hex(e, want, true), h2 = ascon::bytes_to_hex(e, want);
        ascon::byte_array back = ascon::bytes_from_hex(H);
        if (h.size() != 2 * r3.size() || h2.size() != 2 * want || back.size() != want || (want && memcmp(back.data(), e, want))) hx_fail("hex:cpp:bytes_to_hex", "bytes_to_hex / bytes_from_hex round trip failed for %zu bytes", want);
    }
#endif
    ascon::byte_array d = ascon::bytes_from_data(e, want);
    if (d.size() != want || (want && memcmp(d.data(), e, want))) hx_fail("hex:cpp:bytes_from_data", "wrong copy");
}
#if defined(ARDUINO)
/* the Arduino configuration (String instead of std::string): every length 0..300, both cases, the pointer and the byte_array overloads, and the way back through bytes_from_hex(String) */
static unsigned char ard_data[300]; static char ard_want[601];
__attribute__((noinline)) static void ard_expect(size_t n, int uc)
{
    static const char lo[] = "0123456789abcdef", up[] = "0123456789ABCDEF"; const char *d = uc ? up : lo;
    for (size_t i = 0; i < n; i++) { ard_want[2 * i] = d[ard_data[i] >> 4]; ard_want[2 * i + 1] = d[ard_data[i] & 15]; } ard_want[2 * n] = 0;
}
static void arduino_helpers()
{
    unsigned char *data = ard_data; char *want = ard_want;
    for (int i = 0; i < 300; i++) data[i] = (unsigned char)(i * 37 + 11);
    for (size_t n = 0; n <= 300; n++) for (int uc = 0; uc < 2; uc++) {
        ard_expect(n, uc);
        String h1 = ascon::bytes_to_hex(data, n, uc != 0), h2 = ascon::bytes_to_hex(ascon::bytes_from_data(data, n), uc != 0);
        hx_stat("evaluations", 3); hx_stat("nontrivial", 1);
        if (h1.length() != 2 * n || strcmp(h1.c_str(), want)) hx_fail("hex:cpp:bytes_to_hex", "Arduino bytes_to_hex(ptr, %zu) returns %u characters / other text than the C function", n, h1.length());
        if (h2.length() != 2 * n || strcmp(h2.c_str(), want)) hx_fail("hex:cpp:bytes_to_hex", "Arduino bytes_to_hex(byte_array of %zu) returns %u characters / other text than the C function", n, h2.length());
        ascon::byte_array back = ascon::bytes_from_hex(String(want));
        if (back.size() != n || (n && memcmp(back.data(), data, n))) hx_fail("hex:cpp:bytes_from_hex", "Arduino bytes_from_hex(String) of %zu encoded bytes returns %zu bytes", n, back.size());
    }
    hx_sample("Arduino configuration: bytes_to_hex (pointer, byte_array) and bytes_from_hex(String) for every length 0..300, both cases");
}
#endif
int main()
{
    hx_init();
#if defined(ARDUINO)
    arduino_helpers();
#endif
    static const std::string parts[] = {"", "0", "a", "0a", "0A", "ff", "  ", " ", "\t", "\n", "g", "0b1c", "Ab", "3", "\r\n", ":", std::string("\0", 1), std::string("\0" "7", 2)};   /* a std::string may hold NUL characters */
    int np = sizeof parts / sizeof parts[0];
    for (int a = 0; a < np; a++) for (int b = 0; b < np; b++) for (int c = 0; c < np; c++) for (int d = 0; d < np; d++)
        one(parts[a] + parts[b] + parts[c] + parts[d]);
    { std::string big; for (int i = 0; i < 300; i++) { char t[4]; snprintf(t, sizeof t, "%02x", (i * 7) & 0xff); big += t; if (i % 16 == 15) big += "\n"; } one(big.substr(0, 60)); }
    hx_sample("C++ helpers: all concatenations of 4 parts from an 18-part alphabet (digits, both cases, whitespace, invalid, NUL characters) in the %s configuration",
#if defined(ASCON_NO_STL)
              "ASCON_NO_STL"
#else
              "STL"
#endif
    );
    hx_finish();
    return 0;
}
