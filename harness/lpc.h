/* Linearised-permutation substitution: link with -Wl,--wrap=ascon_permute.
 * Both the library's permutation and the reference's are replaced by the GF(2)-affine
 * bijection T_r: rotate the canonical 320-bit state left by 67 bits, then XOR a dense
 * round-dependent constant.  Under T every mode is an affine map of its inputs. */
#ifndef LPC_H
#define LPC_H
#include <ascon/permutation.h>
#include "ref.h"
#include <string.h>

static void lpc_T(uint8_t s[40], int first_round)
{
    uint8_t t[40];
    for (int i = 0; i < 40; i++) {
        /* rotate left by 67 bits = 8 bytes + 3 bits */
        uint8_t a = s[(i + 8) % 40], b = s[(i + 9) % 40];
        t[i] = (uint8_t)((a << 3) | (b >> 5));
    }
    for (int i = 0; i < 40; i++) {
        uint32_t x = (uint32_t)(first_round + 1) * 2654435761u + (uint32_t)i * 40503u;
        x ^= x >> 15; x *= 2246822519u; x ^= x >> 13;
        s[i] = t[i] ^ (uint8_t)x;
    }
}
void __wrap_ascon_permute(ascon_state_t *state, uint8_t first_round);
void __wrap_ascon_permute(ascon_state_t *state, uint8_t first_round)
{
    uint8_t b[40];
    ascon_extract_bytes(state, b, 0, 40);
    lpc_T(b, first_round);
    ascon_overwrite_bytes(state, b, 0, 40);
}
static inline void lpc_install(void) { ref_permute_override = lpc_T; }
#endif
