/* C11: control flow and memory addresses never depend on secrets.
 * Run under valgrind memcheck: secrets (keys, plaintext, nonces are public, entropy delivered by the system
 * source, masking randomness derived from it, PRNG state) are marked UNDEFINED with client requests, so that any
 * branch or address computed from them is reported as a use of an uninitialised value.  Values the property
 * calls public (ciphertext and tag produced by encryption, accept/reject results) are declassified by the
 * harness before it looks at them.   usage: valgrind ... c11 <group> */
#include "hx.h"
#include "api.h"
#include <valgrind/memcheck.h>
#include <ascon/prf.h>
#include <ascon/hmac.h>
#include <ascon/kmac.h>
#include <ascon/kdf.h>
#include <ascon/hkdf.h>
#include <ascon/pbkdf2.h>
#include <ascon/random.h>
#include <ascon/storage.h>
#include <sys/types.h>
#include <errno.h>

/* system entropy source: every delivered byte is secret */
static uint64_t rs = 12345;
ssize_t getrandom(void *buf, size_t n, unsigned flags)
{
    (void)flags; uint8_t *b = buf;
    for (size_t i = 0; i < n; i++) { rs = rs * 6364136223846793005ULL + 1442695040888963407ULL; b[i] = (uint8_t)(rs >> 33); }
    VALGRIND_MAKE_MEM_UNDEFINED(buf, n);
    return (ssize_t)n;
}

#define SECRET(p, n) VALGRIND_MAKE_MEM_UNDEFINED((p), (n))
#define PUBLIC(p, n) VALGRIND_MAKE_MEM_DEFINED((p), (n))
static void prim(const char *name, int a, int b, int v) { fprintf(stderr, "C11-PRIM %s shape=%d,%d secretset=%d\n", name, a, b, v); fflush(stderr); hx_stat("evaluations", 1); }
static int pub_int(int r) { PUBLIC(&r, sizeof r); return r; }

static const int SH[] = {0, 1, 8, 9, 16, 17, 33};
#define NSH 7
static uint8_t K[20], N[16], ADB[64], MSG[64];
static void secrets(int v)
{   /* secret alphabet: 0 = zero, 1 = all ones, 2 = dense */
    memset(K, v == 0 ? 0 : 0xff, 20); memset(MSG, v == 0 ? 0 : 0xff, 64);
    if (v == 2) { hx_fill(K, 20, HX_P_DENSE, 1); hx_fill(MSG, 64, HX_P_DENSE, 4); }
    hx_fill(N, 16, HX_P_DENSE, 2); hx_fill(ADB, 64, HX_P_DENSE, 3);
    rs = 1000 + v;
}

/* positions at which a forged tag differs: 0 = byte 0, 1 = byte 15, 2 = all bytes, 3 = correct tag */
static void forge(uint8_t *tag, int how) { if (how == 0) tag[0] ^= 1; else if (how == 1) tag[15] ^= 0x80; else if (how == 2) for (int i = 0; i < 16; i++) tag[i] ^= 0x5a; }

static void aead_group(int fam)
{
    static const char *fn[] = {"aead-oneshot", "aead-incremental", "aead-masked", "siv", "isap"};
    for (int alg = 0; alg < 3; alg++) for (int v = 0; v < 3; v++) for (int ai = 0; ai < NSH; ai += 2) for (int li = 0; li < NSH; li++) {
        int a = SH[ai], l = SH[li]; uint8_t c[96], p[96], m[64], key[20]; size_t cl = 0, ml = 0; int r = 0; char nm[48];
        int kl = fam == 4 ? ref_isap_keylen(alg) : ref_keylen(alg);
        secrets(v); memcpy(m, MSG, 64); memcpy(key, K, 20);
        /* a valid ciphertext is produced first with everything public */
        switch (fam) {
        case 0: case 1: api_aead_enc[alg](c, &cl, m, l, ADB, a, N, key); break;
        case 2: api_aead_enc[alg](c, &cl, m, l, ADB, a, N, key); break;
        case 3: api_siv_enc[alg](c, &cl, m, l, ADB, a, N, key); break;
        case 4: { api_isap_key pk; api_isap_init[alg](&pk, key); api_isap_enc[alg](c, &cl, m, l, ADB, a, N, &pk); api_isap_free[alg](&pk); break; }
        }
        uint8_t good[96]; memcpy(good, c, l + 16);
        /* encryption with secret key and plaintext */
        snprintf(nm, sizeof nm, "%s-encrypt:%s", fn[fam], fam == 4 ? api_isap_name[alg] : api_alg_name[alg]); prim(nm, a, l, v);
        SECRET(key, kl); SECRET(m, l);
        switch (fam) {
        case 0: api_aead_enc[alg](c, &cl, m, l, ADB, a, N, key); break;
        case 1: { api_inc_state st; api_inc_init[alg](&st, N, key); api_inc_start[alg](&st, ADB, a); api_inc_enc[alg](&st, m, c, l / 2); api_inc_enc[alg](&st, m + l / 2, c + l / 2, l - l / 2); api_inc_encfin[alg](&st, c + l);
                  /* a second packet on the same object, and a session whose public nonce is all ones (the increment wraps): the carry depends on the nonce only */
                  api_inc_start[alg](&st, ADB, a); api_inc_enc[alg](&st, m, c, l); api_inc_encfin[alg](&st, c + l); api_inc_free[alg](&st);
                  { uint8_t ones[16]; memset(ones, 0xff, 16); api_inc_init[alg](&st, ones, key); api_inc_start[alg](&st, ADB, a); api_inc_enc[alg](&st, m, c, l); api_inc_encfin[alg](&st, c + l);
                    api_inc_start[alg](&st, ADB, a); api_inc_enc[alg](&st, m, c, l); api_inc_encfin[alg](&st, c + l); api_inc_free[alg](&st); }
                  break; }
        case 2: { api_masked_key mk; api_masked_key_init(alg, &mk, key); api_masked_enc[alg](c, &cl, m, l, ADB, a, N, &mk); api_masked_key_free(alg, &mk); break; }
        case 3: api_siv_enc[alg](c, &cl, m, l, ADB, a, N, key); break;
        case 4: { api_isap_key pk; api_isap_init[alg](&pk, key); api_isap_enc[alg](c, &cl, m, l, ADB, a, N, &pk); api_isap_free[alg](&pk); break; }
        }
        PUBLIC(c, l + 16);
        /* decryption: accept, and reject at three position classes */
        for (int how = 0; how < 4; how++) {
            uint8_t ct[96]; memcpy(ct, good, l + 16); forge(ct + l, how);
            snprintf(nm, sizeof nm, "%s-decrypt-%s:%s", fn[fam], how == 3 ? "accept" : how == 0 ? "reject-byte0" : how == 1 ? "reject-byte15" : "reject-all", fam == 4 ? api_isap_name[alg] : api_alg_name[alg]); prim(nm, a, l, v);
            memcpy(key, K, 20); SECRET(key, kl);
            switch (fam) {
            case 0: r = api_aead_dec[alg](p, &ml, ct, l + 16, ADB, a, N, key); break;
            case 1: { api_inc_state st; api_inc_init[alg](&st, N, key); api_inc_start[alg](&st, ADB, a); api_inc_dec[alg](&st, ct, p, l); r = api_inc_decfin[alg](&st, ct + l); api_inc_free[alg](&st); break; }
            case 2: { api_masked_key mk; api_masked_key_init(alg, &mk, key); r = api_masked_dec[alg](p, &ml, ct, l + 16, ADB, a, N, &mk); api_masked_key_free(alg, &mk); break; }
            case 3: r = api_siv_dec[alg](p, &ml, ct, l + 16, ADB, a, N, key); break;
            case 4: { api_isap_key pk; api_isap_init[alg](&pk, key); r = api_isap_dec[alg](p, &ml, ct, l + 16, ADB, a, N, &pk); api_isap_free[alg](&pk); break; }
            }
            r = pub_int(r);
            if ((how == 3) != (r == 0)) hx_fail("c11-harness-sanity", "%s returned %d", nm, r);
        }
    }
}

static void mac_group(void)
{
    for (int v = 0; v < 3; v++) for (int li = 0; li < NSH; li++) for (int oi = 0; oi < NSH; oi += 2) {
        int l = SH[li], ol = SH[oi]; uint8_t key[32], out[64], tag[16];
        secrets(v); memcpy(key, K, 16); SECRET(key, 16);
        prim("prf", l, ol, v); ascon_prf(out, ol, MSG, l, key);
        prim("prf-fixed", l, ol, v); ascon_prf_fixed(out, ol, MSG, l, key);
        if (l <= 16 && ol <= 16) { prim("prf-short", l, ol, v); ascon_prf_short(out, ol, MSG, l, key); }
        prim("mac", l, 0, v); ascon_mac(tag, MSG, l, key); PUBLIC(tag, 16);
        for (int how = 0; how < 4; how++) { uint8_t t2[16]; memcpy(t2, tag, 16); forge(t2, how);
            prim(how == 3 ? "mac-verify-accept" : how == 0 ? "mac-verify-reject-byte0" : how == 1 ? "mac-verify-reject-byte15" : "mac-verify-reject-all", l, 0, v);
            int r = pub_int(ascon_mac_verify(t2, MSG, l, key)); if ((how == 3) != (r == 0)) hx_fail("c11-harness-sanity", "mac verify returned %d", r); }
        /* HMAC / KMAC / KDF / HKDF / PBKDF2 with secret keys (key lengths are public) */
        uint8_t big[80]; hx_fill(big, 80, HX_P_DENSE, 9 + v); SECRET(big, 80);
        static const int kls[] = {0, 16, 33, 64, 65, 80};
        for (int ki = 0; ki < 6; ki++) { int kl = kls[ki];
            prim("hmac", kl, l, v); ascon_hmac(out, big, kl, MSG, l); prim("hmaca", kl, l, v); ascon_hmaca(out, big, kl, MSG, l);
            if (oi == 0) { prim("kmac", kl, l, v); ascon_kmac(big, kl, MSG, l, ADB, 5, out, 32); prim("kmaca", kl, l, v); ascon_kmaca(big, kl, MSG, l, ADB, 5, out, 40);
                prim("kdf", kl, ol, v); ascon_kdf(out, 40, big, kl, ADB, 5); prim("kdfa", kl, ol, v); ascon_kdfa(out, 33, big, kl, 0, 0);
                prim("hkdf", kl, l, v); ascon_hkdf(out, 50, big, kl, ADB, l % 17, MSG, 7); prim("hkdfa", kl, l, v); ascon_hkdfa(out, 33, big, kl, 0, 0, 0, 0); }
        }
        if (oi == 0 && li < 4) { prim("pbkdf2", l, 3, v); ascon_pbkdf2(out, 40, big, 9 + l, ADB, 8, 3); prim("pbkdf2-hmac", l, 3, v); ascon_pbkdf2_hmac(out, 40, big, 9 + l, ADB, 8, 3); }
    }
}

/* seed storage: the stored seed bytes are secret (they become the generator's state); sizes, offsets and callback results are public */
static uint8_t c11_store[64];
static int c11_st_read(const ascon_storage_t *s, size_t off, unsigned char *d, size_t n) { (void)s; if (off + n > 64) return -1; memcpy(d, c11_store + off, n); return (int)n; }
static int c11_st_write(const ascon_storage_t *s, size_t off, const unsigned char *d, size_t n, int erase) { (void)s; (void)erase; if (off + n > 64) return -1; if (d) memcpy(c11_store + off, d, n); return (int)n; }

static void prng_group(void)
{
    for (int v = 0; v < 4; v++) for (int geom = 0; geom < 3; geom++) {
        /* v == 3: the stored seed is all 0xFF (erased flash), still secret */
        ascon_random_state_t rs3; ascon_storage_t stg; memset(&stg, 0, sizeof stg);
        stg.page_size = geom == 0 ? 1 : 32; stg.erase_size = geom == 2 ? 64 : 0; stg.size = 64; stg.partial_writes = geom != 1; stg.read = c11_st_read; stg.write = c11_st_write;
        secrets(v % 3); memset(c11_store, v == 0 ? 0 : 0xff, 64); if (v == 2) hx_fill(c11_store, 64, HX_P_DENSE, 31); SECRET(c11_store, 64);
        prim("random-init", 0, geom, v); ascon_random_init(&rs3);
        prim("random-load-seed", geom, 0, v); (void)pub_int(ascon_random_load_seed(&rs3, &stg));
        prim("random-save-seed", geom, 0, v); (void)pub_int(ascon_random_save_seed(&rs3, &stg));
        prim("random-load-seed", geom, 1, v); (void)pub_int(ascon_random_load_seed(&rs3, &stg));
        ascon_random_free(&rs3);
    }
    for (int v = 0; v < 3; v++) {
        ascon_random_state_t rs2; uint8_t out[200], feed[40];
        secrets(v); hx_fill(feed, 40, HX_P_DENSE, 20 + v); SECRET(feed, 40);
        prim("random-init", 0, 0, v); ascon_random_init(&rs2);
        static const int fs[] = {0, 1, 8, 33, 200};
        for (int i = 0; i < 5; i++) { prim("random-fetch", fs[i], 0, v); ascon_random_fetch(&rs2, out, fs[i]); }
        prim("random-feed", 40, 0, v); ascon_random_feed(&rs2, feed, 40); prim("random-feed", 13, 0, v); ascon_random_feed(&rs2, feed, 13);
        prim("random-reseed", 0, 0, v); ascon_random_reseed(&rs2);
        /* cross the automatic reseed limit */
        prim("random-fetch-across-limit", 16384, 0, v); { static uint8_t bigo[16400]; ascon_random_fetch(&rs2, bigo, 16384); ascon_random_fetch(&rs2, bigo, 32); }
        prim("random-free", 0, 0, v); ascon_random_free(&rs2);
        /* a generator with a history: the points at which it goes back to the system source depend on the (public) byte counts only */
        { ascon_random_state_t rs4; static uint8_t bigo[10000]; prim("random-history", 10000, 1, v); ascon_random_init(&rs4);
          ascon_random_fetch(&rs4, bigo, 10000); ascon_random_fetch(&rs4, bigo, 1); ascon_random_fetch(&rs4, bigo, 6382); ascon_random_fetch(&rs4, bigo, 1); ascon_random_fetch(&rs4, bigo, 1);
          for (int i = 0; i < 17; i++) ascon_random_fetch(&rs4, bigo, 1000);
          ascon_random_free(&rs4); }
        prim("ascon_random", 48, 0, v); ascon_random(out, 48);
        /* masked keys: init / randomize / extract */
        uint8_t key[20]; memcpy(key, K, 20); SECRET(key, 20);
        { ascon_masked_key_128_t k1; prim("masked-key-128", 0, 0, v); ascon_masked_key_128_init(&k1, key); ascon_masked_key_128_randomize(&k1); ascon_masked_key_128_extract(&k1, out); ascon_masked_key_128_free(&k1); }
        { ascon_masked_key_160_t k2; prim("masked-key-160", 0, 0, v); ascon_masked_key_160_init(&k2, key); ascon_masked_key_160_randomize(&k2); ascon_masked_key_160_extract(&k2, out); ascon_masked_key_160_free(&k2); }
    }
}

/* the C++ cipher classes: keying (twice with the same secret key, then with another one, then with a zero-length key) and packets out; the keying calls see secret keys only */
#include "cpp_session.h"
static void cpp_group(void)
{
    for (int v = 0; v < 3; v++) for (int fam = 0; fam < 4; fam++) for (int alg = 0; alg < 3; alg++) {
        uint8_t key[20], key2[20], m[40], c[64]; char nm[64]; int kl = fam == 3 ? ref_isap_keylen(alg) : ref_keylen(alg);
        secrets(v); memcpy(key, K, 20); memcpy(key2, K, 20); key2[kl - 1] ^= 1; memcpy(m, MSG, 40);
        static const char *fn[] = {"aead", "masked", "siv", "isap"};
        snprintf(nm, sizeof nm, "cpp-keying:%s:%d", fn[fam], alg); prim(nm, 0, 17, v);
        SECRET(key, kl); SECRET(key2, kl); SECRET(m, 17);
        void *h = cpps_new(fam, alg);
        (void)pub_int(cpps_set_key(h, key, kl)); (void)pub_int(cpps_set_key(h, key, kl)); (void)pub_int(cpps_set_key(h, key2, kl)); (void)pub_int(cpps_set_key(h, key, kl));
        cpps_set_nonce(h, N, 16); int r = cpps_encrypt(h, c, m, 17, ADB, 5); (void)r; PUBLIC(c, 33);
        /* no decryption here: the wrapper branches on the accept / reject outcome, which is public, before the harness could declassify it (the C functions of C02 are judged above) */
        (void)pub_int(cpps_set_key(h, key, 0)); cpps_set_nonce(h, N, 16); (void)cpps_encrypt(h, c, m, 17, ADB, 5);
        cpps_delete(h);
    }
}

int main(int argc, char **argv)
{
    hx_init();
    if (argc < 2) return 2;
    if (!RUNNING_ON_VALGRIND) { printf("NOTE not running under valgrind: nothing is monitored\n"); }
    if (!strcmp(argv[1], "aead")) aead_group(atoi(argv[2]));
    else if (!strcmp(argv[1], "mac")) mac_group();
    else if (!strcmp(argv[1], "cpp")) cpp_group();
    else prng_group();
    hx_stat("nontrivial", *hx_statp("evaluations"));
    hx_sample("memcheck taint: group %s %s: secret key/plaintext/entropy marked undefined, public shapes x secret alphabet {zero, ones, dense} x accept / reject at tag byte 0, byte 15, all bytes", argv[1], argc > 2 ? argv[2] : "");
    hx_finish();
    return 0;
}
