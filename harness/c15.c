/* C15: PRNG histories x entropy/storage fault plans on the real generator with a scripted system source.
 * usage: c15 <depth> <first-op lo> <first-op hi> <tier> */
#include "hx.h"
#include "ref.h"
#include "sysrand.h"
#include <errno.h>
#include <ascon/random.h>
#include <ascon/permutation.h>

enum { K_FETCH, K_FEED, K_RESEED, K_SAVE, K_LOAD, K_REINIT };
typedef struct { uint8_t k; uint32_t n; } pop;
static const uint32_t SZ[] = {0, 1, 7, 8, 9, 32, 16383, 16384, 16385};
#define NSZ 9
static pop ALPHA[32]; static int NALPHA;
#define LIMIT 16384u

/* storage plan */
static int st_read_ret, st_write_ret; static uint8_t st_mem[64]; static int st_reads, st_writes;
/* the driver behaves like a real one: it transfers exactly the number of bytes it is asked to (so a request larger than the library's 32-byte seed buffer is an
 * out-of-bounds access the sanitizer builds of C12 see), and it records requests outside the documented seed range (32 bytes at offset 0) */
static int st_geom, st_range_bad; static uint8_t st_big[8192];
static int st_read(const ascon_storage_t *s, size_t off, unsigned char *d, size_t n)
{ (void)s; st_reads++; if (off != 0 || n != 32) st_range_bad = 1; if (st_read_ret > 0) { size_t k = (size_t)st_read_ret < n ? (size_t)st_read_ret : n; memcpy(d, st_mem, k < 64 ? k : 64); } return st_read_ret; }
static int st_write(const ascon_storage_t *s, size_t off, const unsigned char *d, size_t n, int erase)
{ (void)s; (void)erase; st_writes++; if (off != 0 || n != 32) st_range_bad = 1; if (d && n <= sizeof st_big) memcpy(st_big, d, n); if (st_write_ret > 0 && d) memcpy(st_mem, st_big, (size_t)st_write_ret < 64 ? (size_t)st_write_ret : 64); return st_write_ret; }

typedef struct {
    int status[8]; unsigned calls_before[8], calls_after[8];
    uint8_t out[8][40]; uint32_t outn[8];      /* first min(n,40) bytes of each fetch */
    uint8_t tail[8][8];                        /* last 8 bytes of long fetches */
    uint8_t state[8][40]; uint8_t count[8], mode[8];
    int init_status; uint8_t init_state[40];
} trace;

static uint8_t FEED[64];
static uint8_t *bigbuf;

static void run_history(const pop *h, int hl, uint64_t entropy_fail_mask, int storage_size, trace *t)
{
    ascon_random_state_t rs; ascon_storage_t stg;
    memset(t, 0, sizeof *t); memset(&stg, 0, sizeof stg);
    /* storage geometries: byte-writable EEPROM, 32-byte pages, flash with 64-byte and 256-byte pages and erase blocks */
    { static const size_t pg[] = {1, 32, 64, 256}, er[] = {0, 0, 64, 4096}; stg.page_size = pg[st_geom & 3]; stg.erase_size = er[st_geom & 3]; stg.partial_writes = (st_geom >> 1) & 1; }
    stg.size = (size_t)storage_size; stg.read = st_read; stg.write = st_write; st_range_bad = 0;
    sysrand_fail_mask = entropy_fail_mask;
    for (int i = 0; i < 32; i++) st_mem[i] = (uint8_t)(0xC0 + i);
    t->init_status = ascon_random_init(&rs);
    ascon_extract_bytes(&rs.xof.state, t->init_state, 0, 40);
    for (int i = 0; i < hl; i++) {
        t->calls_before[i] = sysrand_calls;
        switch (h[i].k) {
        case K_FETCH: { uint32_t n = h[i].n; memset(bigbuf + n, 0xC5, 32); ascon_random_fetch(&rs, bigbuf, n); t->outn[i] = n; memcpy(t->out[i], bigbuf, n < 40 ? n : 40); if (n >= 8) memcpy(t->tail[i], bigbuf + n - 8, 8);
                        for (int c = 0; c < 32; c++) if (bigbuf[n + c] != 0xC5) t->status[i] = -99; break; }
        case K_FEED: ascon_random_feed(&rs, h[i].n ? FEED : 0, h[i].n > 64 ? 64 : h[i].n); break;
        case K_RESEED: t->status[i] = ascon_random_reseed(&rs); break;
        case K_SAVE: t->status[i] = ascon_random_save_seed(&rs, &stg); break;
        case K_LOAD: t->status[i] = ascon_random_load_seed(&rs, &stg); break;
        case K_REINIT: ascon_random_free(&rs); t->status[i] = ascon_random_init(&rs); break;
        }
        t->calls_after[i] = sysrand_calls;
        ascon_extract_bytes(&rs.xof.state, t->state[i], 0, 40); t->count[i] = rs.xof.count; t->mode[i] = rs.xof.mode;
    }
    ascon_random_free(&rs);
}
static void hstr(const pop *h, int hl, char *b, size_t cap)
{
    static const char *kn[] = {"fetch", "feed", "reseed", "save_seed", "load_seed", "free+init"};
    b[0] = 0; for (int i = 0; i < hl; i++) { size_t l = strlen(b); snprintf(b + l, cap - l, "%s%s(%u)", i ? "," : "", kn[h[i].k], h[i].n); }
}
static int forward_secure(const uint8_t st[40])
{
    uint8_t s[40]; memcpy(s, st, 40); ref_permute_inverse(s, 0);
    for (int i = 0; i < 8; i++) if (s[i]) return 0;
    return 1;
}

static long nruns, nhist;
static void judge(const pop *h, int hl, uint64_t fmask, int stsize, int rret, int wret, const char *plan)
{
    static trace t1, t2; char hs[200];
    st_read_ret = rret; st_write_ret = wret;
    sysrand_reset(hx_seed); st_reads = st_writes = 0; memset(bigbuf, 0xC5, 16385 + 64); run_history(h, hl, fmask, stsize, &t1);
    sysrand_reset(hx_seed); st_reads = st_writes = 0; memset(bigbuf, 0xC5, 16385 + 64); run_history(h, hl, fmask, stsize, &t2);
    nruns += 2; hstr(h, hl, hs, sizeof hs);
    if (st_range_bad) hx_fail("prng:storage-range", "a storage callback was asked for bytes outside the documented seed range (32 bytes at offset 0), storage geometry %d: history [%s] plan %s", st_geom & 3, hs, plan);
    /* determinism */
    if (memcmp(&t1, &t2, sizeof t1)) hx_fail("prng:determinism", "two runs with the same system bytes and fed data differ: history [%s] plan %s", hs, plan);
    /* status of init: non-zero iff call 0 succeeded */
    unsigned call = 0; int ok0 = !((fmask >> call) & 1);
    if ((t1.init_status != 0) != ok0) hx_fail("prng:status:init", "ascon_random_init returned %d with the system source %s: history [%s] plan %s", t1.init_status, ok0 ? "healthy" : "failing", hs, plan);
    if (!forward_secure(t1.init_state)) hx_fail("prng:forward-security", "state after init has not been through zero-the-rate-then-permute: plan %s", plan);
    /* bytes produced since the last reseed: lo counts fetched bytes only, hi also counts the 32-byte seeds written by save_seed / load_seed
     * (the property does not say whether those count; a reseed is demanded when lo >= LIMIT, forbidden when hi < LIMIT, and either is accepted in between) */
    uint32_t lo = 0, hi = 0;
#define ADDP(n) do { lo = ((n) >= LIMIT || lo + (n) >= LIMIT) ? LIMIT : lo + (n); hi = ((n) >= LIMIT || hi + (n) >= LIMIT) ? LIMIT : hi + (n); } while (0)
    for (int i = 0; i < hl; i++) {
        unsigned made = t1.calls_after[i] - t1.calls_before[i];
        int first_ok = !((fmask >> t1.calls_before[i]) & 1);
        if (!forward_secure(t1.state[i])) hx_fail("prng:forward-security", "after operation %d the state has not been through zero-the-rate-then-permute: history [%s] plan %s", i, hs, plan);
        switch (h[i].k) {
        case K_FETCH:
            if (t1.status[i] == -99) hx_fail("prng:stray-write", "fetch wrote beyond its output: history [%s]", hs);
            if (lo >= LIMIT && made != 1) hx_fail("prng:reseed-trigger", "fetch #%d made %u system-source calls with %u bytes fetched since the last reseed (expected 1): history [%s] plan %s", i, made, lo, hs, plan);
            else if (hi < LIMIT && made != 0) hx_fail("prng:reseed-trigger", "fetch #%d made %u system-source calls with only %u bytes produced since the last reseed (expected 0): history [%s] plan %s", i, made, hi, hs, plan);
            else if (made > 1) hx_fail("prng:reseed-trigger", "fetch #%d made %u system-source calls: history [%s] plan %s", i, made, hs, plan);
            if (made) lo = hi = 0;
            ADDP(h[i].n);
            break;
        case K_RESEED:
            if (made != 1) hx_fail("prng:reseed-trigger", "explicit reseed made %u system-source calls: history [%s]", made, hs);
            if ((t1.status[i] != 0) != first_ok) hx_fail("prng:status:reseed", "ascon_random_reseed returned %d with the system source %s: history [%s] plan %s", t1.status[i], first_ok ? "healthy" : "failing", hs, plan);
            lo = hi = 0; break;
        case K_REINIT:
            if ((t1.status[i] != 0) != first_ok) hx_fail("prng:status:init", "ascon_random_init returned %d with the system source %s: history [%s] plan %s", t1.status[i], first_ok ? "healthy" : "failing", hs, plan);
            lo = hi = 0; break;
        case K_SAVE: {
            int want = (stsize >= 32 && wret == 32) ? 0 : -1;
            if (t1.status[i] != want) hx_fail("prng:status:save_seed", "ascon_random_save_seed returned %d, documented result is %d (storage size %d, write callback returns %d): history [%s]", t1.status[i], want, stsize, wret, hs);
            if (stsize >= 32) {
                /* the saved seed is generator output: no more of it without fresh entropy once the limit has been reached */
                if (lo >= LIMIT && made != 1) hx_fail("prng:reseed-trigger", "save_seed #%d produced a seed without drawing fresh entropy although %u bytes had been fetched since the last reseed: history [%s] plan %s", i, lo, hs, plan);
                else if (hi < LIMIT && made != 0) hx_fail("prng:reseed-trigger", "save_seed #%d made %u system-source calls with only %u bytes produced since the last reseed: history [%s] plan %s", i, made, hi, hs, plan);
                if (made) lo = hi = 0;
                hi = hi + 32 >= LIMIT ? LIMIT : hi + 32;
            } else if (made) hx_fail("prng:reseed-trigger", "save_seed refused for lack of space but consumed system entropy: history [%s]", hs);
            break; }
        case K_LOAD: {
            int want = (stsize >= 32 && rret == 32) ? 0 : -1;
            if (t1.status[i] != want) hx_fail("prng:status:load_seed", "ascon_random_load_seed returned %d, documented result is %d (storage size %d, read callback returns %d): history [%s]", t1.status[i], want, stsize, rret, hs);
            if (stsize >= 32) {
                /* it writes a new seed (generator output) afterwards; the implementation also mixes in fresh system entropy first, which the property does not demand */
                if (made > 1) hx_fail("prng:reseed-trigger", "load_seed #%d made %u system-source calls: history [%s] plan %s", i, made, hs, plan);
                if (made == 0 && lo >= LIMIT) hx_fail("prng:reseed-trigger", "load_seed #%d produced a new seed without drawing fresh entropy although %u bytes had been fetched since the last reseed: history [%s] plan %s", i, lo, hs, plan);
                if (made) lo = hi = 0;
                hi = hi + 32 >= LIMIT ? LIMIT : hi + 32;
            } else if (made) hx_fail("prng:reseed-trigger", "load_seed refused for lack of space but consumed system entropy: history [%s]", hs);
            break; }
        }
    }
    hx_stat("transitions", hl);
}

/* influence: flipping one byte of a delivered seed / fed string changes every later fetch of >= 16 bytes */
static void influence(const pop *h, int hl)
{
    static trace base, alt; char hs[200]; hstr(h, hl, hs, sizeof hs);
    st_read_ret = 32; st_write_ret = 32;
    sysrand_reset(hx_seed); memset(bigbuf, 0xC5, 16385 + 64); run_history(h, hl, 0, 32, &base);
    unsigned deliveries = sysrand_deliveries;
    for (unsigned d = 0; d < deliveries; d++) for (unsigned byte = 0; byte < 32; byte++) {
        sysrand_reset(hx_seed); sysrand_flip_delivery = (int)d; sysrand_flip_byte = byte; sysrand_flip_bit = byte % 8;
        memset(bigbuf, 0xC5, 16385 + 64); run_history(h, hl, 0, 32, &alt); nruns++;
        /* delivery d is consumed by init (d == 0) or by the first op whose calls_after > d */
        /* delivery d is consumed by init (d == 0) or by the first op whose calls_after > d; it stops mattering at the next free+init */
        int from = 0; if (d > 0) { for (from = 0; from < hl; from++) if (base.calls_after[from] > d) break; }
        int until = hl; for (int j = (d == 0 ? 0 : from + 1); j < hl; j++) if (h[j].k == K_REINIT) { until = j; break; }
        for (int i = from; i < until; i++) if (h[i].k == K_FETCH && h[i].n >= 16) {
            if (!memcmp(base.out[i], alt.out[i], h[i].n < 40 ? h[i].n : 40)) hx_fail("prng:influence", "flipping byte %u of system delivery %u does not change fetch #%d: history [%s]", byte, d, i, hs);
        }
    }
    for (int f = 0; f < hl; f++) if (h[f].k == K_FEED && h[f].n > 0) {
        unsigned fl = h[f].n > 64 ? 64 : h[f].n;
        for (unsigned byte = 0; byte < fl; byte++) {
            FEED[byte] ^= 0x10; sysrand_reset(hx_seed); memset(bigbuf, 0xC5, 16385 + 64); run_history(h, hl, 0, 32, &alt); FEED[byte] ^= 0x10; nruns++;
            int until = hl; for (int j = f + 1; j < hl; j++) if (h[j].k == K_REINIT) { until = j; break; }
            for (int i = f + 1; i < until; i++) if (h[i].k == K_FETCH && h[i].n >= 16)
                if (!memcmp(base.out[i], alt.out[i], h[i].n < 40 ? h[i].n : 40)) hx_fail("prng:influence", "flipping byte %u of the fed data (operation %d) does not change fetch #%d: history [%s]", byte, f, i, hs);
        }
    }
}

/* benign deviation of the system source: one transient failure (EINTR / EAGAIN) before call k succeeds; the source is healthy, so every status, output and state must equal the uninterrupted run */
static void transient(const pop *h, int hl)
{
    static trace base, alt; char hs[200]; hstr(h, hl, hs, sizeof hs);
    st_read_ret = 32; st_write_ret = 32;
    sysrand_reset(hx_seed); st_reads = st_writes = 0; memset(bigbuf, 0xC5, 16385 + 64); run_history(h, hl, 0, 32, &base);
    unsigned ncalls = sysrand_calls; if (ncalls > 8) ncalls = 8;
    for (unsigned k = 0; k < ncalls; k++) for (int e = 0; e < 2; e++) {
        sysrand_reset(hx_seed); sysrand_eintr_mask = (uint64_t)1 << k; sysrand_eintr_errno = e ? EAGAIN : EINTR; st_reads = st_writes = 0; memset(bigbuf, 0xC5, 16385 + 64);
        /* run_history resets the fail mask only; the transient mask stays */
        run_history(h, hl, 0, 32, &alt); nruns++; sysrand_eintr_errno = EINTR;
        int same = alt.init_status == base.init_status && !memcmp(alt.init_state, base.init_state, 40);
        for (int i = 0; i < hl && same; i++) same = alt.status[i] == base.status[i] && !memcmp(alt.out[i], base.out[i], 40) && !memcmp(alt.tail[i], base.tail[i], 8) && !memcmp(alt.state[i], base.state[i], 40) && alt.count[i] == base.count[i] && alt.mode[i] == base.mode[i];
        if (!same) hx_fail("prng:status:transient-failure", "one %s before system-source call %u succeeds changes a status, an output or the state (init status %d vs %d): history [%s]", e ? "EAGAIN" : "EINTR", k, alt.init_status, base.init_status, hs);
    }
}

static int DEPTH, TIER;
static void rec(pop *h, int n)
{
    if (n > 0) {
        nhist++;
        int hasst = 0, small = 1; for (int i = 0; i < n; i++) { if (h[i].k == K_SAVE || h[i].k == K_LOAD) hasst = 1; if (h[i].n > 64) small = 0; }
        /* default environment, then every subset of failing entropy calls (number of calls known from the default run) */
        judge(h, n, 0, 32, 32, 32, "default");
        unsigned ncalls = sysrand_calls; if (ncalls > 6) ncalls = 6;
        for (uint64_t m = 1; m < ((uint64_t)1 << ncalls); m++) { char p[32]; snprintf(p, sizeof p, "entropy-fail-mask=%llx", (unsigned long long)m); judge(h, n, m, 32, 32, 32, p); }
        /* one failing call with other error numbers (a source that fails once and then works is healthy again for the later calls) */
        { static const int en[] = {ENOSYS, EPERM, EINVAL, EFAULT}; for (unsigned k = 0; k < ncalls; k++) for (int e = 0; e < 4; e++) { char p[48]; snprintf(p, sizeof p, "entropy-fail-call=%u,errno=%d", k, en[e]); sysrand_fail_errno = en[e]; judge(h, n, (uint64_t)1 << k, 32, 32, 32, p); sysrand_fail_errno = EIO; } }
        if (hasst) {
            for (st_geom = 1; st_geom < 4; st_geom++) { char p[32]; snprintf(p, sizeof p, "storage-geometry=%d", st_geom); judge(h, n, 0, st_geom == 3 ? 4096 : 64, 32, 32, p); } st_geom = 0;
            static const int rets[] = {-1, 0, 31, 33};
            for (int r = 0; r < 4; r++) { char p[48]; snprintf(p, sizeof p, "storage-read-returns=%d", rets[r]); judge(h, n, 0, 32, rets[r], 32, p); snprintf(p, sizeof p, "storage-write-returns=%d", rets[r]); judge(h, n, 0, 32, 32, rets[r], p); }
            judge(h, n, 0, 31, 32, 32, "storage-size=31");
            if (TIER) for (int r = 0; r < 4; r++) for (int w = 0; w < 4; w++) { char p[64]; snprintf(p, sizeof p, "storage-read=%d,write=%d,entropy-fail-mask=1", rets[r], rets[w]); judge(h, n, 1, 32, rets[r], rets[w], p); }
        }
        if (n <= 2 || TIER) transient(h, n);
        if (small && n <= 3 && (n <= 2 || TIER || (h[0].k != K_FETCH))) influence(h, n);
    }
    if (n == DEPTH) return;
    for (int a = 0; a < NALPHA; a++) { h[n] = ALPHA[a]; rec(h, n + 1); }
}

int main(int argc, char **argv)
{
    hx_init();
    if (argc < 5) return 2;
    DEPTH = atoi(argv[1]); int lo = atoi(argv[2]), hi = atoi(argv[3]); TIER = atoi(argv[4]);
    bigbuf = malloc(16385 + 128); hx_fill(FEED, 64, HX_P_DENSE, 6);
    for (int i = 0; i < NSZ; i++) ALPHA[NALPHA++] = (pop){K_FETCH, SZ[i]};
    for (int i = 0; i < NSZ; i++) ALPHA[NALPHA++] = (pop){K_FEED, SZ[i]};
    ALPHA[NALPHA++] = (pop){K_RESEED, 0}; ALPHA[NALPHA++] = (pop){K_SAVE, 0}; ALPHA[NALPHA++] = (pop){K_LOAD, 0}; ALPHA[NALPHA++] = (pop){K_REINIT, 0};
    pop h[8];
    if (hi > NALPHA) hi = NALPHA;
    for (int a = lo; a < hi; a++) { h[0] = ALPHA[a]; rec(h, 1); }
    if (lo == 0) {
        /* ascon_random(): status and determinism; NULL arguments */
        for (int fail = 0; fail < 2; fail++) {
            uint8_t o1[48], o2[48]; sysrand_reset(hx_seed); sysrand_fail_mask = fail; int r1 = ascon_random(o1, 48);
            sysrand_reset(hx_seed); sysrand_fail_mask = fail; int r2 = ascon_random(o2, 48);
            if ((r1 != 0) != !fail || r1 != r2) hx_fail("prng:status:ascon_random", "returned %d with the system source %s", r1, fail ? "failing" : "healthy");
            if (memcmp(o1, o2, 48)) hx_fail("prng:determinism", "ascon_random not a function of the system bytes");
            /* the status does not depend on how many bytes are asked for (none, with and without an output pointer; one; many), nor on the entry point (a NULL state hands the call to ascon_random) */
            static const size_t lens[] = {0, 0, 1, 31, 32, 33, 47};
            for (unsigned li = 0; li < sizeof lens / sizeof lens[0]; li++) for (int ep = 0; ep < 2; ep++) {
                sysrand_reset(hx_seed); sysrand_fail_mask = fail; unsigned before = sysrand_calls;
                int r = !fail; if (ep) ascon_random_fetch(0, li == 0 ? 0 : o1, lens[li]); else r = ascon_random(li == 0 ? 0 : o1, lens[li]);
                if ((r != 0) != !fail) hx_fail("prng:status:ascon_random", "ascon_random of %zu bytes returned %d with the system source %s", lens[li], r, fail ? "failing" : "healthy");
                /* without a generator object there is nothing else the bytes (or the status) could come from */
                if (sysrand_calls == before && (!ep || lens[li])) hx_fail("prng:determinism", "%s of %zu bytes did not consult the system source", ep ? "ascon_random_fetch(NULL state)" : "ascon_random", lens[li]);
                nruns++;
            }
        }
        ascon_storage_t stg; memset(&stg, 0, sizeof stg); stg.size = 32; stg.read = st_read; stg.write = st_write; ascon_random_state_t rs;
        sysrand_reset(hx_seed); ascon_random_init(&rs);
        if (ascon_random_save_seed(0, &stg) != -1 || ascon_random_save_seed(&rs, 0) != -1 || ascon_random_load_seed(0, &stg) != -1 || ascon_random_load_seed(&rs, 0) != -1) hx_fail("prng:status:null-arguments", "save/load with a NULL state or storage must return -1");
        if (ascon_random_init(0) != 0 || ascon_random_reseed(0) != 0) hx_fail("prng:status:null-arguments", "init/reseed with a NULL state must return 0");
        ascon_random_free(&rs); ascon_random_free(0);
    }
    hx_stat("histories", nhist); hx_stat("runs", nruns);
    if (lo == 0) {
        /* many small calls: 6000 fetches of 1..13 bytes on one generator; a fetch draws system entropy exactly when 16384 bytes have been produced since the last draw */
        ascon_random_state_t rs; uint8_t b[16]; unsigned long produced = 0, reseeds = 0; sysrand_reset(hx_seed); sysrand_fail_mask = 0; ascon_random_init(&rs);
        for (int i = 0; i < 6000; i++) {
            unsigned n = 1 + (unsigned)(i * 7) % 13, before = sysrand_calls; ascon_random_fetch(&rs, b, n); unsigned made = sysrand_calls - before, want = produced >= LIMIT ? 1 : 0;
            if (made != want) { hx_fail("prng:reseed-trigger", "long run: fetch #%d of %u bytes made %u system-source calls with %lu bytes produced since the last reseed (expected %u)", i, n, made, produced, want); break; }
            if (want) { produced = 0; reseeds++; } produced += n; nruns++;
        }
        ascon_random_free(&rs); if (reseeds < 2) hx_fail("prng:reseed-trigger", "long run: only %lu automatic reseeds in 6000 fetches", reseeds);
    }
    hx_sample("PRNG: every history of depth <= %d starting with alphabet entries [%d,%d) over {fetch,feed x sizes 0,1,7,8,9,32,16383,16384,16385; reseed; save; load; free+init} x every subset of failing entropy calls x storage answers", DEPTH, lo, hi);
    /* device configuration, on request (C16): every descriptor the library opened was closed exactly once -- descriptor numbers are process-wide, a second close hits whoever got the number next */
    if (getenv("VP_CHECK_DESCRIPTORS") && lo == 0) {
        if (sysrand_bad_closes) hx_fail("descriptor:closed-twice", "%u close calls on the random-device descriptor after it had already been closed (%u opens, %u closes)", sysrand_bad_closes, sysrand_opens, sysrand_closes);
        else if (sysrand_opens != sysrand_closes) hx_fail("descriptor:leak", "%u opens of the random device, %u closes", sysrand_opens, sysrand_closes);
        hx_stat("descriptor_opens", sysrand_opens);
    }
    hx_finish();
    return 0;
}
