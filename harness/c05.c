/* C05: HKDF / PBKDF2 / KDF against RFC 5869 / RFC 8018 / cXOF("KDF").
 * usage: c05 <mode hkdf|expand|pbkdf2|kdf> <a 0|1> <pattern> <tier> */
#include "hx.h"
#include "ref.h"
#include <ascon/hkdf.h>
#include <ascon/pbkdf2.h>
#include <ascon/kdf.h>

static int A, pat, tier;
#define LIMIT 8160

static int lib_hkdf(uint8_t *o, size_t ol, const uint8_t *k, size_t kl, const uint8_t *s, size_t sl, const uint8_t *i, size_t il)
{ return A ? ascon_hkdfa(o, ol, k, kl, s, sl, i, il) : ascon_hkdf(o, ol, k, kl, s, sl, i, il); }

static void hkdf(void)
{
    static const int ls_q[] = {0, 1, 31, 32, 33, 64, 65}, ls_t[] = {0, 1, 7, 8, 9, 31, 32, 33, 63, 64, 65, 100};
    static const int outs[] = {0, 1, 31, 32, 33, 64, 100, 255, 256, 257, 8128, 8129, 8159, 8160, 8161, 8175, 8176, 8191, 8192, 8193, 10000, 16320, 16321, 65536};
    const int *ls = tier ? ls_t : ls_q; int nl = tier ? 12 : 7;
    uint8_t key[128], salt[128], info[128], *e = malloc(70000);
    hx_fill(key, 128, pat, 1); hx_fill(salt, 128, pat, 2); hx_fill(info, 128, pat, 3);
    for (int ki = 0; ki < nl; ki++) for (int si = 0; si < nl; si++) for (int ii = 0; ii < nl; ii++) {
        size_t kl = ls[ki], sl = ls[si], il = ls[ii];
        uint8_t prk[32]; ref_hkdf_extract(A, key, kl, salt, sl, prk);
        int full = (ki + si + ii) % 5 == 0 || (ki == 3 && si == 3);
        if (full) ref_hkdf_stream(A, prk, info, il, e, LIMIT); else ref_hkdf_stream(A, prk, info, il, e, 300);
        for (unsigned oi = 0; oi < sizeof outs / sizeof outs[0]; oi++) {
            size_t ol = outs[oi];
            if (!full && ol > 257 && ol <= LIMIT) continue;
            uint8_t *o = hx_buf(ol);
            int r = lib_hkdf(o, ol, HX_OPT(key, kl), kl, HX_OPT(salt, sl), sl, HX_OPT(info, il), il);
            hx_stat("evaluations", 1); hx_stat("nontrivial", 1);
            if (ol > LIMIT) { if (r >= 0) hx_fail(A ? "hkdfa:limit" : "hkdf:limit", "outlen=%zu accepted (result %d): more than 255 blocks must be refused keylen=%zu saltlen=%zu infolen=%zu", ol, r, kl, sl, il); }
            else if (r != 0) hx_fail(A ? "hkdfa:status" : "hkdf:status", "outlen=%zu result %d", ol, r);
            else if (memcmp(o, e, ol)) hx_fail(A ? "hkdfa:value" : "hkdf:value", "differs from RFC 5869 keylen=%zu saltlen=%zu infolen=%zu outlen=%zu pat=%d", kl, sl, il, ol, pat);
            if (!hx_buf_ok(o, ol)) hx_fail(A ? "hkdfa:stray-write" : "hkdf:stray-write", "outlen=%zu", ol);
            hx_free(o);
        }
    }
    hx_sample("hkdf a=%d: key/salt/info lengths x outlen incl. 8159, 8160, 8161, 8191, 8192, 10000 (refusal above 8160)", A);
    free(e);
}

/* incremental expand histories around the limit: extract, expand(n1), expand(n2), expand(n3) */
static void expand(void)
{
    uint8_t key[40], salt[40], info[40], *e = malloc(LIMIT + 64);
    hx_fill(key, 40, pat, 1); hx_fill(salt, 40, pat, 2); hx_fill(info, 40, pat, 3);
    uint8_t prk[32]; ref_hkdf_extract(A, key, 33, salt, 9, prk);
    size_t il = 11;
    ref_hkdf_stream(A, prk, info, il, e, LIMIT);
    static const int n3s[] = {0, 1, 32, 33};
    int w = tier ? 70 : 40;
    const char *kv = A ? "hkdfa:expand" : "hkdf:expand";
    /* chained extraction on one object: the pseudorandom key of the previous extraction, read from the object itself, is the salt (or the key) of the next one */
    for (int role = 0; role < 2; role++) for (size_t kl2 = 0; kl2 <= 40; kl2 += (kl2 < 34 ? 1 : 3)) for (int used = 0; used < 2; used++) {
        union { ascon_hkdf_state_t h; ascon_hkdfa_state_t ha; } st; uint8_t prk1[32], prk2[32], exp[70], got[70];
        ref_hkdf_extract(A, key, 33, salt, 9, prk1);
        if (role == 0) ref_hkdf_extract(A, key, kl2, prk1, 32, prk2); else ref_hkdf_extract(A, prk1, 32, salt, kl2, prk2);
        ref_hkdf_stream(A, prk2, info, il, exp, 70);
        if (A) { ascon_hkdfa_extract(&st.ha, key, 33, salt, 9); if (used) ascon_hkdfa_expand(&st.ha, info, 3, got, 33);
                 if (role == 0) ascon_hkdfa_extract(&st.ha, key, kl2, st.ha.prk, 32); else ascon_hkdfa_extract(&st.ha, st.ha.prk, 32, salt, kl2);
                 ascon_hkdfa_expand(&st.ha, info, il, got, 70); ascon_hkdfa_free(&st.ha); }
        else   { ascon_hkdf_extract(&st.h, key, 33, salt, 9); if (used) ascon_hkdf_expand(&st.h, info, 3, got, 33);
                 if (role == 0) ascon_hkdf_extract(&st.h, key, kl2, st.h.prk, 32); else ascon_hkdf_extract(&st.h, st.h.prk, 32, salt, kl2);
                 ascon_hkdf_expand(&st.h, info, il, got, 70); ascon_hkdf_free(&st.h); }
        hx_stat("evaluations", 1); hx_stat("histories", 1);
        if (memcmp(got, exp, 70)) hx_fail(A ? "hkdfa:extract-chain" : "hkdf:extract-chain", "second extraction with the object's own pseudorandom key as the %s (other input %zu bytes, object %s): output differs from RFC 5869", role ? "input key" : "salt", kl2, used ? "partly expanded" : "fresh");
    }
    for (int n1 = LIMIT - w; n1 <= LIMIT + 1; n1++) for (int n2 = 0; n2 <= w + 2; n2++) for (int n3i = 0; n3i < 4; n3i++) {
        if (n1 < LIMIT - 34 && n2 > 2 && (n1 + n2 < LIMIT - 1)) continue; /* far from the limit: covered by the small-history pass below */
        size_t req[3] = {(size_t)n1, (size_t)n2, (size_t)n3s[n3i]};
        union { ascon_hkdf_state_t h; ascon_hkdfa_state_t ha; } st;
        /* every other history runs on an object with a past: extracted with other inputs and partly expanded (extract is also the re-initialisation) */
        { static unsigned past; uint8_t t[40]; if (past++ & 1) { if (A) { ascon_hkdfa_extract(&st.ha, salt, 9, key, 20); ascon_hkdfa_expand(&st.ha, info, 3, t, 33); } else { ascon_hkdf_extract(&st.h, salt, 9, key, 20); ascon_hkdf_expand(&st.h, info, 3, t, 33); } } else memset(&st, 0xEE, sizeof st); }
        if (A) ascon_hkdfa_extract(&st.ha, key, 33, salt, 9); else ascon_hkdf_extract(&st.h, key, 33, salt, 9);
        size_t served = 0; int refused = 0;
        for (int c = 0; c < 3; c++) {
            uint8_t *o = hx_buf(req[c]); memset(o, 0xAA, req[c]);
            int r = A ? ascon_hkdfa_expand(&st.ha, info, il, o, req[c]) : ascon_hkdf_expand(&st.h, info, il, o, req[c]);
            size_t can = LIMIT - served; if (can > req[c]) can = req[c];
            int expect_refuse = refused || req[c] > can;
            hx_stat("evaluations", 1);
            if (memcmp(o, e + served, can)) hx_fail(kv, "served bytes differ from RFC 5869 stream: history %zu,%zu,%zu call %d", req[0], req[1], req[2], c);
            for (size_t i = can; i < req[c]; i++) if (o[i] != 0) { hx_fail(kv, "unserved tail not zero-filled at %zu: history %zu,%zu,%zu call %d", i, req[0], req[1], req[2], c); break; }
            if (expect_refuse && r >= 0 && req[c] > can) hx_fail(kv, "request beyond 255 blocks not refused (result %d): history %zu,%zu,%zu call %d", r, req[0], req[1], req[2], c);
            if (!expect_refuse && r != 0) hx_fail(kv, "servable request refused (result %d): history %zu,%zu,%zu call %d", r, req[0], req[1], req[2], c);
            if (!hx_buf_ok(o, req[c])) hx_fail(kv, "stray write: history %zu,%zu,%zu", req[0], req[1], req[2]);
            served += can; if (req[c] > can) refused = 1;
            hx_free(o);
        }
        if (A) ascon_hkdfa_free(&st.ha); else ascon_hkdf_free(&st.h);
        hx_stat("nontrivial", 1); hx_stat("histories", 1);
    }
    /* long histories: the whole stream in steps of 1, 7, 31, 33 and 255 bytes (thousands of calls on one object), then refused requests of 1 and 40 bytes, then again */
    { static const int steps[] = {1, 7, 31, 33, 255};
      for (unsigned si = 0; si < 5; si++) {
        union { ascon_hkdf_state_t h; ascon_hkdfa_state_t ha; } st; size_t served = 0; uint8_t o[256]; int bad = 0;
        if (A) ascon_hkdfa_extract(&st.ha, key, 33, salt, 9); else ascon_hkdf_extract(&st.h, key, 33, salt, 9);
        while (served < LIMIT && !bad) { size_t n = steps[si]; if (n > LIMIT - served) n = LIMIT - served;
            int r = A ? ascon_hkdfa_expand(&st.ha, info, il, o, n) : ascon_hkdf_expand(&st.h, info, il, o, n); hx_stat("evaluations", 1);
            if (r != 0 || memcmp(o, e + served, n)) { hx_fail(kv, "long history in steps of %d: the call at offset %zu returned %d or differs from the RFC 5869 stream", steps[si], served, r); bad = 1; }
            served += n; }
        for (int again = 0; again < 4 && !bad; again++) { size_t n = (again & 1) ? 40 : 1; memset(o, 0xAA, n);
            int r = A ? ascon_hkdfa_expand(&st.ha, info, il, o, n) : ascon_hkdf_expand(&st.h, info, il, o, n);
            if (r >= 0) { hx_fail(kv, "long history in steps of %d: request #%d of %zu bytes after the 255th block was served (result %d)", steps[si], again + 1, n, r); bad = 1; } }
        if (A) ascon_hkdfa_free(&st.ha); else ascon_hkdf_free(&st.h);
        hx_stat("histories", 1);
      } }
    /* small histories: all (n1, n2, n3) in 0..70 step patterns, stream consistency */
    int m = tier ? 70 : 40;
    for (int n1 = 0; n1 <= m; n1++) for (int n2 = 0; n2 <= m; n2 += (tier ? 1 : 3)) for (int n3 = 0; n3 <= 33; n3 += 11) {
        size_t req[3] = {(size_t)n1, (size_t)n2, (size_t)n3}, served = 0;
        union { ascon_hkdf_state_t h; ascon_hkdfa_state_t ha; } st;
        /* every other history runs on an object with a past: extracted with other inputs and partly expanded (extract is also the re-initialisation) */
        { static unsigned past; uint8_t t[40]; if (past++ & 1) { if (A) { ascon_hkdfa_extract(&st.ha, salt, 9, key, 20); ascon_hkdfa_expand(&st.ha, info, 3, t, 33); } else { ascon_hkdf_extract(&st.h, salt, 9, key, 20); ascon_hkdf_expand(&st.h, info, 3, t, 33); } } else memset(&st, 0xEE, sizeof st); }
        if (A) ascon_hkdfa_extract(&st.ha, key, 33, salt, 9); else ascon_hkdf_extract(&st.h, key, 33, salt, 9);
        for (int c = 0; c < 3; c++) {
            uint8_t *o = hx_buf(req[c]);
            int r = A ? ascon_hkdfa_expand(&st.ha, info, il, o, req[c]) : ascon_hkdf_expand(&st.h, info, il, o, req[c]);
            hx_stat("evaluations", 1);
            if (r != 0 || memcmp(o, e + served, req[c]) || !hx_buf_ok(o, req[c])) hx_fail(kv, "small history %zu,%zu,%zu call %d: result %d or bytes differ from stream", req[0], req[1], req[2], c, r);
            served += req[c]; hx_free(o);
        }
        hx_stat("histories", 1);
    }
    hx_sample("hkdf expand a=%d: histories extract,expand(n1 in 8160-%d..8161),expand(n2 in 0..%d),expand(n3 in {0,1,32,33}) + all small histories", A, w, w + 2);
    free(e);
}

static void pbkdf2(void)
{
    static const unsigned long counts[] = {0, 1, 2, 3, 4, 5, 10};
    static const int outs[] = {0, 1, 31, 32, 33, 63, 64, 65, 96, 100}, ls[] = {0, 1, 8, 32, 33, 64, 65, 5, 6, 7, 100};
    uint8_t pw[128], salt[128], *e = malloc(70000);
    hx_fill(pw, 128, pat, 1); hx_fill(salt, 128, pat, 2);
    int nls = tier ? 11 : 7;
    for (int hm = 0; hm < 2; hm++) for (int pi = 0; pi < nls; pi++) for (int si = 0; si < nls; si++) for (unsigned ci = 0; ci < 7; ci++) {
        size_t pl = ls[pi], sl = ls[si]; unsigned long cnt = counts[ci];
        if (hm) ref_pbkdf2_hmac(pw, pl, salt, sl, cnt, e, 100); else ref_pbkdf2(pw, pl, salt, sl, cnt, e, 100);
        for (unsigned oi = 0; oi < 10; oi++) {
            size_t ol = outs[oi]; uint8_t *o = hx_buf(ol);
            if (hm) ascon_pbkdf2_hmac(o, ol, HX_OPT(pw, pl), pl, HX_OPT(salt, sl), sl, cnt); else ascon_pbkdf2(o, ol, HX_OPT(pw, pl), pl, HX_OPT(salt, sl), sl, cnt);
            hx_stat("evaluations", 1); hx_stat("nontrivial", 1);
            if (memcmp(o, e, ol)) hx_fail(hm ? "pbkdf2-hmac:value" : "pbkdf2:value", "differs from RFC 8018: pwlen=%zu saltlen=%zu count=%lu outlen=%zu pat=%d", pl, sl, cnt, ol, pat);
            if (!hx_buf_ok(o, ol)) hx_fail(hm ? "pbkdf2-hmac:stray-write" : "pbkdf2:stray-write", "outlen=%zu", ol);
            hx_free(o);
        }
    }
    /* long outputs: block index crossing 255/256 (8160..8224) and a larger count */
    for (int hm = 0; hm < 2; hm++) {
        size_t ol = 8300; uint8_t *o = hx_buf(ol);
        if (hm) { ref_pbkdf2_hmac(pw, 9, salt, 7, 2, e, ol); ascon_pbkdf2_hmac(o, ol, pw, 9, salt, 7, 2); }
        else { ref_pbkdf2(pw, 9, salt, 7, 2, e, ol); ascon_pbkdf2(o, ol, pw, 9, salt, 7, 2); }
        hx_stat("evaluations", 1);
        if (memcmp(o, e, ol)) hx_fail(hm ? "pbkdf2-hmac:value" : "pbkdf2:value", "differs from RFC 8018 for outlen=8300 (block index > 255)");
        hx_free(o);
        o = hx_buf(40);
        if (hm) { ref_pbkdf2_hmac(pw, 9, salt, 7, 1000, e, 40); ascon_pbkdf2_hmac(o, 40, pw, 9, salt, 7, 1000); }
        else { ref_pbkdf2(pw, 9, salt, 7, 1000, e, 40); ascon_pbkdf2(o, 40, pw, 9, salt, 7, 1000); }
        if (memcmp(o, e, 40)) hx_fail(hm ? "pbkdf2-hmac:value" : "pbkdf2:value", "differs from RFC 8018 for count=1000");
        hx_free(o);
    }
    /* block indices beyond 16 and (thorough) 24 bits: the blocks of T are independent, so single blocks of a long output are compared with F(P, S, c, i) computed by the reference */
    for (int hm = 0; hm < 2; hm++) for (int big = 0; big <= (tier ? 1 : 0); big++) {
        uint32_t top = big ? ((uint32_t)1 << 24) : 65536u; size_t ol = (size_t)(top + 1) * 32 + 5; uint8_t *o = malloc(ol + 8);
        if (!o) { printf("CAPPED no memory for a %zu-byte PBKDF2 output\n", ol); continue; }
        memset(o + ol, 0xC5, 8);
        if (hm) ascon_pbkdf2_hmac(o, ol, pw, 9, salt, 7, 1); else ascon_pbkdf2(o, ol, pw, 9, salt, 7, 1);
        uint32_t probe[] = {1, 2, 255, 256, 257, 65535, 65536, 65537, top - 1, top, top + 1, top + 2};
        for (unsigned k = 0; k < sizeof probe / sizeof probe[0]; k++) {
            uint32_t idx = probe[k]; if ((size_t)(idx - 1) * 32 >= ol) continue;
            uint8_t buf[16], t[32]; memcpy(buf, salt, 7); buf[7] = (uint8_t)(idx >> 24); buf[8] = (uint8_t)(idx >> 16); buf[9] = (uint8_t)(idx >> 8); buf[10] = (uint8_t)idx;
            if (hm) ref_hmac(0, pw, 9, buf, 11, t); else ref_cxof(0, (const uint8_t *)"PBKDF2", 6, pw, 9, 32, buf, 11, t, 32);
            size_t off = (size_t)(idx - 1) * 32, n = ol - off < 32 ? ol - off : 32; hx_stat("evaluations", 1);
            if (memcmp(o + off, t, n)) hx_fail(hm ? "pbkdf2-hmac:value" : "pbkdf2:value", "block %u of a %zu-byte output differs from RFC 8018 F(P, S, 1, %u)", idx, ol, idx);
        }
        for (int i = 0; i < 8; i++) if (o[ol + i] != 0xC5) { hx_fail(hm ? "pbkdf2-hmac:stray-write" : "pbkdf2:stray-write", "wrote beyond a %zu-byte output", ol); break; }
        free(o);
    }
    hx_sample("pbkdf2 (cXOF PRF and HMAC): pw/salt lengths x count {0,1,2,3,4,5,10} x outlen {0,1,31,32,33,63,64,65,96,100}, pattern %d", pat);
    free(e);
}

static void kdf(void)
{
    uint8_t key[80], cust[80], e[200];
    hx_fill(key, 80, pat, 1); hx_fill(cust, 80, pat, 5);
    int mk = tier ? 72 : 40, mc = tier ? 40 : 24;
    static const int outs[] = {0, 1, 7, 8, 9, 16, 31, 32, 33, 64, 100};
    for (int kl = 0; kl <= mk; kl++) for (int cl = 0; cl <= mc; cl += (tier || cl < 10) ? 1 : 7) for (unsigned oi = 0; oi < 11; oi++) {
        size_t ol = outs[oi]; uint8_t *o = hx_buf(ol);
        ref_kdf(A, key, kl, cust, cl, e, ol);
        if (A) ascon_kdfa(o, ol, HX_OPT(key, kl), kl, HX_OPT(cust, cl), cl); else ascon_kdf(o, ol, HX_OPT(key, kl), kl, HX_OPT(cust, cl), cl);
        hx_stat("evaluations", 1); hx_stat("nontrivial", 1);
        if (memcmp(o, e, ol) || !hx_buf_ok(o, ol)) hx_fail(A ? "kdfa:oneshot" : "kdf:oneshot", "differs from cXOF('KDF'): keylen=%d customlen=%d outlen=%zu pat=%d", kl, cl, ol, pat);
        memset(o, 0xAA, ol);
        if (A) { ascon_kdfa_state_t s; ascon_kdfa_init(&s, key, kl, cust, cl, ol); ascon_kdfa_squeeze(&s, o, ol); ascon_kdfa_free(&s); }
        else { ascon_kdf_state_t s; ascon_kdf_init(&s, key, kl, cust, cl, ol); ascon_kdf_squeeze(&s, o, ol); ascon_kdf_free(&s); }
        hx_stat("evaluations", 1);
        if (memcmp(o, e, ol) || !hx_buf_ok(o, ol)) hx_fail(A ? "kdfa:incremental" : "kdf:incremental", "differs from cXOF('KDF'): keylen=%d customlen=%d outlen=%zu pat=%d", kl, cl, ol, pat);
        if (ol == 33 || ol == 9) {
            /* declared length 0 = arbitrary-length output: cXOF("KDF", custom, 0) over the key, through init and through reinit */
            uint8_t e0[48], o0[48];
            ref_cxof(A, (const uint8_t *)"KDF", 3, cust, cl, 0, key, kl, e0, 40);
            if (A) { ascon_kdfa_state_t s; ascon_kdfa_init(&s, key, kl, cust, cl, 0); ascon_kdfa_squeeze(&s, o0, 7); ascon_kdfa_squeeze(&s, o0 + 7, 33); ascon_kdfa_reinit(&s, key, kl, cust, cl, 0); ascon_kdfa_squeeze(&s, o0 + 40, 8); ascon_kdfa_free(&s); }
            else { ascon_kdf_state_t s; ascon_kdf_init(&s, key, kl, cust, cl, 0); ascon_kdf_squeeze(&s, o0, 7); ascon_kdf_squeeze(&s, o0 + 7, 33); ascon_kdf_reinit(&s, key, kl, cust, cl, 0); ascon_kdf_squeeze(&s, o0 + 40, 8); ascon_kdf_free(&s); }
            hx_stat("evaluations", 1);
            if (memcmp(o0, e0, 40) || memcmp(o0 + 40, e0, 8)) hx_fail(A ? "kdfa:declared-0" : "kdf:declared-0", "init / reinit with declared length 0 differs from cXOF('KDF', custom, 0): keylen=%d customlen=%d pat=%d", kl, cl, pat);
            if (A) ascon_kdfa(o0, 0, key, kl, cust, cl); else ascon_kdf(o0, 0, key, kl, cust, cl);   /* a zero-length one-shot request writes nothing */
        }
        /* re-use: a state used for other parameters (key and custom exchanged, other length), then re-initialised for these ones, split squeeze */
        memset(o, 0xAA, ol);
        if (A) { ascon_kdfa_state_t s; ascon_kdfa_init(&s, cust, cl, key, kl, 17); ascon_kdfa_squeeze(&s, e + 150, 9); ascon_kdfa_reinit(&s, key, kl, cust, cl, ol); ascon_kdfa_squeeze(&s, o, ol / 3); ascon_kdfa_squeeze(&s, o + ol / 3, ol - ol / 3); ascon_kdfa_free(&s); }
        else { ascon_kdf_state_t s; ascon_kdf_init(&s, cust, cl, key, kl, 17); ascon_kdf_squeeze(&s, e + 150, 9); ascon_kdf_reinit(&s, key, kl, cust, cl, ol); ascon_kdf_squeeze(&s, o, ol / 3); ascon_kdf_squeeze(&s, o + ol / 3, ol - ol / 3); ascon_kdf_free(&s); }
        hx_stat("evaluations", 1);
        if (memcmp(o, e, ol) || !hx_buf_ok(o, ol)) hx_fail(A ? "kdfa:reinit" : "kdf:reinit", "after reinit differs from cXOF('KDF'): keylen=%d customlen=%d outlen=%zu pat=%d", kl, cl, ol, pat);
        hx_free(o);
    }
    hx_sample("kdf a=%d: key 0..%d x custom 0..%d x outlen set, one-shot and init+squeeze", A, mk, mc);
}

int main(int argc, char **argv)
{
    hx_init();
    if (argc < 5) return 2;
    A = atoi(argv[2]); pat = atoi(argv[3]); tier = atoi(argv[4]);
    if (!strcmp(argv[1], "hkdf")) hkdf();
    else if (!strcmp(argv[1], "expand")) expand();
    else if (!strcmp(argv[1], "pbkdf2")) pbkdf2();
    else kdf();
    hx_finish();
    return 0;
}
