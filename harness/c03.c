/* C03: HASH/HASHA/XOF/XOFA, fixed-length XOF, cXOF against the reference.
 * usage: c03 <a 0|1> <mode plain|fixed|cxof> <pattern> <tier> */
#include "hx.h"
#include "ref.h"
#include <ascon/hash.h>
#include <ascon/xof.h>
void cpp_hash(int a, const unsigned char *m, size_t n, unsigned char *out);
void cpp_xof(int a, size_t declared, const unsigned char *m, size_t n, unsigned char *out, size_t outlen);
void cpp_hash_copy(int a, const unsigned char *m, size_t n, unsigned char *out, int mode);
void cpp_xof_copy(int a, const unsigned char *m, size_t n, unsigned char *out, size_t outlen, int mode);
void cpp_cxof(int a, size_t declared, const char *fn, const unsigned char *c, size_t cl, int form, const unsigned char *m, size_t n, unsigned char *out, size_t outlen);

static int A, pat, tier;
static const char *nm(const char *base) { static char b[4][32]; static int i; i = (i + 1) & 3; snprintf(b[i], 32, "%s%s", base, A ? "a" : ""); return b[i]; }

typedef union { ascon_xof_state_t x; ascon_xofa_state_t xa; } xst;
static void x_init(xst *s) { if (A) ascon_xofa_init(&s->xa); else ascon_xof_init(&s->x); }
static void x_init_fixed(xst *s, size_t n) { if (A) ascon_xofa_init_fixed(&s->xa, n); else ascon_xof_init_fixed(&s->x, n); }
static void x_init_custom(xst *s, const char *fn, const uint8_t *c, size_t cl, size_t n) { if (A) ascon_xofa_init_custom(&s->xa, fn, c, cl, n); else ascon_xof_init_custom(&s->x, fn, c, cl, n); }
static void x_absorb(xst *s, const uint8_t *p, size_t n) { if (A) ascon_xofa_absorb(&s->xa, p, n); else ascon_xof_absorb(&s->x, p, n); }
static void x_squeeze(xst *s, uint8_t *p, size_t n) { if (A) ascon_xofa_squeeze(&s->xa, p, n); else ascon_xof_squeeze(&s->x, p, n); }
static void x_free(xst *s) { if (A) ascon_xofa_free(&s->xa); else ascon_xof_free(&s->x); }
static void x_copy(xst *d, const xst *s) { if (A) ascon_xofa_copy(&d->xa, &s->xa); else ascon_xof_copy(&d->x, &s->x); }
static void x_reinit(xst *s) { if (A) ascon_xofa_reinit(&s->xa); else ascon_xof_reinit(&s->x); }
static void x_reinit_fixed(xst *s, size_t n) { if (A) ascon_xofa_reinit_fixed(&s->xa, n); else ascon_xof_reinit_fixed(&s->x, n); }
static void x_reinit_custom(xst *s, const char *fn, const uint8_t *c, size_t cl, size_t n) { if (A) ascon_xofa_reinit_custom(&s->xa, fn, c, cl, n); else ascon_xof_reinit_custom(&s->x, fn, c, cl, n); }
/* a state object with a past: one of six histories (other variant, whole blocks absorbed with nothing pending, pending bytes, squeezed, unused), selected by k */
static void x_used(xst *s, unsigned k, const uint8_t *msg)
{
    switch (k % 6) {
    case 0: x_init(s); break;
    case 1: x_init_fixed(s, 77); x_absorb(s, msg, 16); break;
    case 2: x_init_custom(s, "used", msg, 3, 32); x_absorb(s, msg, 5); break;
    case 3: { uint8_t t[20]; x_init_fixed(s, 32); x_absorb(s, msg, 8); x_squeeze(s, t, 20); break; }
    case 4: x_init_fixed(s, 0); break;
    default: { uint8_t t[8]; x_init(s); x_squeeze(s, t, 8); break; }
    }
}

static void cmp(const char *key, const uint8_t *got, const uint8_t *exp, size_t n, const char *fmt, size_t a, size_t b, size_t c, size_t d)
{
    hx_stat("evaluations", 1);
    if (memcmp(got, exp, n)) { char f[160]; snprintf(f, sizeof f, "differs from reference: %s pat=%d", fmt, pat); hx_fail(key, f, a, b, c, d); }
    if (!hx_buf_ok(got, n)) hx_fail(key, "wrote outside the output buffer");
}

static void plain(void)
{
    int maxin = tier ? 1100 : 72, maxout = tier ? 600 : 72;
    static const size_t longs[] = {4095, 4096, 4097, 65535, 65536, 65537};
    uint8_t *msg = malloc(70000); hx_fill(msg, 70000, pat, 4);
    uint8_t *exp = malloc(70000);
    for (int il = 0; il <= maxin + 6; il++) {   /* the six long lengths are part of every tier */
        size_t inlen = il <= maxin ? (size_t)il : longs[il - maxin - 1];
        const uint8_t *mp = HX_OPT(msg, inlen);
        uint8_t *o = hx_buf(32), e[32];
        ref_hash(A, msg, inlen, e);
        if (A) ascon_hasha(o, mp, inlen); else ascon_hash(o, mp, inlen);
        cmp(nm("hash:oneshot:hash"), o, e, 32, "inlen=%zu", inlen, 0, 0, 0);
        memset(o, 0xAA, 32);
        if (A) { ascon_hasha_state_t h; ascon_hasha_init(&h); ascon_hasha_update(&h, mp, inlen); ascon_hasha_finalize(&h, o); ascon_hasha_free(&h); }
        else { ascon_hash_state_t h; ascon_hash_init(&h); ascon_hash_update(&h, mp, inlen); ascon_hash_finalize(&h, o); ascon_hash_free(&h); }
        cmp(nm("hash:incremental:hash"), o, e, 32, "inlen=%zu", inlen, 0, 0, 0);
        {   /* the same through reinit on an object with a past: nothing, a few bytes, whole blocks, or a finished digest */
            static const size_t pasts[6] = {0, 1, 8, 16, 24, 13}; size_t pb = pasts[inlen % 6]; int fin = (inlen % 7) == 3; uint8_t t[32]; memset(o, 0xAA, 32);
            if (A) { ascon_hasha_state_t h; ascon_hasha_init(&h); ascon_hasha_update(&h, msg, pb); if (fin) ascon_hasha_finalize(&h, t); ascon_hasha_reinit(&h); ascon_hasha_update(&h, mp, inlen); ascon_hasha_finalize(&h, o); ascon_hasha_free(&h); }
            else { ascon_hash_state_t h; ascon_hash_init(&h); ascon_hash_update(&h, msg, pb); if (fin) ascon_hash_finalize(&h, t); ascon_hash_reinit(&h); ascon_hash_update(&h, mp, inlen); ascon_hash_finalize(&h, o); ascon_hash_free(&h); }
            cmp(nm("hash:reinit:hash"), o, e, 32, "inlen=%zu past=%zu finalised=%zu", inlen, pb, (size_t)fin, 0);
        }
        memset(o, 0xAA, 32);
        ref_xof(A, msg, inlen, e, 32);
        if (A) ascon_xofa(o, mp, inlen); else ascon_xof(o, mp, inlen);
        cmp(nm("xof:oneshot:xof"), o, e, 32, "inlen=%zu", inlen, 0, 0, 0);
        /* the C++ classes: hash / hasha, xof / xofa and the fixed-length templates for 32 and 64 bytes */
        memset(o, 0xAA, 32); cpp_xof(A, 0, msg, inlen, o, 32); cmp(nm("xof:cpp:xof"), o, e, 32, "inlen=%zu", inlen, 0, 0, 0);
        memset(o, 0xAA, 32); ref_hash(A, msg, inlen, e); cpp_hash(A, msg, inlen, o); cmp(nm("hash:cpp:hash"), o, e, 32, "inlen=%zu", inlen, 0, 0, 0);
        if (inlen <= 64) for (int cm = 0; cm < 3; cm++) {   /* C++ objects copy-constructed, assigned over a used object, assigned to themselves in the middle of the message */
            memset(o, 0xAA, 32); cpp_hash_copy(A, msg, inlen, o, cm); cmp(nm("hash:cpp-copy:hash"), o, e, 32, "inlen=%zu way=%zu", inlen, (size_t)cm, 0, 0);
            uint8_t ex[32]; ref_xof(A, msg, inlen, ex, 32); memset(o, 0xAA, 32); cpp_xof_copy(A, msg, inlen, o, 32, cm); cmp(nm("xof:cpp-copy:xof"), o, ex, 32, "inlen=%zu way=%zu", inlen, (size_t)cm, 0, 0); }
        memset(o, 0xAA, 32); cpp_xof(A, 32, msg, inlen, o, 32); cmp(nm("xof:cpp-fixed-32:xof"), o, e, 32, "inlen=%zu", inlen, 0, 0, 0);
        if (inlen < 200) { uint8_t e64[64], o64[64]; ref_xof_fixed(A, 64, msg, inlen, e64, 64); cpp_xof(A, 64, msg, inlen, o64, 64); hx_stat("evaluations", 1); if (memcmp(o64, e64, 64)) hx_fail(nm("xof:cpp-fixed-64:xof"), "differs from reference: inlen=%zu pat=%d", inlen, pat); }
        hx_free(o);
        /* all output lengths for this input; the reference stream is prefix-consistent by construction */
        int mo = (il <= 80 || il == maxin || il > maxin) ? maxout : 40;
        ref_xof(A, msg, inlen, exp, mo + 70);
        for (int ol = 0; ol <= mo; ol++) {
            if (il > 80 && il <= maxin && ol > 17 && ol != mo) continue;
            uint8_t *out = hx_buf(ol); xst s;
            x_init(&s); x_absorb(&s, mp, inlen); x_squeeze(&s, out, ol); x_free(&s);
            cmp(nm("xof:stream:xof"), out, exp, ol, "inlen=%zu outlen=%zu", inlen, ol, 0, 0);
            if (inlen + ol > 0) hx_stat("nontrivial", 1);
            /* same computation with input and output each given in three calls (one empty); split points vary with the shape */
            {
                size_t i1 = (inlen * 3 + ol + 1) % (inlen + 1), o1 = (ol * 5 + inlen * 3 + 2) % (ol + 1), o2 = o1 + (ol - o1) / 2;
                memset(out, 0xAA, ol);
                x_init(&s); x_absorb(&s, mp, i1); x_absorb(&s, mp ? mp + i1 : 0, 0); x_absorb(&s, mp ? mp + i1 : 0, inlen - i1);
                x_squeeze(&s, out, o1); x_squeeze(&s, out + o1, 0); x_squeeze(&s, out + o1, o2 - o1); x_squeeze(&s, out + o2, ol - o2); x_free(&s);
                cmp(nm("xof:stream-chunked:xof"), out, exp, ol, "inlen=%zu outlen=%zu split in %zu / out %zu", inlen, ol, i1, o1);
                if (ol == 9 || ol == 17 || ol == mo) {
                    /* a clone taken while absorbing, and one taken after o1 bytes have been squeezed (also 0 bytes), continues exactly like its original */
                    xst c1, c2; memset(out, 0xAA, ol);
                    x_init(&s); x_absorb(&s, mp, i1); x_copy(&c1, &s); x_absorb(&c1, mp ? mp + i1 : 0, inlen - i1); x_squeeze(&c1, out, o1);
                    x_copy(&c2, &c1); x_squeeze(&c2, out + o1, ol - o1); x_free(&s); x_free(&c1); x_free(&c2);
                    cmp(nm("xof:copy:xof"), out, exp, ol, "inlen=%zu outlen=%zu cloned after absorbing %zu and after squeezing %zu", inlen, ol, i1, o1);
                }
                if (ol == 9 || ol == mo) { memset(out, 0xAA, ol); x_used(&s, (unsigned)(il + ol), msg); x_reinit(&s); x_absorb(&s, mp, inlen); x_squeeze(&s, out, ol); x_free(&s);
                    cmp(nm("xof:reinit:xof"), out, exp, ol, "inlen=%zu outlen=%zu history %zu", inlen, ol, (size_t)((il + ol) % 6), 0); }
            }
            hx_free(out);
        }
    }
    /* zero padding to the next block boundary (ascon_xof_pad / ascon_xofa_pad): XOF(m1 || 0^pad || m2), a no-op when already aligned; several pads in a row pad once */
    for (size_t k = 0; k <= 26; k++) for (size_t rest = 0; rest <= 17; rest += (rest < 10 ? 1 : 7)) for (int twice = 0; twice < 2; twice++) {
        uint8_t pm[64], o[40], e2[40]; size_t pk = (k + 7) / 8 * 8; xst s;
        memset(pm, 0, sizeof pm); memcpy(pm, msg, k); memcpy(pm + pk, msg + k, rest);
        ref_xof(A, pm, pk + rest, e2, 40);
        x_init(&s); x_absorb(&s, msg, k);
        if (A) { ascon_xofa_pad(&s.xa); if (twice) ascon_xofa_pad(&s.xa); } else { ascon_xof_pad(&s.x); if (twice) ascon_xof_pad(&s.x); }
        x_absorb(&s, msg + k, rest); x_squeeze(&s, o, 40); x_free(&s);
        hx_stat("evaluations", 1); hx_stat("nontrivial", 1);
        if (memcmp(o, e2, 40)) hx_fail(nm("xof:pad:xof"), "absorb(%zu), pad%s, absorb(%zu) differs from XOF over the zero-padded message pat=%d", k, twice ? " x2" : "", rest, pat);
    }
    /* long outputs */
    for (unsigned i = 0; i < 6; i++) {
        size_t ol = longs[i]; uint8_t *out = hx_buf(ol); xst s;
        ref_xof(A, msg, 9, exp, ol);
        x_init(&s); x_absorb(&s, msg, 9); x_squeeze(&s, out, ol); x_free(&s);
        cmp(nm("xof:stream:xof"), out, exp, ol, "inlen=9 outlen=%zu", ol, 0, 0, 0);
        hx_free(out);
    }
    hx_sample("a=%d plain: hash one-shot/incremental, xof one-shot, xof stream inlen 0..%d x outlen 0..%d pattern %d", A, maxin, maxout, pat);
    free(msg); free(exp);
}

static const size_t decl[] = {0, 1, 2, 7, 8, 9, 15, 16, 17, 24, 31, 32, 33, 40, 63, 64, 65, 80, 255, 256, 4096, 65536,
    ((size_t)1 << 24), ((size_t)1 << 29) - 1, (size_t)1 << 29, ((size_t)1 << 29) + 1, (size_t)1 << 30, (size_t)1 << 32, ((size_t)1 << 32) + 32, ((size_t)1 << 61) + 4, (size_t)-1};

static void fixed(void)
{
    uint8_t msg[64]; hx_fill(msg, 64, pat, 4);
    int nd = sizeof decl / sizeof decl[0], dmax = tier ? 200 : 0;
    for (int di = 0; di < nd + dmax; di++) {
        size_t d = di < nd ? decl[di] : (size_t)(di - nd);
        for (int inlen = 0; inlen <= (tier ? 40 : 17); inlen++) {
            uint8_t e[96]; ref_xof_fixed(A, d, msg, inlen, e, 96);
            for (int ol = 0; ol <= 80; ol += (ol < 18 || tier) ? 1 : 7) {
                uint8_t *out = hx_buf(ol); xst s;
                x_init_fixed(&s, d); x_absorb(&s, HX_OPT(msg, inlen), inlen); x_squeeze(&s, out, ol); x_free(&s);
                cmp(nm("xof:fixed:xof"), out, e, ol, "declared=%zu inlen=%zu outlen=%zu", d, inlen, ol, 0);
                hx_stat("nontrivial", 1);
                if (ol == 0 || ol == 33 || ol == 80 || ol == (inlen & 15)) {
                    /* the same through reinit_fixed on an object with a past */
                    memset(out, 0xAA, ol); x_used(&s, (unsigned)(di + inlen + ol), msg); x_reinit_fixed(&s, d); x_absorb(&s, HX_OPT(msg, inlen), inlen); x_squeeze(&s, out, ol); x_free(&s);
                    cmp(nm("xof:reinit-fixed:xof"), out, e, ol, "declared=%zu inlen=%zu outlen=%zu history %zu", d, inlen, ol, (size_t)((di + inlen + ol) % 6));
                }
                hx_free(out);
            }
        }
        /* declared 32 == HASH; declared 0 or >= 2^29 == plain XOF (cross-checked against the independent reference entry points) */
        uint8_t e1[40], e2[40];
        ref_xof_fixed(A, d, msg, 11, e1, 40);
        if (d == 32) { ref_hash(A, msg, 11, e2); if (memcmp(e1, e2, 32)) hx_fail("ref-self-check", "reference fixed(32) != hash"); }
        if (d == 0 || d >= ((size_t)1 << 29)) { ref_xof(A, msg, 11, e2, 40); if (memcmp(e1, e2, 40)) hx_fail("ref-self-check", "reference fixed(%zu) != xof", d); }
    }
    hx_sample("a=%d fixed: %d declared lengths incl. 2^29-1, 2^29, 2^32+32, SIZE_MAX x inlen x outlen<=80", A, nd + dmax);
}

static void cxof(void)
{
    uint8_t msg[64], custom[64]; char name[80];
    hx_fill(msg, 64, pat, 4); hx_fill(custom, 64, pat, 5);
    for (int i = 0; i < 79; i++) { name[i] = (char)(pat == 0 ? 'A' + i % 26 : (hx_mix(hx_seed + i * 31 + pat) % 255) + 1); }
    static const size_t dcl[] = {0, 16, 32, 64, 33, (size_t)1 << 29, ((size_t)1 << 29) - 1, ((size_t)1 << 29) + 1, (size_t)1 << 32, ((size_t)1 << 61) + 4, ((size_t)1 << 63) + 2, (size_t)-1};
    int maxname = tier ? 70 : 40, maxcust = tier ? 40 : 24;
    for (int nl = -1; nl <= maxname; nl++) {            /* -1: NULL name */
        char nb[80]; const char *np = 0;
        if (nl >= 0) { memcpy(nb, name, nl); nb[nl] = 0; np = nb; }
        size_t rnl = nl < 0 ? 0 : (size_t)nl;
        for (int cl = 0; cl <= maxcust; cl++) {
            if (!tier && nl > 2 && nl != 31 && nl != 32 && nl != 33 && nl != 40 && cl > 2 && cl != 7 && cl != 8 && cl != 9 && cl != 16 && cl != 17) continue;
            for (unsigned di = 0; di < sizeof dcl / sizeof dcl[0]; di++) {
                if (!tier && di > 2 && (nl % 8) && (cl % 8)) continue;
                for (int inlen = 0; inlen <= 17; inlen += (tier || inlen < 2) ? 1 : 5) {
                    uint8_t e[48]; ref_cxof(A, (const uint8_t *)nb, rnl, custom, cl, dcl[di], msg, inlen, e, 48);
                    for (int ol = 0; ol <= 40; ol += (ol < 2) ? 1 : 13) {
                        uint8_t *out = hx_buf(ol); xst s;
                        x_init_custom(&s, np, HX_OPT(custom, cl), cl, dcl[di]); x_absorb(&s, HX_OPT(msg, inlen), inlen); x_squeeze(&s, out, ol); x_free(&s);
                        cmp(nm("xof:custom:xof"), out, e, ol, "namelen=%zu customlen=%zu declared=%zu inlen/outlen=%zu", rnl, cl, dcl[di], inlen * 1000 + ol);
                        hx_stat("nontrivial", 1);
                        if (ol == 15 || ol == 28) {
                            /* the same through reinit_custom on an object with a past */
                            memset(out, 0xAA, ol); x_used(&s, (unsigned)(nl + cl + inlen + 1), msg); x_reinit_custom(&s, np, HX_OPT(custom, cl), cl, dcl[di]); x_absorb(&s, HX_OPT(msg, inlen), inlen); x_squeeze(&s, out, ol); x_free(&s);
                            cmp(nm("xof:reinit-custom:xof"), out, e, ol, "namelen=%zu customlen=%zu declared=%zu inlen/outlen=%zu", rnl, cl, dcl[di], inlen * 1000 + ol);
                        }
                        if (ol == 28 && (dcl[di] == 0 || dcl[di] == 32 || dcl[di] == 64)) {
                            /* the C++ classes' named-function constructors, both forms */
                            for (int form = 0; form < 2; form++) { memset(out, 0xAA, ol); cpp_cxof(A, dcl[di], np, custom, cl, form, msg, inlen, out, ol); hx_stat("evaluations", 1);
                                cmp(nm(form ? "xof:cpp-custom-byte_array:xof" : "xof:cpp-custom:xof"), out, e, ol, "namelen=%zu customlen=%zu declared=%zu inlen/outlen=%zu", rnl, cl, dcl[di], inlen * 1000 + ol); }
                        }
                        hx_free(out);
                    }
                }
            }
        }
    }
    hx_sample("a=%d cxof: name length NULL,0..%d x custom 0..%d x declared {0,16,32,64,33,2^29,2^29-1,2^29+1,2^32,2^61+4,2^63+2,SIZE_MAX} x inlen x outlen", A, maxname, maxcust);
}

int main(int argc, char **argv)
{
    hx_init();
    if (argc < 5) return 2;
    A = atoi(argv[1]); pat = atoi(argv[3]); tier = atoi(argv[4]);
    if (!strcmp(argv[2], "plain")) plain();
    else if (!strcmp(argv[2], "fixed")) fixed();
    else cxof();
    hx_finish();
    return 0;
}
