/* C09: common workload touching every public function; prints one digest line per item group
 * ("T <item> <hex>") so that configurations can be compared item by item, and checks each
 * result against the reference inline.   usage: c09 [live] */
#include "hx.h"
#include "api.h"
#include "sysrand.h"
#include <ascon/hash.h>
#include <ascon/xof.h>
#include <ascon/prf.h>
#include <ascon/hmac.h>
#include <ascon/kmac.h>
#include <ascon/kdf.h>
#include <ascon/hkdf.h>
#include <ascon/pbkdf2.h>
#include <ascon/random.h>
#include <ascon/utility.h>
#include <ascon/permutation.h>

/* running transcript: absorbed into a reference XOFA via a growable buffer */
static uint8_t *tb; static size_t tl, tc;
static void t_add(const void *p, size_t n) { if (tl + n + 8 > tc) { tc = (tl + n) * 2 + 1024; tb = realloc(tb, tc); } memcpy(tb + tl, p, n); tl += n; }
static void t_int(long v) { t_add(&v, sizeof v); }
static void t_end(const char *item) { uint8_t d[32]; char h[65]; ref_hash(1, tb, tl, d); hx_hex(h, d, 32); printf("T %s %s\n", item, h); hx_stat("items", 1); hx_stat("bytes_compared", (long long)tl); tl = 0; }
static void expect(const char *item, const uint8_t *got, const uint8_t *exp, size_t n, const char *what, int a, int b)
{ hx_stat("evaluations", 1); if (memcmp(got, exp, n)) hx_fail(item, "%s (%d,%d) differs from the reference", what, a, b); }

static const int SH[] = {0, 1, 7, 8, 9, 15, 16, 17, 31, 32, 33, 40};
#define NSH 12
static uint8_t K[20], N[16], ADB[64], MSG[4200], CU[64];

static void aead_items(void)
{
    char item[64];
    for (int alg = 0; alg < 3; alg++) {
        for (int entry = 0; entry < 4; entry++) {
            static const char *en[] = {"oneshot", "incremental", "masked", "cpp"};
            for (int ai = 0; ai < NSH; ai++) for (int li = 0; li < NSH; li++) {
                int a = SH[ai], l = SH[li]; size_t cl = 0, ml = 0; int r = 0;
                uint8_t c[64], e[64], p[64];
                ref_aead_encrypt(alg, K, N, ADB, a, MSG, l, e);
                switch (entry) {
                case 0: api_aead_enc[alg](c, &cl, MSG, l, ADB, a, N, K); r = api_aead_dec[alg](p, &ml, c, cl, ADB, a, N, K); break;
                case 1: { api_inc_state st; api_inc_init[alg](&st, N, K); api_inc_start[alg](&st, ADB, a); api_inc_enc[alg](&st, MSG, c, l / 2); api_inc_enc[alg](&st, MSG + l / 2, c + l / 2, l - l / 2); api_inc_encfin[alg](&st, c + l);
                          api_inc_reinit[alg](&st, N, K); api_inc_start[alg](&st, ADB, a); { int k1 = l > 3 ? 3 : l, k2 = l > 14 ? 14 : l; api_inc_dec[alg](&st, c, p, k1); api_inc_dec[alg](&st, c + k1, p + k1, k2 - k1); api_inc_dec[alg](&st, c + k2, p + k2, l - k2); }   /* cut at 3 and 14: chunks that start inside a word and run past it */
                          r = api_inc_decfin[alg](&st, c + l); api_inc_free[alg](&st); cl = l + 16; ml = l; break; }
                case 2: { api_masked_key mk; api_masked_key_init(alg, &mk, K); api_masked_enc[alg](c, &cl, MSG, l, ADB, a, N, &mk); r = api_masked_dec[alg](p, &ml, c, cl, ADB, a, N, &mk); api_masked_key_free(alg, &mk); break; }
                case 3: cl = (size_t)(((a + l) & 1) ? cpp_encrypt_ctor(0, alg, K, N, c, MSG, l, ADB, a) : cpp_encrypt(0, alg, K, N, c, MSG, l, ADB, a)); r = ((a + l) & 1) ? cpp_decrypt(0, alg, K, N, p, c, cl, ADB, a) : cpp_decrypt_ctor(0, alg, K, N, p, c, cl, ADB, a); ml = r >= 0 ? (size_t)r : 0; if (r > 0) r = 0; break;   /* keyed alternately by set_key and by the key constructor */
                }
                snprintf(item, sizeof item, "aead:%s:%s", api_alg_name[alg], en[entry]);
                if (entry == 1) {   /* the documented in-place form of the block calls (out == in), encryption and decryption */
                    api_inc_state st; uint8_t q[64]; int k1 = l > 9 ? 9 : l, r2;
                    memcpy(q, MSG, l); api_inc_init[alg](&st, N, K); api_inc_start[alg](&st, ADB, a); api_inc_enc[alg](&st, q, q, k1); api_inc_enc[alg](&st, q + k1, q + k1, l - k1); api_inc_encfin[alg](&st, q + l);
                    expect(item, q, e, (size_t)l + 16, "in-place ciphertext", a, l);
                    api_inc_reinit[alg](&st, N, K); api_inc_start[alg](&st, ADB, a); api_inc_dec[alg](&st, q, q, k1); api_inc_dec[alg](&st, q + k1, q + k1, l - k1); r2 = api_inc_decfin[alg](&st, q + l); api_inc_free[alg](&st);
                    if (r2 != 0 || memcmp(q, MSG, l)) hx_fail(item, "in-place decryption failed (%d) for (%d,%d)", r2, a, l);
                    t_add(q, l); t_int(r2);
                }
                if (cl != (size_t)l + 16) hx_fail(item, "ciphertext length %zu for (%d,%d)", cl, a, l); else expect(item, c, e, cl, "ciphertext", a, l);
                if (r != 0 || ml != (size_t)l || memcmp(p, MSG, l)) hx_fail(item, "round trip failed (%d) for (%d,%d)", r, a, l);
                t_add(c, l + 16); t_int(r); t_add(p, l);
            }
            snprintf(item, sizeof item, "aead:%s:%s", api_alg_name[alg], en[entry]); t_end(item);
        }
        /* SIV, ISAP and their C++ classes, masked C++ class */
        for (int ai = 0; ai < NSH; ai++) for (int li = 0; li < NSH; li++) {
            int a = SH[ai], l = SH[li]; size_t cl = 0, ml = 0; uint8_t c[64], e[64], p[64]; int r;
            ref_siv_encrypt(alg, K, N, ADB, a, MSG, l, e);
            api_siv_enc[alg](c, &cl, MSG, l, ADB, a, N, K); r = api_siv_dec[alg](p, &ml, c, cl, ADB, a, N, K);
            snprintf(item, sizeof item, "siv:%s", api_alg_name[alg]); expect(item, c, e, l + 16, "ciphertext", a, l);
            if (r != 0 || memcmp(p, MSG, l)) hx_fail(item, "round trip failed (%d,%d)", a, l);
            t_add(c, l + 16);
            cl = (size_t)cpp_encrypt(2, alg, K, N, c, MSG, l, ADB, a); expect(item, c, e, l + 16, "C++ ciphertext", a, l); t_add(c, l + 16);
            cl = (size_t)cpp_encrypt(1, alg, K, N, c, MSG, l, ADB, a); ref_aead_encrypt(alg, K, N, ADB, a, MSG, l, e); expect(item, c, e, l + 16, "masked C++ ciphertext", a, l); t_add(c, l + 16);
        }
        snprintf(item, sizeof item, "siv:%s", api_alg_name[alg]); t_end(item);
        {
            api_isap_key pk, pk2; uint8_t blob[80], rb[80];
            api_isap_init[alg](&pk, K); api_isap_save[alg](&pk, blob); api_isap_load[alg](&pk2, blob);
            ref_isap_precompute(alg, K, rb, rb + 40);
            snprintf(item, sizeof item, "isap:%s", api_isap_name[alg]); expect(item, blob, rb, 80, "saved key", 0, 0); t_add(blob, 80);
            for (int ai = 0; ai < NSH; ai += 2) for (int li = 0; li < NSH; li++) {
                int a = SH[ai], l = SH[li]; size_t cl = 0, ml = 0; uint8_t c[64], e[64], p[64]; int r;
                ref_isap_encrypt(alg, K, N, ADB, a, MSG, l, e);
                api_isap_enc[alg](c, &cl, MSG, l, ADB, a, N, &pk); r = api_isap_dec[alg](p, &ml, c, cl, ADB, a, N, &pk2);
                expect(item, c, e, l + 16, "ciphertext", a, l);
                if (r != 0 || memcmp(p, MSG, l)) hx_fail(item, "round trip with loaded key failed (%d,%d)", a, l);
                t_add(c, l + 16);
                cl = (size_t)cpp_encrypt(3, alg, K, N, c, MSG, l, ADB, a); expect(item, c, e, l + 16, "C++ ciphertext", a, l); t_add(c, l + 16);
            }
            api_isap_free[alg](&pk); api_isap_free[alg](&pk2); t_end(item);
        }
    }
}

static void hash_items(void)
{
    uint8_t o[300], e[300]; char item[64];
    static const size_t decl[] = {0, 1, 16, 32, 33, 64, 255, (size_t)1 << 29, ((size_t)1 << 29) - 1};
    for (int A = 0; A < 2; A++) {
        for (int l = 0; l <= 80; l++) {
            ref_hash(A, MSG, l, e); if (A) ascon_hasha(o, MSG, l); else ascon_hash(o, MSG, l);
            expect(A ? "hasha" : "hash", o, e, 32, "digest", l, 0); t_add(o, 32);
            ref_xof(A, MSG, l, e, 32); if (A) ascon_xofa(o, MSG, l); else ascon_xof(o, MSG, l);
            expect(A ? "xofa" : "xof", o, e, 32, "digest", l, 0); t_add(o, 32);
        }
        { ref_hash(A, MSG, 4100, e); if (A) ascon_hasha(o, MSG, 4100); else ascon_hash(o, MSG, 4100); expect(A ? "hasha" : "hash", o, e, 32, "digest", 4100, 0); t_add(o, 32); }
        t_end(A ? "hasha+xofa" : "hash+xof");
        for (unsigned d = 0; d < sizeof decl / sizeof decl[0]; d++) for (int l = 0; l <= 17; l += 4) {
            union { ascon_xof_state_t x; ascon_xofa_state_t xa; } s;
            ref_xof_fixed(A, decl[d], MSG, l, e, 70);
            if (A) { ascon_xofa_init_fixed(&s.xa, decl[d]); ascon_xofa_absorb(&s.xa, MSG, l); ascon_xofa_squeeze(&s.xa, o, 70); ascon_xofa_free(&s.xa); }
            else { ascon_xof_init_fixed(&s.x, decl[d]); ascon_xof_absorb(&s.x, MSG, l); ascon_xof_squeeze(&s.x, o, 70); ascon_xof_free(&s.x); }
            expect(A ? "xofa-fixed" : "xof-fixed", o, e, 70, "stream", (int)d, l); t_add(o, 70);
        }
        t_end(A ? "xofa-fixed" : "xof-fixed");
        for (int nl = 0; nl <= 40; nl += 8) for (int cl = 0; cl <= 17; cl += 4) for (unsigned d = 0; d < 4; d++) {
            char name[48]; for (int i = 0; i < nl; i++) name[i] = (char)('a' + i % 26); name[nl] = 0;
            union { ascon_xof_state_t x; ascon_xofa_state_t xa; } s;
            ref_cxof(A, (uint8_t *)name, nl, CU, cl, decl[d], MSG, 13, e, 40);
            if (A) { ascon_xofa_init_custom(&s.xa, name, CU, cl, decl[d]); ascon_xofa_absorb(&s.xa, MSG, 13); ascon_xofa_squeeze(&s.xa, o, 40); ascon_xofa_free(&s.xa); }
            else { ascon_xof_init_custom(&s.x, name, CU, cl, decl[d]); ascon_xof_absorb(&s.x, MSG, 13); ascon_xof_squeeze(&s.x, o, 40); ascon_xof_free(&s.x); }
            expect(A ? "cxofa" : "cxof", o, e, 40, "stream", nl, cl); t_add(o, 40);
        }
        t_end(A ? "cxofa" : "cxof");
        /* MAC family */
        for (int kl = 0; kl <= 130; kl += (kl < 70 ? 7 : 31)) for (int l = 0; l <= 40; l += 9) {
            ref_hmac(A, MSG + 100, kl, MSG, l, e); if (A) ascon_hmaca(o, MSG + 100, kl, MSG, l); else ascon_hmac(o, MSG + 100, kl, MSG, l);
            snprintf(item, sizeof item, A ? "hmaca" : "hmac"); expect(item, o, e, 32, "tag", kl, l); t_add(o, 32);
        }
        t_end(A ? "hmaca" : "hmac");
        for (int kl = 0; kl <= 33; kl += 11) for (int l = 0; l <= 18; l += 6) for (int cl = 0; cl <= 9; cl += 9) for (int ol = 16; ol <= 48; ol += 16) {
            ref_kmac(A, MSG + 100, kl, MSG, l, CU, cl, e, ol);
            if (A) ascon_kmaca(MSG + 100, kl, MSG, l, CU, cl, o, ol); else ascon_kmac(MSG + 100, kl, MSG, l, CU, cl, o, ol);
            expect(A ? "kmaca" : "kmac", o, e, ol, "tag", kl, ol); t_add(o, ol);
            ref_kdf(A, MSG + 100, kl, CU, cl, e, ol);
            if (A) ascon_kdfa(o, ol, MSG + 100, kl, CU, cl); else ascon_kdf(o, ol, MSG + 100, kl, CU, cl);
            expect(A ? "kdfa" : "kdf", o, e, ol, "output", kl, ol); t_add(o, ol);
        }
        t_end(A ? "kmaca+kdfa" : "kmac+kdf");
        for (int kl = 0; kl <= 40; kl += 20) for (int sl = 0; sl <= 33; sl += 33) for (int il = 0; il <= 10; il += 10) for (int ol = 0; ol <= 100; ol += 50) {
            int rr = ref_hkdf(A, MSG + 100, kl, MSG + 200, sl, MSG + 300, il, e, ol);
            int r = A ? ascon_hkdfa(o, ol, MSG + 100, kl, MSG + 200, sl, MSG + 300, il) : ascon_hkdf(o, ol, MSG + 100, kl, MSG + 200, sl, MSG + 300, il);
            if (r != rr) hx_fail(A ? "hkdfa" : "hkdf", "status %d", r); expect(A ? "hkdfa" : "hkdf", o, e, ol, "output", kl, ol); t_add(o, ol);
        }
        t_end(A ? "hkdfa" : "hkdf");
    }
    for (int l = 0; l <= 70; l += 7) for (int ol = 0; ol <= 40; ol += 8) {
        ref_prf(K, 0, MSG, l, e, ol); ascon_prf(o, ol, MSG, l, K); expect("prf", o, e, ol, "output", l, ol); t_add(o, ol);
        ref_prf(K, ol, MSG, l, e, ol); ascon_prf_fixed(o, ol, MSG, l, K); expect("prf", o, e, ol, "fixed output", l, ol); t_add(o, ol);
    }
    for (int l = 0; l <= 16; l++) { ref_prf_short(K, MSG, l, e, 16); int r = ascon_prf_short(o, 16, MSG, l, K); if (r) hx_fail("prf", "prf_short status %d", r); expect("prf", o, e, 16, "short", l, 16); t_add(o, 16); }
    for (int l = 0; l <= 40; l += 5) { ref_prf(K, 16, MSG, l, e, 16); ascon_mac(o, MSG, l, K); expect("prf", o, e, 16, "mac", l, 0); t_add(o, 16); t_int(ascon_mac_verify(e, MSG, l, K)); e[3] ^= 4; t_int(ascon_mac_verify(e, MSG, l, K)); }
    t_end("prf+mac");
    for (unsigned long cnt = 0; cnt <= 3; cnt++) for (int ol = 0; ol <= 70; ol += 35) {
        ref_pbkdf2(MSG, 9, MSG + 50, 7, cnt, e, ol); ascon_pbkdf2(o, ol, MSG, 9, MSG + 50, 7, cnt); expect("pbkdf2", o, e, ol, "output", (int)cnt, ol); t_add(o, ol);
        ref_pbkdf2_hmac(MSG, 9, MSG + 50, 7, cnt, e, ol); ascon_pbkdf2_hmac(o, ol, MSG, 9, MSG + 50, 7, cnt); expect("pbkdf2", o, e, ol, "hmac output", (int)cnt, ol); t_add(o, ol);
    }
    t_end("pbkdf2");
}

#include <ascon/storage.h>
static uint8_t c09_store[64];
static int c09_st_read(const ascon_storage_t *s, size_t off, unsigned char *d, size_t n) { (void)s; if (off + n > 64) return -1; memcpy(d, c09_store + off, n); return (int)n; }
static int c09_st_write(const ascon_storage_t *s, size_t off, const unsigned char *d, size_t n, int erase) { (void)s; (void)erase; if (off + n > 64) return -1; if (d) memcpy(c09_store + off, d, n); return (int)n; }

/* incremental interfaces of both flavours (every init / update / absorb / squeeze / finalize / reinit / copy / free entry point), against the reference */
static void incremental_items(void)
{
    uint8_t o[200], e[200];
    for (int A = 0; A < 2; A++) {
        for (int l = 0; l <= 45; l += 5) {
            int a = l / 3;
            { union { ascon_hash_state_t h; ascon_hasha_state_t ha; } s, c;
              if (A) { ascon_hasha_init(&s.ha); ascon_hasha_update(&s.ha, MSG, a); ascon_hasha_copy(&c.ha, &s.ha); ascon_hasha_update(&c.ha, MSG + a, l - a); ascon_hasha_finalize(&c.ha, o); ascon_hasha_free(&c.ha);
                       ascon_hasha_reinit(&s.ha); ascon_hasha_update(&s.ha, MSG, l); ascon_hasha_finalize(&s.ha, o + 32); ascon_hasha_free(&s.ha); }
              else   { ascon_hash_init(&s.h); ascon_hash_update(&s.h, MSG, a); ascon_hash_copy(&c.h, &s.h); ascon_hash_update(&c.h, MSG + a, l - a); ascon_hash_finalize(&c.h, o); ascon_hash_free(&c.h);
                       ascon_hash_reinit(&s.h); ascon_hash_update(&s.h, MSG, l); ascon_hash_finalize(&s.h, o + 32); ascon_hash_free(&s.h); }
              ref_hash(A, MSG, l, e); memcpy(e + 32, e, 32); expect(A ? "hasha-inc" : "hash-inc", o, e, 64, "digest", l, a); t_add(o, 64); }
            { union { ascon_xof_state_t x; ascon_xofa_state_t xa; } s, c;
              if (A) { ascon_xofa_init(&s.xa); ascon_xofa_absorb(&s.xa, MSG, a); ascon_xofa_copy(&c.xa, &s.xa); ascon_xofa_absorb(&c.xa, MSG + a, l - a); ascon_xofa_squeeze(&c.xa, o, 11); ascon_xofa_squeeze(&c.xa, o + 11, 30); ascon_xofa_free(&c.xa);
                       ascon_xofa_reinit(&s.xa); ascon_xofa_absorb(&s.xa, MSG, l); ascon_xofa_pad(&s.xa); ascon_xofa_squeeze(&s.xa, o + 41, 41); ascon_xofa_reinit_fixed(&s.xa, 41); ascon_xofa_absorb(&s.xa, MSG, l); ascon_xofa_squeeze(&s.xa, o + 82, 41); ascon_xofa_free(&s.xa); }
              else   { ascon_xof_init(&s.x); ascon_xof_absorb(&s.x, MSG, a); ascon_xof_copy(&c.x, &s.x); ascon_xof_absorb(&c.x, MSG + a, l - a); ascon_xof_squeeze(&c.x, o, 11); ascon_xof_squeeze(&c.x, o + 11, 30); ascon_xof_free(&c.x);
                       ascon_xof_reinit(&s.x); ascon_xof_absorb(&s.x, MSG, l); ascon_xof_pad(&s.x); ascon_xof_squeeze(&s.x, o + 41, 41); ascon_xof_reinit_fixed(&s.x, 41); ascon_xof_absorb(&s.x, MSG, l); ascon_xof_squeeze(&s.x, o + 82, 41); ascon_xof_free(&s.x); }
              ref_xof(A, MSG, l, e, 41); { uint8_t pm[64]; int pl = (l + 7) / 8 * 8; memset(pm, 0, sizeof pm); memcpy(pm, MSG, l); ref_xof(A, pm, pl, e + 41, 41); } ref_xof_fixed(A, 41, MSG, l, e + 82, 41); expect(A ? "xofa-inc" : "xof-inc", o, e, 123, "stream", l, a); t_add(o, 123); }
            { union { ascon_hmac_state_t h; ascon_hmaca_state_t ha; } s; int kl = 3 + 2 * l;
              if (A) { ascon_hmaca_init(&s.ha, MSG + 100, kl); ascon_hmaca_update(&s.ha, MSG, a); ascon_hmaca_update(&s.ha, MSG + a, l - a); ascon_hmaca_finalize(&s.ha, MSG + 100, kl, o);
                       ascon_hmaca_reinit(&s.ha, MSG + 100, kl); ascon_hmaca_update(&s.ha, MSG, l); ascon_hmaca_finalize(&s.ha, MSG + 100, kl, o + 32); ascon_hmaca_free(&s.ha); }
              else   { ascon_hmac_init(&s.h, MSG + 100, kl); ascon_hmac_update(&s.h, MSG, a); ascon_hmac_update(&s.h, MSG + a, l - a); ascon_hmac_finalize(&s.h, MSG + 100, kl, o);
                       ascon_hmac_reinit(&s.h, MSG + 100, kl); ascon_hmac_update(&s.h, MSG, l); ascon_hmac_finalize(&s.h, MSG + 100, kl, o + 32); ascon_hmac_free(&s.h); }
              ref_hmac(A, MSG + 100, kl, MSG, l, e); memcpy(e + 32, e, 32); expect(A ? "hmaca-inc" : "hmac-inc", o, e, 64, "tag", l, kl); t_add(o, 64); }
            { union { ascon_kmac_state_t k; ascon_kmaca_state_t ka; } s; int kl = l % 23, cl = l % 7;
              if (A) { ascon_kmaca_init(&s.ka, MSG + 100, kl, CU, cl, 40); ascon_kmaca_absorb(&s.ka, MSG, a); ascon_kmaca_absorb(&s.ka, MSG + a, l - a); ascon_kmaca_squeeze(&s.ka, o, 7); ascon_kmaca_squeeze(&s.ka, o + 7, 33);
                       ascon_kmaca_reinit(&s.ka, MSG + 100, kl, CU, cl, 32); ascon_kmaca_absorb(&s.ka, MSG, l); ascon_kmaca_squeeze(&s.ka, o + 40, 32); ascon_kmaca_free(&s.ka); }
              else   { ascon_kmac_init(&s.k, MSG + 100, kl, CU, cl, 40); ascon_kmac_absorb(&s.k, MSG, a); ascon_kmac_absorb(&s.k, MSG + a, l - a); ascon_kmac_squeeze(&s.k, o, 7); ascon_kmac_squeeze(&s.k, o + 7, 33);
                       ascon_kmac_reinit(&s.k, MSG + 100, kl, CU, cl, 32); ascon_kmac_absorb(&s.k, MSG, l); ascon_kmac_squeeze(&s.k, o + 40, 32); ascon_kmac_free(&s.k); }
              ref_kmac(A, MSG + 100, kl, MSG, l, CU, cl, e, 40); ref_kmac(A, MSG + 100, kl, MSG, l, CU, cl, e + 40, 32); expect(A ? "kmaca-inc" : "kmac-inc", o, e, 72, "tag", l, kl); t_add(o, 72); }
            { union { ascon_kdf_state_t k; ascon_kdfa_state_t ka; } s; int kl = 1 + l % 29, cl = l % 5;
              if (A) { ascon_kdfa_init(&s.ka, MSG + 100, kl, CU, cl, 50); ascon_kdfa_squeeze(&s.ka, o, 9); ascon_kdfa_squeeze(&s.ka, o + 9, 41); ascon_kdfa_reinit(&s.ka, MSG + 100, kl, CU, cl, 0); ascon_kdfa_squeeze(&s.ka, o + 50, 50); ascon_kdfa_free(&s.ka); }
              else   { ascon_kdf_init(&s.k, MSG + 100, kl, CU, cl, 50); ascon_kdf_squeeze(&s.k, o, 9); ascon_kdf_squeeze(&s.k, o + 9, 41); ascon_kdf_reinit(&s.k, MSG + 100, kl, CU, cl, 0); ascon_kdf_squeeze(&s.k, o + 50, 50); ascon_kdf_free(&s.k); }
              ref_kdf(A, MSG + 100, kl, CU, cl, e, 50);
              { uint8_t e2[50]; /* declared length 0 = arbitrary-length output */ union { ascon_xof_state_t x; ascon_xofa_state_t xa; } r;
                if (A) { ascon_xofa_init_custom(&r.xa, "KDF", CU, cl, 0); ascon_xofa_absorb(&r.xa, MSG + 100, kl); ascon_xofa_squeeze(&r.xa, e2, 50); ascon_xofa_free(&r.xa); }
                else   { ascon_xof_init_custom(&r.x, "KDF", CU, cl, 0); ascon_xof_absorb(&r.x, MSG + 100, kl); ascon_xof_squeeze(&r.x, e2, 50); ascon_xof_free(&r.x); }
                memcpy(e + 50, e2, 50); }
              expect(A ? "kdfa-inc" : "kdf-inc", o, e, 100, "output", l, kl); t_add(o, 100); }
            { union { ascon_hkdf_state_t h; ascon_hkdfa_state_t ha; } s; int kl = 1 + l, sl = l % 20, il = l % 11; int r1, r2;
              if (A) { ascon_hkdfa_extract(&s.ha, MSG + 100, kl, MSG + 200, sl); r1 = ascon_hkdfa_expand(&s.ha, MSG + 300, il, o, 35); r2 = ascon_hkdfa_expand(&s.ha, MSG + 300, il, o + 35, 65); ascon_hkdfa_free(&s.ha); }
              else   { ascon_hkdf_extract(&s.h, MSG + 100, kl, MSG + 200, sl); r1 = ascon_hkdf_expand(&s.h, MSG + 300, il, o, 35); r2 = ascon_hkdf_expand(&s.h, MSG + 300, il, o + 35, 65); ascon_hkdf_free(&s.h); }
              ref_hkdf(A, MSG + 100, kl, MSG + 200, sl, MSG + 300, il, e, 100); if (r1 || r2) hx_fail(A ? "hkdfa-inc" : "hkdf-inc", "expand status %d %d", r1, r2);
              expect(A ? "hkdfa-inc" : "hkdf-inc", o, e, 100, "output", l, kl); t_add(o, 100); }
        }
        /* phase switches on one XOF object: squeeze, then pad / absorb again (no reference: the transcript is compared across configurations, and the checker builds see the acquire/release pairs) */
        { union { ascon_xof_state_t x; ascon_xofa_state_t xa; } s;
          if (A) { ascon_xofa_init(&s.xa); ascon_xofa_absorb(&s.xa, MSG, 5); ascon_xofa_squeeze(&s.xa, o, 11); ascon_xofa_pad(&s.xa); ascon_xofa_absorb(&s.xa, MSG, 9); ascon_xofa_squeeze(&s.xa, o + 11, 20); ascon_xofa_absorb(&s.xa, MSG, 3); ascon_xofa_pad(&s.xa); ascon_xofa_pad(&s.xa); ascon_xofa_squeeze(&s.xa, o + 31, 9); ascon_xofa_free(&s.xa); }
          else   { ascon_xof_init(&s.x); ascon_xof_absorb(&s.x, MSG, 5); ascon_xof_squeeze(&s.x, o, 11); ascon_xof_pad(&s.x); ascon_xof_absorb(&s.x, MSG, 9); ascon_xof_squeeze(&s.x, o + 11, 20); ascon_xof_absorb(&s.x, MSG, 3); ascon_xof_pad(&s.x); ascon_xof_pad(&s.x); ascon_xof_squeeze(&s.x, o + 31, 9); ascon_xof_free(&s.x); }
          t_add(o, 40);
          ascon_prf_state_t ps; ascon_prf_init(&ps, K); ascon_prf_absorb(&ps, MSG, 5); ascon_prf_squeeze(&ps, o, 7); ascon_prf_absorb(&ps, MSG, 40); ascon_prf_squeeze(&ps, o + 7, 20); ascon_prf_free(&ps); t_add(o, 27); }
        t_end(A ? "incremental-a" : "incremental");
    }
    for (int l = 0; l <= 70; l += 7) { ascon_prf_state_t s; int a = l / 2;
        ascon_prf_init(&s, K); ascon_prf_absorb(&s, MSG, a); ascon_prf_absorb(&s, MSG + a, l - a); ascon_prf_squeeze(&s, o, 5); ascon_prf_squeeze(&s, o + 5, 35);
        ascon_prf_reinit(&s, K); ascon_prf_absorb(&s, MSG, l); ascon_prf_squeeze(&s, o + 40, 40);
        ascon_prf_fixed_reinit(&s, K, 24); ascon_prf_absorb(&s, MSG, l); ascon_prf_squeeze(&s, o + 80, 24); ascon_prf_free(&s);
        ascon_prf_fixed_init(&s, K, 24); ascon_prf_absorb(&s, MSG, l); ascon_prf_squeeze(&s, o + 104, 24); ascon_prf_free(&s);
        ref_prf(K, 0, MSG, l, e, 40); memcpy(e + 40, e, 40); ref_prf(K, 24, MSG, l, e + 80, 24); memcpy(e + 104, e + 80, 24);
        expect("prf-inc", o, e, 128, "output", l, a); t_add(o, 128); }
    t_end("prf-incremental");
    /* state copy, extract_and_add, the fixed-round macros */
    for (int d = 0; d < 8; d++) {
        ascon_state_t st, c2; uint8_t b[40], e2[40], x[40], ex[40]; hx_fill(b, 40, HX_P_DENSE, 700 + d); memcpy(e2, b, 40);
        ascon_init(&st); ascon_overwrite_bytes(&st, b, 0, 40); ascon_permute12(&st); ascon_permute8(&st); ascon_permute6(&st);
        ascon_extract_and_add_bytes(&st, MSG, x, 5, 30); ascon_release(&st); ascon_init(&c2); ascon_copy(&c2, &st); ascon_release(&c2); ascon_acquire(&st); ascon_free(&st);
        ascon_acquire(&c2); ascon_permute(&c2, 11); ascon_extract_bytes(&c2, b, 0, 40); ascon_free(&c2);
        ref_permute(e2, 0); ref_permute(e2, 4); ref_permute(e2, 6); for (int i = 0; i < 30; i++) ex[i] = e2[5 + i] ^ MSG[i]; ref_permute(e2, 11);
        expect("permutation", b, e2, 40, "copied state", d, 0); expect("permutation", x, ex, 30, "extract_and_add", d, 0); t_add(b, 40); t_add(x, 30);
    }
    t_end("permutation-copy");
    /* seed persistence: save, load into a second generator; the status values and the bytes written are part of the transcript */
    { ascon_random_state_t rs; uint8_t o2[64]; int r;
      sysrand_reset(91); r = ascon_random_init(&rs); t_int(r);
      ascon_storage_t stg; memset(&stg, 0, sizeof stg); stg.page_size = 1; stg.size = 64; stg.read = c09_st_read; stg.write = c09_st_write;
      r = ascon_random_save_seed(&rs, &stg); t_int(r); t_add(c09_store, 64);
      r = ascon_random_load_seed(&rs, &stg); t_int(r); ascon_random_fetch(&rs, o2, 48); t_add(o2, 48); t_add(c09_store, 64); ascon_random_free(&rs); }
    t_end("random-seed");
}

/* refusal and failure paths of every function that has one: they must return the documented result and leave nothing behind
 * (in the checker configurations an unbalanced acquire on such a path aborts at the next library call) */
static int c09_fail_read(const ascon_storage_t *s, size_t off, unsigned char *d, size_t n) { (void)s; (void)off; (void)d; (void)n; return -1; }
static int c09_fail_write(const ascon_storage_t *s, size_t off, const unsigned char *d, size_t n, int erase) { (void)s; (void)off; (void)d; (void)n; (void)erase; return -1; }
static void refusal_items(void)
{
    uint8_t o[200], c[96], p[96]; size_t l; int r;
    r = ascon_prf_short(o, 16, MSG, 17, K); t_int(r); if (r != -1) hx_fail("refusal", "prf_short with 17 input bytes returned %d", r);
    r = ascon_prf_short(o, 17, MSG, 16, K); t_int(r); if (r != -1) hx_fail("refusal", "prf_short with 17 output bytes returned %d", r);
    ascon_hash(o, MSG, 3); t_add(o, 32);
    { static uint8_t big[8200]; r = ascon_hkdf(big, 8161, K, 16, N, 16, ADB, 3); t_int(r); if (r == 0) hx_fail("refusal", "hkdf with 8161 output bytes returned 0"); r = ascon_hkdfa(big, 8192, K, 16, 0, 0, 0, 0); t_int(r);
      ascon_hkdf_state_t h; ascon_hkdf_extract(&h, K, 16, N, 16); r = ascon_hkdf_expand(&h, ADB, 3, big, 8150); t_int(r); r = ascon_hkdf_expand(&h, ADB, 3, big, 20); t_int(r); r = ascon_hkdf_expand(&h, ADB, 3, big, 1); t_int(r); ascon_hkdf_free(&h);
      ascon_hkdfa_state_t ha; ascon_hkdfa_extract(&ha, K, 16, N, 16); r = ascon_hkdfa_expand(&ha, ADB, 3, big, 8161); t_int(r); ascon_hkdfa_free(&ha); }
    ascon_hasha(o, MSG, 3); t_add(o, 32);
    for (int alg = 0; alg < 3; alg++) {
        /* forged tag, and a packet shorter than the tag, through every decryption entry point */
        api_aead_enc[alg](c, &l, MSG, 21, ADB, 5, N, K); c[l - 1] ^= 1;
        r = api_aead_dec[alg](p, &l, c, 37, ADB, 5, N, K); t_int(r); r = api_aead_dec[alg](p, &l, c, 15, ADB, 5, N, K); t_int(r);
        { api_inc_state st; api_inc_init[alg](&st, N, K); api_inc_start[alg](&st, ADB, 5); api_inc_dec[alg](&st, c, p, 21); r = api_inc_decfin[alg](&st, c + 21); t_int(r); api_inc_start[alg](&st, 0, 0); api_inc_enc[alg](&st, MSG, p, 3); api_inc_encfin[alg](&st, p + 3); t_add(p, 19); api_inc_free[alg](&st); }
        { api_masked_key mk; api_masked_key_init(alg, &mk, K); r = api_masked_dec[alg](p, &l, c, 37, ADB, 5, N, &mk); t_int(r); r = api_masked_dec[alg](p, &l, c, 9, ADB, 5, N, &mk); t_int(r); api_masked_enc[alg](p, &l, MSG, 3, 0, 0, N, &mk); t_add(p, 19); api_masked_key_free(alg, &mk); }
        api_siv_enc[alg](c, &l, MSG, 21, ADB, 5, N, K); c[3] ^= 1; r = api_siv_dec[alg](p, &l, c, 37, ADB, 5, N, K); t_int(r); r = api_siv_dec[alg](p, &l, c, 15, ADB, 5, N, K); t_int(r);
        { api_isap_key pk; api_isap_init[alg](&pk, K); api_isap_enc[alg](c, &l, MSG, 21, ADB, 5, N, &pk); c[30] ^= 4; r = api_isap_dec[alg](p, &l, c, 37, ADB, 5, N, &pk); t_int(r); r = api_isap_dec[alg](p, &l, c, 0, ADB, 5, N, &pk); t_int(r);
          api_isap_enc[alg](c, &l, MSG, 2, 0, 0, N, &pk); t_add(c, 18); api_isap_free[alg](&pk); }
        for (int fam = 0; fam < 4; fam++) { cpp_encrypt(fam, alg, K, N, c, MSG, 9, ADB, 2); c[9] ^= 1; r = cpp_decrypt(fam, alg, K, N, p, c, 25, ADB, 2); t_int(r); r = cpp_decrypt(fam, alg, K, N, p, c, 7, ADB, 2); t_int(r); }
        ascon_xof(o, MSG, 5); t_add(o, 32);
    }
    { uint8_t tag[16]; ascon_mac(tag, MSG, 9, K); tag[15] ^= 1; r = ascon_mac_verify(tag, MSG, 9, K); t_int(r); }
    { uint8_t b[8]; r = ascon_bytes_from_hex(b, 8, "012", 3); t_int(r); r = ascon_bytes_from_hex(b, 1, "0102", 4); t_int(r); r = ascon_bytes_from_hex(b, 8, "zz", 2); t_int(r); char h[8]; r = ascon_bytes_to_hex(h, 4, MSG, 2, 0); t_int(r); }
    /* failing system source and failing storage */
    { ascon_random_state_t rs; sysrand_reset(5); sysrand_fail_mask = ~(uint64_t)0; r = ascon_random_init(&rs); t_int(r); ascon_random_fetch(&rs, o, 20); r = ascon_random_reseed(&rs); t_int(r); r = ascon_random(o, 9); t_int(r);
      ascon_storage_t stg; memset(&stg, 0, sizeof stg); stg.page_size = 1; stg.size = 64; stg.read = c09_fail_read; stg.write = c09_fail_write;
      r = ascon_random_save_seed(&rs, &stg); t_int(r); r = ascon_random_load_seed(&rs, &stg); t_int(r); stg.size = 8; r = ascon_random_save_seed(&rs, &stg); t_int(r); r = ascon_random_load_seed(&rs, &stg); t_int(r);
      r = ascon_random_save_seed(0, &stg); t_int(r); r = ascon_random_load_seed(&rs, 0); t_int(r); ascon_random_free(&rs); sysrand_fail_mask = 0; sysrand_reset(6); }
    ascon_hash(o, MSG, 1); t_add(o, 32);
    t_end("refusals");
}

static void misc_items(void)
{
    /* permutation API */
    for (int r = 0; r < 12; r++) for (int d = 0; d < 8; d++) {
        ascon_state_t st; uint8_t b[40], e[40]; hx_fill(b, 40, HX_P_DENSE, 500 + d); memcpy(e, b, 40);
        ascon_init(&st); ascon_overwrite_bytes(&st, b, 0, 40); ascon_permute(&st, (uint8_t)r);
        ascon_add_bytes(&st, MSG, 3, 11); ascon_overwrite_with_zeroes(&st, 17, 5); ascon_extract_bytes(&st, b, 0, 40); ascon_free(&st);
        ref_permute(e, r); for (int i = 0; i < 11; i++) e[3 + i] ^= MSG[i]; memset(e + 17, 0, 5);
        expect("permutation", b, e, 40, "state", r, d); t_add(b, 40);
    }
    t_end("permutation");
    /* nonce helpers, hex codec */
    { uint8_t n[16]; memset(n, 0xff, 16); ascon_aead_increment_nonce(n); t_add(n, 16); ascon_aead_set_counter(n, 0x0102030405060708ULL); t_add(n, 16); n[15] = 0xff; ascon_aead_increment_nonce(n); t_add(n, 16); }
    { char h[100]; uint8_t b[40]; int r = ascon_bytes_to_hex(h, sizeof h, MSG, 33, 0); t_int(r); t_add(h, 67); r = ascon_bytes_to_hex(h, sizeof h, MSG, 33, 1); t_add(h, 67);
      r = ascon_bytes_from_hex(b, 40, h, 66); t_int(r); t_add(b, 33); if (r != 33 || memcmp(b, MSG, 33)) hx_fail("hex", "round trip"); r = ascon_bytes_from_hex(b, 40, "0g", 2); t_int(r); }
    t_end("nonce+hex");
    /* masked key objects */
    { ascon_masked_key_128_t k1; ascon_masked_key_160_t k2; uint8_t o[20];
      ascon_masked_key_128_init(&k1, K); ascon_masked_key_128_randomize(&k1); ascon_masked_key_128_extract(&k1, o); t_add(o, 16); if (memcmp(o, K, 16)) hx_fail("masked-key", "128 extract != key"); ascon_masked_key_128_free(&k1);
      ascon_masked_key_160_init(&k2, K); ascon_masked_key_160_randomize(&k2); ascon_masked_key_160_extract(&k2, o); t_add(o, 20); if (memcmp(o, K, 20)) hx_fail("masked-key", "160 extract != key"); ascon_masked_key_160_free(&k2); }
    /* the keys in use after one and after two re-randomisations: the packets are those of the unmasked functions */
    for (int alg = 0; alg < 3; alg++) for (int times = 1; times <= 2; times++) {
        api_masked_key mk; uint8_t c[64], e[64], p[48]; size_t cl = 0, ml = 0; api_masked_key_init(alg, &mk, K);
        for (int q = 0; q < times; q++) api_masked_key_randomize(alg, &mk);
        api_masked_enc[alg](c, &cl, MSG, 21, ADB, 5, N, &mk); ref_aead_encrypt(alg, K, N, ADB, 5, MSG, 21, e);
        if (cl != 37 || memcmp(c, e, 37)) hx_fail("masked-key", "%s: packet made with a key re-randomised %d time(s) differs from the unmasked function", api_alg_name[alg], times);
        api_masked_key_randomize(alg, &mk); int r = api_masked_dec[alg](p, &ml, e, 37, ADB, 5, N, &mk); t_add(c, 37); t_int(r);
        if (r != 0 || ml != 21 || memcmp(p, MSG, 21)) hx_fail("masked-key", "%s: the unmasked packet is not decrypted with a re-randomised key (result %d)", api_alg_name[alg], r);
        api_masked_key_free(alg, &mk);
    }
    t_end("masked-key");
    /* PRNG with a scripted system source: deterministic in the tape */
    { ascon_random_state_t rs; uint8_t o[64]; int r;
      sysrand_reset(77); r = ascon_random_init(&rs); t_int(r); ascon_random_fetch(&rs, o, 40); t_add(o, 40); ascon_random_feed(&rs, MSG, 13); ascon_random_fetch(&rs, o, 9); t_add(o, 9);
      r = ascon_random_reseed(&rs); t_int(r); ascon_random_fetch(&rs, o, 64); t_add(o, 64);
      /* across the automatic reseed limit: 16384 bytes, then more (the forced-reseed branch), in one call and in small calls */
      { static uint8_t bigo[16400]; ascon_random_fetch(&rs, bigo, 16384); t_add(bigo + 16300, 84); ascon_random_fetch(&rs, o, 8); t_add(o, 8); for (int i = 0; i < 1200; i++) ascon_random_fetch(&rs, bigo, 15); ascon_random_fetch(&rs, o, 9); t_add(o, 9); }
      ascon_random_free(&rs);
      sysrand_reset(78); r = ascon_random(o, 33); t_int(r); t_add(o, 33); }
    t_end("random");
}

/* ---- checker build: two live objects of every incremental type, all interleaved op sequences up to depth 3 ---- */
typedef struct { const char *name; void (*init)(void *); void (*op)(void *, int); void (*fin)(void *); } livekind;
typedef struct { uint64_t w[40]; } lobj;
static uint8_t sink[64];
static void lk_xof_i(void *o) { ascon_xof_init(o); } static void lk_xof_o(void *o, int k) { if (k == 0) ascon_xof_absorb(o, MSG, 5); else if (k == 1) ascon_xof_squeeze(o, sink, 11); else { ascon_xof_state_t c; ascon_xof_copy(&c, o); ascon_xof_free(&c); } } static void lk_xof_f(void *o) { ascon_xof_free(o); }
static void lk_xofa_i(void *o) { ascon_xofa_init_custom(o, "live", CU, 3, 0); } static void lk_xofa_o(void *o, int k) { if (k == 0) ascon_xofa_absorb(o, MSG, 9); else if (k == 1) ascon_xofa_squeeze(o, sink, 3); else ascon_xofa_reinit(o); } static void lk_xofa_f(void *o) { ascon_xofa_free(o); }
static void lk_hash_i(void *o) { ascon_hash_init(o); } static void lk_hash_o(void *o, int k) { if (k == 0) ascon_hash_update(o, MSG, 5); else if (k == 1) ascon_hash_finalize(o, sink); else ascon_hash_reinit(o); } static void lk_hash_f(void *o) { ascon_hash_free(o); }
static void lk_prf_i(void *o) { ascon_prf_init(o, K); } static void lk_prf_o(void *o, int k) { if (k == 0) ascon_prf_absorb(o, MSG, 33); else if (k == 1) ascon_prf_squeeze(o, sink, 17); else ascon_prf_reinit(o, K); } static void lk_prf_f(void *o) { ascon_prf_free(o); }
static void lk_hmac_i(void *o) { ascon_hmac_init(o, K, 16); } static void lk_hmac_o(void *o, int k) { if (k == 0) ascon_hmac_update(o, MSG, 5); else if (k == 1) ascon_hmac_finalize(o, K, 16, sink); else ascon_hmac_reinit(o, K, 16); } static void lk_hmac_f(void *o) { ascon_hmac_free(o); }
static void lk_kmac_i(void *o) { ascon_kmac_init(o, K, 16, CU, 4, 32); } static void lk_kmac_o(void *o, int k) { if (k == 0) ascon_kmac_absorb(o, MSG, 5); else if (k == 1) ascon_kmac_squeeze(o, sink, 32); else ascon_kmac_reinit(o, K, 16, 0, 0, 16); } static void lk_kmac_f(void *o) { ascon_kmac_free(o); }
static void lk_kdf_i(void *o) { ascon_kdf_init(o, K, 16, CU, 4, 32); } static void lk_kdf_o(void *o, int k) { if (k < 2) ascon_kdf_squeeze(o, sink, 9 + k); else ascon_kdf_reinit(o, K, 16, 0, 0, 16); } static void lk_kdf_f(void *o) { ascon_kdf_free(o); }
static void lk_hkdf_i(void *o) { ascon_hkdf_extract(o, K, 16, N, 16); } static void lk_hkdf_o(void *o, int k) { ascon_hkdf_expand(o, CU, 4, sink, 20 + k); } static void lk_hkdf_f(void *o) { ascon_hkdf_free(o); }
static void lk_a128_i(void *o) { ascon128_aead_init(o, N, K); ascon128_aead_start(o, ADB, 5); } static void lk_a128_o(void *o, int k) { if (k == 0) ascon128_aead_encrypt_block(o, MSG, sink, 13); else if (k == 1) { ascon128_aead_encrypt_finalize(o, sink); ascon128_aead_start(o, ADB, 9); } else ascon128_aead_reinit(o, N, K), ascon128_aead_start(o, 0, 0); } static void lk_a128_f(void *o) { ascon128_aead_free(o); }
static void lk_a128a_i(void *o) { ascon128a_aead_init(o, N, K); ascon128a_aead_start(o, ADB, 17); } static void lk_a128a_o(void *o, int k) { if (k == 0) ascon128a_aead_decrypt_block(o, MSG, sink, 21); else if (k == 1) { ascon128a_aead_decrypt_finalize(o, sink); ascon128a_aead_start(o, ADB, 1); } else ascon128a_aead_encrypt_block(o, MSG, sink, 16); } static void lk_a128a_f(void *o) { ascon128a_aead_free(o); }
static void lk_a80_i(void *o) { ascon80pq_aead_init(o, N, K); ascon80pq_aead_start(o, 0, 0); } static void lk_a80_o(void *o, int k) { if (k == 0) ascon80pq_aead_encrypt_block(o, MSG, sink, 8); else if (k == 1) { ascon80pq_aead_encrypt_finalize(o, sink); ascon80pq_aead_start(o, ADB, 8); } else ascon80pq_aead_encrypt_block(o, MSG, sink, 0); } static void lk_a80_f(void *o) { ascon80pq_aead_free(o); }
static void lk_rnd_i(void *o) { ascon_random_init(o); } static void lk_rnd_o(void *o, int k) { if (k == 0) ascon_random_fetch(o, sink, 20); else if (k == 1) ascon_random_feed(o, MSG, 7); else ascon_random_reseed(o); } static void lk_rnd_f(void *o) { ascon_random_free(o); }
static void lk_isap_i(void *o) { ascon128a_isap_aead_init(o, K); } static void lk_isap_o(void *o, int k) { size_t cl; uint8_t c[96]; if (k == 0) ascon128a_isap_aead_encrypt(c, &cl, MSG, 9, ADB, 3, N, o); else if (k == 1) ascon128a_isap_aead_save_key(o, c); else { ascon128a_isap_aead_save_key(o, c); ascon128a_isap_aead_load_key(o, c); } } static void lk_isap_f(void *o) { ascon128a_isap_aead_free(o); }
static void lk_state_i(void *o) { ascon_init(o); ascon_release(o); } static void lk_state_o(void *o, int k) { ascon_acquire(o); if (k == 0) ascon_permute(o, 0); else if (k == 1) ascon_add_bytes(o, MSG, 0, 8); else ascon_extract_bytes(o, sink, 0, 8); ascon_release(o); } static void lk_state_f(void *o) { ascon_acquire(o); ascon_free(o); }
/* one-shot calls made while other objects are live */
static void lk_one_i(void *o) { (void)o; } static void lk_one_o(void *o, int k) { size_t cl; uint8_t c[64]; (void)o; if (k == 0) ascon128_aead_encrypt(c, &cl, MSG, 9, ADB, 3, N, K); else if (k == 1) ascon_hash(c, MSG, 9); else { ascon_masked_key_128_t mk; ascon_masked_key_128_init(&mk, K); ascon128_masked_aead_encrypt(c, &cl, MSG, 9, ADB, 3, N, &mk); ascon_masked_key_128_free(&mk); } } static void lk_one_f(void *o) { (void)o; }
static const livekind LK[] = {
    {"xof", lk_xof_i, lk_xof_o, lk_xof_f}, {"xofa-custom", lk_xofa_i, lk_xofa_o, lk_xofa_f}, {"hash", lk_hash_i, lk_hash_o, lk_hash_f}, {"prf", lk_prf_i, lk_prf_o, lk_prf_f},
    {"hmac", lk_hmac_i, lk_hmac_o, lk_hmac_f}, {"kmac", lk_kmac_i, lk_kmac_o, lk_kmac_f}, {"kdf", lk_kdf_i, lk_kdf_o, lk_kdf_f}, {"hkdf", lk_hkdf_i, lk_hkdf_o, lk_hkdf_f},
    {"aead128", lk_a128_i, lk_a128_o, lk_a128_f}, {"aead128a", lk_a128a_i, lk_a128a_o, lk_a128a_f}, {"aead80pq", lk_a80_i, lk_a80_o, lk_a80_f}, {"random", lk_rnd_i, lk_rnd_o, lk_rnd_f},
    {"isap128a-key", lk_isap_i, lk_isap_o, lk_isap_f}, {"ascon_state", lk_state_i, lk_state_o, lk_state_f}, {"oneshot", lk_one_i, lk_one_o, lk_one_f}};
#define NLK (int)(sizeof LK / sizeof LK[0])

static void live(int i, int j)
{
    /* all sequences of depth <= 3 of (object, op) with 2 objects x 3 ops; the process aborts if the checker trips */
    long seqs = 0;
    for (int depth = 0; depth <= 3; depth++) {
        int total = 1; for (int d = 0; d < depth; d++) total *= 6;
        for (int code = 0; code < total; code++) {
            lobj a, b; int c = code;
            printf("LIVE %s %s seq", LK[i].name, LK[j].name);
            for (int d = 0, cc = code; d < depth; d++, cc /= 6) printf(" %c%d", "AB"[cc % 6 / 3], cc % 3);
            printf("\n");
            LK[i].init(&a); LK[j].init(&b);
            for (int d = 0; d < depth; d++, c /= 6) { int which = (c % 6) / 3, op = c % 3; if (which == 0) LK[i].op(&a, op); else LK[j].op(&b, op); }
            LK[i].fin(&a); LK[j].fin(&b);
            seqs++;
        }
    }
    hx_stat("live_sequences", seqs);
}

int main(int argc, char **argv)
{
    hx_init();
    hx_fill(K, 20, HX_P_DENSE, 1); hx_fill(N, 16, HX_P_DENSE, 2); hx_fill(ADB, 64, HX_P_DENSE, 3); hx_fill(MSG, sizeof MSG, HX_P_DENSE, 4); hx_fill(CU, 64, HX_P_DENSE, 5);
    sysrand_reset(hx_seed);
    if (argc >= 4 && !strcmp(argv[1], "live")) {
        live(atoi(argv[2]), atoi(argv[3]));
    } else if (argc >= 2 && !strcmp(argv[1], "nlive")) {
        printf("NLIVE %d\n", NLK);
    } else {
        aead_items(); hash_items(); incremental_items(); refusal_items(); misc_items();
        hx_sample("transcript of %lld item groups over AEAD x4 entries, SIV, ISAP, hash/XOF/cXOF, PRF/MAC, HMAC, KMAC, KDF, HKDF, PBKDF2, permutation API, nonce/hex helpers, masked keys, PRNG", *hx_statp("items"));
    }
    hx_finish();
    return 0;
}
