/* C13: freed / cleared objects retain nothing derived from secrets (C API part).
 * For every object type and every operation history of length <= 3 the scenario is run twice in the
 * same pre-patterned memory with two secret assignments that differ in every byte; after the terminal
 * free every byte of the object must be equal in the two runs.
 * Link against the repository's own Release (-O3) static library.   usage: c13 <maxhist> */
#include "hx.h"
#include "sysrand.h"
#include <ascon/aead.h>
#include <ascon/aead-masked.h>
#include <ascon/hash.h>
#include <ascon/xof.h>
#include <ascon/prf.h>
#include <ascon/hmac.h>
#include <ascon/kmac.h>
#include <ascon/kdf.h>
#include <ascon/hkdf.h>
#include <ascon/isap.h>
#include <ascon/random.h>
#include <ascon/masking.h>
#include <ascon/permutation.h>
#include "masking/ascon-masked-state.h"
#include "random/ascon-trng.h"

typedef struct { uint8_t key[20], nonce[16], msg[64], ad[16]; uint64_t entropy; } secrets;
static secrets SA, SB;
static uint8_t sink[16500];
static const secrets *S;
#define MAXOPS 4
typedef struct { const char *name; size_t size; int nops; void (*init)(void *); void (*op)(void *, int); void (*fin)(void *); } otype;

/* ---- scenarios ---- */
static void st_init(void *o) { ascon_init(o); ascon_overwrite_bytes(o, S->key, 0, 16); ascon_overwrite_bytes(o, S->msg, 16, 24); }
static void st_op(void *o, int k) { if (k == 0) ascon_permute(o, 0); else if (k == 1) ascon_add_bytes(o, S->msg, 3, 17); else if (k == 2) { ascon_release(o); ascon_acquire(o); } else ascon_extract_and_overwrite_bytes(o, S->msg, sink, 0, 16); }
static void st_fin(void *o) { ascon_free(o); }

#define INC(n, T) \
static int inc##n##_re; /* re-initialisations so far in this history: the first with NULL key and nonce (= all-zero, the object's key / nonce / position fields then read as a freed object's), the next with values, and so on */ \
static void inc##n##_init(void *o) { inc##n##_re = 0; T##_aead_init(o, S->nonce, S->key); T##_aead_start(o, S->ad, 9); } \
static void inc##n##_op(void *o, int k) { if (k == 0) T##_aead_encrypt_block(o, S->msg, sink, 21); else if (k == 1) T##_aead_decrypt_block(o, S->msg, sink, 16); else if (k == 2) { T##_aead_encrypt_finalize(o, sink); T##_aead_start(o, S->ad, 3); } else { if (inc##n##_re++ & 1) T##_aead_reinit(o, S->nonce, S->key); else T##_aead_reinit(o, 0, 0); } } \
static void inc##n##_fin(void *o) { T##_aead_free(o); }
INC(128, ascon128) INC(128a, ascon128a) INC(80pq, ascon80pq)

#define XOF(n, P) \
static void n##_init(void *o) { P##_init_custom(o, "c13", S->key, 16, 0); } \
static void n##_op(void *o, int k) { if (k == 0) P##_absorb(o, S->msg, 13); else if (k == 1) P##_squeeze(o, sink, 21); else if (k == 2) P##_absorb(o, S->msg, 40); else P##_reinit_fixed(o, 40), P##_absorb(o, S->key, 16); } \
static void n##_fin(void *o) { P##_free(o); }
XOF(xof, ascon_xof) XOF(xofa, ascon_xofa)
#define HASH(n, P) \
static void n##_init(void *o) { P##_init(o); P##_update(o, S->key, 16); } \
static void n##_op(void *o, int k) { if (k == 0) P##_update(o, S->msg, 13); else if (k == 1) P##_finalize(o, sink); else if (k == 2) P##_update(o, S->msg, 64); else P##_reinit(o), P##_update(o, S->key, 5); } \
static void n##_fin(void *o) { P##_free(o); }
HASH(hash, ascon_hash) HASH(hasha, ascon_hasha)
static void prf_init(void *o) { ascon_prf_init(o, S->key); }
static void prf_op(void *o, int k) { if (k == 0) ascon_prf_absorb(o, S->msg, 13); else if (k == 1) ascon_prf_squeeze(o, sink, 21); else if (k == 2) ascon_prf_absorb(o, S->msg, 64); else ascon_prf_fixed_reinit(o, S->key, 16); }
static void prf_fin(void *o) { ascon_prf_free(o); }
#define HMAC(n, P) \
static void n##_init(void *o) { P##_init(o, S->key, 20); } \
static void n##_op(void *o, int k) { if (k == 0) P##_update(o, S->msg, 13); else if (k == 1) P##_finalize(o, S->key, 20, sink); else if (k == 2) P##_update(o, S->msg, 64); else P##_reinit(o, S->key, 16); } \
static void n##_fin(void *o) { P##_free(o); }
HMAC(hmac, ascon_hmac) HMAC(hmaca, ascon_hmaca)
#define KMAC(n, P) \
static void n##_init(void *o) { P##_init(o, S->key, 20, S->ad, 5, 32); } \
static void n##_op(void *o, int k) { if (k == 0) P##_absorb(o, S->msg, 13); else if (k == 1) P##_squeeze(o, sink, 21); else if (k == 2) P##_absorb(o, S->msg, 64); else P##_reinit(o, S->key, 16, 0, 0, 16); } \
static void n##_fin(void *o) { P##_free(o); }
KMAC(kmac, ascon_kmac) KMAC(kmaca, ascon_kmaca)
#define KDF(n, P) \
static void n##_init(void *o) { P##_init(o, S->key, 20, S->ad, 5, 32); } \
static void n##_op(void *o, int k) { if (k < 2) P##_squeeze(o, sink, 9 + 20 * k); else if (k == 2) P##_squeeze(o, sink, 64); else P##_reinit(o, S->key, 16, 0, 0, 16); } \
static void n##_fin(void *o) { P##_free(o); }
KDF(kdf, ascon_kdf) KDF(kdfa, ascon_kdfa)
#define HKDF(n, P) \
static void n##_init(void *o) { P##_extract(o, S->key, 20, S->nonce, 16); } \
static void n##_op(void *o, int k) { if (k < 2) P##_expand(o, S->ad, 7, sink, 5 + 30 * k); else if (k == 2) P##_expand(o, S->ad, 7, sink, 8140); /* towards the 255-block limit: [2,0] ends at block 255, [2,1] is refused */ else P##_extract(o, S->msg, 33, 0, 0); } \
static void n##_fin(void *o) { P##_free(o); }
HKDF(hkdf, ascon_hkdf) HKDF(hkdfa, ascon_hkdfa)
static void rnd_init(void *o) { sysrand_reset(S->entropy); ascon_random_init(o); }
static void rnd_op(void *o, int k) { if (k == 0) ascon_random_fetch(o, sink, 40); else if (k == 1) ascon_random_feed(o, S->msg, 21); else if (k == 2) ascon_random_reseed(o); else ascon_random_fetch(o, sink, 16384); /* reaches the automatic reseed limit */ }
static void rnd_fin(void *o) { ascon_random_free(o); }
#define ISAP(n, P) \
static void n##_init(void *o) { P##_aead_init(o, S->key); } \
static void n##_op(void *o, int k) { size_t l; uint8_t blob[80]; if (k == 0) P##_aead_encrypt(sink, &l, S->msg, 21, S->ad, 5, S->nonce, o); else if (k == 1) P##_aead_decrypt(sink, &l, S->msg, 40, S->ad, 5, S->nonce, o); else if (k == 2) { P##_aead_save_key(o, blob); P##_aead_load_key(o, blob); } else { P##_aead_free(o); P##_aead_init(o, S->msg); } } \
static void n##_fin(void *o) { P##_aead_free(o); }
ISAP(isap128a, ascon128a_isap) ISAP(isap128, ascon128_isap) ISAP(isap80pq, ascon80pq_isap)
static void mk128_init(void *o) { sysrand_reset(S->entropy); ascon_masked_key_128_init(o, S->key); }
static void mk128_op(void *o, int k) { size_t l; if (k == 0) ascon_masked_key_128_randomize(o); else if (k == 1) ascon128_masked_aead_encrypt(sink, &l, S->msg, 21, S->ad, 5, S->nonce, o); else if (k == 2) ascon128a_masked_aead_decrypt(sink, &l, S->msg, 40, S->ad, 5, S->nonce, o); else ascon_masked_key_128_extract(o, sink); }
static void mk128_fin(void *o) { ascon_masked_key_128_free(o); }
static void mk160_init(void *o) { sysrand_reset(S->entropy); ascon_masked_key_160_init(o, S->key); }
static void mk160_op(void *o, int k) { size_t l; if (k == 0) ascon_masked_key_160_randomize(o); else if (k == 1) ascon80pq_masked_aead_encrypt(sink, &l, S->msg, 21, S->ad, 5, S->nonce, o); else if (k == 2) ascon80pq_masked_aead_decrypt(sink, &l, S->msg, 40, S->ad, 5, S->nonce, o); else ascon_masked_key_160_extract(o, sink); }
static void mk160_fin(void *o) { ascon_masked_key_160_free(o); }

/* masked permutation states (internal toolkit) and the TRNG state the masked code draws from */
static ascon_trng_state_t TR;
#define MST(n) \
static void ms##n##_init(void *o) { ascon_state_t st; sysrand_reset(S->entropy); ascon_trng_init(&TR); ascon_init(&st); ascon_overwrite_bytes(&st, S->key, 0, 16); ascon_overwrite_bytes(&st, S->msg, 16, 24); ascon_release(&st); \
    ascon_masked_state_init(o); ascon_x##n##_copy_from_x1(o, &st, &TR); ascon_acquire(&st); ascon_free(&st); } \
static void ms##n##_op(void *o, int k) { uint64_t pres[4] = {1, 2, 3, 4}; ascon_state_t st; ascon_masked_state_t tmp; \
    if (k == 0) ascon_x##n##_permute(o, 0, pres); else if (k == 1) ascon_x##n##_randomize(o, &TR); \
    else if (k == 2) { ascon_x##n##_copy_to_x1(&st, o); ascon_free(&st); } else { ascon_masked_state_init(&tmp); ascon_x##n##_copy_from_x##n(&tmp, o, &TR); ascon_x##n##_permute(&tmp, 6, pres); ascon_x##n##_copy_from_x##n(o, &tmp, &TR); ascon_masked_state_free(&tmp); } } \
static void ms##n##_fin(void *o) { ascon_masked_state_free(o); ascon_trng_free(&TR); }
MST(2)
#if ASCON_MASKED_MAX_SHARES >= 3
MST(3)
#endif
#if ASCON_MASKED_MAX_SHARES >= 4
MST(4)
#endif
static void trng_init(void *o) { sysrand_reset(S->entropy); ascon_trng_init(o); }
static void trng_op(void *o, int k) { if (k == 0) (void)ascon_trng_generate_64(o); else if (k == 1) (void)ascon_trng_generate_32(o); else if (k == 2) ascon_trng_reseed(o); else ascon_trng_generate(sink, 40); }
static void trng_fin(void *o) { ascon_trng_free(o); }

#define T(n, ctype, pfx) {n, sizeof(ctype), MAXOPS, pfx##_init, pfx##_op, pfx##_fin}
static const otype TYPES[] = {
    T("ascon_state_t", ascon_state_t, st), T("ascon128_state_t", ascon128_state_t, inc128), T("ascon128a_state_t", ascon128a_state_t, inc128a), T("ascon80pq_state_t", ascon80pq_state_t, inc80pq),
    T("ascon_xof_state_t", ascon_xof_state_t, xof), T("ascon_xofa_state_t", ascon_xofa_state_t, xofa), T("ascon_hash_state_t", ascon_hash_state_t, hash), T("ascon_hasha_state_t", ascon_hasha_state_t, hasha),
    T("ascon_prf_state_t", ascon_prf_state_t, prf), T("ascon_hmac_state_t", ascon_hmac_state_t, hmac), T("ascon_hmaca_state_t", ascon_hmaca_state_t, hmaca),
    T("ascon_kmac_state_t", ascon_kmac_state_t, kmac), T("ascon_kmaca_state_t", ascon_kmaca_state_t, kmaca), T("ascon_kdf_state_t", ascon_kdf_state_t, kdf), T("ascon_kdfa_state_t", ascon_kdfa_state_t, kdfa),
    T("ascon_hkdf_state_t", ascon_hkdf_state_t, hkdf), T("ascon_hkdfa_state_t", ascon_hkdfa_state_t, hkdfa), T("ascon_random_state_t", ascon_random_state_t, rnd),
    T("ascon128a_isap_aead_key_t", ascon128a_isap_aead_key_t, isap128a), T("ascon128_isap_aead_key_t", ascon128_isap_aead_key_t, isap128), T("ascon80pq_isap_aead_key_t", ascon80pq_isap_aead_key_t, isap80pq),
    T("ascon_masked_key_128_t", ascon_masked_key_128_t, mk128), T("ascon_masked_key_160_t", ascon_masked_key_160_t, mk160),
    T("ascon_masked_state_t(x2)", ascon_masked_state_t, ms2),
#if ASCON_MASKED_MAX_SHARES >= 3
    T("ascon_masked_state_t(x3)", ascon_masked_state_t, ms3),
#endif
#if ASCON_MASKED_MAX_SHARES >= 4
    T("ascon_masked_state_t(x4)", ascon_masked_state_t, ms4),
#endif
    T("ascon_trng_state_t", ascon_trng_state_t, trng),
};

static _Alignas(64) uint8_t OBJ[2048];
static void run_one(const otype *t, const secrets *s, const int *h, int hl, uint8_t *snap)
{
    S = s; memset(OBJ, 0xA5, sizeof OBJ); memset(sink, 0, sizeof sink);
    t->init(OBJ);
    for (int i = 0; i < hl; i++) t->op(OBJ, h[i]);
    t->fin(OBJ);
    memcpy(snap, OBJ, t->size);
}

int main(int argc, char **argv)
{
    hx_init();
    int maxh = argc > 1 ? atoi(argv[1]) : 3;
    uint8_t *a = (uint8_t *)&SA, *b = (uint8_t *)&SB;
    for (size_t i = 0; i < sizeof SA; i++) { a[i] = (uint8_t)hx_mix(hx_seed * 77 + i); b[i] = (uint8_t)(a[i] ^ (1 + hx_mix(i + 999) % 255)); } /* differ in every byte */
    SA.entropy = 1111; SB.entropy = 987654321;
    static uint8_t s1[2048], s2[2048]; long hist = 0;
    for (unsigned ti = 0; ti < sizeof TYPES / sizeof TYPES[0]; ti++) {
        const otype *t = &TYPES[ti]; int h[4];
        for (int hl = 0; hl <= maxh; hl++) {
            int total = 1; for (int i = 0; i < hl; i++) total *= t->nops;
            for (int code = 0; code < total; code++) {
                int c = code; for (int i = 0; i < hl; i++) { h[i] = c % t->nops; c /= t->nops; }
                run_one(t, &SA, h, hl, s1); run_one(t, &SB, h, hl, s2); hist++;
                if (memcmp(s1, s2, t->size)) {
                    size_t off = 0; while (s1[off] == s2[off]) off++;
                    char kb[96], hs[32] = ""; snprintf(kb, sizeof kb, "residue:%s", t->name);
                    for (int i = 0; i < hl; i++) { size_t l = strlen(hs); snprintf(hs + l, sizeof hs - l, "%d", h[i]); }
                    hx_fail(kb, "after free, byte %zu of the %zu-byte object still depends on the secrets (operation history [%s])", off, t->size, hs);
                }
            }
        }
        hx_stat("object_types", 1);
    }
    hx_stat("states", hist); hx_stat("transitions", hist * 2); hx_stat("traces_validated", hist * 2);
    hx_sample("C objects: %zu types x every operation history of length <= %d over 4 operations, two secret assignments differing in every byte, object bytes compared after free", sizeof TYPES / sizeof TYPES[0], maxh);
    hx_finish();
    return 0;
}
