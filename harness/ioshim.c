/* libc shim linked in front of libc into the tools: read/write/open/getrandom follow a plan from the environment.
 *   VP_FAIL_READ=k / VP_FAIL_WRITE=k / VP_FAIL_OPEN=k / VP_FAIL_RAND=k : the k-th such call (0-based, file descriptors > 2 only) fails
 *   VP_ERRNO=n  errno for the failure (default EIO)        VP_EINTR_READ=k / VP_EINTR_WRITE=k / VP_EINTR_RAND=k : one EINTR before call k proceeds
 *   VP_SHORT=1  every read/write transfers at most 1 byte  VP_COUNTS=file : write "reads writes opens rands" at exit
 *   VP_STDIO=1  descriptors 0 and 1 are subject to the plan too (stdin/stdout modes of asconcrypt) */
#define _GNU_SOURCE
#include <unistd.h>
#include <sys/syscall.h>
#include <sys/types.h>
#include <errno.h>
#include <stdlib.h>
#include <stdio.h>
#include <stdarg.h>
#include <fcntl.h>
static long nread, nwrite, nrand, nopen; static int inited;
static long fail_read = -1, fail_write = -1, fail_rand = -1, fail_open = -1, eintr_read = -1, eintr_write = -1, eintr_rand = -1; static int short_io, stdio_too, fail_errno = EIO;
static void init(void)
{
    const char *e; if (inited) return; inited = 1;
    if ((e = getenv("VP_FAIL_READ"))) fail_read = atol(e); if ((e = getenv("VP_FAIL_WRITE"))) fail_write = atol(e);
    if ((e = getenv("VP_FAIL_RAND"))) fail_rand = atol(e); if ((e = getenv("VP_FAIL_OPEN"))) fail_open = atol(e);
    if ((e = getenv("VP_EINTR_READ"))) eintr_read = atol(e); if ((e = getenv("VP_EINTR_WRITE"))) eintr_write = atol(e); if ((e = getenv("VP_EINTR_RAND"))) eintr_rand = atol(e);
    if ((e = getenv("VP_SHORT"))) short_io = atoi(e); if ((e = getenv("VP_STDIO"))) stdio_too = atoi(e); if ((e = getenv("VP_ERRNO"))) fail_errno = atoi(e);
}
/* the kernel fills / reads the buffer, which no sanitizer sees: the two ends of the range the tool hands over are touched here, in instrumented code */
static void touch(const volatile void *b, size_t n, int wr) { if (!n) return; volatile unsigned char *p = (volatile unsigned char *)b; unsigned char a = p[0], z = p[n - 1]; if (wr) { p[0] = a; p[n - 1] = z; } }
ssize_t read(int fd, void *b, size_t n)
{
    init(); touch(b, n, 1);
    if (fd > 2 || (stdio_too && fd < 2)) { if (nread == eintr_read) { eintr_read = -1; errno = EINTR; return -1; } long k = nread++; if (k == fail_read) { errno = fail_errno; return -1; } if (short_io && n > 1) n = 1; }
    return syscall(SYS_read, fd, b, n);
}
ssize_t write(int fd, const void *b, size_t n)
{
    init(); touch(b, n, 0);
    if (fd > 2 || (stdio_too && fd < 2)) { if (nwrite == eintr_write) { eintr_write = -1; errno = EINTR; return -1; } long k = nwrite++; if (k == fail_write) { errno = fail_errno; return -1; } if (short_io && n > 1) n = 1; }
    return syscall(SYS_write, fd, b, n);
}
int open(const char *path, int flags, ...)
{
    mode_t mode = 0; init();
    if (flags & O_CREAT) { va_list ap; va_start(ap, flags); mode = (mode_t)va_arg(ap, int); va_end(ap); }
    long k = nopen++; if (k == fail_open) { errno = EACCES; return -1; }
    return (int)syscall(SYS_openat, AT_FDCWD, path, flags, mode);
}
ssize_t getrandom(void *b, size_t n, unsigned f) { init(); if (nrand == eintr_rand) { eintr_rand = -1; errno = EINTR; return -1; } long k = nrand++; if (k == fail_rand) { errno = ENOSYS; return -1; } return syscall(SYS_getrandom, b, n, f); }
__attribute__((destructor)) static void fin(void)
{
    const char *e = getenv("VP_COUNTS");
    if (e) { int fd = (int)syscall(SYS_openat, AT_FDCWD, e, O_CREAT | O_TRUNC | O_WRONLY, 0600); if (fd >= 0) { char buf[96]; int l = snprintf(buf, sizeof buf, "%ld %ld %ld %ld\n", nread, nwrite, nopen, nrand); syscall(SYS_write, fd, buf, l); syscall(SYS_close, fd); } }
}
