/* Uniform function tables over the library's AEAD-like families so that the
 * harnesses can enumerate (family, algorithm) pairs. */
#ifndef VERIF_API_H
#define VERIF_API_H
#include <ascon/aead.h>
#include <ascon/aead-masked.h>
#include <ascon/siv.h>
#include <ascon/isap.h>
#include <ascon/masking.h>
#include "ref.h"

typedef void (*enc_fn)(unsigned char *c, size_t *clen, const unsigned char *m, size_t mlen,
                       const unsigned char *ad, size_t adlen, const unsigned char *npub, const void *k);
typedef int (*dec_fn)(unsigned char *m, size_t *mlen, const unsigned char *c, size_t clen,
                      const unsigned char *ad, size_t adlen, const unsigned char *npub, const void *k);

/* alg index: 0 = 128, 1 = 128a, 2 = 80pq (matches REF_128 ...) */
static const enc_fn api_aead_enc[3] = {(enc_fn)ascon128_aead_encrypt, (enc_fn)ascon128a_aead_encrypt, (enc_fn)ascon80pq_aead_encrypt};
static const dec_fn api_aead_dec[3] = {(dec_fn)ascon128_aead_decrypt, (dec_fn)ascon128a_aead_decrypt, (dec_fn)ascon80pq_aead_decrypt};
static const enc_fn api_siv_enc[3] = {(enc_fn)ascon128_siv_encrypt, (enc_fn)ascon128a_siv_encrypt, (enc_fn)ascon80pq_siv_encrypt};
static const dec_fn api_siv_dec[3] = {(dec_fn)ascon128_siv_decrypt, (dec_fn)ascon128a_siv_decrypt, (dec_fn)ascon80pq_siv_decrypt};
static const enc_fn api_masked_enc[3] = {(enc_fn)ascon128_masked_aead_encrypt, (enc_fn)ascon128a_masked_aead_encrypt, (enc_fn)ascon80pq_masked_aead_encrypt};
static const dec_fn api_masked_dec[3] = {(dec_fn)ascon128_masked_aead_decrypt, (dec_fn)ascon128a_masked_aead_decrypt, (dec_fn)ascon80pq_masked_aead_decrypt};
/* ISAP alg index: 0 = 128A, 1 = 128, 2 = 80PQ (matches REF_ISAP_*) */
static const enc_fn api_isap_enc[3] = {(enc_fn)ascon128a_isap_aead_encrypt, (enc_fn)ascon128_isap_aead_encrypt, (enc_fn)ascon80pq_isap_aead_encrypt};
static const dec_fn api_isap_dec[3] = {(dec_fn)ascon128a_isap_aead_decrypt, (dec_fn)ascon128_isap_aead_decrypt, (dec_fn)ascon80pq_isap_aead_decrypt};
typedef void (*isap_init_fn)(void *pk, const unsigned char *k);
typedef void (*isap_load_fn)(void *pk, const unsigned char *k);
typedef void (*isap_save_fn)(void *pk, unsigned char *k);
typedef void (*isap_free_fn)(void *pk);
static const isap_init_fn api_isap_init[3] = {(isap_init_fn)ascon128a_isap_aead_init, (isap_init_fn)ascon128_isap_aead_init, (isap_init_fn)ascon80pq_isap_aead_init};
static const isap_load_fn api_isap_load[3] = {(isap_load_fn)ascon128a_isap_aead_load_key, (isap_load_fn)ascon128_isap_aead_load_key, (isap_load_fn)ascon80pq_isap_aead_load_key};
static const isap_save_fn api_isap_save[3] = {(isap_save_fn)ascon128a_isap_aead_save_key, (isap_save_fn)ascon128_isap_aead_save_key, (isap_save_fn)ascon80pq_isap_aead_save_key};
static const isap_free_fn api_isap_free[3] = {(isap_free_fn)ascon128a_isap_aead_free, (isap_free_fn)ascon128_isap_aead_free, (isap_free_fn)ascon80pq_isap_aead_free};
typedef union { ascon128a_isap_aead_key_t a; ascon128_isap_aead_key_t b; ascon80pq_isap_aead_key_t c; } api_isap_key;

typedef union { ascon_masked_key_128_t k128; ascon_masked_key_160_t k160; } api_masked_key;
static inline void api_masked_key_init(int alg, api_masked_key *mk, const unsigned char *k)
{
    if (alg == 2) ascon_masked_key_160_init(&mk->k160, k); else ascon_masked_key_128_init(&mk->k128, k);
}
static inline void api_masked_key_randomize(int alg, api_masked_key *mk)
{ if (alg == 2) ascon_masked_key_160_randomize(&mk->k160); else ascon_masked_key_128_randomize(&mk->k128); }
static inline void api_masked_key_free(int alg, api_masked_key *mk)
{
    if (alg == 2) ascon_masked_key_160_free(&mk->k160); else ascon_masked_key_128_free(&mk->k128);
}

/* incremental AEAD */
typedef union { ascon128_state_t a; ascon128a_state_t b; ascon80pq_state_t c; } api_inc_state;
typedef void (*inc_init_fn)(void *st, const unsigned char *npub, const unsigned char *k);
typedef void (*inc_start_fn)(void *st, const unsigned char *ad, size_t adlen);
typedef void (*inc_block_fn)(void *st, const unsigned char *in, unsigned char *out, size_t len);
typedef void (*inc_encfin_fn)(void *st, unsigned char *tag);
typedef int (*inc_decfin_fn)(void *st, const unsigned char *tag);
typedef void (*inc_free_fn)(void *st);
static const inc_init_fn api_inc_init[3] = {(inc_init_fn)ascon128_aead_init, (inc_init_fn)ascon128a_aead_init, (inc_init_fn)ascon80pq_aead_init};
static const inc_init_fn api_inc_reinit[3] = {(inc_init_fn)ascon128_aead_reinit, (inc_init_fn)ascon128a_aead_reinit, (inc_init_fn)ascon80pq_aead_reinit};
static const inc_start_fn api_inc_start[3] = {(inc_start_fn)ascon128_aead_start, (inc_start_fn)ascon128a_aead_start, (inc_start_fn)ascon80pq_aead_start};
static const inc_block_fn api_inc_enc[3] = {(inc_block_fn)ascon128_aead_encrypt_block, (inc_block_fn)ascon128a_aead_encrypt_block, (inc_block_fn)ascon80pq_aead_encrypt_block};
static const inc_block_fn api_inc_dec[3] = {(inc_block_fn)ascon128_aead_decrypt_block, (inc_block_fn)ascon128a_aead_decrypt_block, (inc_block_fn)ascon80pq_aead_decrypt_block};
static const inc_encfin_fn api_inc_encfin[3] = {(inc_encfin_fn)ascon128_aead_encrypt_finalize, (inc_encfin_fn)ascon128a_aead_encrypt_finalize, (inc_encfin_fn)ascon80pq_aead_encrypt_finalize};
static const inc_decfin_fn api_inc_decfin[3] = {(inc_decfin_fn)ascon128_aead_decrypt_finalize, (inc_decfin_fn)ascon128a_aead_decrypt_finalize, (inc_decfin_fn)ascon80pq_aead_decrypt_finalize};
static const inc_free_fn api_inc_free[3] = {(inc_free_fn)ascon128_aead_free, (inc_free_fn)ascon128a_aead_free, (inc_free_fn)ascon80pq_aead_free};
static inline unsigned char *api_inc_nonce(int alg, api_inc_state *s) { return alg == 0 ? s->a.nonce : alg == 1 ? s->b.nonce : s->c.nonce; }
static inline unsigned char *api_inc_posn(int alg, api_inc_state *s) { return alg == 0 ? &s->a.posn : alg == 1 ? &s->b.posn : &s->c.posn; }
static inline ascon_state_t *api_inc_perm(int alg, api_inc_state *s) { return alg == 0 ? &s->a.state : alg == 1 ? &s->b.state : &s->c.state; }

static const char *const api_alg_name[3] = {"128", "128a", "80pq"};
static const char *const api_isap_name[3] = {"128a", "128", "80pq"};

/* C++ shim (cpp_shim.cpp): family 0 = aead, 1 = masked, 2 = siv, 3 = isap; alg as in the tables above */
#ifdef __cplusplus
extern "C" {
#endif
int cpp_encrypt(int family, int alg, const unsigned char *key, const unsigned char *nonce,
                unsigned char *c, const unsigned char *m, size_t mlen, const unsigned char *ad, size_t adlen);
int cpp_decrypt(int family, int alg, const unsigned char *key, const unsigned char *nonce,
                unsigned char *m, const unsigned char *c, size_t clen, const unsigned char *ad, size_t adlen);
/* the same through the key constructors instead of default construction + set_key */
int cpp_encrypt_ba(int family, int alg, const unsigned char *key, const unsigned char *nonce,
                unsigned char *c, const unsigned char *m, size_t mlen, const unsigned char *ad, size_t adlen, int form, size_t presize);
int cpp_decrypt_ba(int family, int alg, const unsigned char *key, const unsigned char *nonce,
                unsigned char *m, const unsigned char *c, size_t clen, const unsigned char *ad, size_t adlen, int form, size_t presize);
int cpp_encrypt_ctor(int family, int alg, const unsigned char *key, const unsigned char *nonce,
                unsigned char *c, const unsigned char *m, size_t mlen, const unsigned char *ad, size_t adlen);
int cpp_decrypt_ctor(int family, int alg, const unsigned char *key, const unsigned char *nonce,
                unsigned char *m, const unsigned char *c, size_t clen, const unsigned char *ad, size_t adlen);
/* the same on an object that held another key before (an all-zero key is then given as a zero-length key) */
int cpp_encrypt_rekey(int family, int alg, const unsigned char *key, const unsigned char *nonce,
                unsigned char *c, const unsigned char *m, size_t mlen, const unsigned char *ad, size_t adlen);
#ifdef __cplusplus
}
#endif
#endif
