/* C10: masked word toolkit, masked permutations, masked AEAD and masked keys equal their unmasked
 * counterparts for every value delivered by the random source.  The library is built WITHOUT
 * ascon-trng-mixer.c; the harness provides a scripted ascon_trng_generate_32/64.
 * usage: c10 words | perm <N> <tier> | aead <alg> <tier> | keys */
#include "hx.h"
#ifndef C10_WORDS_ONLY
#include "api.h"
#include "masking/ascon-masked-state.h"
#include <ascon/permutation.h>
#endif
#include "masking/ascon-masked-word.h"

/* ---------------- scripted random source ---------------- */
enum { T_ZERO, T_ONES, T_P2, T_P3, T_WALK, T_COUNTER, T_MIX, T_EXPLICIT, T_NMODES };
static const char *tname[] = {"zero", "ones", "period2", "period3", "walking-bit", "counter", "splitmix", "explicit"};
static int tape_mode = T_MIX; static uint64_t tape_pos, tape_seed = 1, tape_explicit[16]; static int tape_nexp;
static uint64_t tape_next(void)
{
    uint64_t p = tape_pos++;
    switch (tape_mode) {
    case T_ZERO: return 0;
    case T_ONES: return ~(uint64_t)0;
    case T_P2: return p % 2 ? 0xA5A5A5A5A5A5A5A5ULL : 0x0123456789ABCDEFULL;
    case T_P3: return p % 3 == 0 ? 0xFFFF0000FFFF0000ULL : p % 3 == 1 ? 0x8000000000000001ULL : 0x13579BDF02468ACEULL;
    case T_WALK: return (uint64_t)1 << (p % 64);
    case T_COUNTER: return p + 1;
    case T_EXPLICIT: if (p < (uint64_t)tape_nexp) return tape_explicit[p]; /* fall through to dense */
    default: return hx_mix(tape_seed * 0x9E3779B97F4A7C15ULL + p * 0xD1B54A32D192ED03ULL + 12345);
    }
}
static int trng_status = 1;   /* what the scripted source reports about the system seed: the masked functions compute the same values either way */
int ascon_trng_init(ascon_trng_state_t *state) { memset(state, 0, sizeof *state); return trng_status; }
void ascon_trng_free(ascon_trng_state_t *state) { (void)state; }
uint32_t ascon_trng_generate_32(ascon_trng_state_t *state) { (void)state; return (uint32_t)tape_next(); }
uint64_t ascon_trng_generate_64(ascon_trng_state_t *state) { (void)state; return tape_next(); }
int ascon_trng_reseed(ascon_trng_state_t *state) { (void)state; return trng_status; }
static void tape(int mode, uint64_t seed) { tape_mode = mode; tape_pos = 0; tape_seed = seed; tape_nexp = 0; }

/* ---------------- word toolkit ---------------- */
typedef struct {
    int n;
    void (*zero)(ascon_masked_word_t *, ascon_trng_state_t *);
    void (*load)(ascon_masked_word_t *, const uint8_t *, ascon_trng_state_t *);
    void (*load_partial)(ascon_masked_word_t *, const uint8_t *, unsigned, ascon_trng_state_t *);
    void (*load_32)(ascon_masked_word_t *, const uint8_t *, const uint8_t *, ascon_trng_state_t *);
    void (*store)(uint8_t *, const ascon_masked_word_t *);
    void (*store_partial)(uint8_t *, unsigned, const ascon_masked_word_t *);
    void (*randomize)(ascon_masked_word_t *, const ascon_masked_word_t *, ascon_trng_state_t *);
    void (*xor_)(ascon_masked_word_t *, const ascon_masked_word_t *);
    void (*replace)(ascon_masked_word_t *, const ascon_masked_word_t *, unsigned);
    void (*from[5])(ascon_masked_word_t *, const ascon_masked_word_t *, ascon_trng_state_t *);
} wordops;
static wordops W[5];
static void setup_ops(void)
{
    W[2] = (wordops){2, ascon_masked_word_x2_zero, ascon_masked_word_x2_load, ascon_masked_word_x2_load_partial, ascon_masked_word_x2_load_32, ascon_masked_word_x2_store,
        ascon_masked_word_x2_store_partial, ascon_masked_word_x2_randomize, ascon_masked_word_x2_xor, ascon_masked_word_x2_replace, {0}};
#if ASCON_MASKED_MAX_SHARES >= 3
    W[3] = (wordops){3, ascon_masked_word_x3_zero, ascon_masked_word_x3_load, ascon_masked_word_x3_load_partial, ascon_masked_word_x3_load_32, ascon_masked_word_x3_store,
        ascon_masked_word_x3_store_partial, ascon_masked_word_x3_randomize, ascon_masked_word_x3_xor, ascon_masked_word_x3_replace, {0}};
    W[2].from[3] = ascon_masked_word_x2_from_x3; W[3].from[2] = ascon_masked_word_x3_from_x2;
#endif
#if ASCON_MASKED_MAX_SHARES >= 4
    W[4] = (wordops){4, ascon_masked_word_x4_zero, ascon_masked_word_x4_load, ascon_masked_word_x4_load_partial, ascon_masked_word_x4_load_32, ascon_masked_word_x4_store,
        ascon_masked_word_x4_store_partial, ascon_masked_word_x4_randomize, ascon_masked_word_x4_xor, ascon_masked_word_x4_replace, {0}};
    W[2].from[4] = ascon_masked_word_x2_from_x4; W[4].from[2] = ascon_masked_word_x4_from_x2; W[3].from[4] = ascon_masked_word_x3_from_x4; W[4].from[3] = ascon_masked_word_x4_from_x3;
#endif
}
/* exact-size heap word so that writes past MAX_SHARES shares are seen by ASan / canaries */
static ascon_masked_word_t *neww(void) { ascon_masked_word_t *w = (ascon_masked_word_t *)hx_buf(sizeof(ascon_masked_word_t)); memset(w, 0xEE, sizeof *w); return w; }
static void freew(ascon_masked_word_t *w, const char *key) { if (!hx_buf_ok((uint8_t *)w, sizeof *w)) hx_fail(key, "wrote outside the masked word object (sizeof = %zu)", sizeof *w); hx_free((uint8_t *)w); }
static uint64_t be64(const uint8_t *p) { uint64_t v = 0; for (int i = 0; i < 8; i++) v = (v << 8) | p[i]; return v; }
static void st64(uint8_t *p, uint64_t v) { for (int i = 7; i >= 0; i--) { p[i] = (uint8_t)v; v >>= 8; } }

static uint64_t VALS[80]; static int NVALS;
static uint64_t TW[70]; static int NTW;   /* tape word alphabet */
static long nword;
static ascon_trng_state_t TR;

static void set_tape_words(const uint64_t *w, int n) { tape(T_EXPLICIT, hx_seed); memcpy(tape_explicit, w, sizeof(uint64_t) * n); tape_nexp = n; }

/* runs body for: every single tape word position (up to maxwords) varied over TW with the others dense, + all pairs from {0,~0,dense} */
#define FOR_TAPES(maxwords, ...) do { \
    uint64_t tw_[8]; \
    for (int pos_ = 0; pos_ < (maxwords); pos_++) for (int ti_ = 0; ti_ < NTW; ti_++) { \
        for (int q_ = 0; q_ < (maxwords); q_++) tw_[q_] = hx_mix(0xABCD + q_ * 77 + ti_); tw_[pos_] = TW[ti_]; set_tape_words(tw_, (maxwords)); __VA_ARGS__; } \
    static const uint64_t c3_[3] = {0, ~(uint64_t)0, 0x6A09E667F3BCC908ULL}; int tot_ = 1; for (int q_ = 0; q_ < (maxwords); q_++) tot_ *= 3; \
    for (int code_ = 0; code_ < tot_; code_++) { int c_ = code_; for (int q_ = 0; q_ < (maxwords); q_++) { tw_[q_] = c3_[c_ % 3]; c_ /= 3; } set_tape_words(tw_, (maxwords)); __VA_ARGS__; } \
} while (0)

static void words_mode(void)
{
    char kb[64]; uint8_t b[8], o[8], b2[8];
    for (int n = 2; n <= ASCON_MASKED_MAX_SHARES; n++) {
        const wordops *w = &W[n]; int rw = n - 1; /* random words consumed by a load */
        snprintf(kb, sizeof kb, "word:x%d", n);
        /* zero */
        FOR_TAPES(rw, { ascon_masked_word_t *x = neww(); w->zero(x, &TR); w->store(o, x); nword++; if (be64(o) != 0) hx_fail(kb, "zero: unmasked value %016llx", (unsigned long long)be64(o)); freew(x, kb); });
        for (int vi = 0; vi < NVALS; vi++) {
            uint64_t v = VALS[vi]; st64(b, v);
            int heavy = vi < 6; /* full tape enumeration on a few values, dense tape on the rest */
#define TAPES_OR_ONE(maxwords, ...) do { if (heavy) FOR_TAPES(maxwords, __VA_ARGS__); else { tape(T_MIX, vi + 1); __VA_ARGS__; } } while (0)
            TAPES_OR_ONE(rw, { ascon_masked_word_t *x = neww(); w->load(x, b, &TR); w->store(o, x); nword++; if (be64(o) != v) hx_fail(kb, "load/store: %016llx came back as %016llx (tape word[0]=%016llx)", (unsigned long long)v, (unsigned long long)be64(o), (unsigned long long)tape_explicit[0]); freew(x, kb); });
            TAPES_OR_ONE(rw, { ascon_masked_word_t *x = neww(); w->load_32(x, b, b + 4, &TR); w->store(o, x); nword++; if (be64(o) != v) hx_fail(kb, "load_32: %016llx came back as %016llx", (unsigned long long)v, (unsigned long long)be64(o)); freew(x, kb); });
            for (unsigned sz = 1; sz <= 7; sz++) {
                uint64_t want = v & ~((~(uint64_t)0) >> (sz * 8));
                TAPES_OR_ONE(rw, { ascon_masked_word_t *x = neww(); uint8_t *pb = hx_buf(sz); memcpy(pb, b, sz); w->load_partial(x, pb, sz, &TR); w->store(o, x); nword++;
                    if (be64(o) != want) hx_fail(kb, "load_partial(%u): expected %016llx got %016llx", sz, (unsigned long long)want, (unsigned long long)be64(o));
                    if (!hx_buf_ok(pb, sz)) hx_fail(kb, "load_partial(%u) wrote to its input", sz); hx_free(pb); freew(x, kb); });
            }
            for (unsigned sz = 0; sz <= 7; sz++) {   /* a 'partial' store: 8 would be a full store and is outside the documented use */
                tape(T_MIX, vi + 3); ascon_masked_word_t *x = neww(); w->load(x, b, &TR); uint8_t *po = hx_buf(sz); memset(po, 0xAA, sz); w->store_partial(po, sz, x); nword++;
                if (memcmp(po, b, sz)) hx_fail(kb, "store_partial(%u) of %016llx wrong", sz, (unsigned long long)v);
                if (!hx_buf_ok(po, sz)) hx_fail(kb, "store_partial(%u) wrote outside its %u-byte output", sz, sz);
                hx_free(po); freew(x, kb);
            }
            /* randomize: value preserved, every share changed for generic tapes */
            TAPES_OR_ONE(2 * rw, { ascon_masked_word_t *x = neww(), *y = neww(); w->load(x, b, &TR); w->randomize(y, x, &TR); w->store(o, y); nword++;
                if (be64(o) != v) hx_fail(kb, "randomize changed the value %016llx -> %016llx", (unsigned long long)v, (unsigned long long)be64(o));
                w->randomize(x, x, &TR); w->store(o, x); if (be64(o) != v) hx_fail(kb, "in-place randomize changed the value"); freew(x, kb); freew(y, kb); });
            { tape(T_MIX, 1000 + vi); ascon_masked_word_t *x = neww(), *y = neww(); w->load(x, b, &TR); w->randomize(y, x, &TR);
              for (int s = 0; s < n; s++) if (x->S[s] == y->S[s]) hx_fail(kb, "randomize with a generic random tape left share %d unchanged", s); freew(x, kb); freew(y, kb); }
            /* xor, replace with a second value */
            for (int vj = 0; vj < NVALS; vj += (heavy ? 1 : 7)) {
                uint64_t u = VALS[vj]; st64(b2, u);
                tape(T_MIX, vi * 100 + vj); ascon_masked_word_t *x = neww(), *y = neww(); w->load(x, b, &TR); w->load(y, b2, &TR); w->xor_(x, y); w->store(o, x); nword++;
                if (be64(o) != (v ^ u)) hx_fail(kb, "xor: %016llx ^ %016llx gave %016llx", (unsigned long long)v, (unsigned long long)u, (unsigned long long)be64(o));
                freew(x, kb); freew(y, kb);
                for (unsigned sz = 0; sz <= 7; sz++) {
                    for (int tm = 0; tm < (heavy ? T_EXPLICIT : 1); tm++) {
                        tape(heavy ? tm : T_MIX, vi + vj + sz); x = neww(); y = neww(); w->load(x, b, &TR); w->load(y, b2, &TR); w->replace(x, y, sz); w->store(o, x); nword++;
                        uint64_t m1 = sz == 0 ? ~(uint64_t)0 : (~(uint64_t)0) >> (sz * 8); uint64_t want = (v & m1) | (u & ~m1);
                        if (be64(o) != want) hx_fail(kb, "replace(%u): expected %016llx got %016llx (tape %s)", sz, (unsigned long long)want, (unsigned long long)be64(o), tname[heavy ? tm : T_MIX]);
                        w->store(o, y); if (be64(o) != u) hx_fail(kb, "replace(%u) modified its source", sz);
                        freew(x, kb); freew(y, kb);
                    }
                }
            }
            /* conversions between share counts */
            for (int m = 2; m <= ASCON_MASKED_MAX_SHARES; m++) if (m != n && w->from[m]) {
                TAPES_OR_ONE(m - 1 + (n > m ? n - m : 1) + 1, { ascon_masked_word_t *x = neww(), *y = neww(); W[m].load(x, b, &TR); w->from[m](y, x, &TR); w->store(o, y); nword++;
                    if (be64(o) != v) hx_fail(kb, "from_x%d: value %016llx became %016llx", m, (unsigned long long)v, (unsigned long long)be64(o));
                    w->from[m](x, x, &TR); w->store(o, x); if (be64(o) != v) hx_fail(kb, "in-place from_x%d changed the value", m);
                    /* source with stale data in its unused share slots (randomize into a never-initialised object) */
                    ascon_masked_word_t *g = neww(); W[m].load(x, b, &TR); W[m].randomize(g, x, &TR); w->from[m](y, g, &TR); w->store(o, y);
                    if (be64(o) != v) hx_fail(kb, "from_x%d of a word with stale data in its unused share slots changed the value", m);
                    freew(g, kb); freew(x, kb); freew(y, kb); });
            }
            /* pad / separator */
            for (unsigned off = 0; off < 8; off++) { tape(T_MIX, vi); ascon_masked_word_t *x = neww(); w->load(x, b, &TR); ascon_masked_word_pad(x, off); w->store(o, x); nword++;
                if (be64(o) != (v ^ ((uint64_t)0x80 << (56 - 8 * off)))) hx_fail(kb, "pad(%u) wrong", off); freew(x, kb); }
            { tape(T_MIX, vi); ascon_masked_word_t *x = neww(); w->load(x, b, &TR); ascon_masked_word_separator(x); w->store(o, x); if (be64(o) != (v ^ 1)) hx_fail(kb, "separator wrong"); freew(x, kb); }
        }
    }
    hx_stat("evaluations", nword); hx_stat("nontrivial", nword);
    hx_sample("word toolkit x2..x%d: zero/load/load_partial(1..7)/load_32/store/store_partial(0..7)/randomize/xor/replace(0..7)/from_xN/pad/separator; every random word over {0,~0,64 unit bits,8000..01,dense} one at a time + all {0,~0,dense} combinations", ASCON_MASKED_MAX_SHARES);
}

#ifndef C10_WORDS_ONLY
/* ---------------- masked permutations and state conversions ---------------- */
typedef struct { void (*permute)(ascon_masked_state_t *, uint8_t, uint64_t *); void (*from_x1)(ascon_masked_state_t *, const ascon_state_t *, ascon_trng_state_t *); void (*to_x1)(ascon_state_t *, const ascon_masked_state_t *);
                 void (*randomize)(ascon_masked_state_t *, ascon_trng_state_t *); void (*from[5])(ascon_masked_state_t *, const ascon_masked_state_t *, ascon_trng_state_t *); } stateops;
static stateops S[5];
static void setup_state(void)
{
    S[2] = (stateops){ascon_x2_permute, ascon_x2_copy_from_x1, ascon_x2_copy_to_x1, ascon_x2_randomize, {0, 0, ascon_x2_copy_from_x2, 0, 0}};
#if ASCON_MASKED_MAX_SHARES >= 3
    S[3] = (stateops){ascon_x3_permute, ascon_x3_copy_from_x1, ascon_x3_copy_to_x1, ascon_x3_randomize, {0, 0, ascon_x3_copy_from_x2, ascon_x3_copy_from_x3, 0}};
    S[2].from[3] = ascon_x2_copy_from_x3;
#endif
#if ASCON_MASKED_MAX_SHARES >= 4
    S[4] = (stateops){ascon_x4_permute, ascon_x4_copy_from_x1, ascon_x4_copy_to_x1, ascon_x4_randomize, {0, 0, ascon_x4_copy_from_x2, ascon_x4_copy_from_x3, ascon_x4_copy_from_x4}};
    S[2].from[4] = ascon_x2_copy_from_x4; S[3].from[4] = ascon_x3_copy_from_x4;
#endif
}
static ascon_masked_state_t *news(void) { ascon_masked_state_t *s = (ascon_masked_state_t *)hx_buf(sizeof(ascon_masked_state_t)); memset(s, 0xEE, sizeof *s); return s; }
static void frees(ascon_masked_state_t *s, const char *key) { if (!hx_buf_ok((uint8_t *)s, sizeof *s)) hx_fail(key, "wrote outside the masked state object"); hx_free((uint8_t *)s); }
static void setbit(uint8_t b[40], int bit) { b[bit / 8] ^= (uint8_t)(0x80 >> (bit % 8)); }
static long nperm;
static void perm_case(int n, const uint8_t in[40], int r, int tmode, uint64_t tseed, const uint64_t *pres, const char *what, int i, int j)
{
    char kb[64]; snprintf(kb, sizeof kb, "permute:x%d:first_round=%d", n, r);
    ascon_state_t st, st2; uint8_t got[40], exp[40]; uint64_t preserve[4]; ascon_masked_state_t *ms = news();
    memcpy(preserve, pres, sizeof preserve);
    ascon_init(&st); ascon_overwrite_bytes(&st, in, 0, 40);
    tape(tmode, tseed);
    S[n].from_x1(ms, &st, &TR); ascon_free(&st);
    S[n].permute(ms, (uint8_t)r, preserve);
    S[n].to_x1(&st2, ms); ascon_extract_bytes(&st2, got, 0, 40); ascon_free(&st2);
    memcpy(exp, in, 40); ref_permute(exp, r); nperm++;
    if (memcmp(got, exp, 40)) hx_fail(kb, "state %s(%d,%d), random tape %s, preserve %016llx: unmasked result differs from the specification", what, i, j, tname[tmode], (unsigned long long)pres[0]);
    frees(ms, kb);
}
static void perm_mode(int n, int tier)
{
    uint8_t s[40]; static const uint64_t pz[4] = {0, 0, 0, 0}, po[4] = {~(uint64_t)0, ~(uint64_t)0, ~(uint64_t)0, ~(uint64_t)0}, pd[4] = {0x243F6A8885A308D3ULL, 0x13198A2E03707344ULL, 0xA4093822299F31D0ULL, 0x082EFA98EC4E6C89ULL};
    if (n > ASCON_MASKED_MAX_SHARES) { hx_stat("evaluations", 0); hx_finish(); exit(0); }
    for (int r = 0; r < 12; r++) {
        /* degree-2 completeness set with the dense tape (full in thorough, strided pairs in quick) */
        for (int comp = 0; comp < 2; comp++) {
            memset(s, comp ? 0xff : 0, 40); perm_case(n, s, r, T_MIX, r + 1, pd, comp ? "~zero" : "zero", 0, 0);
            for (int i = 0; i < 320; i++) {
                memset(s, comp ? 0xff : 0, 40); setbit(s, i); perm_case(n, s, r, T_MIX, i + 7, pd, comp ? "~unit" : "unit", i, 0);
                for (int j = i + 1; j < 320; j += (tier ? 1 : 1 + (i * 7 + j) % 13)) { memset(s, comp ? 0xff : 0, 40); setbit(s, i); setbit(s, j); perm_case(n, s, r, T_MIX, i * 320 + j, pd, comp ? "~pair" : "pair", i, j); }
            }
        }
        /* every tape generator x preserve corner values on zero, units, dense */
        for (int tm = 0; tm < T_EXPLICIT; tm++) for (int pi = 0; pi < 3; pi++) {
            const uint64_t *pres = pi == 0 ? pz : pi == 1 ? po : pd;
            memset(s, 0, 40); perm_case(n, s, r, tm, 3, pres, "zero", 0, 0);
            for (int i = 0; i < 320; i += (tier ? 1 : 5)) { memset(s, 0, 40); setbit(s, i); perm_case(n, s, r, tm, 5, pres, "unit", i, 0); }
            for (int d = 0; d < 8; d++) { hx_fill(s, 40, HX_P_DENSE, 40 + d); perm_case(n, s, r, tm, 9 + d, pres, "dense", d, 0); }
        }
    }
    /* conversions between share counts and randomize: value preserved, shares refreshed */
    char kb[48]; snprintf(kb, sizeof kb, "state:x%d", n);
    for (int d = 0; d < 16; d++) for (int tm = 0; tm < T_EXPLICIT; tm++) {
        ascon_state_t st, st2; uint8_t in[40], got[40]; hx_fill(in, 40, HX_P_DENSE, 90 + d);
        ascon_init(&st); ascon_overwrite_bytes(&st, in, 0, 40);
        for (int m = 2; m <= ASCON_MASKED_MAX_SHARES; m++) if (S[n].from[m]) {
            ascon_masked_state_t *a = news(), *b = news(); tape(tm, d);
            S[m].from_x1(a, &st, &TR); S[n].from[m](b, a, &TR); S[n].to_x1(&st2, b); ascon_extract_bytes(&st2, got, 0, 40); ascon_free(&st2); nperm++;
            if (memcmp(got, in, 40)) hx_fail(kb, "copy_from_x%d changes the value (tape %s)", m, tname[tm]);
            /* source object previously used with more shares: stale upper shares must not leak into the value */
            memset(a, 0xEE, sizeof *a); S[m].from_x1(a, &st, &TR);
            S[n].from[m](a, a, &TR); S[n].to_x1(&st2, a); ascon_extract_bytes(&st2, got, 0, 40); ascon_free(&st2);
            if (memcmp(got, in, 40)) hx_fail(kb, "in-place copy_from_x%d changes the value (tape %s)", m, tname[tm]);
            /* a valid m-share state whose unused share slots hold stale data: copy_from_x<m> into an object that was
             * never initialised (the x<m> functions only define share slots 0..m-1 of their destination) */
            if (S[m].from[m]) {
                ascon_masked_state_t *g = news(), *c = news();
                S[m].from_x1(a, &st, &TR);      /* a is an m-share state again */
                S[m].from[m](g, a, &TR);
                S[n].from[m](c, g, &TR); S[n].to_x1(&st2, c); ascon_extract_bytes(&st2, got, 0, 40); ascon_free(&st2); nperm++;
                if (memcmp(got, in, 40)) hx_fail(kb, "copy_from_x%d of a state with stale data in its unused share slots changes the value (tape %s)", m, tname[tm]);
                S[n].from[m](g, g, &TR); S[n].to_x1(&st2, g); ascon_extract_bytes(&st2, got, 0, 40); ascon_free(&st2);
                if (memcmp(got, in, 40)) hx_fail(kb, "in-place copy_from_x%d of a state with stale data in its unused share slots changes the value (tape %s)", m, tname[tm]);
                frees(g, kb); frees(c, kb);
            }
            frees(a, kb); frees(b, kb);
        }
        { ascon_masked_state_t *a = news(); ascon_masked_state_t before; tape(tm, d + 50); S[n].from_x1(a, &st, &TR); before = *a; S[n].randomize(a, &TR); S[n].to_x1(&st2, a); ascon_extract_bytes(&st2, got, 0, 40); ascon_free(&st2);
          if (memcmp(got, in, 40)) hx_fail(kb, "randomize changes the value (tape %s)", tname[tm]);
          if (tm == T_MIX) for (int wd = 0; wd < 5; wd++) for (int sh = 0; sh < n; sh++) if (a->M[wd].S[sh] == before.M[wd].S[sh]) hx_fail(kb, "randomize with a generic tape left share %d of word %d unchanged", sh, wd);
          frees(a, kb); }
        ascon_free(&st);
    }
    hx_stat("evaluations", nperm); hx_stat("nontrivial", nperm);
    hx_sample("x%d permutation: weight<=2 completeness set x 12 rounds (dense tape) + 7 tape generators x preserve {0,~0,dense} on zero/unit/dense states; copy_from_xM / randomize", n);
}

/* ---------------- masked AEAD and keys ---------------- */
static void aead_mode(int alg, int tier)
{
    static const int qs[] = {0, 1, 7, 8, 9, 15, 16, 17, 24, 31, 32, 33};
    uint8_t key[20], nonce[16], ad[64], m[64]; char kb[64]; long n = 0;
    snprintf(kb, sizeof kb, "masked-aead:%s", api_alg_name[alg]);
    hx_fill(key, 20, HX_P_DENSE, 1); hx_fill(nonce, 16, HX_P_DENSE, 2); hx_fill(ad, 64, HX_P_DENSE, 3); hx_fill(m, 64, HX_P_DENSE, 4);
    int ns = tier ? 41 : 12;
    for (int tm = 0; tm < T_EXPLICIT; tm++) for (int ai = 0; ai < ns; ai++) for (int li = 0; li < ns; li++) {
        int a = tier ? ai : qs[ai], l = tier ? li : qs[li]; uint8_t e[96], c[96], p[96]; size_t cl = 0, ml = 0;
        api_masked_key mk; tape(tm, a * 64 + l); trng_status = ((ai + li) % 7) != 4;     /* every seventh shape with a source that reports a failed system seed */
        api_masked_key_init(alg, &mk, key);
        api_aead_enc[alg](e, &cl, m, l, ad, a, nonce, key);
        api_masked_enc[alg](c, &cl, m, l, ad, a, nonce, &mk); n++;
        if (cl != (size_t)l + 16 || memcmp(c, e, cl)) hx_fail(kb, "masked encryption differs from the unmasked function: adlen=%d mlen=%d random tape %s", a, l, tname[tm]);
        int r = api_masked_dec[alg](p, &ml, e, l + 16, ad, a, nonce, &mk); n++;
        if (r != 0 || ml != (size_t)l || memcmp(p, m, l)) hx_fail(kb, "masked decryption of the unmasked ciphertext fails (%d): adlen=%d mlen=%d random tape %s", r, a, l, tname[tm]);
        e[l + 2] ^= 1; r = api_masked_dec[alg](p, &ml, e, l + 16, ad, a, nonce, &mk); if (r >= 0) hx_fail(kb, "masked decryption accepts a forged tag: tape %s", tname[tm]);
        api_masked_key_free(alg, &mk);
    }
    /* long messages and long associated data (hundreds to thousands of blocks in one call) under every random tape */
    {
        static const size_t longs[] = {255, 256, 1023, 1024, 1025, 4097, 16384, 65537}; static uint8_t bm[66000], be[66100], bc[66100], bp[66000];
        hx_fill(bm, sizeof bm, HX_P_DENSE, 44);
        for (int tm = 0; tm < T_EXPLICIT; tm++) for (unsigned i = 0; i < 8; i++) for (int which = 0; which < 2; which++) {
            size_t a = which ? longs[i] : 5, l = which ? 7 : longs[i], cl = 0, ml = 0; api_masked_key mk; tape(tm, (int)(i * 2 + which));
            api_masked_key_init(alg, &mk, key);
            api_aead_enc[alg](be, &cl, bm, l, bm + 3, a, nonce, key);
            api_masked_enc[alg](bc, &cl, bm, l, bm + 3, a, nonce, &mk); n++;
            if (cl != l + 16 || memcmp(bc, be, cl)) { size_t k = 0; while (k < cl && bc[k] == be[k]) k++; hx_fail(kb, "masked encryption differs from the unmasked function at byte %zu: adlen=%zu mlen=%zu random tape %s", k, a, l, tname[tm]); }
            int r = api_masked_dec[alg](bp, &ml, be, l + 16, bm + 3, a, nonce, &mk); n++;
            if (r != 0 || ml != l || memcmp(bp, bm, l)) hx_fail(kb, "masked decryption of the unmasked ciphertext fails (%d): adlen=%zu mlen=%zu random tape %s", r, a, l, tname[tm]);
            api_masked_key_free(alg, &mk);
        }
    }
    hx_stat("evaluations", n); hx_stat("nontrivial", n);
    hx_sample("masked AEAD %s == unmasked for every shape x 7 random-tape generators (zero, ones, period-2/3, walking bit, counter, dense)", api_alg_name[alg]);
}
static void keys_mode(void)
{
    long n = 0; uint8_t key[20], out[20];
    for (int vi = 0; vi < 40; vi++) for (int tm = 0; tm < T_EXPLICIT; tm++) {
        trng_status = (vi % 5) != 3;      /* every fifth key with a source that reports a failed system seed */
        if (vi < 2) memset(key, vi ? 0xff : 0, 20); else hx_fill(key, 20, vi & 1 ? HX_P_DENSE : HX_P_DENSE2, vi);
        tape(tm, vi);
        { ascon_masked_key_128_t *k = (ascon_masked_key_128_t *)hx_buf(sizeof *k), before; ascon_masked_key_128_init(k, key); ascon_masked_key_128_extract(k, out); n++;
          if (memcmp(out, key, 16)) hx_fail("masked-key:128", "mask then extract is not the identity (tape %s)", tname[tm]);
          before = *k; ascon_masked_key_128_randomize_with_trng(k, &TR); ascon_masked_key_128_extract(k, out);
          if (memcmp(out, key, 16)) hx_fail("masked-key:128", "randomize changes the key value (tape %s)", tname[tm]);
          if (tm == T_MIX) for (int w = 0; w < 2; w++) for (int s = 0; s < ASCON_MASKED_KEY_SHARES; s++) if (k->k[w].S[s] == before.k[w].S[s]) hx_fail("masked-key:128:randomize-share", "randomize with a generic tape left share %d of key word %d unchanged", s, w);
          ascon_masked_key_128_randomize(k); ascon_masked_key_128_extract(k, out); if (memcmp(out, key, 16)) hx_fail("masked-key:128", "public randomize changes the key value");
          /* the re-randomised key object must still compute the unmasked function */
          { uint8_t e[64], c[64], msg[20], nn[16]; size_t cl; hx_fill(msg, 20, HX_P_DENSE, 4); hx_fill(nn, 16, HX_P_DENSE, 2);
            for (int al = 0; al < 2; al++) { api_aead_enc[al](e, &cl, msg, 13, msg, 5, nn, key); api_masked_enc[al](c, &cl, msg, 13, msg, 5, nn, k); if (memcmp(c, e, 29)) hx_fail("masked-key:128:use-after-randomize", "masked encryption with a re-randomised key differs from the unmasked function (alg %s, tape %s)", api_alg_name[al], tname[tm]);
              size_t ml; uint8_t p[32]; if (api_masked_dec[al](p, &ml, e, 29, msg, 5, nn, k) != 0) hx_fail("masked-key:128:use-after-randomize", "masked decryption with a re-randomised key rejects a valid packet"); } }
          if (!hx_buf_ok((uint8_t *)k, sizeof *k)) hx_fail("masked-key:128", "wrote outside the key object"); ascon_masked_key_128_free(k); hx_free((uint8_t *)k); }
        { ascon_masked_key_160_t *k = (ascon_masked_key_160_t *)hx_buf(sizeof *k), before; ascon_masked_key_160_init(k, key); ascon_masked_key_160_extract(k, out); n++;
          if (memcmp(out, key, 20)) hx_fail("masked-key:160", "mask then extract is not the identity (tape %s)", tname[tm]);
          before = *k; ascon_masked_key_160_randomize_with_trng(k, &TR); ascon_masked_key_160_extract(k, out);
          if (memcmp(out, key, 20)) hx_fail("masked-key:160", "randomize changes the key value (tape %s)", tname[tm]);
          if (tm == T_MIX) for (int w = 0; w < 6; w++) for (int s = 0; s < ASCON_MASKED_KEY_SHARES; s++) if (k->k[w].S[s] == before.k[w].S[s]) hx_fail("masked-key:160:randomize-share", "randomize with a generic tape left share %d of key word %d unchanged", s, w);
          ascon_masked_key_160_randomize(k); ascon_masked_key_160_extract(k, out); if (memcmp(out, key, 20)) hx_fail("masked-key:160", "public randomize changes the key value");
          { uint8_t e[64], c[64], msg[20], nn[16]; size_t cl, ml; uint8_t p[32]; hx_fill(msg, 20, HX_P_DENSE, 4); hx_fill(nn, 16, HX_P_DENSE, 2);
            api_aead_enc[2](e, &cl, msg, 13, msg, 5, nn, key); api_masked_enc[2](c, &cl, msg, 13, msg, 5, nn, k);
            if (memcmp(c, e, 29)) hx_fail("masked-key:160:use-after-randomize", "masked ASCON-80pq encryption with a re-randomised key differs from the unmasked function (tape %s)", tname[tm]);
            if (api_masked_dec[2](p, &ml, e, 29, msg, 5, nn, k) != 0) hx_fail("masked-key:160:use-after-randomize", "masked ASCON-80pq decryption with a re-randomised key rejects a valid packet"); }
          if (!hx_buf_ok((uint8_t *)k, sizeof *k)) hx_fail("masked-key:160", "wrote outside the key object"); ascon_masked_key_160_free(k); hx_free((uint8_t *)k); }
    }
    hx_stat("evaluations", n); hx_stat("nontrivial", n);
    hx_sample("masked keys 128/160: mask->extract identity and randomize (value preserved, every share refreshed) for 40 keys x 7 tape generators, %d key shares", ASCON_MASKED_KEY_SHARES);
}

#endif /* !C10_WORDS_ONLY */

int main(int argc, char **argv)
{
    hx_init(); setup_ops();
#ifndef C10_WORDS_ONLY
    setup_state();
#endif
    if (argc < 2) return 2;
    VALS[NVALS++] = 0; VALS[NVALS++] = ~(uint64_t)0; VALS[NVALS++] = 0x8000000000000001ULL; VALS[NVALS++] = 0x0123456789ABCDEFULL; VALS[NVALS++] = hx_mix(hx_seed + 5); VALS[NVALS++] = hx_mix(hx_seed + 6);
    for (int i = 0; i < 64; i++) VALS[NVALS++] = (uint64_t)1 << i;
    TW[NTW++] = 0; TW[NTW++] = ~(uint64_t)0; TW[NTW++] = 0x8000000000000001ULL; TW[NTW++] = 0xB7E151628AED2A6AULL; TW[NTW++] = 0x452821E638D01377ULL;
    for (int i = 0; i < 64; i++) TW[NTW++] = (uint64_t)1 << i;
    if (!strcmp(argv[1], "words")) words_mode();
#ifndef C10_WORDS_ONLY
    else if (!strcmp(argv[1], "perm")) perm_mode(atoi(argv[2]), atoi(argv[3]));
    else if (!strcmp(argv[1], "aead")) aead_mode(atoi(argv[2]), atoi(argv[3]));
    else keys_mode();
#endif
    hx_finish();
    return 0;
}
