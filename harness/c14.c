/* C14: session nonces advance by exactly one (128-bit big-endian, full carry).
 * usage: c14 inc <tier> | c14 session <alg> <tier> | c14 cpp <family> <alg> <tier> */
#include "hx.h"
#include "api.h"
#include "cpp_session.h"

static uint8_t K[20], ADB[16], MSG[48];

static void chain_nonce(uint8_t n[16], int chain, int lead)
{   /* carry chain of length `chain`: the low `chain` bytes are FF, the byte above is `lead` (not FF), rest dense */
    hx_fill(n, 16, HX_P_DENSE, 77); for (int i = 0; i < 16; i++) if (n[i] == 0xff) n[i] = 0x7f;
    for (int i = 0; i < chain; i++) n[15 - i] = 0xff;
    if (chain < 16) n[15 - chain] = (uint8_t)lead;
}

static void inc_mode(int tier)
{
    uint8_t n[16], e[16]; long cnt = 0;
    static const uint8_t vals[3] = {0x00, 0xfe, 0xff};
    int base = tier ? 3 : 2; long total = 1; for (int i = 0; i < 16; i++) total *= base;
    for (long code = 0; code < total; code++) {
        long c = code;
        for (int i = 15; i >= 0; i--) { n[i] = base == 3 ? vals[c % 3] : (c % 2 ? 0xff : 0x00); c /= base; }
        memcpy(e, n, 16); ref_nonce_inc(e); ascon_aead_increment_nonce(n); cnt++;
        if (memcmp(n, e, 16)) { char h[33]; hx_hex(h, e, 16); hx_fail("increment_nonce", "wrong successor; expected %s (code %ld base %d)", h, code, base); }
    }
    for (int chain = 0; chain <= 16; chain++) for (int lead = 0; lead < 256; lead += (tier ? 1 : 85)) {
        if (lead == 255 && chain < 16) continue;
        chain_nonce(n, chain, lead); memcpy(e, n, 16); ref_nonce_inc(e); ascon_aead_increment_nonce(n); cnt++;
        if (memcmp(n, e, 16)) hx_fail("increment_nonce", "carry chain of length %d with lead byte %02x: wrong successor", chain, lead);
    }
    /* set_counter: big-endian in the low 8 bytes, high 8 bytes zero */
    for (int b = 0; b <= 64; b++) for (int d = -1; d <= 1; d++) {
        uint64_t v = (b == 64 ? 0 : ((uint64_t)1 << b)) + (uint64_t)(int64_t)d;
        memset(n, 0xAA, 16); ascon_aead_set_counter(n, v); cnt++;
        memset(e, 0, 16); for (int i = 0; i < 8; i++) e[15 - i] = (uint8_t)(v >> (8 * i));
        if (memcmp(n, e, 16)) hx_fail("set_counter", "value %llu not stored big-endian in the low 8 bytes", (unsigned long long)v);
    }
    hx_stat("evaluations", cnt); hx_stat("nontrivial", cnt);
    hx_sample("increment_nonce: all %ld nonces over %d byte values per position + carry chains 0..16 x lead bytes; set_counter at every bit boundary", total, base);
}

/* packet descriptor: kind 0 = encrypt, 1 = decrypt valid, 2 = decrypt forged (incremental: finalize fails) */
static void session_mode(int alg, int tier)
{
    int depth = tier ? 4 : 3; long hist = 0; char kb[48]; snprintf(kb, sizeof kb, "session:incremental:%s", api_alg_name[alg]);
    for (int chain = 0; chain <= 16; chain++) for (int lead = 0; lead < 2; lead++) {
        uint8_t n0[16]; chain_nonce(n0, chain, lead ? 0xfe : 0x41);
        int total = 1; for (int d = 0; d < depth; d++) total *= 3;
        /* how the session is opened: 0 = init with N on dirty storage; 1 = init with a NULL nonce (documented: all-zero nonce) on dirty storage;
         * 2 = re-initialised with a NULL nonce after a packet of an earlier session; 3 = re-initialised with N and a NULL key (documented: all-zero key) after a packet of an earlier session;
         * 4 = re-keyed in mid-session keeping the running counter: one packet under K2 from N-1, then reinit(&st, st.nonce, K) with the object's own public nonce field as the nonce argument */
        for (int open = 0; open < 5; open++) for (int code = 0; code < total; code++) {
            api_inc_state st; uint8_t cur[16]; memcpy(cur, n0, 16); memset(&st, 0xA5, sizeof st); static const uint8_t ZK[20] = {0}; const uint8_t *key = open == 3 ? ZK : K;
            if (open == 0) api_inc_init[alg](&st, n0, K);
            else if (open == 1) { api_inc_init[alg](&st, 0, K); memset(cur, 0, 16); }
            else if (open == 4) {
                uint8_t before[16], t[16], o[8]; memcpy(before, n0, 16); for (int q = 15; q >= 0; q--) if (before[q]--) break;    /* N - 1 (128-bit big-endian) */
                static uint8_t KB[20]; if (!KB[0]) hx_fill(KB, 20, HX_P_DENSE, 78);
                api_inc_init[alg](&st, before, KB); api_inc_start[alg](&st, ADB, 3); api_inc_enc[alg](&st, MSG, o, 5); api_inc_encfin[alg](&st, t);
                api_inc_reinit[alg](&st, api_inc_nonce(alg, &st), K);
            }
            else {
                uint8_t other[16], t[16], o[8]; chain_nonce(other, (chain + 9) % 17, 0xfe); api_inc_init[alg](&st, other, K);
                api_inc_start[alg](&st, ADB, 3); api_inc_enc[alg](&st, MSG, o, 5); api_inc_encfin[alg](&st, t);
                if (open == 2) { api_inc_reinit[alg](&st, 0, K); memset(cur, 0, 16); } else api_inc_reinit[alg](&st, n0, 0);
            }
            if (memcmp(api_inc_nonce(alg, &st), cur, 16)) hx_fail(kb, "stored nonce after opening the session (way %d) is not the starting nonce (carry chain %d)", open, chain);
            int c = code, ok = 1;
            for (int p = 0; p < depth && ok; p++, c /= 3) {
                int kind = c % 3, adl = (p * 5 + 3) % 12, ml = (p * 7 + chain) % 23;
                uint8_t exp[64], out[64], tag[16];
                ref_aead_encrypt(alg, key, cur, ADB, adl, MSG, ml, exp);
                api_inc_start[alg](&st, ADB, adl);
                ref_nonce_inc(cur);
                if (memcmp(api_inc_nonce(alg, &st), cur, 16)) { hx_fail(kb, "stored nonce after start #%d is not N+%d (carry chain %d, history code %d, opened way %d)", p + 1, p + 1, chain, code, open); ok = 0; }
                if (kind == 0) {
                    api_inc_enc[alg](&st, MSG, out, ml); api_inc_encfin[alg](&st, tag);
                    if (memcmp(out, exp, ml) || memcmp(tag, exp + ml, 16)) { hx_fail(kb, "packet %d (encrypt) differs from the one-shot result under N+%d (carry chain %d, history code %d)", p, p, chain, code); ok = 0; }
                } else {
                    if (kind == 2) exp[ml] ^= 1;
                    api_inc_dec[alg](&st, exp, out, ml); int r = api_inc_decfin[alg](&st, exp + ml);
                    if (kind == 1 && (r != 0 || memcmp(out, MSG, ml))) { hx_fail(kb, "packet %d (decrypt) of the one-shot ciphertext under N+%d failed (carry chain %d, history code %d)", p, p, chain, code); ok = 0; }
                    if (kind == 2 && r >= 0) { hx_fail(kb, "forged packet %d accepted", p); ok = 0; }
                }
                hx_stat("transitions", 1);
            }
            api_inc_free[alg](&st); hist++;
        }
    }
    /* a long session on one object: 70,000 packets from a nonce whose low bytes are about to carry twice (00 FF FE F0): the stored nonce is checked after every start,
     * the packet itself every 257th time and at the end */
    { api_inc_state st; uint8_t cur[16]; chain_nonce(cur, 0, 0x41); cur[12] = 0x00; cur[13] = 0xff; cur[14] = 0xfe; cur[15] = 0xf0; api_inc_init[alg](&st, cur, K);
      for (long i = 0; i < 70000; i++) {
        uint8_t exp[48], out[32], tag[16]; int chk = (i % 257) == 0 || i == 69999;
        if (chk) ref_aead_encrypt(alg, K, cur, ADB, 3, MSG, 5, exp);
        api_inc_start[alg](&st, ADB, 3); ref_nonce_inc(cur);
        if (memcmp(api_inc_nonce(alg, &st), cur, 16)) { hx_fail(kb, "long session: stored nonce after start #%ld is not N+%ld", i + 1, i + 1); break; }
        api_inc_enc[alg](&st, MSG, out, 5); api_inc_encfin[alg](&st, tag);
        if (chk && (memcmp(out, exp, 5) || memcmp(tag, exp + 5, 16))) { hx_fail(kb, "long session: packet %ld differs from the one-shot result under N+%ld", i, i); break; }
        hx_stat("transitions", 1);
      }
      api_inc_free[alg](&st); hist++; }
    hx_stat("histories", hist);
    hx_sample("incremental %s: starting nonces with carry chains 0..16 x all packet histories of depth %d over {encrypt, decrypt, forged decrypt}; one session of 70,000 packets", api_alg_name[alg], depth);
}

static const uint8_t *REFKEY = K;   /* the key the session object currently holds */
static void refenc(int family, int alg, const uint8_t *n, const uint8_t *ad, size_t adl, const uint8_t *m, size_t ml, uint8_t *out)
{
    if (family <= 1) ref_aead_encrypt(alg, REFKEY, n, ad, adl, m, ml, out);
    else if (family == 2) ref_siv_encrypt(alg, REFKEY, n, ad, adl, m, ml, out);
    else ref_isap_encrypt(alg, REFKEY, n, ad, adl, m, ml, out);
}
static void cpp_mode(int family, int alg, int tier)
{
    static const char *fn[] = {"aead", "masked", "siv", "isap"};
    int depth = tier ? 4 : 3; long hist = 0; char kb[64];
    snprintf(kb, sizeof kb, "session:cpp:%s:%s", fn[family], family == 3 ? api_isap_name[alg] : api_alg_name[alg]);
    int klen = family == 3 ? ref_isap_keylen(alg) : ref_keylen(alg);
    for (int chain = 0; chain <= 16; chain += (family == 3 && !tier) ? 4 : 1) {
        uint8_t n0[16]; chain_nonce(n0, chain, 0x41);
        int total = 1; for (int d = 0; d < depth; d++) total *= 3;
        for (int code = 0; code < total; code++) {
            void *h = cpps_new(family, alg); uint8_t cur[16]; memcpy(cur, n0, 16); REFKEY = K;
            if (!cpps_set_key(h, K, klen)) hx_fail(kb, "set_key(full length) returned false");
            cpps_set_nonce(h, n0, 16);
            int c = code;
            for (int p = 0; p < depth; p++, c /= 3) {
                int kind = c % 3, adl = (p * 5 + 3 + code) % 12, ml = (p * 7 + chain) % 23, r; if (adl < 4) adl = 0;
                int form = (code + p + chain) % 3;     /* 0 raw pointers, 1 / 2 the byte_array overloads (two- or three-argument when there is no associated data) */
                uint8_t exp[64], out[64];
                /* re-keying inside a session leaves the nonce as it is (aead.h): before some operations the object gets another key, a zero-length key (= all-zero) or the first key again */
                { static const uint8_t ZK[20]; static uint8_t K2[20]; if (!K2[0]) hx_fill(K2, 20, HX_P_DENSE, 77);
                  int rk = (code + p * 2 + chain) % 5;
                  if (rk == 1) { if (!cpps_set_key(h, K2, klen)) hx_fail(kb, "set_key(second key) returned false"); REFKEY = K2; }
                  else if (rk == 2) { if (!cpps_set_key(h, K2, 0)) hx_fail(kb, "set_key(ptr, 0) returned false"); REFKEY = ZK; }
                  else if (rk == 3) { if (!cpps_set_key(h, K, klen)) hx_fail(kb, "set_key(first key) returned false"); REFKEY = K; } }
                refenc(family, alg, cur, ADB, adl, MSG, ml, exp);
                hx_stat("transitions", 1);
                if (kind == 0) {
                    r = form ? cpps_encrypt_ba(h, out, MSG, ml, ADB, adl, form) : cpps_encrypt(h, out, MSG, ml, ADB, adl);
                    if (r != ml + 16 || memcmp(out, exp, ml + 16)) { hx_fail(kb, "operation %d (encrypt) is not the one-shot result under the predicted nonce (carry chain %d, history code %d)", p, chain, code); break; }
                    ref_nonce_inc(cur);
                } else if (kind == 1) {
                    r = form ? cpps_decrypt_ba(h, out, exp, ml + 16, ADB, adl, form) : cpps_decrypt(h, out, exp, ml + 16, ADB, adl);
                    if (r != ml || memcmp(out, MSG, ml)) { hx_fail(kb, "operation %d (decrypt of a valid packet under the predicted nonce) returned %d (carry chain %d, history code %d)", p, r, chain, code); break; }
                    ref_nonce_inc(cur);
                } else {
                    exp[ml + 3] ^= 0x20;
                    r = form ? cpps_decrypt_ba(h, out, exp, ml + 16, ADB, adl, form) : cpps_decrypt(h, out, exp, ml + 16, ADB, adl);
                    if (r >= 0) { hx_fail(kb, "forged packet accepted"); break; }
                    /* nonce must be unchanged: checked by the next operation's prediction, and by a probe at the end */
                }
            }
            /* probe: one more encryption must use `cur` */
            { uint8_t exp[64], out[64]; refenc(family, alg, cur, ADB, 2, MSG, 5, exp); int r = cpps_encrypt(h, out, MSG, 5, ADB, 2);
              if (r != 21 || memcmp(out, exp, 21)) hx_fail(kb, "nonce after history code %d (carry chain %d) is not the predicted one", code, chain); }
            cpps_delete(h); hist++; REFKEY = K;
        }
    }
    /* set_nonce with every length 0..20 (left pad with zeros / truncate), NULL with 0; set_counter at byte boundaries */
    /* a long session on one C++ object (not the masked classes: their cost is dominated by the random source): 70,000 alternating encryptions and decryptions */
    if (family != 1) { void *h = cpps_new(family, alg); uint8_t cur[16]; chain_nonce(cur, 0, 0x41); cur[12] = 0x00; cur[13] = 0xff; cur[14] = 0xfe; cur[15] = 0xf0; REFKEY = K;
      cpps_set_key(h, K, klen); cpps_set_nonce(h, cur, 16); long n = family == 3 ? 3000 : 70000;
      for (long i = 0; i < n; i++) {
        uint8_t exp[48], out[48]; int chk = (i % 257) == 0 || i == n - 1 || i < 2, r;
        if (chk || (i & 1)) refenc(family, alg, cur, ADB, 3, MSG, 5, exp);
        if (i & 1) { r = cpps_decrypt(h, out, exp, 21, ADB, 3); if (r != 5 || memcmp(out, MSG, 5)) { hx_fail(kb, "long session: operation %ld (decrypt of the one-shot packet under N+%ld) returned %d", i, i, r); break; } }
        else { r = cpps_encrypt(h, out, MSG, 5, ADB, 3); if (r != 21 || (chk && memcmp(out, exp, 21))) { hx_fail(kb, "long session: operation %ld (encrypt) is not the one-shot result under N+%ld", i, i); break; } }
        ref_nonce_inc(cur); hx_stat("transitions", 1);
      }
      cpps_delete(h); }
    static const int nlens[] = {0, 1, 2, 3, 4, 5, 6, 7, 8, 9, 10, 11, 12, 13, 14, 15, 16, 17, 18, 19, 20, 31, 32, 33, 255, 256, 257, 271, 272, 512, 1024, 4099, 65536, 65537};
    for (unsigned li = 0; li < sizeof nlens / sizeof nlens[0]; li++) { int len = nlens[li];
        void *h = cpps_new(family, alg); static uint8_t src[65600]; uint8_t want[16], exp[64], out[64];
        cpps_set_key(h, K, klen); hx_fill(src, sizeof src, HX_P_DENSE, 9);
        { uint8_t junk[16]; memset(junk, 0xEE, 16); cpps_set_nonce(h, junk, 16); }
        cpps_set_nonce(h, len ? src : 0, len);
        memset(want, 0, 16); if (len >= 16) memcpy(want, src, 16); else memcpy(want + 16 - len, src, len);
        refenc(family, alg, want, ADB, 1, MSG, 9, exp); int r = cpps_encrypt(h, out, MSG, 9, ADB, 1);
        hx_stat("transitions", 1);
        if (r != 25 || memcmp(out, exp, 25)) hx_fail(kb, "set_nonce with length %d does not left-pad/truncate as documented", len);
        cpps_delete(h);
    }
    for (int b = 0; b <= 64; b += 8) for (int d = -1; d <= 1; d++) {
        uint64_t v = (b == 64 ? 0 : ((uint64_t)1 << b)) + (uint64_t)(int64_t)d;
        void *h = cpps_new(family, alg); uint8_t want[16], exp[64], out[64];
        cpps_set_key(h, K, klen); { uint8_t junk[16]; memset(junk, 0xEE, 16); cpps_set_nonce(h, junk, 16); }
        cpps_set_counter(h, v);
        memset(want, 0, 16); for (int i = 0; i < 8; i++) want[15 - i] = (uint8_t)(v >> (8 * i));
        refenc(family, alg, want, ADB, 1, MSG, 9, exp); int r = cpps_encrypt(h, out, MSG, 9, ADB, 1);
        hx_stat("transitions", 1);
        if (r != 25 || memcmp(out, exp, 25)) hx_fail(kb, "set_counter(%llu) does not store the counter big-endian in the low 8 bytes", (unsigned long long)v);
        cpps_delete(h);
    }
    hx_stat("histories", hist);
    hx_sample("C++ %s: carry chains x all histories of depth %d over {encrypt, decrypt, forged decrypt} + probe; set_nonce lengths 0..20; set_counter boundaries", kb, depth);
}

/* explicit model of a C++ cipher object: (key, nonce).  Every sequence of `depth` member calls over a 14-operation alphabet is run on a fresh object (which starts with
 * the all-zero key and nonce); every output and every return value is predicted from the model, and a final encryption probes the (key, nonce) pair reached. */
static void cppseq_mode(int family, int alg, int depth)
{
    static const char *fn[] = {"aead", "masked", "siv", "isap"}; char kb[64]; long hist = 0;
    snprintf(kb, sizeof kb, "session:cpp-sequences:%s:%s", fn[family], family == 3 ? api_isap_name[alg] : api_alg_name[alg]);
    int klen = family == 3 ? ref_isap_keylen(alg) : ref_keylen(alg);
    static const uint8_t ZK[20]; static uint8_t K2[20], SRC[24]; hx_fill(K2, 20, HX_P_DENSE, 77); hx_fill(SRC, 24, HX_P_DENSE, 9);
    static const char *opn[] = {"encrypt(ptr)", "encrypt(c,m)", "encrypt(c,m,ad)", "decrypt(ptr) valid", "decrypt(m,c,ad) valid", "decrypt(ptr) forged", "decrypt(m,c) forged", "decrypt(ptr) 7 bytes",
                                "set_key(K2)", "set_key(x,0)", "set_key refused", "set_nonce(ff..ff)", "set_nonce(5 bytes)", "set_counter"};
    int total = 1; for (int d = 0; d < depth; d++) total *= 14;
    for (int code = 0; code < total; code++) {
        void *h = cpps_new(family, alg); uint8_t cur[16]; memset(cur, 0, 16); REFKEY = ZK; int c = code, bad = 0; char hs[96] = "";
        for (int p = 0; p <= depth && !bad; p++, c /= 14) {
            int op = p < depth ? c % 14 : 0, r; uint8_t exp[64], out[64]; size_t adl = 0, ml = 5;
            if (p < depth) { size_t l = strlen(hs); snprintf(hs + l, sizeof hs - l, "%s%s", p ? "; " : "", opn[op]); }
            if (op == 1) ml = 9; if (op == 2 || op == 4) { adl = (p & 1) ? 7 : 0; ml = op == 2 ? 0 : 11; }   /* the three-argument forms alternately with an empty associated-data array */
            hx_stat("transitions", 1);
            switch (op) {
            case 0: case 1: case 2:
                refenc(family, alg, cur, ADB, adl, MSG, ml, exp);
                r = op == 0 ? cpps_encrypt(h, out, MSG, ml, ADB, adl) : cpps_encrypt_ba(h, out, MSG, ml, ADB, adl, op);
                if (r != (int)ml + 16 || memcmp(out, exp, ml + 16)) bad = 1; else ref_nonce_inc(cur); break;
            case 3: case 4:
                refenc(family, alg, cur, ADB, adl, MSG, ml, exp);
                r = op == 3 ? cpps_decrypt(h, out, exp, ml + 16, ADB, adl) : cpps_decrypt_ba(h, out, exp, ml + 16, ADB, adl, 2);
                if (r != (int)ml || memcmp(out, MSG, ml)) bad = 1; else ref_nonce_inc(cur); break;
            case 5: case 6:
                refenc(family, alg, cur, ADB, 0, MSG, ml, exp); exp[ml + 9] ^= 4;
                r = op == 5 ? cpps_decrypt(h, out, exp, ml + 16, ADB, 0) : cpps_decrypt_ba(h, out, exp, ml + 16, ADB, 0, 1);
                if (r >= 0) bad = 1; break;
            case 7: r = cpps_decrypt(h, out, MSG, 7, ADB, 0); if (r >= 0) bad = 1; break;
            case 8: if (!cpps_set_key(h, K2, klen)) bad = 1; REFKEY = K2; break;
            case 9: if (!cpps_set_key(h, K2, 0)) bad = 1; REFKEY = ZK; break;
            case 10: if (cpps_set_key(h, K, klen + 1) || cpps_set_key(h, 0, klen)) bad = 1; break;
            case 11: memset(cur, 0xff, 16); cpps_set_nonce(h, cur, 16); break;
            case 12: memset(cur, 0, 16); memcpy(cur + 11, SRC, 5); cpps_set_nonce(h, SRC, 5); break;
            default: memset(cur, 0, 16); memset(cur + 9, 0xff, 7); cpps_set_counter(h, 0x00ffffffffffffffULL); break;
            }
            if (bad) hx_fail(kb, "sequence [%s]%s: the result is not the one the (key, nonce) model predicts", hs, p == depth ? " followed by a probing encrypt(ptr)" : "");
        }
        cpps_delete(h); hist++; REFKEY = K;
    }
    hx_stat("histories", hist); hx_stat("nontrivial", hist);
    hx_sample("C++ %s %s: all %d sequences of %d calls over 14 operations (3 encrypt forms, 2 valid / 2 forged / 1 short decrypt, 3 keying calls, set_nonce 16 / 5 bytes, set_counter) against a (key, nonce) model", fn[family], family == 3 ? api_isap_name[alg] : api_alg_name[alg], total, depth);
}

int main(int argc, char **argv)
{
    hx_init();
    hx_fill(K, 20, HX_P_DENSE, 1); hx_fill(ADB, 16, HX_P_DENSE, 3); hx_fill(MSG, 48, HX_P_DENSE, 4);
    if (argc < 3) return 2;
    if (!strcmp(argv[1], "inc")) inc_mode(atoi(argv[2]));
    else if (!strcmp(argv[1], "session")) session_mode(atoi(argv[2]), atoi(argv[3]));
    else if (!strcmp(argv[1], "cppseq")) cppseq_mode(atoi(argv[2]), atoi(argv[3]), atoi(argv[4]));
    else cpp_mode(atoi(argv[2]), atoi(argv[3]), atoi(argv[4]));
    hx_finish();
    return 0;
}
