/* C-callable handle API over the 12 C++ cipher classes (all derive from ascon::aead). */
#include <ascon/aead.h>
#include <ascon/aead-masked.h>
#include <ascon/siv.h>
#include <ascon/isap.h>
#include "cpp_session.h"
#include <ascon/utility.h>
#include <ascon/hash.h>
#include <ascon/xof.h>
#include <string.h>

extern "C" void *cpps_new(int family, int alg)
{
    switch (family * 3 + alg) {
    case 0: return new ascon::aead128(); case 1: return new ascon::aead128a(); case 2: return new ascon::aead80pq();
    case 3: return new ascon::aead128_masked(); case 4: return new ascon::aead128a_masked(); case 5: return new ascon::aead80pq_masked();
    case 6: return new ascon::siv128(); case 7: return new ascon::siv128a(); case 8: return new ascon::siv80pq();
    case 9: return new ascon::isap128a(); case 10: return new ascon::isap128(); case 11: return new ascon::isap80pq();
    }
    return 0;
}
extern "C" void cpps_delete(void *h) { delete static_cast<ascon::aead *>(h); }
extern "C" int cpps_set_key(void *h, const unsigned char *k, size_t len) { return static_cast<ascon::aead *>(h)->set_key(k, len) ? 1 : 0; }
extern "C" void cpps_set_nonce(void *h, const unsigned char *n, size_t len) { static_cast<ascon::aead *>(h)->set_nonce(n, len); }
extern "C" void cpps_set_counter(void *h, uint64_t n) { static_cast<ascon::aead *>(h)->set_counter(n); }
extern "C" int cpps_encrypt(void *h, unsigned char *c, const unsigned char *m, size_t len, const unsigned char *ad, size_t adlen)
{ return static_cast<ascon::aead *>(h)->encrypt(c, m, len, ad, adlen); }
extern "C" int cpps_decrypt(void *h, unsigned char *m, const unsigned char *c, size_t len, const unsigned char *ad, size_t adlen)
{ return static_cast<ascon::aead *>(h)->decrypt(m, c, len, ad, adlen); }
extern "C" size_t cpps_key_size(void *h) { return static_cast<ascon::aead *>(h)->key_size(); }

/* the byte_array overloads: form 1 = two-argument overload when there is no associated data, form 2 = always the three-argument overload (with an empty array) */
extern "C" int cpps_encrypt_ba(void *h, unsigned char *c, const unsigned char *m, size_t len, const unsigned char *ad, size_t adlen, int form)
{
    ascon::aead *o = static_cast<ascon::aead *>(h); ascon::byte_array bm = ascon::bytes_from_data(m, len), bad = ascon::bytes_from_data(ad, adlen), bc;
    if (adlen == 0 && form == 1) o->encrypt(bc, bm); else o->encrypt(bc, bm, bad);
    if (bc.size()) memcpy(c, bc.data(), bc.size());
    return (int)bc.size();
}
extern "C" int cpps_decrypt_ba(void *h, unsigned char *m, const unsigned char *c, size_t len, const unsigned char *ad, size_t adlen, int form)
{
    ascon::aead *o = static_cast<ascon::aead *>(h); ascon::byte_array bc = ascon::bytes_from_data(c, len), bad = ascon::bytes_from_data(ad, adlen), bm;
    bool ok = (adlen == 0 && form == 1) ? o->decrypt(bm, bc) : o->decrypt(bm, bc, bad);
    if (!ok) return -1;
    if (bm.size()) memcpy(m, bm.data(), bm.size());
    return (int)bm.size();
}

/* a constant byte_array shared by several threads (only ever read by the callers) */
extern "C" void *cpps_ba_new(const unsigned char *d, size_t n) { return new ascon::byte_array(ascon::bytes_from_data(d, n)); }
extern "C" int cpps_decrypt_shared_ba(void *h, unsigned char *m, const void *shared_ct, const unsigned char *ad, size_t adlen, int form)
{
    ascon::aead *o = static_cast<ascon::aead *>(h); const ascon::byte_array &c = *static_cast<const ascon::byte_array *>(shared_ct);
    ascon::byte_array bm, bad = ascon::bytes_from_data(ad, adlen);
    bool ok = (form == 1) ? o->decrypt(bm, c) : o->decrypt(bm, c, bad);
    if (!ok) return -1;
    if (bm.size()) memcpy(m, bm.data(), bm.size());
    return (int)bm.size();
}

/* every other consumer of a constant byte_array: message and associated data of encrypt, hash update, xof absorb, customisation string; 150 result bytes */
extern "C" void cpps_consume_shared_ba(void *h, unsigned char *out, const void *shared)
{
    ascon::aead *o = static_cast<ascon::aead *>(h); const ascon::byte_array &b = *static_cast<const ascon::byte_array *>(shared);
    memset(out, 0, 150);
    ascon::byte_array c; o->encrypt(c, b, b); if (c.size() <= 80) memcpy(out, c.data(), c.size());
    { ascon::hash x; x.update(b); x.finalize(out + 80); }
    { ascon::xofa x; x.absorb(b); x.squeeze(out + 112, 19); }
    { ascon::xof x("name", b); x.squeeze(out + 131, 19); }
}
