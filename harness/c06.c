/* C06: SIV / ISAP equal their documented constructions; ISAP pre-computed keys persist.
 * usage: c06 enc <fam siv|isap> <alg> <pattern> <maxlen>
 *        c06 key <alg> <depth> */
#include "hx.h"
#include "api.h"

static void enc_mode(const char *fam, int alg, int pat, int maxlen)
{
    int isap = !strcmp(fam, "isap");
    int kl = isap ? ref_isap_keylen(alg) : ref_keylen(alg);
    uint8_t key[20], nonce[16], *ad = malloc(maxlen + 1), *m = malloc(maxlen + 1);
    char kb[64]; snprintf(kb, sizeof kb, "%s:%s", fam, isap ? api_isap_name[alg] : api_alg_name[alg]);
    hx_fill(key, kl, pat, 1); hx_fill(nonce, 16, pat, 2); hx_fill(ad, maxlen, pat, 3); hx_fill(m, maxlen, pat, 4);
    api_isap_key pk; if (isap) api_isap_init[alg](&pk, key);
    for (int a = 0; a <= maxlen; a++) for (int l = 0; l <= maxlen; l++) {
        size_t clen = l + 16, got = 0, got2 = 0;
        uint8_t *e = hx_buf(clen), *c = hx_buf(clen), *c2 = hx_buf(clen), *p = hx_buf(l);
        if (isap) { ref_isap_encrypt(alg, key, nonce, ad, a, m, l, e); api_isap_enc[alg](c, &got, m, l, HX_OPT(ad, a), a, nonce, &pk); api_isap_enc[alg](c2, &got2, m, l, HX_OPT(ad, a), a, nonce, &pk); }
        else { ref_siv_encrypt(alg, key, nonce, ad, a, m, l, e); api_siv_enc[alg](c, &got, m, l, HX_OPT(ad, a), a, nonce, key); api_siv_enc[alg](c2, &got2, m, l, HX_OPT(ad, a), a, nonce, key); }
        hx_stat("evaluations", 2); if (a + l) hx_stat("nontrivial", 1);
        if (got != clen || got2 != clen) hx_fail(kb, "reported length %zu != %zu adlen=%d mlen=%d", got, clen, a, l);
        else if (memcmp(c, e, clen)) { size_t i = 0; while (c[i] == e[i]) i++; hx_fail(kb, "ciphertext differs from documented construction at byte %zu adlen=%d mlen=%d pat=%d", i, a, l, pat); }
        else if (memcmp(c, c2, clen)) hx_fail(kb, "not deterministic: two calls with equal inputs differ adlen=%d mlen=%d", a, l);
        if (!hx_buf_ok(c, clen)) hx_fail(kb, "wrote outside output buffer adlen=%d mlen=%d", a, l);
        /* the C++ classes of the same modes, keyed by set_key and by the key constructor */
        for (int path = 0; path < 3; path++) {
            int r2 = path == 2 ? cpp_encrypt_rekey(isap ? 3 : 2, alg, key, nonce, c2, m, l, HX_OPT(ad, a), a) : path ? cpp_encrypt_ctor(isap ? 3 : 2, alg, key, nonce, c2, m, l, HX_OPT(ad, a), a) : cpp_encrypt(isap ? 3 : 2, alg, key, nonce, c2, m, l, HX_OPT(ad, a), a);
            hx_stat("evaluations", 1);
            if (r2 != (int)clen || memcmp(c2, e, clen)) { char k2[96]; snprintf(k2, sizeof k2, "%s:cpp-%s", kb, path == 2 ? "re-key" : path ? "key-constructor" : "set_key"); hx_fail(k2, "C++ class result (%d) differs from the documented construction adlen=%d mlen=%d", r2, a, l); }
            if (!hx_buf_ok(c2, clen)) hx_fail(kb, "C++ class wrote outside output buffer adlen=%d mlen=%d", a, l);
        }
        /* the reference's ciphertext must decrypt through the library */
        size_t pl = 0; int r;
        if (isap) r = api_isap_dec[alg](p, &pl, e, clen, HX_OPT(ad, a), a, nonce, &pk); else r = api_siv_dec[alg](p, &pl, e, clen, HX_OPT(ad, a), a, nonce, key);
        hx_stat("evaluations", 1);
        if (r != 0 || pl != (size_t)l || memcmp(p, m, l)) hx_fail(kb, "reference ciphertext not decrypted correctly (result %d) adlen=%d mlen=%d", r, a, l);
        if (!isap && l > 0) {
            /* every ciphertext byte depends on the tag: keystream pass keyed by the tag => flipping a tag bit changes decryption of every block */
        }
        hx_free(e); hx_free(c); hx_free(c2); hx_free(p);
    }
    /* long lengths (narrowing of a size_t remainder to 8 or 16 bits is the realistic long-length mistake) */
    {
        static const size_t longs[] = {255, 256, 257, 1023, 1024, 1025, 4095, 4096, 4097, 65535, 65536, 65537};
        uint8_t *big = malloc(70000), *e = malloc(70000), *c = malloc(70000); hx_fill(big, 70000, pat, 9);
        for (unsigned i = 0; i < 12; i++) for (int which = 0; which < 2; which++) {
            if (isap && alg != 0 && i > 5 && which == 0) continue;     /* the 12-round ISAP variants are slow in the bit-wise reference */
            size_t a = which ? longs[i] : 9, l = which ? 9 : longs[i], got = 0;
            if (isap) { ref_isap_encrypt(alg, key, nonce, big, a, big + 7, l, e); api_isap_enc[alg](c, &got, big + 7, l, big, a, nonce, &pk); }
            else { ref_siv_encrypt(alg, key, nonce, big, a, big + 7, l, e); api_siv_enc[alg](c, &got, big + 7, l, big, a, nonce, key); }
            hx_stat("evaluations", 1); hx_stat("nontrivial", 1);
            if (got != l + 16 || memcmp(c, e, l + 16)) hx_fail(kb, "ciphertext differs from documented construction for long lengths adlen=%zu mlen=%zu pat=%d", a, l, pat);
        }
        free(big); free(e); free(c);
    }
    if (isap) api_isap_free[alg](&pk);
    hx_sample("%s alg=%d pattern=%d: adlen,mlen in 0..%d: encrypt == reference, deterministic, reference ciphertext decrypts", fam, alg, pat, maxlen);
    free(ad); free(m);
}

/* ---- key persistence: every op sequence up to a depth over two key objects ---- */
static int kalg, kdepth;
static uint8_t kkey[20], knonce[16], kad[24], kmsg[40], canon0[80], refblob[80];
static uint8_t seen_states[64][160]; static int nseen;
static uint8_t exp00[16], exp917[33];
#define NOPS 11
static const char *opname[NOPS] = {"encA(0,0)", "encA(9,17)", "decA-ok", "decA-forged", "saveA", "B=load(save(A))", "encB(9,17)", "decB-ok", "saveB", "freeA+initA", "A=load(save(A))"};

static void canon(api_isap_key *k, uint8_t out[80])
{
    ascon_extract_bytes(&k->a.ke, out, 0, 40); ascon_extract_bytes(&k->a.ka, out + 40, 0, 40);
}
static void record_state(api_isap_key *A, api_isap_key *B, int haveB)
{
    uint8_t s[160]; memset(s, 0, sizeof s); canon(A, s); if (haveB) canon(B, s + 80);
    for (int i = 0; i < nseen; i++) if (!memcmp(seen_states[i], s, 160)) return;
    if (nseen < 64) memcpy(seen_states[nseen++], s, 160);
}
static void seqstr(const int *seq, int n, char *buf, size_t cap)
{
    buf[0] = 0; for (int i = 0; i < n; i++) { strncat(buf, opname[seq[i]], cap - strlen(buf) - 2); if (i + 1 < n) strncat(buf, ";", cap - strlen(buf) - 2); }
}
static void run_seq(const int *seq, int n)
{
    api_isap_key A, B; int haveB = 0; char kb[64], sb[400];
    snprintf(kb, sizeof kb, "isap-key:%s", api_isap_name[kalg]);
    api_isap_init[kalg](&A, kkey);
    for (int i = 0; i < n; i++) {
        int op = seq[i]; uint8_t out[64], exp[64], blob[80]; size_t ol = 0; int r;
        hx_stat("transitions", 1);
        switch (op) {
        case 0: case 1: case 6: {
            int a = op == 0 ? 0 : 9, l = op == 0 ? 0 : 17; api_isap_key *k = op == 6 ? &B : &A;
            if (op == 6 && !haveB) goto next;
            memcpy(exp, op == 0 ? exp00 : exp917, l + 16);
            api_isap_enc[kalg](out, &ol, kmsg, l, HX_OPT(kad, a), a, knonce, k);
            if (ol != (size_t)l + 16 || memcmp(out, exp, ol)) { seqstr(seq, i + 1, sb, sizeof sb); hx_fail(kb, "encryption with %s key differs from reference after history [%s]", op == 6 ? "loaded" : "original", sb); }
            break; }
        case 2: case 3: case 7: {
            api_isap_key *k = op == 7 ? &B : &A;
            if (op == 7 && !haveB) goto next;
            memcpy(exp, exp917, 33);
            if (op == 3) exp[20] ^= 0x10;
            r = api_isap_dec[kalg](out, &ol, exp, 33, kad, 9, knonce, k);
            if (op == 3 ? r >= 0 : (r != 0 || memcmp(out, kmsg, 17))) { seqstr(seq, i + 1, sb, sizeof sb); hx_fail(kb, "decryption result %d wrong after history [%s]", r, sb); }
            break; }
        case 4: case 8: {
            api_isap_key *k = op == 8 ? &B : &A;
            if (op == 8 && !haveB) goto next;
            memset(blob, 0xAA, 80); api_isap_save[kalg](k, blob);
            if (memcmp(blob, refblob, 80)) { seqstr(seq, i + 1, sb, sizeof sb); hx_fail(kb, "saved key differs from p_K(K||IV_KE) || p_K(K||IV_KA) after history [%s]", sb); }
            break; }
        case 5:
            api_isap_save[kalg](&A, blob); if (haveB) api_isap_free[kalg](&B);
            api_isap_load[kalg](&B, blob); haveB = 1; break;
        case 9: api_isap_free[kalg](&A); api_isap_init[kalg](&A, kkey); break;
        case 10: api_isap_save[kalg](&A, blob); api_isap_load[kalg](&A, blob); break;
        }
        {
            uint8_t c[80];
            canon(&A, c);
            if (memcmp(c, canon0, 80)) { seqstr(seq, i + 1, sb, sizeof sb); hx_fail(kb, "pre-computed key object modified by use: history [%s]", sb); }
            if (haveB) { canon(&B, c); if (memcmp(c, canon0, 80)) { seqstr(seq, i + 1, sb, sizeof sb); hx_fail(kb, "loaded key object differs from the original: history [%s]", sb); } }
            record_state(&A, &B, haveB);
        }
next:   ;
    }
    api_isap_free[kalg](&A); if (haveB) api_isap_free[kalg](&B);
    hx_stat("histories", 1);
}
static void rec(int *seq, int n)
{
    if (n > 0) run_seq(seq, n);
    if (n == kdepth) return;
    for (int op = 0; op < NOPS; op++) { seq[n] = op; rec(seq, n + 1); }
}
static void key_mode(int alg, int depth)
{
    kalg = alg; kdepth = depth;
    hx_fill(kkey, 20, HX_P_DENSE, 1); hx_fill(knonce, 16, HX_P_DENSE, 2); hx_fill(kad, 24, HX_P_DENSE, 3); hx_fill(kmsg, 40, HX_P_DENSE, 4);
    ref_isap_precompute(alg, kkey, refblob, refblob + 40);
    ref_isap_encrypt(alg, kkey, knonce, kad, 0, kmsg, 0, exp00); ref_isap_encrypt(alg, kkey, knonce, kad, 9, kmsg, 17, exp917);
    api_isap_key A; api_isap_init[alg](&A, kkey); canon(&A, canon0); api_isap_free[alg](&A);
    char kb[64]; snprintf(kb, sizeof kb, "isap-key:%s", api_isap_name[alg]);
    if (memcmp(canon0, refblob, 80)) hx_fail(kb, "pre-computed key after init differs from the reference pre-computation");
    int seq[8]; rec(seq, 0);
    hx_stat("states", nseen);
    hx_sample("isap %s key persistence: all op sequences up to depth %d over {encA x2, decA ok/forged, saveA, B=load(save(A)), encB, decB, saveB, free+init, A=load(save(A))}", api_isap_name[alg], depth);
}

int main(int argc, char **argv)
{
    hx_init();
    if (argc < 4) return 2;
    if (!strcmp(argv[1], "enc")) enc_mode(argv[2], atoi(argv[3]), atoi(argv[4]), atoi(argv[5]));
    else key_mode(atoi(argv[2]), atoi(argv[3]));
    hx_finish();
    return 0;
}
