#include "sysrand.h"
#include <errno.h>
#include <string.h>
#include <stdlib.h>
#include <sys/types.h>
unsigned sysrand_calls, sysrand_deliveries;
uint64_t sysrand_fail_mask, sysrand_eintr_mask, sysrand_tape_seed = 1;
int sysrand_flip_delivery = -1, sysrand_mode, sysrand_eintr_errno = EINTR, sysrand_fail_errno = EIO;
unsigned sysrand_flip_byte, sysrand_flip_bit;
static uint64_t eintr_done;
static uint64_t mix(uint64_t x)
{
    x += 0x9e3779b97f4a7c15ULL; x = (x ^ (x >> 30)) * 0xbf58476d1ce4e5b9ULL;
    x = (x ^ (x >> 27)) * 0x94d049bb133111ebULL; return x ^ (x >> 31);
}
void sysrand_reset(uint64_t seed)
{
    sysrand_calls = 0; sysrand_deliveries = 0; sysrand_fail_mask = 0; sysrand_eintr_mask = 0; eintr_done = 0;
    sysrand_tape_seed = seed; sysrand_flip_delivery = -1; sysrand_mode = 0;
}
void sysrand_expected(unsigned d, uint8_t *out, size_t n)
{
    for (size_t j = 0; j < n; j++) {
        out[j] = sysrand_mode == 1 ? 0 : sysrand_mode == 2 ? 0xff : (uint8_t)mix(sysrand_tape_seed * 1000003ULL + d * 4099ULL + j);
    }
    if (sysrand_flip_delivery == (int)d && sysrand_flip_byte < n) out[sysrand_flip_byte] ^= (uint8_t)(1u << sysrand_flip_bit);
}
ssize_t getrandom(void *buf, size_t n, unsigned flags)
{
    (void)flags;
    static int down = -1;   /* VP_SYSRAND_DOWN=<errno>: the system source is not there at all -- every request fails with that error (ENOSYS 38, EIO 5, EPERM 1) */
    if (down < 0) { const char *e = getenv("VP_SYSRAND_DOWN"); down = e ? atoi(e) : 0; }
    if (down) { sysrand_calls++; errno = down; return -1; }
    unsigned k = sysrand_calls;
    if (k < 64 && ((sysrand_eintr_mask >> k) & 1) && !((eintr_done >> k) & 1)) {
        eintr_done |= (uint64_t)1 << k; errno = sysrand_eintr_errno; return -1; /* same logical call is retried */
    }
    sysrand_calls++;
    if (k < 64 && ((sysrand_fail_mask >> k) & 1)) { errno = sysrand_fail_errno; return -1; }
    sysrand_expected(sysrand_deliveries++, (uint8_t *)buf, n);
    return (ssize_t)n;
}

/* the other two interfaces the library may have been configured to use (libc probes): the same script behind getentropy() and behind syscall(SYS_getrandom) */
#include <stdarg.h>
#include <sys/syscall.h>
int getentropy(void *buf, size_t n) { return getrandom(buf, n, 0) < 0 ? -1 : 0; }
#if defined(VP_SYSRAND_SYSCALL)    /* only in the one configuration that needs it: sanitizer runtimes define syscall themselves */
long syscall(long number, ...)
{
    if (number == SYS_getrandom) { va_list ap; va_start(ap, number); void *buf = va_arg(ap, void *); size_t n = va_arg(ap, size_t); va_end(ap); return (long)getrandom(buf, n, 0); }
    errno = ENOSYS; return -1;
}
#endif

/* the fourth interface: no getrandom / getentropy / SYS_getrandom at all, the library opens and reads /dev/urandom.  The scripted source sits behind that device: open() of the
 * device path gives the descriptor number VP_SYSRAND_FD (any number is a valid descriptor, 0 included: a process may have closed its standard input), read() on it is one scripted
 * delivery, close() is counted.  Everything else goes to the kernel. */
unsigned sysrand_opens, sysrand_closes, sysrand_bad_closes;
#if defined(VP_SYSRAND_DEVICE)
#include <fcntl.h>
#include <unistd.h>
#ifndef VP_SYSRAND_FD
#define VP_SYSRAND_FD 100
#endif
static int dev_is_open;
int open(const char *path, int flags, ...)
{
    mode_t mode = 0; if (flags & O_CREAT) { va_list ap; va_start(ap, flags); mode = va_arg(ap, mode_t); va_end(ap); }
    if (!strcmp(path, "/dev/urandom") || !strcmp(path, "/dev/random")) { sysrand_opens++; dev_is_open = 1; return VP_SYSRAND_FD; }
    return (int)syscall(SYS_openat, AT_FDCWD, path, flags, mode);
}
ssize_t read(int fd, void *buf, size_t n) { if (dev_is_open && fd == VP_SYSRAND_FD) return getrandom(buf, n, 0); return (ssize_t)syscall(SYS_read, fd, buf, n); }
int close(int fd)
{
    if (fd == VP_SYSRAND_FD && (dev_is_open || sysrand_opens)) { sysrand_closes++; if (!dev_is_open) sysrand_bad_closes++; dev_is_open = 0; return 0; }
    return (int)syscall(SYS_close, fd);
}
#endif
