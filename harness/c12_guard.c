/* C12: objects handed to assembly code are placed flush against PROT_NONE guard pages (both ends),
 * since sanitizers do not see inside assembly.  usage: c12_guard */
#define _GNU_SOURCE
#include "hx.h"
#include "api.h"
#include <sys/mman.h>
#include <unistd.h>
#include <signal.h>
#include <setjmp.h>
#include <ascon/permutation.h>
#include "masking/ascon-masked-word.h"
#include "masking/ascon-masked-state.h"

static long PG;
static uint8_t *region;         /* guard | 4 data pages | guard */
static sigjmp_buf jb; static volatile int armed; static const char *cur = "?";
static void on_segv(int sig, siginfo_t *si, void *uc) { (void)sig; (void)uc; if (armed) { armed = 0; siglongjmp(jb, 1); } _exit(99); (void)si; }
static void *at_end(size_t n) { return region + PG + 4 * PG - n; }          /* object ends exactly at the trailing guard */
static void *at_start(void) { return region + PG; }                        /* object starts exactly after the leading guard */
#define GUARDED(name, ...) do { cur = name; armed = 1; if (sigsetjmp(jb, 1) == 0) { __VA_ARGS__; armed = 0; hx_stat("evaluations", 1); } else hx_fail("guard-page-fault", "%s touched memory outside the object it was given", cur); } while (0)

int main(void)
{
    hx_init();
    PG = sysconf(_SC_PAGESIZE);
    region = mmap(0, 6 * PG, PROT_READ | PROT_WRITE, MAP_PRIVATE | MAP_ANONYMOUS, -1, 0);
    mprotect(region, PG, PROT_NONE); mprotect(region + 5 * PG, PG, PROT_NONE);
    struct sigaction sa; memset(&sa, 0, sizeof sa); sa.sa_sigaction = on_segv; sa.sa_flags = SA_SIGINFO | SA_NODEFER; sigaction(SIGSEGV, &sa, 0); sigaction(SIGBUS, &sa, 0);
    ascon_trng_state_t trng; ascon_trng_init(&trng);
    for (int pos = 0; pos < 2; pos++) {
        /* plain permutation and byte-range functions on a state flush against a guard page */
        ascon_state_t *st = pos ? at_start() : at_end(sizeof(ascon_state_t));
        uint8_t buf[40]; hx_fill(buf, 40, HX_P_DENSE, 1);
        for (int r = 0; r < 12; r++) GUARDED("ascon_permute", ascon_init(st); ascon_overwrite_bytes(st, buf, 0, 40); ascon_permute(st, (uint8_t)r); ascon_extract_bytes(st, buf, 0, 40); ascon_free(st));
        for (unsigned off = 0; off <= 40; off++) for (unsigned sz = 0; off + sz <= 40; sz += (sz < 9 ? 1 : 5)) {
            uint8_t *io = pos ? at_start() : at_end(sz);   /* the data buffer is guarded, the state is ordinary */
            ascon_state_t s2; ascon_init(&s2);
            GUARDED("byte-range ops", ascon_add_bytes(&s2, io, off, sz); ascon_overwrite_bytes(&s2, io, off, sz); ascon_extract_bytes(&s2, io, off, sz); ascon_extract_and_add_bytes(&s2, io, io, off, sz); ascon_extract_and_overwrite_bytes(&s2, io, io, off, sz));
            ascon_free(&s2);
        }
        /* masked state / masked permutations */
        ascon_masked_state_t *ms = pos ? at_start() : at_end(sizeof(ascon_masked_state_t));
        uint64_t preserve[4] = {1, 2, 3, 4}; ascon_state_t pl; ascon_init(&pl); ascon_overwrite_bytes(&pl, buf, 0, 40);
        for (int r = 0; r < 12; r++) {
            GUARDED("ascon_x2_permute", ascon_x2_copy_from_x1(ms, &pl, &trng); ascon_x2_permute(ms, (uint8_t)r, preserve); ascon_x2_randomize(ms, &trng));
#if ASCON_MASKED_MAX_SHARES >= 3
            GUARDED("ascon_x3_permute", ascon_x3_copy_from_x1(ms, &pl, &trng); ascon_x3_permute(ms, (uint8_t)r, preserve); ascon_x3_randomize(ms, &trng); ascon_x2_copy_from_x3(ms, ms, &trng); ascon_x3_copy_from_x2(ms, ms, &trng));
#endif
#if ASCON_MASKED_MAX_SHARES >= 4
            GUARDED("ascon_x4_permute", ascon_x4_copy_from_x1(ms, &pl, &trng); ascon_x4_permute(ms, (uint8_t)r, preserve); ascon_x4_randomize(ms, &trng); ascon_x3_copy_from_x4(ms, ms, &trng); ascon_x4_copy_from_x3(ms, ms, &trng); ascon_x2_copy_from_x4(ms, ms, &trng); ascon_x4_copy_from_x2(ms, ms, &trng));
#endif
        }
        ascon_free(&pl);
        /* masked word toolkit: word object and data buffers flush against guards */
        ascon_masked_word_t *w = pos ? at_start() : at_end(sizeof(ascon_masked_word_t)); ascon_masked_word_t w2;
        for (unsigned sz = 0; sz <= 8; sz++) {
            uint8_t *d = pos ? at_start() : at_end(sz);
            if (pos == 0 && (uint8_t *)w < d + sz && d < (uint8_t *)w + sizeof *w) { /* both flush at the same end: use a local word */ }
            GUARDED("masked word x2", ascon_masked_word_x2_zero(&w2, &trng); if (sz == 8) { ascon_masked_word_x2_load(&w2, d, &trng); ascon_masked_word_x2_store(d, &w2); } else { if (sz) ascon_masked_word_x2_load_partial(&w2, d, sz, &trng); ascon_masked_word_x2_store_partial(d, sz, &w2); });
#if ASCON_MASKED_MAX_SHARES >= 3
            GUARDED("masked word x3", ascon_masked_word_x3_zero(&w2, &trng); if (sz == 8) { ascon_masked_word_x3_load(&w2, d, &trng); ascon_masked_word_x3_store(d, &w2); } else { if (sz) ascon_masked_word_x3_load_partial(&w2, d, sz, &trng); ascon_masked_word_x3_store_partial(d, sz, &w2); });
#endif
#if ASCON_MASKED_MAX_SHARES >= 4
            GUARDED("masked word x4", ascon_masked_word_x4_zero(&w2, &trng); if (sz == 8) { ascon_masked_word_x4_load(&w2, d, &trng); ascon_masked_word_x4_store(d, &w2); } else { if (sz) ascon_masked_word_x4_load_partial(&w2, d, sz, &trng); ascon_masked_word_x4_store_partial(d, sz, &w2); });
#endif
        }
        GUARDED("masked word object x2", ascon_masked_word_x2_zero(w, &trng); ascon_masked_word_x2_randomize(w, w, &trng); ascon_masked_word_x2_xor(w, w); ascon_masked_word_x2_replace(w, w, 3); ascon_masked_word_pad(w, 7); ascon_masked_word_separator(w));
#if ASCON_MASKED_MAX_SHARES >= 3
        GUARDED("masked word object x3", ascon_masked_word_x3_zero(w, &trng); ascon_masked_word_x3_randomize(w, w, &trng); ascon_masked_word_x3_xor(w, w); ascon_masked_word_x3_replace(w, w, 3); ascon_masked_word_x2_from_x3(w, w, &trng); ascon_masked_word_x3_from_x2(w, w, &trng));
#endif
#if ASCON_MASKED_MAX_SHARES >= 4
        GUARDED("masked word object x4", ascon_masked_word_x4_zero(w, &trng); ascon_masked_word_x4_randomize(w, w, &trng); ascon_masked_word_x4_xor(w, w); ascon_masked_word_x4_replace(w, w, 3); ascon_masked_word_x3_from_x4(w, w, &trng); ascon_masked_word_x4_from_x3(w, w, &trng); ascon_masked_word_x2_from_x4(w, w, &trng); ascon_masked_word_x4_from_x2(w, w, &trng));
#endif
        /* AEAD one-shot with every buffer flush against the trailing guard (assembly-backed absorb/encrypt paths) */
        for (int alg = 0; alg < 3; alg++) for (size_t l = 0; l <= 40; l += 3) {
            uint8_t *c = pos ? at_start() : at_end(l + 16); size_t cl; uint8_t k[20] = {1}, n[16] = {2}, m[64] = {3};
            GUARDED("aead encrypt output", api_aead_enc[alg](c, &cl, m, l, m, l % 7, n, k));
            uint8_t *mi = pos ? at_start() : at_end(l ? l : 1); uint8_t out[64];
            GUARDED("aead encrypt input", api_aead_enc[alg](out, &cl, mi, l, mi, l, n, k));
            api_masked_key mk; api_masked_key_init(alg, &mk, k);
            GUARDED("masked aead output", api_masked_enc[alg](c, &cl, m, l, m, l % 7, n, &mk));
            api_masked_key_free(alg, &mk);
        }
    }
    ascon_trng_free(&trng);
    hx_stat("nontrivial", *hx_statp("evaluations"));
    hx_sample("guard pages: permutation / byte ops / masked x2-x4 permutations / masked word ops / AEAD buffers placed flush against PROT_NONE pages at both ends");
    hx_finish();
    return 0;
}
