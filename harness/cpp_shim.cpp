/* Minimal C-callable shim over the C++ cipher classes (raw-pointer members),
 * keyed through default construction + set_key + set_nonce. */
#include <ascon/aead.h>
#include <ascon/aead-masked.h>
#include <ascon/siv.h>
#include <ascon/isap.h>
#include <ascon/hash.h>
#include <ascon/xof.h>
#include "api.h"

template <class T> static int enc(const unsigned char *key, size_t klen, const unsigned char *nonce,
    unsigned char *c, const unsigned char *m, size_t mlen, const unsigned char *ad, size_t adlen)
{
    T obj;
    if (!obj.set_key(key, klen)) return -1000;
    /* every other call hands the nonce over with five more bytes behind it: documented to use the first 16 */
    { static unsigned longer; if (longer++ & 1) { unsigned char nb[21]; memcpy(nb, nonce, 16); memset(nb + 16, 0xE7, 5); obj.set_nonce(nb, 21); } else obj.set_nonce(nonce, 16); }
    return obj.encrypt(c, m, mlen, ad, adlen);
}
template <class T> static int dec(const unsigned char *key, size_t klen, const unsigned char *nonce,
    unsigned char *m, const unsigned char *c, size_t clen, const unsigned char *ad, size_t adlen)
{
    T obj;
    if (!obj.set_key(key, klen)) return -1000;
    { static unsigned longer; if (longer++ & 1) { unsigned char nb[21]; memcpy(nb, nonce, 16); memset(nb + 16, 0xE7, 5); obj.set_nonce(nb, 21); } else obj.set_nonce(nonce, 16); }
    /* refused keying calls in between leave the accepted key in force */
    if (obj.set_key(key, klen + 1) || obj.set_key(key, 3) || obj.set_key(0, klen)) return -1002;
    return obj.decrypt(m, c, clen, ad, adlen);
}
#define DISPATCH(fn, ...) \
    switch (family * 3 + alg) { \
    case 0: return fn<ascon::aead128>(key, 16, __VA_ARGS__); \
    case 1: return fn<ascon::aead128a>(key, 16, __VA_ARGS__); \
    case 2: return fn<ascon::aead80pq>(key, 20, __VA_ARGS__); \
    case 3: return fn<ascon::aead128_masked>(key, 16, __VA_ARGS__); \
    case 4: return fn<ascon::aead128a_masked>(key, 16, __VA_ARGS__); \
    case 5: return fn<ascon::aead80pq_masked>(key, 20, __VA_ARGS__); \
    case 6: return fn<ascon::siv128>(key, 16, __VA_ARGS__); \
    case 7: return fn<ascon::siv128a>(key, 16, __VA_ARGS__); \
    case 8: return fn<ascon::siv80pq>(key, 20, __VA_ARGS__); \
    case 9: return fn<ascon::isap128a>(key, 16, __VA_ARGS__); \
    case 10: return fn<ascon::isap128>(key, 16, __VA_ARGS__); \
    case 11: return fn<ascon::isap80pq>(key, 20, __VA_ARGS__); \
    } return -2000;
extern "C" int cpp_encrypt(int family, int alg, const unsigned char *key, const unsigned char *nonce,
                unsigned char *c, const unsigned char *m, size_t mlen, const unsigned char *ad, size_t adlen)
{ DISPATCH(enc, nonce, c, m, mlen, ad, adlen) }
extern "C" int cpp_decrypt(int family, int alg, const unsigned char *key, const unsigned char *nonce,
                unsigned char *m, const unsigned char *c, size_t clen, const unsigned char *ad, size_t adlen)
{ DISPATCH(dec, nonce, m, c, clen, ad, adlen) }

/* the byte_array overloads (aead.h): form 1 = the two-argument overload when there is no associated data, form 2 = always the three-argument overload;
 * the output array arrives holding presize bytes of 0xCC.  Results: size of the output array (its first bytes copied to the caller's buffer), -1 = decrypt returned false
 * with an empty array, -3000 = a C++ exception left the call, -4000 = decrypt returned false but left bytes in the output array */
#include <ascon/utility.h>
template <class T> static int enc_ba(const unsigned char *key, size_t klen, const unsigned char *nonce,
    unsigned char *c, const unsigned char *m, size_t mlen, const unsigned char *ad, size_t adlen, int form, size_t presize)
{
    T obj;
    if (!obj.set_key(key, klen)) return -1000;
    obj.set_nonce(nonce, 16);
    ascon::byte_array bm = ascon::bytes_from_data(m, mlen), bad = ascon::bytes_from_data(ad, adlen), bc(presize, 0xCC);
    /* the output array may arrive as a value copy of the associated data or of the message (shared storage in ASCON_NO_STL builds): the inputs must come out unchanged (-5000) */
    if (presize == 5) bc = bad; else if (presize == mlen + 16 + 23) bc = bm;
    try { if (form == 1 && !adlen) obj.encrypt(bc, bm); else obj.encrypt(bc, bm, bad); } catch (...) { return -3000; }
    if (bm.size() != mlen || (mlen && memcmp(bm.data(), m, mlen)) || bad.size() != adlen || (adlen && memcmp(bad.data(), ad, adlen))) return -5000;
    size_t n = bc.size(), k = n < mlen + 16 ? n : mlen + 16; if (k) memcpy(c, bc.data(), k);
    return (int)n;
}
template <class T> static int dec_ba(const unsigned char *key, size_t klen, const unsigned char *nonce,
    unsigned char *m, const unsigned char *c, size_t clen, const unsigned char *ad, size_t adlen, int form, size_t presize)
{
    T obj;
    if (!obj.set_key(key, klen)) return -1000;
    obj.set_nonce(nonce, 16);
    ascon::byte_array bc = ascon::bytes_from_data(c, clen), bad = ascon::bytes_from_data(ad, adlen), bm(presize, 0xCC); bool ok;
    /* the output array may arrive as a value copy of the ciphertext or of the associated data (with the copy-on-write byte_array of ASCON_NO_STL builds they then share storage):
     * the inputs the caller still holds must come out of the call unchanged (-5000 otherwise) */
    if (presize % 3 == 1) bm = bc; else if (presize % 3 == 2) bm = bad;
    try { ok = (form == 1 && !adlen) ? obj.decrypt(bm, bc) : obj.decrypt(bm, bc, bad); } catch (...) { return -3000; }
    if (bc.size() != clen || (clen && memcmp(bc.data(), c, clen)) || bad.size() != adlen || (adlen && memcmp(bad.data(), ad, adlen))) return -5000;
    if (!ok) { if (bm.size()) return -4000; if (clen > 16) memset(m, 0, clen - 16); return -1; }   /* an empty array releases nothing: the caller's buffer reads as wiped */
    size_t n = bm.size(), k = (clen >= 16 && n > clen - 16) ? clen - 16 : n; if (k) memcpy(m, bm.data(), k);
    return (int)n;
}
extern "C" int cpp_encrypt_ba(int family, int alg, const unsigned char *key, const unsigned char *nonce,
                unsigned char *c, const unsigned char *m, size_t mlen, const unsigned char *ad, size_t adlen, int form, size_t presize)
{ DISPATCH(enc_ba, nonce, c, m, mlen, ad, adlen, form, presize) }
extern "C" int cpp_decrypt_ba(int family, int alg, const unsigned char *key, const unsigned char *nonce,
                unsigned char *m, const unsigned char *c, size_t clen, const unsigned char *ad, size_t adlen, int form, size_t presize)
{ DISPATCH(dec_ba, nonce, m, c, clen, ad, adlen, form, presize) }

/* the same through the key constructors (T(key) for the AEAD/masked/SIV classes, T(key, len) for ISAP) */
template <class T> static int enc_c1(const unsigned char *key, size_t klen, const unsigned char *nonce,
    unsigned char *c, const unsigned char *m, size_t mlen, const unsigned char *ad, size_t adlen)
{ (void)klen; T obj(key); obj.set_nonce(nonce, 16); return obj.encrypt(c, m, mlen, ad, adlen); }
template <class T> static int enc_c2(const unsigned char *key, size_t klen, const unsigned char *nonce,
    unsigned char *c, const unsigned char *m, size_t mlen, const unsigned char *ad, size_t adlen)
{ T obj(key, klen); obj.set_nonce(nonce, 16); return obj.encrypt(c, m, mlen, ad, adlen); }
template <class T> static int dec_c1(const unsigned char *key, size_t klen, const unsigned char *nonce,
    unsigned char *m, const unsigned char *c, size_t clen, const unsigned char *ad, size_t adlen)
{ (void)klen; T obj(key); obj.set_nonce(nonce, 16); return obj.decrypt(m, c, clen, ad, adlen); }
template <class T> static int dec_c2(const unsigned char *key, size_t klen, const unsigned char *nonce,
    unsigned char *m, const unsigned char *c, size_t clen, const unsigned char *ad, size_t adlen)
{ T obj(key, klen); obj.set_nonce(nonce, 16); return obj.decrypt(m, c, clen, ad, adlen); }
#define DISPATCH_CTOR(f1, f2, ...) \
    switch (family * 3 + alg) { \
    case 0: return f1<ascon::aead128>(key, 16, __VA_ARGS__); \
    case 1: return f1<ascon::aead128a>(key, 16, __VA_ARGS__); \
    case 2: return f1<ascon::aead80pq>(key, 20, __VA_ARGS__); \
    case 3: return f1<ascon::aead128_masked>(key, 16, __VA_ARGS__); \
    case 4: return f1<ascon::aead128a_masked>(key, 16, __VA_ARGS__); \
    case 5: return f1<ascon::aead80pq_masked>(key, 20, __VA_ARGS__); \
    case 6: return f1<ascon::siv128>(key, 16, __VA_ARGS__); \
    case 7: return f1<ascon::siv128a>(key, 16, __VA_ARGS__); \
    case 8: return f1<ascon::siv80pq>(key, 20, __VA_ARGS__); \
    case 9: return f2<ascon::isap128a>(key, 16, __VA_ARGS__); \
    case 10: return f2<ascon::isap128>(key, 16, __VA_ARGS__); \
    case 11: return f2<ascon::isap80pq>(key, 20, __VA_ARGS__); \
    } return -2000;
extern "C" int cpp_encrypt_ctor(int family, int alg, const unsigned char *key, const unsigned char *nonce,
                unsigned char *c, const unsigned char *m, size_t mlen, const unsigned char *ad, size_t adlen)
{ DISPATCH_CTOR(enc_c1, enc_c2, nonce, c, m, mlen, ad, adlen) }
extern "C" int cpp_decrypt_ctor(int family, int alg, const unsigned char *key, const unsigned char *nonce,
                unsigned char *m, const unsigned char *c, size_t clen, const unsigned char *ad, size_t adlen)
{ DISPATCH_CTOR(dec_c1, dec_c2, nonce, m, c, clen, ad, adlen) }

/* re-keying a used object: another full-length key first, then the wanted key (given as a zero-length key when it is all-zero, which is what length 0 means) */
static const unsigned char OTHER[20] = {0xC3, 0x5A, 0xC3, 0x5A, 0xC3, 0x5A, 0xC3, 0x5A, 0xC3, 0x5A, 0xC3, 0x5A, 0xC3, 0x5A, 0xC3, 0x5A, 0xC3, 0x5A, 0xC3, 0x5A};
template <class T> static int enc_rk(const unsigned char *key, size_t klen, const unsigned char *nonce,
    unsigned char *c, const unsigned char *m, size_t mlen, const unsigned char *ad, size_t adlen)
{
    T obj; unsigned char tmp[64]; bool zero = true; for (size_t i = 0; i < klen; i++) if (key[i]) zero = false;
    if (!obj.set_key(OTHER, klen)) return -1000;
    obj.set_nonce(OTHER, 16); obj.encrypt(tmp, OTHER, 9, 0, 0);
    obj.set_nonce(nonce, 16);                      /* the nonce is set BEFORE the new key: set_key is documented to leave it as it is */
    if (!(zero ? obj.set_key(key, 0) : obj.set_key(key, klen))) return -1001;
    /* refused keying calls (unsupported length, null pointer with a length) return false and leave the accepted key in place */
    if (obj.set_key(key, klen + 1) || obj.set_key(key, 7) || obj.set_key(0, klen) || obj.set_key(0, 80)) return -1002;
    /* refused packets (forged, shorter than the tag; pointer and byte_array forms) leave the nonce where it is */
    { unsigned char junk[40], t[40]; memset(junk, 0x3D, sizeof junk); ascon::byte_array bj = ascon::bytes_from_data(junk, 33), bo;
      if (obj.decrypt(t, junk, 33, 0, 0) >= 0 || obj.decrypt(t, junk, 9, 0, 0) >= 0 || obj.decrypt(bo, bj) || obj.decrypt(bo, bj, bj)) return -1003; }
    return obj.encrypt(c, m, mlen, ad, adlen);
}
extern "C" int cpp_encrypt_rekey(int family, int alg, const unsigned char *key, const unsigned char *nonce,
                unsigned char *c, const unsigned char *m, size_t mlen, const unsigned char *ad, size_t adlen)
{ DISPATCH(enc_rk, nonce, c, m, mlen, ad, adlen) }

/* hash / XOF classes: message given in two update calls (raw pointers), digest through finalize / squeeze; the fixed-length templates for 32 and 64 bytes */
/* every other call works on an object with a past: used (also finalised / squeezed, alternately), then reset() */
template <class H> static void hash_cpp(const unsigned char *m, size_t n, unsigned char *out) { H h; static unsigned past; past++; if (past & 1) { unsigned char t[32]; h.update(m, n ? 1 : 0); if (past & 2) h.finalize(t); h.reset(); } h.update(m, n / 3); h.update(m + n / 3, n - n / 3); h.finalize(out); }
template <class X> static void xof_cpp(const unsigned char *m, size_t n, unsigned char *out, size_t outlen) { X x; static unsigned past; past++; if (past & 1) { unsigned char t[9]; x.absorb(m, n ? 1 : 0); if (past & 2) x.squeeze(t, 9); x.reset(); } x.absorb(m, n / 2); x.absorb(m + n / 2, n - n / 2); x.squeeze(out, outlen / 2); x.squeeze(out + outlen / 2, outlen - outlen / 2); }
extern "C" void cpp_hash(int a, const unsigned char *m, size_t n, unsigned char *out) { if (a) hash_cpp<ascon::hasha>(m, n, out); else hash_cpp<ascon::hash>(m, n, out); }
extern "C" void cpp_xof(int a, size_t declared, const unsigned char *m, size_t n, unsigned char *out, size_t outlen)
{
    if (declared == 0) { if (a) xof_cpp<ascon::xofa>(m, n, out, outlen); else xof_cpp<ascon::xof>(m, n, out, outlen); }
    else if (declared == 32) { if (a) xof_cpp<ascon::xofa_with_output_length<32> >(m, n, out, outlen); else xof_cpp<ascon::xof_with_output_length<32> >(m, n, out, outlen); }
    else { if (a) xof_cpp<ascon::xofa_with_output_length<64> >(m, n, out, outlen); else xof_cpp<ascon::xof_with_output_length<64> >(m, n, out, outlen); }
}

/* the named-function (cXOF) constructors: form 0 = (name, pointer, length), form 1 = (name, byte_array) */
template <class X> static void cxof_cpp(const char *fn, const unsigned char *c, size_t cl, int form, const unsigned char *m, size_t n, unsigned char *out, size_t outlen)
{
    if (form == 0) { X x(fn, c, cl); x.absorb(m, n); x.squeeze(out, outlen); }
    else { ascon::byte_array cb = ascon::bytes_from_data(c, cl); X x(fn, cb); x.absorb(m, n); x.squeeze(out, outlen); }
}
extern "C" void cpp_cxof(int a, size_t declared, const char *fn, const unsigned char *c, size_t cl, int form, const unsigned char *m, size_t n, unsigned char *out, size_t outlen)
{
    if (declared == 0) { if (a) cxof_cpp<ascon::xofa>(fn, c, cl, form, m, n, out, outlen); else cxof_cpp<ascon::xof>(fn, c, cl, form, m, n, out, outlen); }
    else if (declared == 32) { if (a) cxof_cpp<ascon::xofa_with_output_length<32> >(fn, c, cl, form, m, n, out, outlen); else cxof_cpp<ascon::xof_with_output_length<32> >(fn, c, cl, form, m, n, out, outlen); }
    else { if (a) cxof_cpp<ascon::xofa_with_output_length<64> >(fn, c, cl, form, m, n, out, outlen); else cxof_cpp<ascon::xof_with_output_length<64> >(fn, c, cl, form, m, n, out, outlen); }
}

/* chunked input through each overload of update / absorb: the message in three chunks cut at s1 <= s2; form 0 = (pointer, length), 1 = byte_array, 2 = std::string (may hold NUL characters) */
#if !defined(ASCON_NO_STL)
#include <string>
#define STR_CHUNK(p, l) std::string(reinterpret_cast<const char *>(p), l)
#else
#define STR_CHUNK(p, l) ascon::bytes_from_data(p, l)   /* no std::string overloads in this configuration */
#endif
template <class H> static void hash_chunks(const unsigned char *m, size_t n, size_t s1, size_t s2, int form, unsigned char *out)
{
    H h; const size_t cut[4] = {0, s1, s2, n};
    for (int i = 0; i < 3; i++) { const unsigned char *p = m + cut[i]; size_t l = cut[i + 1] - cut[i];
        if (form == 0) h.update(p, l); else if (form == 1) h.update(ascon::bytes_from_data(p, l)); else h.update(STR_CHUNK(p, l)); }
    h.finalize(out);
}
template <class X> static void xof_chunks(const unsigned char *m, size_t n, size_t s1, size_t s2, int form, unsigned char *out)
{
    X x; const size_t cut[4] = {0, s1, s2, n};
    for (int i = 0; i < 3; i++) { const unsigned char *p = m + cut[i]; size_t l = cut[i + 1] - cut[i];
        if (form == 0) x.absorb(p, l); else if (form == 1) x.absorb(ascon::bytes_from_data(p, l)); else x.absorb(STR_CHUNK(p, l)); }
    if (form == 1) { ascon::byte_array o = x.squeeze(13); ascon::byte_array o2 = x.squeeze(0); ascon::byte_array o3 = x.squeeze(19); memcpy(out, o.data(), 13); memcpy(out + 13, o3.data(), 19); if (o2.size() != 0) out[0] ^= 0xff; }
    else { x.squeeze(out, 13); x.squeeze(out + 13, 19); }
}
extern "C" void cpp_hash_chunks(int a, const unsigned char *m, size_t n, size_t s1, size_t s2, int form, unsigned char *out)
{ if (a) hash_chunks<ascon::hasha>(m, n, s1, s2, form, out); else hash_chunks<ascon::hash>(m, n, s1, s2, form, out); }
extern "C" void cpp_xof_chunks(int a, const unsigned char *m, size_t n, size_t s1, size_t s2, int form, unsigned char *out)
{ if (a) xof_chunks<ascon::xofa>(m, n, s1, s2, form, out); else xof_chunks<ascon::xof>(m, n, s1, s2, form, out); }

/* copies of the hash / XOF classes: the message is absorbed in two halves; between them the object is copy-constructed (0), assigned to another used object (1) or assigned to itself (2);
 * the result is taken from the copy (or from the object itself for mode 2) */
template <class X> static void xof_copy(const unsigned char *m, size_t n, unsigned char *out, size_t outlen, int mode, int squeezed_first)
{
    X x; unsigned char t[8]; x.absorb(m, n / 2);
    (void)squeezed_first;
    if (mode == 0) { X y(x); y.absorb(m + n / 2, n - n / 2); y.squeeze(out, outlen); x.absorb(m, 1); x.squeeze(t, 8); }
    else if (mode == 1) { X y; y.absorb(m, 3); y.squeeze(t, 5); y = x; y.absorb(m + n / 2, n - n / 2); y.squeeze(out, outlen); }
    else { const X &r = x; x = r; x.absorb(m + n / 2, n - n / 2); x.squeeze(out, outlen); }
}
template <class H> static void hash_copy(const unsigned char *m, size_t n, unsigned char *out, int mode)
{
    H h; unsigned char t[32]; h.update(m, n / 2);
    if (mode == 0) { H g(h); g.update(m + n / 2, n - n / 2); g.finalize(out); h.update(m, 1); h.finalize(t); }
    else if (mode == 1) { H g; g.update(m, 3); g = h; g.update(m + n / 2, n - n / 2); g.finalize(out); }
    else { const H &r = h; h = r; h.update(m + n / 2, n - n / 2); h.finalize(out); }
}
extern "C" void cpp_xof_copy(int a, const unsigned char *m, size_t n, unsigned char *out, size_t outlen, int mode)
{ if (a) xof_copy<ascon::xofa>(m, n, out, outlen, mode, 0); else xof_copy<ascon::xof>(m, n, out, outlen, mode, 0); }
extern "C" void cpp_hash_copy(int a, const unsigned char *m, size_t n, unsigned char *out, int mode)
{ if (a) hash_copy<ascon::hasha>(m, n, out, mode); else hash_copy<ascon::hash>(m, n, out, mode); }
