/* Harness helpers: protocol lines (FAIL/STAT/SAMPLE), value patterns, canary buffers. */
#ifndef HX_H
#define HX_H
#include <stdarg.h>
#include <stdint.h>
#include <stdio.h>
#include <stdlib.h>
#include <string.h>

#define HX_MAXSTAT 64
static const char *hx_stat_name[HX_MAXSTAT];
static long long hx_stat_val[HX_MAXSTAT];
static int hx_nstat;
static int hx_fail_count;
static int hx_samples;
/* optional input: when it is empty it is given alternately as NULL and as a valid pointer with length 0 */
static unsigned hx_opt_toggle;
#define HX_OPT(p, n) ((n) ? (p) : ((hx_opt_toggle++ & 1) ? (p) : 0))
static uint64_t hx_seed = 1;
static int hx_exact;              /* HX_EXACT=1: exact-size malloc blocks (tail flush against the ASan red zone), no canaries */
static unsigned hx_default_off;   /* HX_OFF=0..7: start offset of every hx_buf buffer (alignment sweep of C12) */

static inline void hx_init(void)
{
    const char *s = getenv("VERIF_SEED");
    if (s) hx_seed = strtoull(s, 0, 10);
    s = getenv("HX_EXACT");
    if (s) hx_exact = atoi(s);
    s = getenv("HX_OFF");
    if (s) hx_default_off = (unsigned)atoi(s) & 15;
    setvbuf(stdout, 0, _IOLBF, 0);
}
static inline long long *hx_statp(const char *name)
{
    for (int i = 0; i < hx_nstat; i++) if (!strcmp(hx_stat_name[i], name)) return &hx_stat_val[i];
    if (hx_nstat >= HX_MAXSTAT) abort();
    hx_stat_name[hx_nstat] = name; hx_stat_val[hx_nstat] = 0; return &hx_stat_val[hx_nstat++];
}
#define hx_stat(name, v) (*hx_statp(name) += (v))
static inline void hx_finish(void)
{
    for (int i = 0; i < hx_nstat; i++) printf("STAT %s %lld\n", hx_stat_name[i], hx_stat_val[i]);
    fflush(stdout);
}
/* key: stable identifier without spaces (entry point / defect class), the rest is the concrete case */
static inline void hx_fail(const char *key, const char *fmt, ...)
{
    va_list ap;
    hx_fail_count++;
    if (hx_fail_count > 200) return;
    printf("FAIL %s ", key);
    va_start(ap, fmt); vprintf(fmt, ap); va_end(ap);
    printf("\n");
}
static inline void hx_sample(const char *fmt, ...)
{
    va_list ap;
    if (hx_samples++ >= 4) return;
    printf("SAMPLE ");
    va_start(ap, fmt); vprintf(fmt, ap); va_end(ap);
    printf("\n");
}
static inline uint64_t hx_mix(uint64_t x)
{
    x += 0x9e3779b97f4a7c15ULL; x = (x ^ (x >> 30)) * 0xbf58476d1ce4e5b9ULL;
    x = (x ^ (x >> 27)) * 0x94d049bb133111ebULL; return x ^ (x >> 31);
}
/* patterns: 0 = KAT counting bytes, 1 = zero, 2 = FF, 3 = dense position-distinguishing (seeded),
 * 4 = second dense pattern independent of 3 */
enum { HX_P_COUNT = 0, HX_P_ZERO = 1, HX_P_FF = 2, HX_P_DENSE = 3, HX_P_DENSE2 = 4 };
static inline void hx_fill(uint8_t *p, size_t n, int pattern, unsigned role)
{
    for (size_t i = 0; i < n; i++) {
        switch (pattern) {
        case HX_P_COUNT: p[i] = (uint8_t)i; break;
        case HX_P_ZERO: p[i] = 0; break;
        case HX_P_FF: p[i] = 0xff; break;
        case HX_P_DENSE: p[i] = (uint8_t)hx_mix(hx_seed * 1000003u + role * 65537u + i); break;
        default: p[i] = (uint8_t)hx_mix(hx_seed * 7777777u + role * 257u + i + 0x5555); break;
        }
    }
}
#define HX_CANARY 32
/* exact-size buffer followed (and preceded) by canaries; returned pointer has alignment offset `off` */
static inline uint8_t *hx_buf_off(size_t n, unsigned off)
{
    if (hx_exact) { uint8_t *b = (uint8_t *)malloc(n + off); if (b) memset(b, 0xAA, n + off); return b + off; }
    uint8_t *base = (uint8_t *)malloc(n + 2 * HX_CANARY + 16 + 16);
    uint8_t *p = base + 16 + HX_CANARY + off; /* base is 16-aligned from malloc */
    memcpy(base, &base, sizeof(base));
    ((size_t *)base)[1] = n;
    memset(base + 16, 0xC5, HX_CANARY + off);
    memset(p, 0xAA, n);
    memset(p + n, 0xC5, HX_CANARY);
    return p;
}
static inline uint8_t *hx_buf(size_t n) { return hx_buf_off(n, hx_default_off); }
static inline int hx_buf_ok(const uint8_t *p, size_t n)
{
    if (hx_exact) return 1;
    for (int i = 0; i < HX_CANARY; i++) if (p[n + i] != 0xC5 || p[-1 - i] != 0xC5) return 0;
    return 1;
}
static inline void hx_free_off(uint8_t *p, unsigned off) { if (hx_exact) free(p - off); else free(p - 16 - HX_CANARY - off); }
static inline void hx_free(uint8_t *p) { hx_free_off(p, hx_default_off); }
static inline void hx_hex(char *dst, const uint8_t *p, size_t n)
{
    static const char d[] = "0123456789abcdef";
    for (size_t i = 0; i < n; i++) { dst[2 * i] = d[p[i] >> 4]; dst[2 * i + 1] = d[p[i] & 15]; }
    dst[2 * n] = 0;
}
#endif
