/* C16 explorer: preemption-bounded exhaustive schedule exploration over pairs / triples of public operations.
 * usage: c16 [cold]pairs <bound> <shared_inputs 0|1> <part> <nparts> [deadline_s]   (cold: every schedule in a fresh process, see do_schedule)
 *        c16 triples <bound> <part> <nparts> [deadline_s]
 *        c16 replay <i> <j> <k|-1> <shared_inputs> <choice,choice,...> */
#define _GNU_SOURCE
#include "rt.h"
#include "c16_ops.h"
#include <stdio.h>
#include <time.h>
#include <sys/types.h>
#include <errno.h>
#include <sys/mman.h>
#include <sys/wait.h>
#include <unistd.h>

/* deterministic, thread-safe system entropy (no shared state in the harness itself) */
ssize_t getrandom(void *buf, size_t n, unsigned flags) { (void)flags; uint8_t *b = buf; for (size_t i = 0; i < n; i++) b[i] = (uint8_t)(0x5A ^ (i * 7)); return (ssize_t)n; }

void *c16_shared_ct; uint8_t c16_shared_ct_key[16], c16_shared_ct_nonce[16];   /* not used by the explorer */
static shared_t *SH, *SH0; static tctx *CTX[VP_MAXT], *REF[VP_MAXT];
static int OPI[VP_MAXT], NT, SHARED_IN, BOUND;
static long nsched, nviol, total_sched, total_pairs; static int maxpoints; static double t_end;
static unsigned long outcomes_hash[64]; static int noutcomes;
static double now(void) { struct timespec ts; clock_gettime(CLOCK_MONOTONIC, &ts); return ts.tv_sec + ts.tv_nsec * 1e-9; }

static void body(int t) { tctx *c = CTX[t]; OPS[OPI[t]].fn(c, c->out[0], &c->outlen[0]); }
static vp_body BODIES[VP_MAXT] = {body, body, body};

static void reset_ctxs(void)
{
    for (int t = 0; t < NT; t++) ctx_setup(CTX[t], t, SH, SHARED_IN);
    memcpy(SH, SH0, sizeof *SH);
}
static void pair_name(char *b, size_t cap) { int l = 0; for (int t = 0; t < NT; t++) l += snprintf(b + l, cap - l, "%s%s", t ? "+" : "", OPS[OPI[t]].name); }
static int capped, COLD;
/* one executed schedule.  Warm mode: run in this process.  Cold mode: run in a freshly forked child of a parent that has never executed library code,
 * so that lazily initialised static storage (first-call races) is in its initial state at the start of every schedule */
typedef struct { int np, n, diverged, bad, crashed; char why[400]; int ch[VP_MAXP], ne[VP_MAXP], re[VP_MAXP]; unsigned long instr, vis; } schedres;
typedef struct { shared_t sh0; uint8_t refout[VP_MAXT][192]; size_t reflen[VP_MAXT]; schedres r; } arena_t;
static arena_t *AR; static schedres *R, RLOCAL;
static void judge(schedres *r, int np)
{
    r->np = np; r->diverged = vp_diverged(); r->bad = 0; r->why[0] = 0; r->n = np > VP_MAXP ? VP_MAXP : np;
    const char *rc = vp_race();
    if (rc) { r->bad = 1; snprintf(r->why, sizeof r->why, "%s", rc); }
    for (int t = 0; t < NT && !r->bad; t++) if (CTX[t]->outlen[0] != REF[t]->outlen[0] || memcmp(CTX[t]->out[0], REF[t]->out[0], REF[t]->outlen[0])) { r->bad = 1; snprintf(r->why, sizeof r->why, "thread %d (%s) produced a result different from its sequential result", t, OPS[OPI[t]].name); }
    if (!r->bad && memcmp(SH, SH0, sizeof *SH)) { r->bad = 1; snprintf(r->why, sizeof r->why, "a shared constant object (pre-computed key / masked key / shared input) was modified"); }
    for (int i = 0; i < r->n; i++) { r->ch[i] = vp_choice(i); r->ne[i] = vp_nen(i); r->re[i] = vp_running_enabled(i); }
    r->instr = vp_instrumented(); r->vis = vp_visible();
}
static unsigned long cold_instr, cold_vis;
static void do_schedule(const int *prefix, int len)
{
    if (!COLD) { R = &RLOCAL; reset_ctxs(); judge(R, vp_run_schedule(NT, BODIES, prefix, len)); return; }
    R = &AR->r; memset(R, 0, offsetof(schedres, ch)); R->crashed = 1;
    pid_t pid = fork();
    if (pid == 0) { reset_ctxs(); judge(R, vp_run_schedule(NT, BODIES, prefix, len)); R->crashed = 0; _exit(0); }
    int st = 0; while (waitpid(pid, &st, 0) < 0 && errno == EINTR) { }
    if (R->crashed) { R->bad = 1; R->np = R->n = 0; snprintf(R->why, sizeof R->why, "the process died (status 0x%x) while running this schedule from a cold start", st); }
    cold_instr += R->instr; cold_vis += R->vis;
}
static void explore(const int *prefix, int len, int preempts)
{
    if (capped) return;
    if (now() > t_end) { capped = 1; return; }
    do_schedule(prefix, len); nsched++;
    int np = R->np; if (np > maxpoints) maxpoints = np;
    if (R->diverged) { printf("HARNESS-ERROR replay diverged from its recorded prefix\n"); exit(3); }
    /* distinct outcomes census: hash of the choice vector's thread order */
    { unsigned long h = 1469598103934665603UL; for (int i = 0; i < R->n; i++) h = (h ^ (unsigned long)R->ch[i]) * 1099511628211UL; int k; for (k = 0; k < noutcomes; k++) if (outcomes_hash[k] == h) break; if (k == noutcomes && noutcomes < 64) outcomes_hash[noutcomes++] = h; }
    if (R->bad) {
        nviol++;
        if (nviol <= 2) {
            char pn[200], sch[600]; int l = 0; pair_name(pn, sizeof pn);
            for (int i = 0; i < R->n && i < 120 && l < 580; i++) l += snprintf(sch + l, sizeof sch - l, "%s%d", i ? "," : "", R->ch[i]);
            printf("FAIL race:%s%s %s | schedule=[%s] preemptions=%d shared_inputs=%d%s\n", COLD ? "cold-start:" : "", pn, R->why, R->n ? sch : "", preempts, SHARED_IN, COLD ? " (every schedule starts in a fresh process: first-call behaviour)" : "");
        }
        return; /* the first failing schedule of a program is enough */
    }
    int n = R->n;
    int *ch = malloc(sizeof(int) * (n + 1)), *ne = malloc(sizeof(int) * (n + 1)), *re = malloc(sizeof(int) * (n + 1));
    memcpy(ch, R->ch, sizeof(int) * n); memcpy(ne, R->ne, sizeof(int) * n); memcpy(re, R->re, sizeof(int) * n);
    for (int i = len; i < n && !nviol; i++) {
        int cost = preempts + (re[i] ? 1 : 0);
        if (cost > BOUND) continue;
        for (int alt = 1; alt < ne[i] && !nviol; alt++) { int *p = malloc(sizeof(int) * (i + 1)); memcpy(p, ch, sizeof(int) * i); p[i] = alt; explore(p, i + 1, cost); free(p); }
    }
    free(ch); free(ne); free(re);
}
static void run_program(void)
{
    /* sequential reference, computed outside the scheduler (cold mode: in a child, so that this process stays cold) */
    if (!COLD) for (int t = 0; t < NT; t++) { ctx_setup(REF[t], t, SH0, SHARED_IN); OPS[OPI[t]].fn(REF[t], REF[t]->out[0], &REF[t]->outlen[0]); }
    else {
        pid_t pid = fork();
        if (pid == 0) { for (int t = 0; t < NT; t++) { ctx_setup(REF[t], t, SH0, SHARED_IN); OPS[OPI[t]].fn(REF[t], REF[t]->out[0], &REF[t]->outlen[0]); memcpy(AR->refout[t], REF[t]->out[0], 192); AR->reflen[t] = REF[t]->outlen[0]; } _exit(0); }
        int st; while (waitpid(pid, &st, 0) < 0 && errno == EINTR) { }
        for (int t = 0; t < NT; t++) { ctx_setup(REF[t], t, SH0, SHARED_IN); memcpy(REF[t]->out[0], AR->refout[t], 192); REF[t]->outlen[0] = AR->reflen[t]; }
    }
    nsched = 0; nviol = 0; noutcomes = 0; int empty[1];
    explore(empty, 0, 0);
    total_sched += nsched; total_pairs++;
    /* replay determinism: the default schedule run twice gives identical observations */
    if (!nviol && !capped) { do_schedule(empty, 0); int a = R->np; unsigned long h1 = 0; for (int i = 0; i < R->n; i++) h1 = h1 * 31 + (unsigned long)R->ch[i]; do_schedule(empty, 0); unsigned long h2 = 0; for (int i = 0; i < R->n; i++) h2 = h2 * 31 + (unsigned long)R->ch[i];
        if (a != R->np || h1 != h2 || R->bad) { printf("HARNESS-ERROR the same schedule run twice differs (%d vs %d points)\n", a, R->np); exit(3); } }
}

int main(int argc, char **argv)
{
    setvbuf(stdout, 0, _IOLBF, 0);
    if (argc < 2) return 2;
    AR = mmap(0, sizeof *AR, PROT_READ | PROT_WRITE, MAP_SHARED | MAP_ANONYMOUS, -1, 0);
    COLD = !strncmp(argv[1], "cold", 4); if (COLD) argv[1] += 4;
    SH = malloc(sizeof *SH); SH0 = malloc(sizeof *SH0);
    if (!COLD) shared_setup(SH0);
    else { /* the shared constant objects are prepared in a child; this process never executes library code */
        pid_t pid = fork(); if (pid == 0) { shared_setup(&AR->sh0); _exit(0); } int st; while (waitpid(pid, &st, 0) < 0 && errno == EINTR) { } memcpy(SH0, &AR->sh0, sizeof *SH0); }
    memcpy(SH, SH0, sizeof *SH);
    { tctx *blk = malloc(sizeof(tctx) * VP_MAXT), *rblk = malloc(sizeof(tctx) * VP_MAXT); for (int t = 0; t < VP_MAXT; t++) { CTX[t] = &blk[t]; REF[t] = &rblk[t]; } }   /* adjacent private blocks */
    vp_reset_regions(); vp_register_shared(SH, sizeof *SH); for (int t = 0; t < VP_MAXT; t++) vp_register_private(t, CTX[t], sizeof(tctx));
    t_end = now() + 1e9;
    if (!strcmp(argv[1], "pairs")) {
        BOUND = atoi(argv[2]); SHARED_IN = atoi(argv[3]); int part = atoi(argv[4]), nparts = atoi(argv[5]); if (argc > 6) t_end = now() + atof(argv[6]);
        NT = 2; int idx = 0; long done = 0, all = 0;
        for (int i = 0; i < NOPS; i++) for (int j = i; j < NOPS; j++, idx++) { all++; if (idx % nparts != part) continue; if (capped) continue; OPI[0] = i; OPI[1] = j; run_program(); done++; }
        if (capped) printf("CAPPED deadline reached after %ld of this process's programs (bound %d, shared_inputs %d)\n", done, BOUND, SHARED_IN);
        printf("STAT programs %ld\nSTAT schedules %ld\nSETMAX max_scheduling_points %d\nSTAT instrumented_accesses %lu\nSTAT visible_accesses %lu\n", done, total_sched, maxpoints, COLD ? cold_instr : vp_instrumented(), COLD ? cold_vis : vp_visible());
        if (COLD) printf("STAT cold_start_schedules %ld\n", total_sched);
        if (part == 0) printf("SAMPLE pairs of %d operations (%ld unordered pairs), preemption bound %d, %s inputs: e.g. [%s] vs [%s]; every schedule re-executed from scratch on real threads\n", NOPS, all, BOUND, SHARED_IN ? "shared constant" : "per-thread", OPS[9].name, OPS[21].name);
    } else if (!strcmp(argv[1], "triples")) {
        BOUND = atoi(argv[2]); int part = atoi(argv[3]), nparts = atoi(argv[4]); if (argc > 5) t_end = now() + atof(argv[5]);
        NT = 3; SHARED_IN = 0; int idx = 0; long done = 0;
        /* triples that involve at least one operation on a shared object or a run-time computed initial value */
        static const int hot[] = {9, 11, 13, 15, 21, 22, 31, 37, 38, 40};
        for (unsigned a = 0; a < sizeof hot / sizeof hot[0]; a++) for (int j = 0; j < NOPS; j += 3) for (int k = j; k < NOPS; k += 5, idx++) { if (idx % nparts != part || capped) continue; OPI[0] = hot[a]; OPI[1] = j; OPI[2] = k; run_program(); done++; }
        if (capped) printf("CAPPED deadline reached after %ld triples\n", done);
        printf("STAT programs %ld\nSTAT schedules %ld\nSETMAX max_scheduling_points %d\n", done, total_sched, maxpoints);
    } else if (!strcmp(argv[1], "replay")) {
        OPI[0] = atoi(argv[2]); OPI[1] = atoi(argv[3]); OPI[2] = atoi(argv[4]); NT = OPI[2] < 0 ? 2 : 3; SHARED_IN = atoi(argv[5]);
        int pre[VP_MAXP], n = 0; for (char *p = strtok(argv[6], ","); p && n < VP_MAXP; p = strtok(0, ",")) pre[n++] = atoi(p);
        for (int t = 0; t < NT; t++) { ctx_setup(REF[t], t, SH0, SHARED_IN); OPS[OPI[t]].fn(REF[t], REF[t]->out[0], &REF[t]->outlen[0]); }
        reset_ctxs(); vp_run_schedule(NT, BODIES, pre, n);
        printf("replay: race=%s\n", vp_race() ? vp_race() : "none");
        return vp_race() ? 1 : 0;
    }
    return 0;
}
