/* Own ThreadSanitizer runtime + preemption-bounded scheduler (C16).
 * The library is compiled with clang -fsanitize=thread and linked against THIS file instead of the real
 * runtime: every memory access of library code calls __tsan_readN/__tsan_writeN.  An access is VISIBLE
 * when it touches (a) the executable's writable static storage or (b) an object registered as shared;
 * every visible access is a scheduling point.  Accesses to a different thread's private block are an
 * immediate violation.  Threads are real pthreads serialised by semaphores.
 * Compile this file WITHOUT -fsanitize and with -fno-builtin. */
#define _GNU_SOURCE
#include "rt.h"
#include <stdint.h>
#include <stdio.h>
#include <stdlib.h>
#include <pthread.h>
#include <semaphore.h>

extern char __data_start, _end;
typedef struct { char *lo, *hi; } range_t;
static range_t shared[32]; static int nshared;
static range_t priv[VP_MAXT][8]; static int npriv[VP_MAXT];
static range_t ignore_[8]; static int nignore;
static void *raw_memcpy(void *d, const void *s, size_t n) { char *dd = d; const char *ss = s; while (n--) *dd++ = *ss++; return d; }

void vp_reset_regions(void) { nshared = 0; nignore = 0; for (int t = 0; t < VP_MAXT; t++) npriv[t] = 0; }
void vp_register_shared(void *p, size_t n) { shared[nshared].lo = p; shared[nshared].hi = (char *)p + n; nshared++; }
void vp_register_private(int t, void *p, size_t n) { priv[t][npriv[t]].lo = p; priv[t][npriv[t]].hi = (char *)p + n; npriv[t]++; }
void vp_ignore_static(void *p, size_t n) { ignore_[nignore].lo = p; ignore_[nignore].hi = (char *)p + n; nignore++; }

static volatile int active;
static __thread int me = -1;
static sem_t sem[VP_MAXT], done_sem; static int nthreads; static volatile int finished[VP_MAXT]; static volatile int cur;
static int prefix[VP_MAXP], prefix_len;
static int choices[VP_MAXP], nen_at[VP_MAXP], run_en_at[VP_MAXP]; static int npoints; static int diverged;
typedef struct { char *a; int sz, w, t; } acc_t;
#define MAXLOG (1 << 15)
static acc_t alog[MAXLOG]; static int nlog;
static int race_found; static char race_msg[320];
static unsigned long n_instr, n_visible;

static int classify(char *a)
{
    if (a >= &__data_start && a < &_end) { for (int i = 0; i < nignore; i++) if (a >= ignore_[i].lo && a < ignore_[i].hi) return 0; return 1; }
    for (int i = 0; i < nshared; i++) if (a >= shared[i].lo && a < shared[i].hi) return 1;
    for (int t = 0; t < nthreads; t++) if (t != me) for (int i = 0; i < npriv[t]; i++) if (a >= priv[t][i].lo && a < priv[t][i].hi) return 2;
    return 0;
}
static int enabled(int *out) { int n = 0; if (!finished[cur]) out[n++] = cur; for (int t = 0; t < nthreads; t++) if (t != cur && !finished[t]) out[n++] = t; return n; }
static void sched_point(void)
{
    int en[VP_MAXT], n = enabled(en), i = npoints, c = 0;
    if (i < prefix_len) { c = prefix[i]; if (c >= n) { diverged = 1; c = 0; } }
    if (i < VP_MAXP) { choices[i] = c; nen_at[i] = n; run_en_at[i] = !finished[cur]; }
    npoints++;
    if (en[c] != cur) { int self = me; cur = en[c]; sem_post(&sem[cur]); if (!finished[self]) sem_wait(&sem[self]); }
}
static const char *where(char *a, char *buf)
{
    if (a >= &__data_start && a < &_end) snprintf(buf, 48, "static:%#lx", (unsigned long)a); else snprintf(buf, 48, "shared-object:%p", (void *)a);
    return buf;
}
static void visible(char *a, int sz, int w)
{
    n_visible++;
    if (!race_found) for (int i = 0; i < nlog; i++) {
        acc_t *e = &alog[i];
        if (e->t != me && (w || e->w) && a < e->a + e->sz && e->a < a + sz) {
            char b1[48]; race_found = 1;
            snprintf(race_msg, sizeof race_msg, "data race: thread %d %s %d bytes at %s, thread %d %s the same location earlier with no synchronisation", me, w ? "writes" : "reads", sz, where(a, b1), e->t, e->w ? "wrote" : "read");
            break;
        }
    }
    /* merge identical repeated accesses to keep the log small */
    int dup = 0; for (int i = nlog - 1; i >= 0 && i > nlog - 8; i--) if (alog[i].t == me && alog[i].a == a && alog[i].sz == sz && alog[i].w >= w) { dup = 1; break; }
    if (!dup && nlog < MAXLOG) { alog[nlog].a = a; alog[nlog].sz = sz; alog[nlog].w = w; alog[nlog].t = me; nlog++; }
    sched_point();
}
static inline void acc(void *a, int sz, int w)
{
    if (!active || me < 0) return;
    n_instr++;
    int s = classify(a);
    if (s == 2) { if (!race_found) { race_found = 1; snprintf(race_msg, sizeof race_msg, "thread %d %s another thread's private object at %p (%d bytes)", me, w ? "writes" : "reads", a, sz); } return; }
    if (s) visible(a, sz, w);
}
#define RW(n) void __tsan_read##n(void *a) { acc(a, n, 0); } void __tsan_write##n(void *a) { acc(a, n, 1); } \
              void __tsan_unaligned_read##n(void *a) { acc(a, n, 0); } void __tsan_unaligned_write##n(void *a) { acc(a, n, 1); }
RW(1) RW(2) RW(4) RW(8) RW(16)
void __tsan_read_write1(void *a) { acc(a, 1, 1); } void __tsan_read_write2(void *a) { acc(a, 2, 1); } void __tsan_read_write4(void *a) { acc(a, 4, 1); } void __tsan_read_write8(void *a) { acc(a, 8, 1); }
void __tsan_func_entry(void *pc) { (void)pc; } void __tsan_func_exit(void) {} void __tsan_init(void) {}
void __tsan_read_range(void *a, long s) { acc(a, (int)s, 0); } void __tsan_write_range(void *a, long s) { acc(a, (int)s, 1); }
void __tsan_vptr_update(void **a, void *b) { (void)b; acc(a, 8, 1); } void __tsan_vptr_read(void **a) { acc(a, 8, 0); }
void *__tsan_memcpy(void *d, const void *s, size_t n) { if (n) { acc((void *)s, (int)n, 0); acc(d, (int)n, 1); } return raw_memcpy(d, s, n); }
void *__tsan_memset(void *d, int c, size_t n) { if (n) acc(d, (int)n, 1); char *dd = d; while (n--) *dd++ = (char)c; return d; }
void *__tsan_memmove(void *d, const void *s, size_t n) { if (n) { acc((void *)s, (int)n, 0); acc(d, (int)n, 1); } char *dd = d; const char *ss = s; if (dd < ss) while (n--) *dd++ = *ss++; else { dd += n; ss += n; while (n--) *--dd = *--ss; } return d; }
void *memcpy(void *d, const void *s, size_t n) { return __tsan_memcpy(d, s, n); }
void *memset(void *d, int c, size_t n) { return __tsan_memset(d, c, n); }
void *memmove(void *d, const void *s, size_t n) { return __tsan_memmove(d, s, n); }

static vp_body bodies[VP_MAXT];
static void *tmain(void *arg)
{
    int t = (int)(long)arg; me = t;
    sem_wait(&sem[t]);
    bodies[t](t);
    finished[t] = 1;
    int nxt = -1; for (int u = 0; u < nthreads; u++) if (!finished[u]) { nxt = u; break; }
    if (nxt >= 0) { cur = nxt; sem_post(&sem[nxt]); } else sem_post(&done_sem);
    return 0;
}
int vp_run_schedule(int nt, vp_body *b, const int *pre, int prelen)
{
    nthreads = nt; npoints = 0; nlog = 0; race_found = 0; diverged = 0; race_msg[0] = 0;
    prefix_len = prelen > VP_MAXP ? VP_MAXP : prelen; for (int i = 0; i < prefix_len; i++) prefix[i] = pre[i];
    for (int t = 0; t < nt; t++) { bodies[t] = b[t]; finished[t] = 0; sem_init(&sem[t], 0, 0); }
    sem_init(&done_sem, 0, 0);
    pthread_t th[VP_MAXT]; active = 1;
    for (long t = 0; t < nt; t++) pthread_create(&th[t], 0, tmain, (void *)t);
    cur = 0; sem_post(&sem[0]); sem_wait(&done_sem);
    for (int t = 0; t < nt; t++) pthread_join(th[t], 0);
    active = 0;
    return npoints;
}
int vp_npoints(void) { return npoints; } int vp_choice(int i) { return choices[i]; } int vp_nen(int i) { return nen_at[i]; } int vp_running_enabled(int i) { return run_en_at[i]; }
int vp_diverged(void) { return diverged; }
const char *vp_race(void) { return race_found ? race_msg : 0; }
unsigned long vp_instrumented(void) { return n_instr; } unsigned long vp_visible(void) { return n_visible; }
