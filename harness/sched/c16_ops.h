/* Operation alphabet for C16: each operation works on the calling thread's own context block and on
 * shared constant objects (pre-computed ISAP keys, masked keys, optionally shared inputs). */
#ifndef C16_OPS_H
#define C16_OPS_H
#include <stdint.h>
#include <string.h>
#include <stdlib.h>
#include <ascon/aead.h>
#include <ascon/aead-masked.h>
#include <ascon/siv.h>
#include <ascon/isap.h>
#include <ascon/hash.h>
#include <ascon/xof.h>
#include <ascon/prf.h>
#include <ascon/hmac.h>
#include <ascon/kmac.h>
#include <ascon/kdf.h>
#include <ascon/hkdf.h>
#include <ascon/pbkdf2.h>
#include <ascon/random.h>
#include <ascon/utility.h>
#include <ascon/permutation.h>
#include "cpp_session.h"

typedef struct {
    ascon128a_isap_aead_key_t isap128a; ascon128_isap_aead_key_t isap128; ascon80pq_isap_aead_key_t isap80pq;
    ascon_masked_key_128_t mk128; ascon_masked_key_160_t mk160;
    uint8_t key[20], nonce[16], ad[32], msg[64];      /* shared constant inputs (used when ctx->in points here) */
} shared_t;
typedef struct { const uint8_t *key, *nonce, *ad, *msg; } inputs_t;
typedef struct {
    int tid; inputs_t in; const shared_t *sh;
    uint8_t key[20], nonce[16], ad[32], msg[64];      /* private inputs */
    uint8_t out[2][192]; size_t outlen[2];
    union { ascon128_state_t a; ascon128a_state_t b; ascon80pq_state_t c; ascon_xof_state_t x; ascon_xofa_state_t xa; ascon_hash_state_t h; ascon_prf_state_t p;
            ascon_hmac_state_t hm; ascon_kmac_state_t km; ascon_kdf_state_t kd; ascon_hkdf_state_t hk; ascon_random_state_t r; ascon_state_t st;
            ascon128a_isap_aead_key_t ik; ascon_masked_key_128_t mk; ascon_masked_key_160_t mk2; } o;
} tctx;

typedef void (*opfn)(tctx *c, uint8_t *out, size_t *outlen);
#define OP(name) static void name(tctx *c, uint8_t *out, size_t *ol)
#define IN c->in
OP(op_aead128_enc) { ascon128_aead_encrypt(out, ol, IN.msg, 37, IN.ad, 5, IN.nonce, IN.key); }
OP(op_aead128a_dec) { size_t cl; uint8_t ct[96]; ascon128a_aead_encrypt(ct, &cl, IN.msg, 33, IN.ad, 17, IN.nonce, IN.key); int r = ascon128a_aead_decrypt(out + 1, ol, ct, cl, IN.ad, 17, IN.nonce, IN.key); out[0] = (uint8_t)r; *ol += 1; }
OP(op_aead80pq_enc) { ascon80pq_aead_encrypt(out, ol, IN.msg, 16, IN.ad, 0, IN.nonce, IN.key); }
OP(op_inc128) { ascon128_aead_init(&c->o.a, IN.nonce, IN.key); ascon128_aead_start(&c->o.a, IN.ad, 9); ascon128_aead_encrypt_block(&c->o.a, IN.msg, out, 11); ascon128_aead_encrypt_block(&c->o.a, IN.msg + 11, out + 11, 20); ascon128_aead_encrypt_finalize(&c->o.a, out + 31); ascon128_aead_free(&c->o.a); *ol = 47; }
OP(op_inc128a) { ascon128a_aead_init(&c->o.b, IN.nonce, IN.key); ascon128a_aead_start(&c->o.b, IN.ad, 16); ascon128a_aead_decrypt_block(&c->o.b, IN.msg, out, 40); out[40] = (uint8_t)ascon128a_aead_decrypt_finalize(&c->o.b, IN.msg + 40); ascon128a_aead_free(&c->o.b); *ol = 41; }
OP(op_inc80pq) { ascon80pq_aead_init(&c->o.c, IN.nonce, IN.key); ascon80pq_aead_start(&c->o.c, 0, 0); ascon80pq_aead_encrypt_block(&c->o.c, IN.msg, out, 8); ascon80pq_aead_encrypt_finalize(&c->o.c, out + 8); ascon80pq_aead_start(&c->o.c, IN.ad, 3); ascon80pq_aead_encrypt_block(&c->o.c, IN.msg, out + 24, 5); ascon80pq_aead_encrypt_finalize(&c->o.c, out + 29); ascon80pq_aead_free(&c->o.c); *ol = 45; }
OP(op_siv128) { ascon128_siv_encrypt(out, ol, IN.msg, 37, IN.ad, 5, IN.nonce, IN.key); }
OP(op_siv128a) { size_t cl; uint8_t ct[96]; ascon128a_siv_encrypt(ct, &cl, IN.msg, 20, IN.ad, 7, IN.nonce, IN.key); out[0] = (uint8_t)ascon128a_siv_decrypt(out + 1, ol, ct, cl, IN.ad, 7, IN.nonce, IN.key); *ol += 1; }
OP(op_siv80pq) { ascon80pq_siv_encrypt(out, ol, IN.msg, 9, IN.ad, 9, IN.nonce, IN.key); }
OP(op_isap128a_shared) { ascon128a_isap_aead_encrypt(out, ol, IN.msg, 20, IN.ad, 3, IN.nonce, &c->sh->isap128a); }
OP(op_isap128_shared) { ascon128_isap_aead_encrypt(out, ol, IN.msg, 9, 0, 0, IN.nonce, &c->sh->isap128); }
OP(op_isap80pq_shared_dec) { size_t cl; uint8_t ct[64]; ascon80pq_isap_aead_encrypt(ct, &cl, IN.msg, 17, IN.ad, 8, IN.nonce, &c->sh->isap80pq); out[0] = (uint8_t)ascon80pq_isap_aead_decrypt(out + 1, ol, ct, cl, IN.ad, 8, IN.nonce, &c->sh->isap80pq); *ol += 1; }
OP(op_isap_own_key) { uint8_t blob[80]; ascon128a_isap_aead_init(&c->o.ik, IN.key); ascon128a_isap_aead_save_key(&c->o.ik, blob); ascon128a_isap_aead_load_key(&c->o.ik, blob); ascon128a_isap_aead_encrypt(out, ol, IN.msg, 5, 0, 0, IN.nonce, &c->o.ik); ascon128a_isap_aead_free(&c->o.ik); }
OP(op_masked128_shared) { ascon128_masked_aead_encrypt(out, ol, IN.msg, 21, IN.ad, 5, IN.nonce, &c->sh->mk128); }
OP(op_masked128a_shared_dec) { size_t cl; uint8_t ct[96]; ascon128a_masked_aead_encrypt(ct, &cl, IN.msg, 33, IN.ad, 2, IN.nonce, &c->sh->mk128); out[0] = (uint8_t)ascon128a_masked_aead_decrypt(out + 1, ol, ct, cl, IN.ad, 2, IN.nonce, &c->sh->mk128); *ol += 1; }
OP(op_masked80pq_shared) { ascon80pq_masked_aead_encrypt(out, ol, IN.msg, 8, 0, 0, IN.nonce, &c->sh->mk160); }
OP(op_masked_own_key) { ascon_masked_key_128_init(&c->o.mk, IN.key); ascon_masked_key_128_randomize(&c->o.mk); ascon_masked_key_128_extract(&c->o.mk, out); ascon128_masked_aead_encrypt(out + 16, ol, IN.msg, 3, 0, 0, IN.nonce, &c->o.mk); ascon_masked_key_128_free(&c->o.mk); *ol += 16; }
OP(op_hash) { ascon_hash(out, IN.msg, 50); ascon_hash_init(&c->o.h); ascon_hash_update(&c->o.h, IN.msg, 13); ascon_hash_update(&c->o.h, IN.ad, 7); ascon_hash_finalize(&c->o.h, out + 32); ascon_hash_free(&c->o.h); *ol = 64; }
OP(op_hasha) { ascon_hasha(out, IN.msg, 64); *ol = 32; }
OP(op_xof) { ascon_xof_init(&c->o.x); ascon_xof_absorb(&c->o.x, IN.msg, 33); ascon_xof_squeeze(&c->o.x, out, 70); ascon_xof_free(&c->o.x); *ol = 70; }
OP(op_xofa_custom) { ascon_xofa_init_custom(&c->o.xa, "c16", IN.ad, 9, 40); ascon_xofa_absorb(&c->o.xa, IN.msg, 12); ascon_xofa_squeeze(&c->o.xa, out, 40); ascon_xofa_free(&c->o.xa); *ol = 40; }
/* declared lengths differ per thread on purpose (neither 0 nor 32: the generic path that computes the IV at run time) */
OP(op_xof_fixed) { size_t n = 16 + 8 * (size_t)c->tid; ascon_xof_init_fixed(&c->o.x, n); ascon_xof_absorb(&c->o.x, IN.msg, 9); ascon_xof_squeeze(&c->o.x, out, n); ascon_xof_reinit_fixed(&c->o.x, n + 5); ascon_xof_squeeze(&c->o.x, out + n, 11); ascon_xof_free(&c->o.x); *ol = n + 11; }
OP(op_xofa_fixed) { size_t n = 24 + 16 * (size_t)c->tid; ascon_xofa_init_fixed(&c->o.xa, n); ascon_xofa_squeeze(&c->o.xa, out, 20); ascon_xofa_free(&c->o.xa); *ol = 20; }
OP(op_prf) { ascon_prf(out, 40, IN.msg, 45, IN.key); ascon_prf_fixed(out + 40, 20 + (size_t)c->tid, IN.msg, 5, IN.key); *ol = 60 + (size_t)c->tid; }
OP(op_mac) { ascon_mac(out, IN.msg, 33, IN.key); out[16] = (uint8_t)ascon_mac_verify(out, IN.msg, 33, IN.key); out[17] = (uint8_t)ascon_mac_verify(IN.nonce, IN.msg, 33, IN.key); ascon_prf_short(out + 18, 16, IN.msg, 9, IN.key); *ol = 34; }
OP(op_hmac) { ascon_hmac(out, IN.key, 20, IN.msg, 40); ascon_hmaca(out + 32, IN.msg, 64, IN.ad, 3); *ol = 64; }
OP(op_kmac) { ascon_kmac(IN.key, 16, IN.msg, 20, IN.ad, 4, out, 32); ascon_kmaca(IN.key, 20, IN.msg, 3, 0, 0, out + 32, 17 + (size_t)c->tid); *ol = 49 + (size_t)c->tid; }
OP(op_kdf) { ascon_kdf(out, 40, IN.key, 20, IN.ad, 5); ascon_kdfa(out + 40, 24 + (size_t)c->tid, IN.key, 16, 0, 0); *ol = 64 + (size_t)c->tid; }
OP(op_hkdf) { ascon_hkdf(out, 70, IN.key, 20, IN.nonce, 16, IN.ad, 5); ascon_hkdfa_extract((ascon_hkdfa_state_t *)&c->o.hk, IN.key, 16, 0, 0); ascon_hkdfa_expand((ascon_hkdfa_state_t *)&c->o.hk, IN.ad, 2, out + 70, 33); ascon_hkdfa_free((ascon_hkdfa_state_t *)&c->o.hk); *ol = 103; }
OP(op_pbkdf2) { ascon_pbkdf2(out, 40, IN.msg, 9, IN.nonce, 16, 2); ascon_pbkdf2_hmac(out + 40, 33, IN.msg, 9, IN.nonce, 16, 2); *ol = 73; }
OP(op_hex) { char h[80]; int n = ascon_bytes_to_hex(h, sizeof h, IN.msg, 20, c->tid & 1); int m = ascon_bytes_from_hex(out, 40, h, (size_t)n); out[m] = (uint8_t)n; *ol = (size_t)m + 1; }
OP(op_random) { out[0] = (uint8_t)ascon_random(out + 1, 30); out[31] = (uint8_t)ascon_random_init(&c->o.r); ascon_random_fetch(&c->o.r, out + 32, 20); ascon_random_feed(&c->o.r, IN.msg, 7); ascon_random_fetch(&c->o.r, out + 52, 9); ascon_random_free(&c->o.r); *ol = 61; }
OP(op_permutation) { ascon_init(&c->o.st); ascon_overwrite_bytes(&c->o.st, IN.msg, 0, 40); ascon_permute(&c->o.st, 0); ascon_add_bytes(&c->o.st, IN.ad, 3, 9); ascon_permute(&c->o.st, 6); ascon_extract_bytes(&c->o.st, out, 0, 40); ascon_free(&c->o.st); *ol = 40; }
OP(op_nonce_helpers) { memcpy(out, IN.nonce, 16); ascon_aead_increment_nonce(out); ascon_aead_set_counter(out + 16, 0x0102030405060708ULL + (uint64_t)c->tid); *ol = 32; }
static void cpp_op(tctx *c, uint8_t *out, size_t *ol, int fam, int alg, size_t kl) { void *h = cpps_new(fam, alg); cpps_set_key(h, IN.key, kl); cpps_set_nonce(h, IN.nonce, 16); int n = cpps_encrypt(h, out, IN.msg, 19, IN.ad, 4); int m = cpps_decrypt(h, out + n, out, (size_t)n, IN.ad, 4); cpps_set_nonce(h, IN.nonce, 16); m = cpps_decrypt(h, out + n, out, (size_t)n, IN.ad, 4); cpps_delete(h); *ol = (size_t)(n + (m > 0 ? m : 0)); }
OP(op_cpp_aead128a) { cpp_op(c, out, ol, 0, 1, 16); }
OP(op_cpp_masked80pq) { cpp_op(c, out, ol, 1, 2, 20); }
OP(op_cpp_siv128) { cpp_op(c, out, ol, 2, 0, 16); }
OP(op_cpp_isap128a) { cpp_op(c, out, ol, 3, 0, 16); }
/* authentication failures on shared constant keys: the reject path must leave the shared object alone as well */
OP(op_masked80pq_shared_reject) { out[0] = (uint8_t)ascon80pq_masked_aead_decrypt(out + 1, ol, IN.msg, 40, IN.ad, 3, IN.nonce, &c->sh->mk160); *ol = 25; }
OP(op_masked128_shared_reject) { out[0] = (uint8_t)ascon128_masked_aead_decrypt(out + 1, ol, IN.msg, 33, 0, 0, IN.nonce, &c->sh->mk128); *ol = 18; }
OP(op_isap128a_shared_reject) { out[0] = (uint8_t)ascon128a_isap_aead_decrypt(out + 1, ol, IN.msg, 29, IN.ad, 5, IN.nonce, &c->sh->isap128a); *ol = 14; }
/* outputs placed flush against the end of the thread's private block: the per-thread blocks are adjacent in memory (threads decrypting into consecutive slices of one array),
 * so a library access that strays past an output buffer, even one that writes back what it read, lands in the neighbouring thread's block */
OP(op_aead128_reject_at_block_end) { uint8_t *pt = (uint8_t *)c + sizeof(tctx) - 13; size_t l = 0; out[0] = (uint8_t)ascon128_aead_decrypt(pt, &l, IN.msg, 13 + 16, IN.ad, 3, IN.nonce, IN.key); memcpy(out + 1, pt, 13); *ol = 14; }
OP(op_aead128a_roundtrip_at_block_end) { uint8_t ct[64]; size_t cl = 0, l = 0; uint8_t *pt = (uint8_t *)c + sizeof(tctx) - 21; ascon128a_aead_encrypt(ct, &cl, IN.msg, 21, IN.ad, 4, IN.nonce, IN.key); out[0] = (uint8_t)ascon128a_aead_decrypt(pt, &l, ct, cl, IN.ad, 4, IN.nonce, IN.key); memcpy(out + 1, pt, 21); *ol = 22; }
OP(op_siv80pq_reject_at_block_end) { uint8_t *pt = (uint8_t *)c + sizeof(tctx) - 11; size_t l = 0; out[0] = (uint8_t)ascon80pq_siv_decrypt(pt, &l, IN.msg, 11 + 16, 0, 0, IN.nonce, IN.key); memcpy(out + 1, pt, 11); *ol = 12; }
OP(op_hash_xof_at_block_end) { uint8_t *o2 = (uint8_t *)c + sizeof(tctx) - 37; ascon_xof_state_t x; ascon_xof_init(&x); ascon_xof_absorb(&x, IN.msg, 30); ascon_xof_squeeze(&x, o2, 37); ascon_xof_free(&x); memcpy(out, o2, 37); ascon_prf(o2 + 8, 29, IN.msg, 9, IN.key); memcpy(out + 37, o2 + 8, 29); *ol = 66; }
/* a constant ciphertext byte_array shared by all threads, decrypted by each thread's own cipher object through the two- and three-argument overloads
 * (only in the free-running pass, where the object is created before the threads start; the copy-on-write byte_array of ASCON_NO_STL builds has a reference count) */
extern void *c16_shared_ct; extern uint8_t c16_shared_ct_key[16], c16_shared_ct_nonce[16];
OP(op_cpp_shared_byte_array) { if (!c16_shared_ct) { *ol = 0; return; } void *h = cpps_new(0, 1); cpps_set_key(h, c16_shared_ct_key, 16); cpps_set_nonce(h, c16_shared_ct_nonce, 16);
    int a = cpps_decrypt_shared_ba(h, out + 2, c16_shared_ct, 0, 0, 1); cpps_set_nonce(h, c16_shared_ct_nonce, 16); int b = cpps_decrypt_shared_ba(h, out + 60, c16_shared_ct, 0, 0, 2); cpps_delete(h); out[0] = (uint8_t)a; out[1] = (uint8_t)b; *ol = 110; }
OP(op_cpp_shared_byte_array_inputs) { if (!c16_shared_ct) { *ol = 0; return; } void *h = cpps_new(0, 0); cpps_set_key(h, c16_shared_ct_key, 16); cpps_set_nonce(h, c16_shared_ct_nonce, 16);
    cpps_consume_shared_ba(h, out, c16_shared_ct); cpps_delete(h); *ol = 150; }

typedef struct { const char *name; opfn fn; } opdesc;
static const opdesc OPS[] = {
    {"aead128-encrypt", op_aead128_enc}, {"aead128a-decrypt", op_aead128a_dec}, {"aead80pq-encrypt", op_aead80pq_enc}, {"incremental128", op_inc128}, {"incremental128a", op_inc128a}, {"incremental80pq-session", op_inc80pq},
    {"siv128", op_siv128}, {"siv128a-decrypt", op_siv128a}, {"siv80pq", op_siv80pq}, {"isap128a-shared-key", op_isap128a_shared}, {"isap128-shared-key", op_isap128_shared}, {"isap80pq-shared-key-decrypt", op_isap80pq_shared_dec},
    {"isap-own-key-init-save-load", op_isap_own_key}, {"masked128-shared-key", op_masked128_shared}, {"masked128a-shared-key-decrypt", op_masked128a_shared_dec}, {"masked80pq-shared-key", op_masked80pq_shared},
    {"masked-own-key", op_masked_own_key}, {"hash", op_hash}, {"hasha", op_hasha}, {"xof", op_xof}, {"xofa-custom", op_xofa_custom}, {"xof-fixed-length", op_xof_fixed}, {"xofa-fixed-length", op_xofa_fixed},
    {"prf", op_prf}, {"mac+verify+prfshort", op_mac}, {"hmac+hmaca", op_hmac}, {"kmac+kmaca", op_kmac}, {"kdf+kdfa", op_kdf}, {"hkdf+hkdfa", op_hkdf}, {"pbkdf2", op_pbkdf2}, {"hex", op_hex}, {"random", op_random},
    {"permutation-api", op_permutation}, {"nonce-helpers", op_nonce_helpers}, {"cpp-aead128a", op_cpp_aead128a}, {"cpp-masked80pq", op_cpp_masked80pq}, {"cpp-siv128", op_cpp_siv128}, {"cpp-isap128a", op_cpp_isap128a},
    {"masked80pq-shared-key-rejecting-decrypt", op_masked80pq_shared_reject}, {"masked128-shared-key-rejecting-decrypt", op_masked128_shared_reject}, {"isap128a-shared-key-rejecting-decrypt", op_isap128a_shared_reject},
    {"aead128-rejecting-decrypt-at-block-end", op_aead128_reject_at_block_end}, {"aead128a-roundtrip-at-block-end", op_aead128a_roundtrip_at_block_end}, {"siv80pq-rejecting-decrypt-at-block-end", op_siv80pq_reject_at_block_end}, {"xof+prf-output-at-block-end", op_hash_xof_at_block_end},
    {"cpp-shared-constant-byte_array", op_cpp_shared_byte_array},
    {"cpp-shared-constant-byte_array-as-input", op_cpp_shared_byte_array_inputs},
};
#define NOPS ((int)(sizeof OPS / sizeof OPS[0]))

static void fill(uint8_t *p, size_t n, unsigned seed) { for (size_t i = 0; i < n; i++) { seed = seed * 1103515245u + 12345u; p[i] = (uint8_t)(seed >> 16); } }
static void shared_setup(shared_t *s)
{
    fill(s->key, 20, 1); fill(s->nonce, 16, 2); fill(s->ad, 32, 3); fill(s->msg, 64, 4);
    ascon128a_isap_aead_init(&s->isap128a, s->key); ascon128_isap_aead_init(&s->isap128, s->key); ascon80pq_isap_aead_init(&s->isap80pq, s->key);
    ascon_masked_key_128_init(&s->mk128, s->key); ascon_masked_key_160_init(&s->mk160, s->key);
}
static void ctx_setup(tctx *c, int tid, const shared_t *s, int shared_inputs)
{
    memset(c, 0, sizeof *c); c->tid = tid; c->sh = s;
    fill(c->key, 20, 100 + tid); fill(c->nonce, 16, 200 + tid); fill(c->ad, 32, 300 + tid); fill(c->msg, 64, 400 + tid);
    if (shared_inputs) { c->in.key = s->key; c->in.nonce = s->nonce; c->in.ad = s->ad; c->in.msg = s->msg; }
    else { c->in.key = c->key; c->in.nonce = c->nonce; c->in.ad = c->ad; c->in.msg = c->msg; }
}
#endif
