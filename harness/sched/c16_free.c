/* C16 free-running pass: the same operation bodies on real threads released together, real ThreadSanitizer runtime.
 * usage: c16_free <iterations> <part> <nparts> */
#define _GNU_SOURCE
#include "c16_ops.h"
#include <stdio.h>
#include <pthread.h>
#include <sys/types.h>
ssize_t getrandom(void *buf, size_t n, unsigned flags) { (void)flags; uint8_t *b = buf; for (size_t i = 0; i < n; i++) b[i] = (uint8_t)(0x5A ^ (i * 7)); return (ssize_t)n; }
void *c16_shared_ct; uint8_t c16_shared_ct_key[16], c16_shared_ct_nonce[16];
static shared_t SH; static pthread_barrier_t bar; static int OPI[4], ITER; static tctx *CTX[4], *REF[4]; static long mism;
static void *th(void *arg)
{
    int t = (int)(long)arg;
    for (int it = 0; it < ITER; it++) {
        pthread_barrier_wait(&bar);
        tctx *c = CTX[t]; OPS[OPI[t]].fn(c, c->out[0], &c->outlen[0]);
        if (c->outlen[0] != REF[t]->outlen[0] || memcmp(c->out[0], REF[t]->out[0], REF[t]->outlen[0])) __sync_fetch_and_add(&mism, 1);
    }
    return 0;
}
int main(int argc, char **argv)
{
    setvbuf(stdout, 0, _IOLBF, 0);
    ITER = atoi(argv[1]); int part = atoi(argv[2]), nparts = atoi(argv[3]); int NT = 4; long programs = 0;
    shared_setup(&SH);
    { uint8_t ct[64]; size_t cl = 0; fill(c16_shared_ct_key, 16, 71); fill(c16_shared_ct_nonce, 16, 72); ascon128a_aead_encrypt(ct, &cl, SH.msg, 41, 0, 0, c16_shared_ct_nonce, c16_shared_ct_key); c16_shared_ct = cpps_ba_new(ct, cl); }
    { tctx *blk = malloc(sizeof(tctx) * (NT + 1)), *rblk = malloc(sizeof(tctx) * (NT + 1)); for (int t = 0; t < NT; t++) { CTX[t] = &blk[t]; REF[t] = &rblk[t]; } }   /* adjacent private blocks */
    int idx = 0;
    for (int i = 0; i < NOPS; i++) for (int j = i; j < NOPS; j++, idx++) {
        if (idx % nparts != part) continue;
        OPI[0] = i; OPI[1] = j; OPI[2] = j; OPI[3] = i;
        for (int sharedin = 0; sharedin < 2; sharedin++) {
            for (int t = 0; t < NT; t++) { ctx_setup(REF[t], t, &SH, sharedin); OPS[OPI[t]].fn(REF[t], REF[t]->out[0], &REF[t]->outlen[0]); ctx_setup(CTX[t], t, &SH, sharedin); }
            pthread_barrier_init(&bar, 0, NT); pthread_t p[4]; long before = mism;
            for (long t = 0; t < NT; t++) pthread_create(&p[t], 0, th, (void *)t);
            for (int t = 0; t < NT; t++) pthread_join(p[t], 0);
            pthread_barrier_destroy(&bar); programs++;
            if (mism != before) printf("FAIL concurrent-result:%s+%s results differ from the sequential results when run on 4 threads (shared_inputs=%d)\n", OPS[i].name, OPS[j].name, sharedin);
        }
    }
    printf("STAT free_running_programs %ld\nSTAT free_running_thread_runs %ld\n", programs, programs * NT * ITER);
    return 0;
}
