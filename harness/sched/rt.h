#ifndef VP_RT_H
#define VP_RT_H
#include <stddef.h>
#define VP_MAXT 3
#define VP_MAXP 8192
typedef void (*vp_body)(int);
void vp_reset_regions(void);
void vp_register_shared(void *p, size_t n);
void vp_register_private(int t, void *p, size_t n);
void vp_ignore_static(void *p, size_t n);
int vp_run_schedule(int nthreads, vp_body *bodies, const int *prefix, int prefix_len);
int vp_npoints(void); int vp_choice(int i); int vp_nen(int i); int vp_running_enabled(int i); int vp_diverged(void);
const char *vp_race(void);
unsigned long vp_instrumented(void); unsigned long vp_visible(void);
#endif
