/* C13 (C++ part): destroyed / cleared C++ cipher and hash objects retain nothing derived from secrets.
 * Objects are placement-constructed into a pre-patterned buffer; the scenario (construct, operations,
 * clear() or destructor) runs twice with two secret assignments that differ in every byte; the object's
 * bytes must then be equal.  Compiled at the release optimisation level (-O3) like the library, because
 * the inline destructors of the header-only classes are compiled into the user's translation unit. */
#include <new>
#include <string.h>
#include <ascon/aead.h>
#include <ascon/aead-masked.h>
#include <ascon/siv.h>
#include <ascon/isap.h>
#include <ascon/hash.h>
#include <ascon/xof.h>
extern "C" {
#include "hx.h"
#include "sysrand.h"
}

struct secrets { unsigned char key[20], nonce[16], msg[64], ad[16]; uint64_t entropy; };
static secrets SA, SB;
static unsigned char sink[128];
alignas(64) static unsigned char OBJ[4096];

/* destruction through a pointer to the common base class (what delete on an ascon::aead * or a unique_ptr<ascon::aead> does) */
__attribute__((noinline)) static void destroy_through_base(ascon::aead *p) { p->~aead(); }
/* keep the scenario out of line so that the compiler sees exactly what a user's function would contain */
template <class T> __attribute__((noinline)) static void cipher_scenario(void *mem, const secrets *s, const int *h, int hl, int terminal, size_t klen)
{
    sysrand_reset(s->entropy);
    T *o = new (mem) T();
    o->set_key(s->key, klen); o->set_nonce(s->nonce, 16);
    for (int i = 0; i < hl; i++) {
        switch (h[i]) {
        case 0: o->encrypt(sink, s->msg, 21, s->ad, 7); break;
        case 1: o->decrypt(sink, s->msg, 40, s->ad, 7); break;
        case 2: o->set_key(s->msg, klen); break;
        default: o->set_counter(((uint64_t)s->nonce[3] << 32) | s->nonce[9]); break;
        }
    }
    if (terminal == 0) o->~T();
    else if (terminal == 2) destroy_through_base(o);
    else o->clear();
}
template <class T> __attribute__((noinline)) static void cipher_finish(void *mem) { static_cast<T *>(mem)->~T(); }

template <class H> __attribute__((noinline)) static void hash_scenario(void *mem, const secrets *s, const int *h, int hl)
{
    H *o = new (mem) H();
    o->update(s->key, 20);
    for (int i = 0; i < hl; i++) {
        switch (h[i]) {
        case 0: o->update(s->msg, 13); break;
        case 1: o->finalize(sink); break;
        case 2: { H c(*o); c.update(s->msg, 3); *o = c; break; }
        default: o->reset(); o->update(s->msg, 40); break;
        }
    }
    o->~H();
}
template <class X> __attribute__((noinline)) static void xof_scenario(void *mem, const secrets *s, const int *h, int hl)
{
    X *o = new (mem) X("c13", s->key, 16);
    for (int i = 0; i < hl; i++) {
        switch (h[i]) {
        case 0: o->absorb(s->msg, 13); break;
        case 1: o->squeeze(sink, 21); break;
        case 2: { X c(*o); c.absorb(s->msg, 3); *o = c; break; }
        default: o->reset(); o->absorb(s->msg, 40); break;
        }
    }
    o->~X();
}

typedef void (*scen)(const secrets *, const int *, int, int);
struct ctype { const char *name; size_t size; int terminals; scen fn; void (*finish)(void *); };
#define CIPHER(T, kl) {#T, sizeof(ascon::T), 3, [](const secrets *s, const int *h, int hl, int term) { cipher_scenario<ascon::T>(OBJ, s, h, hl, term, kl); }, cipher_finish<ascon::T>}
#define HASHT(T) {#T, sizeof(ascon::T), 1, [](const secrets *s, const int *h, int hl, int) { hash_scenario<ascon::T>(OBJ, s, h, hl); }, 0}
#define XOFT(T) {#T, sizeof(ascon::T), 1, [](const secrets *s, const int *h, int hl, int) { xof_scenario<ascon::T>(OBJ, s, h, hl); }, 0}
static const ctype TYPES[] = {
    CIPHER(aead128, 16), CIPHER(aead128a, 16), CIPHER(aead80pq, 20), CIPHER(aead128_masked, 16), CIPHER(aead128a_masked, 16), CIPHER(aead80pq_masked, 20),
    CIPHER(siv128, 16), CIPHER(siv128a, 16), CIPHER(siv80pq, 20), CIPHER(isap128, 16), CIPHER(isap128a, 16), CIPHER(isap80pq, 20),
    HASHT(hash), HASHT(hasha), XOFT(xof), XOFT(xofa),
};

int main(int argc, char **argv)
{
    hx_init();
    int maxh = argc > 1 ? atoi(argv[1]) : 3;
    unsigned char *a = (unsigned char *)&SA, *b = (unsigned char *)&SB;
    for (size_t i = 0; i < sizeof SA; i++) { a[i] = (unsigned char)hx_mix(hx_seed * 77 + i); b[i] = (unsigned char)(a[i] ^ (1 + hx_mix(i + 999) % 255)); }
    SA.entropy = 1111; SB.entropy = 987654321;
    static unsigned char s1[4096], s2[4096]; long hist = 0;
    for (unsigned ti = 0; ti < sizeof TYPES / sizeof TYPES[0]; ti++) {
        const ctype *t = &TYPES[ti]; int h[4];
        for (int term = 0; term < t->terminals; term++) for (int hl = 0; hl <= maxh; hl++) {
            int total = 1; for (int i = 0; i < hl; i++) total *= 4;
            for (int code = 0; code < total; code++) {
                int c = code; for (int i = 0; i < hl; i++) { h[i] = c % 4; c /= 4; }
                memset(OBJ, 0xA5, sizeof OBJ); t->fn(&SA, h, hl, term); memcpy(s1, OBJ, t->size); if (term == 1) t->finish(OBJ);
                memset(OBJ, 0xA5, sizeof OBJ); t->fn(&SB, h, hl, term); memcpy(s2, OBJ, t->size); if (term == 1) t->finish(OBJ);
                hist++;
                if (memcmp(s1, s2, t->size)) {
                    size_t off = 0; while (s1[off] == s2[off]) off++;
                    char kb[96], hs[32] = ""; snprintf(kb, sizeof kb, "residue:cpp:%s:%s", t->name, term == 1 ? "clear" : term == 2 ? "destructor-through-base" : "destructor");
                    for (int i = 0; i < hl; i++) { size_t l = strlen(hs); snprintf(hs + l, sizeof hs - l, "%d", h[i]); }
                    hx_fail(kb, "after %s, byte %zu of the %zu-byte object still depends on the secrets (operation history [%s])", term == 1 ? "clear()" : term == 2 ? "destruction through an ascon::aead pointer" : "the destructor", off, t->size, hs);
                }
            }
        }
        hx_stat("object_types", 1);
    }
    hx_stat("states", hist); hx_stat("transitions", hist * 2); hx_stat("traces_validated", hist * 2);
    hx_sample("C++ objects: %zu classes x {destructor, clear(), destructor through the base class} x every history of length <= %d over 4 operations; two secret assignments; object bytes compared", sizeof TYPES / sizeof TYPES[0], maxh);
    hx_finish();
    return 0;
}
