/* Scripted system entropy source: the harness defines libc's getrandom(), which is what
 * src/random/ascon-trng-dev-random.c calls, so the library's own TRNG shim stays under test. */
#ifndef SYSRAND_H
#define SYSRAND_H
#include <stddef.h>
#include <stdint.h>
extern unsigned sysrand_calls;          /* number of getrandom() calls so far (incl. failing ones) */
extern uint64_t sysrand_fail_mask;      /* bit k set: call k fails permanently (EIO) */
extern uint64_t sysrand_eintr_mask;     /* bit k set: call k fails once with EINTR first (retried by the library) */
extern int sysrand_fail_errno;          /* errno of a permanent failure (default EIO) */
extern int sysrand_eintr_errno;         /* errno of that transient failure: EINTR (default) or EAGAIN */
extern uint64_t sysrand_tape_seed;      /* tape contents: byte j of successful delivery d = mix(seed, d, j) */
extern unsigned sysrand_deliveries;     /* successful deliveries so far */
extern int sysrand_flip_delivery;       /* if >= 0: flip bit sysrand_flip_bit of byte sysrand_flip_byte of that delivery */
extern unsigned sysrand_flip_byte, sysrand_flip_bit;
extern int sysrand_mode;                /* 0 = dense tape, 1 = all-zero, 2 = all-FF */
extern unsigned sysrand_opens, sysrand_closes, sysrand_bad_closes;   /* device configuration only (VP_SYSRAND_DEVICE): open / close calls on the random device, and closes of a descriptor the library no longer owns */
void sysrand_reset(uint64_t seed);
void sysrand_expected(unsigned delivery, uint8_t *out, size_t n); /* what delivery d contains */
#endif
