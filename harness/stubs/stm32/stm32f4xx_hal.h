/* stand-in for the STM32 HAL: the one RNG call the driver uses */
#ifndef VP_STUB_STM32_HAL_H
#define VP_STUB_STM32_HAL_H
#include <stdint.h>
#define HAL_RNG_MODULE_ENABLED 1
typedef struct { int instance; } RNG_HandleTypeDef;
typedef enum { HAL_OK = 0, HAL_ERROR = 1, HAL_BUSY = 2, HAL_TIMEOUT = 3 } HAL_StatusTypeDef;
HAL_StatusTypeDef HAL_RNG_GenerateRandomNumber(RNG_HandleTypeDef *hrng, uint32_t *random32bit);
uint32_t HAL_GetTick(void);
#endif
