/* stand-in for the Arduino Due core: the SAM3X8E TRNG registers as the driver uses them, backed by the scripted source of harness/c15_drivers.c */
#ifndef VP_STUB_ARDUINO_H
#define VP_STUB_ARDUINO_H
#include <stdint.h>
extern uint32_t stub_reg_cr, stub_reg_idr;
int stub_due_ready(void);
uint32_t stub_due_data(void);
#define ID_TRNG 41
static inline void pmc_enable_periph_clk(int id) { (void)id; }
#define REG_TRNG_CR stub_reg_cr
#define REG_TRNG_IDR stub_reg_idr
#define REG_TRNG_ISR ((uint32_t)stub_due_ready())
#define REG_TRNG_ODATA stub_due_data()
#define TRNG_CR_KEY(x) ((uint32_t)(x) << 8)
#define TRNG_CR_ENABLE 1u
#define TRNG_IDR_DATRDY 1u
#define TRNG_ISR_DATRDY 1u
#endif
