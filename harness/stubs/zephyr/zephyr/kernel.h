/* stand-in for <zephyr/kernel.h> */
