#include <stddef.h>
int sys_csrand_get(void *dst, size_t len);
void sys_rand_get(void *dst, size_t len);      /* the non-cryptographic generator of the same header */
#include <stdint.h>
uint32_t sys_rand32_get(void);
