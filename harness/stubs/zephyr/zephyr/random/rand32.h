#include <stddef.h>
int sys_csrand_get(void *dst, size_t len);
