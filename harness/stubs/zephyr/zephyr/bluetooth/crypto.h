#include <stddef.h>
int bt_rand(void *buf, size_t len);
