#include "windows.h"
