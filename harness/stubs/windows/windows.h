/* stand-in for <windows.h> / <wincrypt.h>: the three CryptoAPI calls the driver uses */
#ifndef VP_STUB_WINDOWS_H
#define VP_STUB_WINDOWS_H
#include <stdint.h>
#include <stddef.h>
typedef uintptr_t HCRYPTPROV; typedef unsigned long DWORD; typedef int BOOL; typedef unsigned char BYTE; typedef const uint16_t *LPCWSTR;
#define PROV_RSA_FULL 1
#define CRYPT_VERIFYCONTEXT 0xF0000000u
#define CRYPT_SILENT 0x40u
BOOL CryptAcquireContextW(HCRYPTPROV *prov, LPCWSTR container, LPCWSTR provider, DWORD type, DWORD flags);
BOOL CryptGenRandom(HCRYPTPROV prov, DWORD len, BYTE *buffer);
BOOL CryptReleaseContext(HCRYPTPROV prov, DWORD flags);
#endif
