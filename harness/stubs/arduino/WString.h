/* stand-in for the Arduino core's String class: what the library's Arduino overloads use (construction from a C string, c_str(), length()) */
#ifndef VP_STUB_WSTRING_H
#define VP_STUB_WSTRING_H
#include <string.h>
#include <stdlib.h>
class String
{
public:
    String() : buf(0), len(0) {}
    String(const char *s) : buf(0), len(0) { assign(s, s ? strlen(s) : 0); }
    String(const char *s, size_t n) : buf(0), len(0) { assign(s, n); }
    String(const String &o) : buf(0), len(0) { assign(o.buf, o.len); }
    ~String() { free(buf); }
    String &operator=(const String &o) { if (this != &o) assign(o.buf, o.len); return *this; }
    String &operator+=(const char *s) { if (s) append(s, strlen(s)); return *this; }
    String &operator+=(const String &o) { append(o.c_str(), o.len); return *this; }
    String &operator+=(char c) { append(&c, 1); return *this; }
    bool concat(const char *s) { if (s) append(s, strlen(s)); return true; }
    bool concat(const String &o) { append(o.c_str(), o.len); return true; }
    bool reserve(unsigned int) { return true; }
    char operator[](unsigned int i) const { return i < len ? buf[i] : 0; }
    bool operator==(const String &o) const { return len == o.len && (!len || !memcmp(buf, o.buf, len)); }
    const char *c_str() const { return buf ? buf : ""; }
    unsigned int length() const { return (unsigned int)len; }
private:
    void append(const char *s, size_t n) { char *nb = (char *)malloc(len + n + 1); if (len) memcpy(nb, buf, len); if (n) memcpy(nb + len, s, n); nb[len + n] = 0; free(buf); buf = nb; len += n; }
    void assign(const char *s, size_t n) { free(buf); buf = (char *)malloc(n + 1); if (n) memcpy(buf, s, n); buf[n] = 0; len = n; }
    char *buf; size_t len;
};
#endif
