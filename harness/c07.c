/* C07: explicit-state search over the real incremental objects.
 *
 * A node is (bytes absorbed/processed a, bytes squeezed s, canonical observable state of the
 * object).  It is represented by the operation history that reaches it; every edge replays that
 * history on a fresh object, applies one more operation, evaluates the oracle and computes the
 * canonical key of the successor.  Histories that reach the same key merge, so the edges
 * {absorb n, squeeze n : n in 0..2r+1} from every node cover every partition of input and output
 * (including empty calls).  Copy and every re-init variant are edges too.
 *
 * usage: c07 <machine> <tier>
 */
#include "hx.h"
#include "api.h"
#include <ascon/hash.h>
#include <ascon/xof.h>
#include <ascon/prf.h>
#include <ascon/hmac.h>
#include <ascon/kmac.h>
#include <ascon/kdf.h>
#include <ascon/hkdf.h>

enum { OP_ABSORB, OP_ABSORB_INPLACE, OP_SQUEEZE, OP_FINAL, OP_COPY, OP_REINIT };
typedef struct { uint8_t op; uint16_t n; } hop;
#define MAXHIST 24
typedef struct { int a, s, term, depth, sq; hop h[MAXHIST]; int hl; uint8_t key[160]; int kl; } node;

typedef struct {
    const char *name;
    int in_rate, out_rate, amax, smax;
    int has_absorb, transducer, terminal, final_len, has_copy, n_reinit, has_inplace;
    void (*init)(void *o);
    void (*reinit)(void *o, int v);
    void (*absorb)(void *o, const uint8_t *in, uint8_t *out, size_t n);
    void (*squeeze)(void *o, uint8_t *out, size_t n);
    int (*final)(void *o, uint8_t *out, int a);    /* terminal operation; returns status */
    void (*copy)(void *d, const void *s);
    void (*freef)(void *o);
    int (*canon)(void *o, uint8_t *k);
    void (*oneshot)(int a, uint8_t *out, size_t n); /* library one-shot for input prefix a: n output bytes */
    size_t (*single)(int a, uint8_t *out, size_t n); /* where the one-shot above has to be spelled with the incremental calls: the single-call function itself, for as many bytes as it can give */
    void (*refshot)(int a, uint8_t *out, size_t n); /* reference */
} machine;

static const machine *M;
static uint8_t MSG[512], KEY[64], NONCE[16], AD[16], CUSTOM[16];
static uint8_t *EXP[512];        /* EXP[a] = expected output stream after absorbing a bytes (squeeze/final machines) */
static uint8_t CT[512 + 16];     /* transducers: ciphertext (or plaintext for decrypt) of the longest message */
static uint8_t TAG[512][16];     /* transducers: tag of prefix a */
static int A_alg, DEC;

#define MAXN 200000
static node *nodes; static int nnodes;
static int *htab; static int hsize = 1 << 19;
static long transitions, replays, merged, nonconfluent;
static int maxdepth, chunkmul = 2, dirty_fill;
typedef struct { uint64_t w[64]; } objbuf;

static uint32_t hkey(const node *n)
{
    uint32_t h = 2166136261u ^ (uint32_t)(n->a * 131 + n->s * 7 + n->term + n->sq * 3);
    for (int i = 0; i < n->kl; i++) h = (h ^ n->key[i]) * 16777619u;
    return h;
}
static int find_or_add(node *n, int *isnew)
{
    uint32_t h = hkey(n) & (hsize - 1);
    while (htab[h] >= 0) {
        node *m = &nodes[htab[h]];
        if (m->a == n->a && m->s == n->s && m->term == n->term && m->sq == n->sq && m->kl == n->kl && !memcmp(m->key, n->key, n->kl)) { *isnew = 0; return htab[h]; }
        h = (h + 1) & (hsize - 1);
    }
    if (nnodes >= MAXN) { printf("CAPPED node limit %d reached\n", MAXN); *isnew = 0; return -1; }
    nodes[nnodes] = *n; htab[h] = nnodes; *isnew = 1; return nnodes++;
}
static void hist_str(const node *n, const hop *extra, char *buf, size_t cap)
{
    static const char *on[] = {"absorb", "absorb-inplace", "squeeze", "final", "copy", "reinit"};
    buf[0] = 0;
    for (int i = 0; i <= n->hl; i++) {
        const hop *h = i < n->hl ? &n->h[i] : extra; if (!h) break;
        size_t l = strlen(buf); snprintf(buf + l, cap - l, "%s%s(%d)", i ? "," : "", on[h->op], h->n);
    }
}

/* replays a history on obj (fresh); if check != 0 the oracle is evaluated on the LAST op only.
 * returns 0 ok; fills a,s,term */
static int g_sq;
static int apply(objbuf *obj, const hop *h, int hl, int check, int *pa, int *ps, int *pterm, char *why, size_t whycap)
{
    int a = 0, s = 0, term = 0, bad = 0; g_sq = 0;
    memset(obj, dirty_fill, sizeof *obj);   /* what the storage held before must not matter */
    M->init(obj);
    for (int i = 0; i < hl; i++) {
        int last = check && i == hl - 1; int n = h[i].n;
        switch (h[i].op) {
        case OP_ABSORB: case OP_ABSORB_INPLACE: {
            if (M->transducer) {
                uint8_t *in = hx_buf(n), *out = h[i].op == OP_ABSORB ? hx_buf(n) : in;
                memcpy(in, (DEC ? CT : MSG) + a, n);
                M->absorb(obj, n || h[i].op == OP_ABSORB_INPLACE ? in : in, out, n);
                if (last) {
                    if (memcmp(out, (DEC ? MSG : CT) + a, n)) { snprintf(why, whycap, "output slice [%d,%d) differs from the one-shot result", a, a + n); bad = 1; }
                    if (!hx_buf_ok(out, n)) { snprintf(why, whycap, "wrote outside the %d-byte output", n); bad = 1; }
                }
                if (out != in) hx_free(out);
                hx_free(in);
            } else {
                uint8_t *in = hx_buf(n); memcpy(in, MSG + a, n);
                M->absorb(obj, in, 0, n);
                hx_free(in);
            }
            a += n; break; }
        case OP_SQUEEZE: {
            uint8_t *out = hx_buf(n); memset(out, 0xAA, n);
            M->squeeze(obj, out, n);
            if (last) {
                if (memcmp(out, EXP[a] + s, n)) { snprintf(why, whycap, "squeezed bytes [%d,%d) after absorbing %d differ from the one-shot result", s, s + n, a); bad = 1; }
                if (!hx_buf_ok(out, n)) { snprintf(why, whycap, "wrote outside the %d-byte output", n); bad = 1; }
            }
            hx_free(out); s += n; g_sq = 1; break; }
        case OP_FINAL: {
            uint8_t *out = hx_buf(M->final_len); memset(out, 0xAA, M->final_len);
            int r = M->final(obj, out, a);
            if (last) {
                if (M->transducer) {
                    if (DEC) { if (r != 0) { snprintf(why, whycap, "decrypt finalize with the correct tag returned %d after %d bytes", r, a); bad = 1; } }
                    else if (memcmp(out, TAG[a], 16)) { snprintf(why, whycap, "tag after %d bytes differs from the one-shot tag", a); bad = 1; }
                } else if (memcmp(out, EXP[a], M->final_len)) { snprintf(why, whycap, "final output after %d bytes differs from the one-shot result", a); bad = 1; }
                if (!hx_buf_ok(out, M->final_len)) { snprintf(why, whycap, "final wrote outside its output"); bad = 1; }
            }
            hx_free(out); term = 1; break; }
        case OP_COPY: {
            objbuf c2; uint8_t k1[160], k2[160], k3[160]; int l1, l2, l3;
            l1 = M->canon(obj, k1);
            memset(&c2, 0x5A, sizeof c2);
            M->copy(&c2, obj);
            l2 = M->canon(&c2, k2); l3 = M->canon(obj, k3);
            if (last) {
                if (l1 != l2 || memcmp(k1, k2, l1)) { snprintf(why, whycap, "copy differs from its original (a=%d s=%d)", a, s); bad = 1; }
                if (l1 != l3 || memcmp(k1, k3, l1)) { snprintf(why, whycap, "copying modified the original (a=%d s=%d)", a, s); bad = 1; }
            }
            /* a copy onto itself (destination and source are the same valid object) leaves it as it is */
            { uint8_t k4[160]; M->copy(&c2, &c2); int l4 = M->canon(&c2, k4); if (last && (l4 != l1 || memcmp(k1, k4, l1))) { snprintf(why, whycap, "an object copied onto itself changed (a=%d s=%d)", a, s); bad = 1; } }
            M->freef(obj); *obj = c2; /* continue on the copy */
            break; }
        case OP_REINIT:
            M->reinit(obj, n); a = 0; s = 0; term = 0; g_sq = 0; break;
        }
    }
    *pa = a; *ps = s; *pterm = term;
    return bad;
}

static void explore(void)
{
    nodes = malloc(sizeof(node) * MAXN); htab = malloc(sizeof(int) * hsize); memset(htab, 0xff, sizeof(int) * hsize);
    objbuf obj; node root; memset(&root, 0, sizeof root);
    int a, s, t; char why[200], hs[600], kb[64];
    snprintf(kb, sizeof kb, "chunking:%s", M->name);
    apply(&obj, 0, 0, 0, &a, &s, &t, why, sizeof why);
    root.kl = M->canon(&obj, root.key); M->freef(&obj);
    /* replay determinism of the root */
    { uint8_t k2[160]; apply(&obj, 0, 0, 0, &a, &s, &t, why, sizeof why); int l2 = M->canon(&obj, k2); M->freef(&obj);
      if (l2 != root.kl || memcmp(k2, root.key, l2)) { printf("HARNESS-NONDETERMINISM root key differs between two fresh inits\n"); exit(3); } }
    int isnew; find_or_add(&root, &isnew);
    for (int cur = 0; cur < nnodes; cur++) {
        node nd = nodes[cur];
        if (nd.depth > maxdepth) maxdepth = nd.depth;
        hop cand[600]; int nc = 0;
        if (!nd.term) {
            if (M->has_absorb && !nd.sq) /* absorbing after any squeeze call is outside the property */
                for (int n = 0; n <= chunkmul * M->in_rate + 1 && nd.a + n <= M->amax; n++) {
                    cand[nc++] = (hop){OP_ABSORB, (uint16_t)n};
                    if (M->has_inplace) cand[nc++] = (hop){OP_ABSORB_INPLACE, (uint16_t)n};
                }
            if (M->squeeze)
                for (int n = 0; n <= chunkmul * M->out_rate + 1 && nd.s + n <= M->smax; n++) cand[nc++] = (hop){OP_SQUEEZE, (uint16_t)n};
            if (M->terminal && !nd.sq) cand[nc++] = (hop){OP_FINAL, 0};
            if (M->has_copy) cand[nc++] = (hop){OP_COPY, 0};
        }
        for (int v = 0; v < M->n_reinit; v++) cand[nc++] = (hop){OP_REINIT, (uint16_t)v};
        for (int c = 0; c < nc; c++) {
            if (nd.hl >= MAXHIST - 1) { printf("CAPPED history length\n"); continue; }
            node nx; memset(&nx, 0, sizeof nx);
            memcpy(nx.h, nd.h, sizeof(hop) * nd.hl); nx.h[nd.hl] = cand[c]; nx.hl = nd.hl + 1; nx.depth = nd.depth + 1;
            why[0] = 0;
            int bad = apply(&obj, nx.h, nx.hl, 1, &nx.a, &nx.s, &nx.term, why, sizeof why);
            transitions++; replays++;
            nx.kl = M->canon(&obj, nx.key); M->freef(&obj); nx.sq = g_sq;
            if (bad) { hist_str(&nd, &cand[c], hs, sizeof hs); hx_fail(kb, "%s; history [%s]", why, hs); continue; }
            if (cand[c].op == OP_REINIT) {
                /* must be indistinguishable from a fresh init: same canonical key as the root */
                if (nx.kl != root.kl || memcmp(nx.key, root.key, root.kl)) { hist_str(&nd, &cand[c], hs, sizeof hs); hx_fail(kb, "re-initialised object differs from a freshly initialised one; history [%s]", hs); }
                continue;
            }
            if (cand[c].op == OP_COPY) continue; /* judged inside apply; successor equals this node */
            /* keep shortest history: collapse to canonical short history when merging */
            int idx = find_or_add(&nx, &isnew);
            if (idx >= 0 && !isnew) merged++;
            if (idx >= 0 && isnew) {
                /* replay determinism: the same history must give the same canonical state again */
                uint8_t k2[160]; int a2, s2, t2; char w2[200];
                apply(&obj, nx.h, nx.hl, 0, &a2, &s2, &t2, w2, sizeof w2); replays++;
                int l2 = M->canon(&obj, k2); M->freef(&obj);
                if (l2 != nx.kl || memcmp(k2, nx.key, l2)) { hist_str(&nx, 0, hs, sizeof hs); printf("HARNESS-NONDETERMINISM history [%s] gives two different canonical states\n", hs); exit(3); }
                /* the same history on storage that held other bytes before the object was initialised */
                dirty_fill = (nnodes & 1) ? 0xFF : 0xA5; apply(&obj, nx.h, nx.hl, 0, &a2, &s2, &t2, w2, sizeof w2); replays++; dirty_fill = 0;
                l2 = M->canon(&obj, k2); M->freef(&obj);
                if (l2 != nx.kl || memcmp(k2, nx.key, l2)) { hist_str(&nx, 0, hs, sizeof hs); hx_fail(kb, "the observable state after history [%s] depends on what the object's memory held before initialisation", hs); }
            }
        }
    }
    /* non-confluence census: nodes with equal (a, s, term) but different keys */
    {
        static int cnt[600][600];
        for (int i = 0; i < nnodes; i++) if (!nodes[i].term && nodes[i].a < 600 && nodes[i].s < 600) cnt[nodes[i].a][nodes[i].s]++;
        for (int i = 0; i < 600; i++) for (int j = 0; j < 600; j++) if (cnt[i][j] > 1) nonconfluent += cnt[i][j] - 1;
    }
    hx_stat("states", nnodes); hx_stat("transitions", transitions); hx_stat("traces_validated", replays);
    hx_stat("merged_edges", merged); hx_stat("nonconfluent_states", nonconfluent);
    printf("SETMAX max_depth %d\n", maxdepth);
    hx_sample("%s: %d states, %ld transitions (each a replay of its history on a fresh real object), %ld merges, max BFS depth %d, amax=%d smax=%d", M->name, nnodes, transitions, merged, maxdepth, M->amax, M->smax);
    if (nnodes > 3) { char b[600]; hist_str(&nodes[nnodes - 1], 0, b, sizeof b); hx_sample("%s last state reached by history [%s]", M->name, b); }
}

/* ------------------------------------------------------------------ machines */
static int canon_perm(const ascon_state_t *st, uint8_t *k) { ascon_extract_bytes(st, k, 0, 40); return 40; }

/* xof / xofa, three init flavours: plain, fixed(40), custom("c07", CUSTOM, 20 bytes declared 0) */
static int XA, XINIT;
static void xof_init(void *o)
{
    if (XA) { if (XINIT == 0) ascon_xofa_init(o); else if (XINIT == 1) ascon_xofa_init_fixed(o, 40); else ascon_xofa_init_custom(o, "c07", CUSTOM, 11, 0); }
    else { if (XINIT == 0) ascon_xof_init(o); else if (XINIT == 1) ascon_xof_init_fixed(o, 40); else ascon_xof_init_custom(o, "c07", CUSTOM, 11, 0); }
}
static void xof_reinit(void *o, int v)
{
    (void)v;
    if (XA) { if (XINIT == 0) ascon_xofa_reinit(o); else if (XINIT == 1) ascon_xofa_reinit_fixed(o, 40); else ascon_xofa_reinit_custom(o, "c07", CUSTOM, 11, 0); }
    else { if (XINIT == 0) ascon_xof_reinit(o); else if (XINIT == 1) ascon_xof_reinit_fixed(o, 40); else ascon_xof_reinit_custom(o, "c07", CUSTOM, 11, 0); }
}
static void xof_absorb(void *o, const uint8_t *in, uint8_t *out, size_t n) { (void)out; if (XA) ascon_xofa_absorb(o, in, n); else ascon_xof_absorb(o, in, n); }
static void xof_squeeze(void *o, uint8_t *out, size_t n) { if (XA) ascon_xofa_squeeze(o, out, n); else ascon_xof_squeeze(o, out, n); }
static void xof_copy(void *d, const void *s) { if (XA) ascon_xofa_copy(d, s); else ascon_xof_copy(d, s); }
static void xof_free(void *o) { if (XA) ascon_xofa_free(o); else ascon_xof_free(o); }
static int xof_canon(void *o, uint8_t *k) { ascon_xof_state_t *x = o; canon_perm(&x->state, k); k[40] = x->count; k[41] = x->mode; return 42; }
static void xof_oneshot(int a, uint8_t *out, size_t n)
{   /* the library's own single-call sequence */
    objbuf o; xof_init(&o); xof_absorb(&o, MSG, 0, a); xof_squeeze(&o, out, n); xof_free(&o);
}
static size_t xof_single(int a, uint8_t *out, size_t n) { if (XINIT) return 0; if (n > 32) n = 32; uint8_t t[32]; if (XA) ascon_xofa(t, MSG, a); else ascon_xof(t, MSG, a); memcpy(out, t, n); return n; }
static void xof_ref(int a, uint8_t *out, size_t n)
{
    if (XINIT == 0) ref_xof(XA, MSG, a, out, n); else if (XINIT == 1) ref_xof_fixed(XA, 40, MSG, a, out, n);
    else ref_cxof(XA, (const uint8_t *)"c07", 3, CUSTOM, 11, 0, MSG, a, out, n);
}
/* hash / hasha */
static void hash_init(void *o) { if (XA) ascon_hasha_init(o); else ascon_hash_init(o); }
static void hash_reinit(void *o, int v) { (void)v; if (XA) ascon_hasha_reinit(o); else ascon_hash_reinit(o); }
static void hash_absorb(void *o, const uint8_t *in, uint8_t *out, size_t n) { (void)out; if (XA) ascon_hasha_update(o, in, n); else ascon_hash_update(o, in, n); }
static int hash_final(void *o, uint8_t *out, int a) { (void)a; if (XA) ascon_hasha_finalize(o, out); else ascon_hash_finalize(o, out); return 0; }
static void hash_copy(void *d, const void *s) { if (XA) ascon_hasha_copy(d, s); else ascon_hash_copy(d, s); }
static void hash_free(void *o) { if (XA) ascon_hasha_free(o); else ascon_hash_free(o); }
static void hash_oneshot(int a, uint8_t *out, size_t n) { (void)n; if (XA) ascon_hasha(out, MSG, a); else ascon_hash(out, MSG, a); }
static void hash_ref(int a, uint8_t *out, size_t n) { (void)n; ref_hash(XA, MSG, a, out); }
/* prf: plain and fixed(40) */
static void prf_init(void *o) { if (XINIT) ascon_prf_fixed_init(o, KEY, 40); else ascon_prf_init(o, KEY); }
static void prf_reinit(void *o, int v) { (void)v; if (XINIT) ascon_prf_fixed_reinit(o, KEY, 40); else ascon_prf_reinit(o, KEY); }
static void prf_absorb(void *o, const uint8_t *in, uint8_t *out, size_t n) { (void)out; ascon_prf_absorb(o, in, n); }
static void prf_squeeze(void *o, uint8_t *out, size_t n) { ascon_prf_squeeze(o, out, n); }
static void prf_free(void *o) { ascon_prf_free(o); }
static int prf_canon(void *o, uint8_t *k) { ascon_prf_state_t *x = o; canon_perm(&x->state, k); k[40] = x->count; k[41] = x->mode; return 42; }
static void prf_oneshot(int a, uint8_t *out, size_t n) { if (XINIT) { objbuf o; prf_init(&o); ascon_prf_absorb((void *)&o, MSG, a); ascon_prf_squeeze((void *)&o, out, n); prf_free(&o); } else ascon_prf(out, n, MSG, a, KEY); }
static size_t prf_single(int a, uint8_t *out, size_t n) { if (!XINIT) return 0; if (n > 40) n = 40; uint8_t t[40]; ascon_prf_fixed(t, 40, MSG, a, KEY); memcpy(out, t, n); return n; }
static void prf_ref(int a, uint8_t *out, size_t n) { ref_prf(KEY, XINIT ? 40 : 0, MSG, a, out, n); }
/* kmac / kmaca (declared 40) */
static void kmac_init(void *o) { if (XA) ascon_kmaca_init(o, KEY, 19, CUSTOM, 5, 40); else ascon_kmac_init(o, KEY, 19, CUSTOM, 5, 40); }
static void kmac_reinit(void *o, int v) { (void)v; if (XA) ascon_kmaca_reinit(o, KEY, 19, CUSTOM, 5, 40); else ascon_kmac_reinit(o, KEY, 19, CUSTOM, 5, 40); }
static void kmac_absorb(void *o, const uint8_t *in, uint8_t *out, size_t n) { (void)out; if (XA) ascon_kmaca_absorb(o, in, n); else ascon_kmac_absorb(o, in, n); }
static void kmac_squeeze(void *o, uint8_t *out, size_t n) { if (XA) ascon_kmaca_squeeze(o, out, n); else ascon_kmac_squeeze(o, out, n); }
static void kmac_free(void *o) { if (XA) ascon_kmaca_free(o); else ascon_kmac_free(o); }
static void kmac_oneshot(int a, uint8_t *out, size_t n) { objbuf o; kmac_init(&o); kmac_absorb(&o, MSG, 0, a); kmac_squeeze(&o, out, n); kmac_free(&o); }
static size_t kmac_single(int a, uint8_t *out, size_t n) { if (n > 40) n = 40; uint8_t t[40]; if (XA) ascon_kmaca(KEY, 19, MSG, a, CUSTOM, 5, t, 40); else ascon_kmac(KEY, 19, MSG, a, CUSTOM, 5, t, 40); memcpy(out, t, n); return n; }
static void kmac_ref(int a, uint8_t *out, size_t n) { ref_cxof2(XA, (const uint8_t *)"KMAC", 4, CUSTOM, 5, 40, KEY, 19, MSG, a, out, n); }
/* kdf / kdfa: squeeze only */
static void kdf_init(void *o) { if (XA) ascon_kdfa_init(o, KEY, 21, CUSTOM, 7, 40); else ascon_kdf_init(o, KEY, 21, CUSTOM, 7, 40); }
static void kdf_reinit(void *o, int v) { (void)v; if (XA) ascon_kdfa_reinit(o, KEY, 21, CUSTOM, 7, 40); else ascon_kdf_reinit(o, KEY, 21, CUSTOM, 7, 40); }
static void kdf_squeeze(void *o, uint8_t *out, size_t n) { if (XA) ascon_kdfa_squeeze(o, out, n); else ascon_kdf_squeeze(o, out, n); }
static void kdf_free(void *o) { if (XA) ascon_kdfa_free(o); else ascon_kdf_free(o); }
static void kdf_oneshot(int a, uint8_t *out, size_t n) { (void)a; objbuf o; kdf_init(&o); kdf_squeeze(&o, out, n); kdf_free(&o); }
static size_t kdf_single(int a, uint8_t *out, size_t n) { (void)a; if (n > 40) n = 40; uint8_t t[40]; if (XA) ascon_kdfa(t, 40, KEY, 21, CUSTOM, 7); else ascon_kdf(t, 40, KEY, 21, CUSTOM, 7); memcpy(out, t, n); return n; }
static void kdf_ref(int a, uint8_t *out, size_t n) { (void)a; ref_cxof(XA, (const uint8_t *)"KDF", 3, CUSTOM, 7, 40, KEY, 21, out, n); }
/* hmac / hmaca */
static void hmac_init(void *o) { if (XA) ascon_hmaca_init(o, KEY, 23); else ascon_hmac_init(o, KEY, 23); }
static void hmac_reinit(void *o, int v) { (void)v; if (XA) ascon_hmaca_reinit(o, KEY, 23); else ascon_hmac_reinit(o, KEY, 23); }
static void hmac_absorb(void *o, const uint8_t *in, uint8_t *out, size_t n) { (void)out; if (XA) ascon_hmaca_update(o, in, n); else ascon_hmac_update(o, in, n); }
static int hmac_final(void *o, uint8_t *out, int a) { (void)a; if (XA) ascon_hmaca_finalize(o, KEY, 23, out); else ascon_hmac_finalize(o, KEY, 23, out); return 0; }
static void hmac_free(void *o) { if (XA) ascon_hmaca_free(o); else ascon_hmac_free(o); }
static void hmac_oneshot(int a, uint8_t *out, size_t n) { (void)n; if (XA) ascon_hmaca(out, KEY, 23, MSG, a); else ascon_hmac(out, KEY, 23, MSG, a); }
static void hmac_ref(int a, uint8_t *out, size_t n) { (void)n; ref_hmac(XA, KEY, 23, MSG, a, out); }
/* hkdf / hkdfa expand */
static void hkdf_init(void *o) { if (XA) ascon_hkdfa_extract(o, KEY, 25, NONCE, 9); else ascon_hkdf_extract(o, KEY, 25, NONCE, 9); }
static void hkdf_squeeze(void *o, uint8_t *out, size_t n) { int r = XA ? ascon_hkdfa_expand(o, CUSTOM, 6, out, n) : ascon_hkdf_expand(o, CUSTOM, 6, out, n); if (r != 0) hx_fail("chunking:hkdf-status", "expand of %zu bytes returned %d far below the limit", n, r); }
static void hkdf_free(void *o) { if (XA) ascon_hkdfa_free(o); else ascon_hkdf_free(o); }
static int hkdf_canon(void *o, uint8_t *k)
{   /* out[] is uninitialised until the first block is produced (counter == 1) and is then the chaining value */
    ascon_hkdf_state_t *x = o; memcpy(k, x->prk, 32); k[32] = x->counter; k[33] = x->posn;
    if (x->counter != 1) memcpy(k + 34, x->out, 32); else memset(k + 34, 0, 32);
    return 66;
}
static void hkdf_oneshot(int a, uint8_t *out, size_t n) { (void)a; if (XA) ascon_hkdfa(out, n, KEY, 25, NONCE, 9, CUSTOM, 6); else ascon_hkdf(out, n, KEY, 25, NONCE, 9, CUSTOM, 6); }
static void hkdf_ref(int a, uint8_t *out, size_t n) { (void)a; ref_hkdf(XA, KEY, 25, NONCE, 9, CUSTOM, 6, out, n); }
/* incremental AEAD encrypt / decrypt */
static int NULLKEY;   /* machine variant ':null': key and nonce given as NULL (documented: all-zero), so that re-initialising a used object must also clear what it held */
static const uint8_t OTHERKEY[20] = {0xA7, 0xA7, 0xA7, 0xA7, 0xA7, 0xA7, 0xA7, 0xA7, 0xA7, 0xA7, 0xA7, 0xA7, 0xA7, 0xA7, 0xA7, 0xA7, 0xA7, 0xA7, 0xA7, 0xA7};
static void aead_init(void *o) { if (NULLKEY) memset(o, 0xEE, sizeof(api_inc_state)); api_inc_init[A_alg](o, NULLKEY ? 0 : NONCE, NULLKEY ? 0 : KEY); api_inc_start[A_alg](o, AD, 5); }
static void aead_reinit(void *o, int v) { (void)v; if (NULLKEY) { api_inc_reinit[A_alg](o, OTHERKEY, OTHERKEY); api_inc_start[A_alg](o, AD, 3); } api_inc_reinit[A_alg](o, NULLKEY ? 0 : NONCE, NULLKEY ? 0 : KEY); api_inc_start[A_alg](o, AD, 5); }
static void aead_process(void *o, const uint8_t *in, uint8_t *out, size_t n) { if (DEC) api_inc_dec[A_alg](o, in, out, n); else api_inc_enc[A_alg](o, in, out, n); }
static int aead_final(void *o, uint8_t *out, int a) { if (DEC) return api_inc_decfin[A_alg](o, TAG[a]); api_inc_encfin[A_alg](o, out); return 0; }
static void aead_free(void *o) { api_inc_free[A_alg](o); }
static int aead_canon(void *o, uint8_t *k)
{
    api_inc_state *s = o; int kl = ref_keylen(A_alg);
    canon_perm(api_inc_perm(A_alg, s), k); k[40] = *api_inc_posn(A_alg, s);
    memcpy(k + 41, A_alg == 0 ? s->a.key : A_alg == 1 ? s->b.key : s->c.key, kl); memcpy(k + 41 + kl, api_inc_nonce(A_alg, s), 16);
    return 41 + kl + 16;
}

static machine mk(const char *name, int in_rate, int out_rate) { machine m; memset(&m, 0, sizeof m); m.name = name; m.in_rate = in_rate; m.out_rate = out_rate; return m; }

/* many small calls: 66,001 bytes in and out in chunks of 7 and 13 (thousands of calls on one object: counters, positions and block bookkeeping far from their initial values) against a single call */
static void longrun(int A)
{
    enum { L = 66001 }; static uint8_t in[L], o1[L + 16], o2[L + 16]; uint8_t d1[32], d2[32]; char kb[48];
    hx_fill(in, L, HX_P_DENSE, 77);
#define CHUNKED(total, step, call) do { size_t done_ = 0; while (done_ < (size_t)(total)) { size_t n_ = (size_t)(total) - done_ < (step) ? (size_t)(total) - done_ : (step); call; done_ += n_; } } while (0)
#define CMP(name, a, b, n) do { hx_stat("evaluations", 1); hx_stat("transitions", (n) / 7 + (n) / 13); if (memcmp(a, b, n)) { snprintf(kb, sizeof kb, "chunking:longrun:%s%s", name, A ? "a" : ""); size_t i_ = 0; while ((a)[i_] == (b)[i_]) i_++; hx_fail(kb, "%d bytes in chunks of 7 / 13 differ from the single-call result at byte %zu", L, i_); } } while (0)
    { union { ascon_hash_state_t h; ascon_hasha_state_t ha; } s;
      if (A) { ascon_hasha(d1, in, L); ascon_hasha_init(&s.ha); CHUNKED(L, 7, ascon_hasha_update(&s.ha, in + done_, n_)); ascon_hasha_finalize(&s.ha, d2); ascon_hasha_free(&s.ha); }
      else { ascon_hash(d1, in, L); ascon_hash_init(&s.h); CHUNKED(L, 7, ascon_hash_update(&s.h, in + done_, n_)); ascon_hash_finalize(&s.h, d2); ascon_hash_free(&s.h); }
      ref_hash(A, in, L, o1); CMP("hash", d1, d2, 32); CMP("hash-vs-reference", d1, o1, 32); }
    { union { ascon_xof_state_t x; ascon_xofa_state_t xa; } s;
      if (A) { ascon_xofa_init(&s.xa); ascon_xofa_absorb(&s.xa, in, L); ascon_xofa_squeeze(&s.xa, o1, L); ascon_xofa_free(&s.xa); ascon_xofa_init(&s.xa); CHUNKED(L, 7, ascon_xofa_absorb(&s.xa, in + done_, n_)); CHUNKED(L, 13, ascon_xofa_squeeze(&s.xa, o2 + done_, n_)); ascon_xofa_free(&s.xa); }
      else { ascon_xof_init(&s.x); ascon_xof_absorb(&s.x, in, L); ascon_xof_squeeze(&s.x, o1, L); ascon_xof_free(&s.x); ascon_xof_init(&s.x); CHUNKED(L, 7, ascon_xof_absorb(&s.x, in + done_, n_)); CHUNKED(L, 13, ascon_xof_squeeze(&s.x, o2 + done_, n_)); ascon_xof_free(&s.x); }
      CMP("xof", o1, o2, L); ref_xof(A, in, L, o2, 64); CMP("xof-vs-reference", o1, o2, 64); }
    { union { ascon_hmac_state_t h; ascon_hmaca_state_t ha; } s;
      if (A) { ascon_hmaca(d1, KEY, 20, in, L); ascon_hmaca_init(&s.ha, KEY, 20); CHUNKED(L, 7, ascon_hmaca_update(&s.ha, in + done_, n_)); ascon_hmaca_finalize(&s.ha, KEY, 20, d2); ascon_hmaca_free(&s.ha); }
      else { ascon_hmac(d1, KEY, 20, in, L); ascon_hmac_init(&s.h, KEY, 20); CHUNKED(L, 7, ascon_hmac_update(&s.h, in + done_, n_)); ascon_hmac_finalize(&s.h, KEY, 20, d2); ascon_hmac_free(&s.h); }
      CMP("hmac", d1, d2, 32); }
    { union { ascon_kmac_state_t k; ascon_kmaca_state_t ka; } s;
      if (A) { ascon_kmaca(KEY, 16, in, L, CUSTOM, 5, o1, 4000); ascon_kmaca_init(&s.ka, KEY, 16, CUSTOM, 5, 4000); CHUNKED(L, 7, ascon_kmaca_absorb(&s.ka, in + done_, n_)); CHUNKED(4000, 13, ascon_kmaca_squeeze(&s.ka, o2 + done_, n_)); ascon_kmaca_free(&s.ka); }
      else { ascon_kmac(KEY, 16, in, L, CUSTOM, 5, o1, 4000); ascon_kmac_init(&s.k, KEY, 16, CUSTOM, 5, 4000); CHUNKED(L, 7, ascon_kmac_absorb(&s.k, in + done_, n_)); CHUNKED(4000, 13, ascon_kmac_squeeze(&s.k, o2 + done_, n_)); ascon_kmac_free(&s.k); }
      CMP("kmac", o1, o2, 4000); }
    { union { ascon_hkdf_state_t h; ascon_hkdfa_state_t ha; } s; int r = 0;
      if (A) { ascon_hkdfa(o1, 8160, KEY, 20, NONCE, 16, AD, 7); ascon_hkdfa_extract(&s.ha, KEY, 20, NONCE, 16); CHUNKED(8160, 13, r |= ascon_hkdfa_expand(&s.ha, AD, 7, o2 + done_, n_)); ascon_hkdfa_free(&s.ha); }
      else { ascon_hkdf(o1, 8160, KEY, 20, NONCE, 16, AD, 7); ascon_hkdf_extract(&s.h, KEY, 20, NONCE, 16); CHUNKED(8160, 13, r |= ascon_hkdf_expand(&s.h, AD, 7, o2 + done_, n_)); ascon_hkdf_free(&s.h); }
      CMP("hkdf", o1, o2, 8160); if (r) hx_fail("chunking:longrun:hkdf", "an expand call within the 8160-byte limit was refused"); }
    if (!A) {
        ascon_prf_state_t s; ascon_prf(o1, L, in, L, KEY); ascon_prf_init(&s, KEY); CHUNKED(L, 7, ascon_prf_absorb(&s, in + done_, n_)); CHUNKED(L, 13, ascon_prf_squeeze(&s, o2 + done_, n_)); ascon_prf_free(&s);
        CMP("prf", o1, o2, L);
        for (int alg = 0; alg < 3; alg++) {
            size_t cl = 0; api_inc_state st; char nm[24];
            api_aead_enc[alg](o1, &cl, in, L, AD, 5, NONCE, KEY);
            api_inc_init[alg](&st, NONCE, KEY); api_inc_start[alg](&st, AD, 5); CHUNKED(L, 7, api_inc_enc[alg](&st, in + done_, o2 + done_, n_)); api_inc_encfin[alg](&st, o2 + L); api_inc_free[alg](&st);
            snprintf(nm, sizeof nm, "enc%s", api_alg_name[alg]); CMP(nm, o1, o2, L + 16);
            api_inc_init[alg](&st, NONCE, KEY); api_inc_start[alg](&st, AD, 5); memcpy(o2, o1, L); CHUNKED(L, 13, api_inc_dec[alg](&st, o2 + done_, o2 + done_, n_)); int r = api_inc_decfin[alg](&st, o1 + L); api_inc_free[alg](&st);
            snprintf(nm, sizeof nm, "dec%s", api_alg_name[alg]); CMP(nm, o2, in, L); if (r) { snprintf(kb, sizeof kb, "chunking:longrun:%s", nm); hx_fail(kb, "genuine tag rejected after %d in-place chunks", L / 13); }
        }
    }
    hx_stat("states", 1); hx_stat("traces_validated", 1);
    hx_sample("long run a=%d: %d bytes through every incremental interface in chunks of 7 (in) / 13 (out) against the single-call result", A, L);
}

/* the C++ hash / XOF objects: copy construction, assignment over a used object and self-assignment in the middle of a message */
void cpp_xof_copy(int a, const unsigned char *m, size_t n, unsigned char *out, size_t outlen, int mode);
void cpp_hash_chunks(int a, const unsigned char *m, size_t n, size_t s1, size_t s2, int form, unsigned char *out);
void cpp_xof_chunks(int a, const unsigned char *m, size_t n, size_t s1, size_t s2, int form, unsigned char *out);
void cpp_xof(int a, size_t declared, const unsigned char *m, size_t n, unsigned char *out, size_t outlen);
void cpp_hash(int a, const unsigned char *m, size_t n, unsigned char *out);
void cpp_hash_copy(int a, const unsigned char *m, size_t n, unsigned char *out, int mode);
static void cppcopy(void)
{
    static const char *mn[] = {"copy-constructed", "assigned", "self-assigned"}; uint8_t got[48], exp[48]; char kb[64];
    for (int A = 0; A < 2; A++) for (int mode = 0; mode < 3; mode++) for (size_t n = 0; n <= 40; n++) {
        ref_xof(A, MSG, n, exp, 40); cpp_xof_copy(A, MSG, n, got, 40, mode); hx_stat("evaluations", 1); hx_stat("transitions", 1);
        if (memcmp(got, exp, 40)) { snprintf(kb, sizeof kb, "chunking:cpp:xof%s", A ? "a" : ""); hx_fail(kb, "%s object in the middle of a %zu-byte message does not continue like the original", mn[mode], n); }
        ref_hash(A, MSG, n, exp); cpp_hash_copy(A, MSG, n, got, mode); hx_stat("evaluations", 1); hx_stat("transitions", 1);
        if (memcmp(got, exp, 32)) { snprintf(kb, sizeof kb, "chunking:cpp:hash%s", A ? "a" : ""); hx_fail(kb, "%s object in the middle of a %zu-byte message does not continue like the original", mn[mode], n); }
    }
    /* chunked input through every overload of update / absorb (pointer+length, byte_array, std::string), every pair of cut points; the data holds NUL and high bytes */
    { uint8_t data[24]; for (int i = 0; i < 24; i++) data[i] = (uint8_t)((i % 3 == 1) ? 0 : (i % 5 == 2) ? 0x80 + i : MSG[i]);
      for (int A = 0; A < 2; A++) for (size_t n = 0; n <= 24; n += (n < 18 ? 3 : 1)) for (size_t s1 = 0; s1 <= n; s1++) for (size_t s2 = s1; s2 <= n; s2++) for (int form = 0; form < 3; form++) {
        ref_hash(A, data, n, exp); cpp_hash_chunks(A, data, n, s1, s2, form, got); hx_stat("evaluations", 2); hx_stat("transitions", 2);
        if (memcmp(got, exp, 32)) { snprintf(kb, sizeof kb, "chunking:cpp:hash%s", A ? "a" : ""); hx_fail(kb, "update overload %d: %zu bytes cut at %zu and %zu differ from the single-call digest", form, n, s1, s2); }
        ref_xof(A, data, n, exp, 32); cpp_xof_chunks(A, data, n, s1, s2, form, got);
        if (memcmp(got, exp, 32)) { snprintf(kb, sizeof kb, "chunking:cpp:xof%s", A ? "a" : ""); hx_fail(kb, "absorb / squeeze overload %d: %zu bytes cut at %zu and %zu differ from the single-call result", form, n, s1, s2); }
      } }
    /* pad (C interface): absorb(A), pad, absorb(B) in every chunking of A and B equals the single-call XOF of A, zeros up to the next multiple of the rate, B; pad on an aligned state absorbs nothing */
    for (int A = 0; A < 2; A++) for (size_t la = 0; la <= 17; la++) for (size_t lb = 0; lb <= 9; lb += 3) for (size_t ca = 0; ca <= la; ca += (la > 6 ? 3 : 1)) {
        uint8_t pm[48]; size_t pl = (la + 7) / 8 * 8; memset(pm, 0, sizeof pm); memcpy(pm, MSG, la); memcpy(pm + pl, MSG + 20, lb);
        ref_xof(A, pm, pl + lb, exp, 40);
        union { ascon_xof_state_t x; ascon_xofa_state_t xa; } st2;
        if (A) { ascon_xofa_init(&st2.xa); ascon_xofa_absorb(&st2.xa, MSG, ca); ascon_xofa_absorb(&st2.xa, MSG + ca, la - ca); ascon_xofa_pad(&st2.xa); ascon_xofa_pad(&st2.xa); ascon_xofa_absorb(&st2.xa, MSG + 20, lb); ascon_xofa_squeeze(&st2.xa, got, 13); ascon_xofa_squeeze(&st2.xa, got + 13, 27); ascon_xofa_free(&st2.xa); }
        else { ascon_xof_init(&st2.x); ascon_xof_absorb(&st2.x, MSG, ca); ascon_xof_absorb(&st2.x, MSG + ca, la - ca); ascon_xof_pad(&st2.x); ascon_xof_pad(&st2.x); ascon_xof_absorb(&st2.x, MSG + 20, lb); ascon_xof_squeeze(&st2.x, got, 13); ascon_xof_squeeze(&st2.x, got + 13, 27); ascon_xof_free(&st2.x); }
        hx_stat("evaluations", 1); hx_stat("transitions", 1);
        if (memcmp(got, exp, 40)) { snprintf(kb, sizeof kb, "chunking:pad:xof%s", A ? "a" : ""); hx_fail(kb, "absorb(%zu + %zu), pad, pad, absorb(%zu) differs from the single-call XOF over the zero-padded message", ca, la - ca, lb); }
    }
    /* reset(): a used (and, every other time, already squeezed / finalised) C++ object that is reset continues like a fresh one -- plain classes and the fixed-length templates */
    for (int A = 0; A < 2; A++) for (size_t n = 0; n <= 24; n += 4) for (int rep = 0; rep < 4; rep++) {
        static const size_t decl[3] = {0, 32, 64};
        for (int d = 0; d < 3; d++) { ref_xof_fixed(A, decl[d], MSG, n, exp, 40); cpp_xof(A, decl[d], MSG, n, got, 40); hx_stat("evaluations", 1); hx_stat("transitions", 1);
            if (memcmp(got, exp, 40)) { snprintf(kb, sizeof kb, "chunking:cpp:xof%s", A ? "a" : ""); hx_fail(kb, "declared length %zu: an object that was used and reset() does not continue like a fresh one (%zu bytes)", decl[d], n); } }
        ref_hash(A, MSG, n, exp); cpp_hash(A, MSG, n, got);
        if (memcmp(got, exp, 32)) { snprintf(kb, sizeof kb, "chunking:cpp:hash%s", A ? "a" : ""); hx_fail(kb, "an object that was used and reset() does not continue like a fresh one (%zu bytes)", n); }
    }
    hx_stat("states", 1); hx_stat("traces_validated", 1);
    hx_sample("C++ hash/hasha/xof/xofa objects: copy construction, assignment over a used object, self-assignment at the midpoint of messages of 0..40 bytes");
}

int main(int argc, char **argv)
{
    hx_init();
    if (argc < 3) return 2;
    const char *mn = argv[1]; int tier = atoi(argv[2]);
    hx_fill(MSG, sizeof MSG, HX_P_DENSE, 4); hx_fill(KEY, sizeof KEY, HX_P_DENSE, 1); hx_fill(NONCE, 16, HX_P_DENSE, 2); hx_fill(AD, 16, HX_P_DENSE, 3); hx_fill(CUSTOM, 16, HX_P_DENSE, 5);
    if (!strcmp(mn, "cppcopy")) { cppcopy(); hx_finish(); return 0; }
    if (!strncmp(mn, "longrun", 7)) { longrun(mn[7] == '-'); hx_finish(); return 0; }
    machine m; char base[32]; int variant = 0;
    /* name syntax: xof, xofa, xof:fixed, xof:custom, hash, hasha, prf, prf:fixed, kmac, kmaca, kdf, kdfa, hmac, hmaca, hkdf, hkdfa, enc128, enc128a, enc80pq, dec128, ... */
    snprintf(base, sizeof base, "%s", mn); char *colon = strchr(base, ':'); if (colon) { *colon = 0; variant = !strcmp(colon + 1, "fixed") ? 1 : 2; }
    XINIT = variant;
    if (!strcmp(base, "xof") || !strcmp(base, "xofa")) {
        XA = !strcmp(base, "xofa"); m = mk(mn, 8, 8); m.has_absorb = 1; m.has_copy = 1; m.n_reinit = 1;
        m.init = xof_init; m.reinit = xof_reinit; m.absorb = xof_absorb; m.squeeze = xof_squeeze; m.copy = xof_copy; m.freef = xof_free; m.canon = xof_canon; m.oneshot = xof_oneshot; m.single = xof_single; m.refshot = xof_ref;
    } else if (!strcmp(base, "hash") || !strcmp(base, "hasha")) {
        XA = !strcmp(base, "hasha"); m = mk(mn, 8, 8); m.has_absorb = 1; m.has_copy = 1; m.n_reinit = 1; m.terminal = 1; m.final_len = 32;
        m.init = hash_init; m.reinit = hash_reinit; m.absorb = hash_absorb; m.final = hash_final; m.copy = hash_copy; m.freef = hash_free; m.canon = xof_canon; m.oneshot = hash_oneshot; m.refshot = hash_ref;
    } else if (!strcmp(base, "prf")) {
        m = mk(mn, 32, 16); m.has_absorb = 1; m.n_reinit = 1;
        m.init = prf_init; m.reinit = prf_reinit; m.absorb = prf_absorb; m.squeeze = prf_squeeze; m.freef = prf_free; m.canon = prf_canon; m.oneshot = prf_oneshot; m.single = prf_single; m.refshot = prf_ref;
    } else if (!strcmp(base, "kmac") || !strcmp(base, "kmaca")) {
        XA = !strcmp(base, "kmaca"); m = mk(mn, 8, 8); m.has_absorb = 1; m.n_reinit = 1;
        m.init = kmac_init; m.reinit = kmac_reinit; m.absorb = kmac_absorb; m.squeeze = kmac_squeeze; m.freef = kmac_free; m.canon = xof_canon; m.oneshot = kmac_oneshot; m.single = kmac_single; m.refshot = kmac_ref;
    } else if (!strcmp(base, "kdf") || !strcmp(base, "kdfa")) {
        XA = !strcmp(base, "kdfa"); m = mk(mn, 8, 8); m.n_reinit = 1;
        m.init = kdf_init; m.reinit = kdf_reinit; m.squeeze = kdf_squeeze; m.freef = kdf_free; m.canon = xof_canon; m.oneshot = kdf_oneshot; m.single = kdf_single; m.refshot = kdf_ref;
    } else if (!strcmp(base, "hmac") || !strcmp(base, "hmaca")) {
        XA = !strcmp(base, "hmaca"); m = mk(mn, 8, 8); m.has_absorb = 1; m.n_reinit = 1; m.terminal = 1; m.final_len = 32;
        m.init = hmac_init; m.reinit = hmac_reinit; m.absorb = hmac_absorb; m.final = hmac_final; m.freef = hmac_free; m.canon = xof_canon; m.oneshot = hmac_oneshot; m.refshot = hmac_ref;
    } else if (!strcmp(base, "hkdf") || !strcmp(base, "hkdfa")) {
        XA = !strcmp(base, "hkdfa"); m = mk(mn, 32, 32);
        m.init = hkdf_init; m.squeeze = hkdf_squeeze; m.freef = hkdf_free; m.canon = hkdf_canon; m.oneshot = hkdf_oneshot; m.refshot = hkdf_ref;
    } else if (!strncmp(base, "enc", 3) || !strncmp(base, "dec", 3)) {
        DEC = base[0] == 'd'; A_alg = !strcmp(base + 3, "128") ? 0 : !strcmp(base + 3, "128a") ? 1 : 2;
        NULLKEY = colon && !strcmp(colon + 1, "null");
        if (NULLKEY) { /* make the object hold another key first: the harness's own "fresh" object starts from storage that held a keyed state */ memset(KEY, 0, sizeof KEY); memset(NONCE, 0, 16); }
        int r = ref_rate(A_alg); m = mk(mn, r, r); m.has_absorb = 1; m.transducer = 1; m.has_inplace = 1; m.terminal = 1; m.final_len = 16; m.n_reinit = 1;
        m.init = aead_init; m.reinit = aead_reinit; m.absorb = aead_process; m.final = aead_final; m.freef = aead_free; m.canon = aead_canon;
    } else { fprintf(stderr, "unknown machine %s\n", mn); return 2; }
    m.amax = m.has_absorb ? 3 * m.in_rate + 2 : 0;
    m.smax = (tier ? 10 : 3) * m.out_rate + 2;
    if (tier && m.has_absorb) m.amax = (m.in_rate >= 32 ? 6 : 9) * m.in_rate + 2;
    if (tier) chunkmul = 3;
    if (tier >= 2) { chunkmul = 4; m.smax = 16 * m.out_rate + 2; if (m.has_absorb) m.amax = (m.in_rate >= 32 ? 9 : 16) * m.in_rate + 2; }
    M = &m;
    char kb[64]; snprintf(kb, sizeof kb, "chunking:%s", M->name);
    /* expectations from the library's own one-shot calls, cross-checked against the reference */
    if (m.transducer) {
        for (int a = 0; a <= m.amax; a++) {
            uint8_t c[600], rc[600]; size_t cl = 0;
            api_aead_enc[A_alg](c, &cl, MSG, a, AD, 5, NONCE, KEY);
            ref_aead_encrypt(A_alg, KEY, NONCE, AD, 5, MSG, a, rc);
            if (cl != (size_t)a + 16 || memcmp(c, rc, cl)) hx_fail(kb, "one-shot encryption differs from the reference for mlen=%d (see C01)", a);
            memcpy(TAG[a], c + a, 16);
            if (a == m.amax) memcpy(CT, c, a);
        }
    } else {
        size_t need = m.terminal ? (size_t)m.final_len : (size_t)m.smax;
        for (int a = 0; a <= m.amax; a++) {
            EXP[a] = malloc(need + 8); uint8_t *r = malloc(need + 8);
            m.oneshot(a, EXP[a], need); m.refshot(a, r, need);
            if (memcmp(EXP[a], r, need)) hx_fail(kb, "one-shot result differs from the reference for inlen=%d (see C03-C05)", a);
            if (m.single) { size_t k = m.single(a, r, need); if (k && memcmp(EXP[a], r, k)) hx_fail(kb, "the single-call function gives other bytes than init+absorb+squeeze for inlen=%d (first %d bytes compared)", a, (int)k); }
            free(r);
        }
    }
    explore();
    hx_finish();
    return 0;
}
