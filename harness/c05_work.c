/* C05 work model for the PBKDF2 iteration count: counts in the whole range of `unsigned long`.
 * The permutation is the only place work is done; it is wrapped at link time (-Wl,--wrap=ascon_permute) and counted.
 * Step 1: for counts 1..N the number of permutation calls P(c) is measured exactly (the outputs of these calls are judged
 * by the c05 harness against the reference) and must be affine from c = 1 on: P(c) = P(1) + d * (c - 1) with d >= 1 --
 * one PRF call per iteration, as RFC 8018 says.  Count 0 must cost what count 1 costs.
 * Step 2: for counts that no run can finish (2^32 .. ULONG_MAX) the call is started and the wrapper leaves it with longjmp
 * once K iterations' worth of permutation calls have been made; a call that RETURNS before that has performed fewer than
 * K < count iterations.  Every (flavour, password/salt class, output length, count) of the listed alphabet is run.
 * usage: c05_work <tier> */
#include <ascon/pbkdf2.h>
#include <ascon/permutation.h>
#include <stdio.h>
#include <stdlib.h>
#include <string.h>
#include <stdint.h>
#include <limits.h>
#include <setjmp.h>

static unsigned long long calls, budget; static jmp_buf out;
void __real_ascon_permute(ascon_state_t *state, uint8_t first_round);
void __wrap_ascon_permute(ascon_state_t *state, uint8_t first_round);
void __wrap_ascon_permute(ascon_state_t *state, uint8_t first_round)
{
    if (budget && calls >= budget) longjmp(out, 1);
    calls++; __real_ascon_permute(state, first_round);
}
typedef void (*pb_fn)(unsigned char *, size_t, const unsigned char *, size_t, const unsigned char *, size_t, unsigned long);
static unsigned char pw[200], salt[200], okm[200];
static unsigned long long cost(pb_fn f, size_t ol, size_t pl, size_t sl, unsigned long c)
{
    calls = 0; budget = 0; f(okm, ol, pw, pl, salt, sl, c); return calls;
}
int main(int argc, char **argv)
{
    int tier = argc > 1 ? atoi(argv[1]) : 0; long evals = 0, big = 0;
    for (unsigned i = 0; i < sizeof(pw); i++) { pw[i] = (unsigned char)(i * 11 + 3); salt[i] = (unsigned char)(i * 5 + 9); }
    const pb_fn F[2] = { ascon_pbkdf2, ascon_pbkdf2_hmac }; const char *FN[2] = { "pbkdf2", "pbkdf2_hmac" };
    const size_t OL[] = { 1, 32, 33, 70 }, PL[] = { 0, 9, 65, 130 }, SL[] = { 0, 16, 41 };
    const unsigned long N = tier ? 48 : 20, K = tier ? 60000 : 12000;
    unsigned long BIG[16]; int nb = 0;
    if (sizeof(unsigned long) > 4) {
        unsigned long one = 1;
        BIG[nb++] = one << 32; BIG[nb++] = (one << 32) + 1; BIG[nb++] = (one << 32) + 2; BIG[nb++] = (one << 32) + 3; BIG[nb++] = (one << 33) + 5;
        BIG[nb++] = (one << 40); BIG[nb++] = (one << 48) + 2; BIG[nb++] = (one << 63); BIG[nb++] = (one << 63) + 1;
    }
    BIG[nb++] = 0x7FFFFFFFUL; BIG[nb++] = 0x80000000UL; BIG[nb++] = 0x80000001UL; BIG[nb++] = 0xFFFFFFFFUL; BIG[nb++] = 0x10000UL + 3; BIG[nb++] = ULONG_MAX; BIG[nb++] = ULONG_MAX - 1;
    for (int f = 0; f < 2; f++) for (unsigned a = 0; a < 4; a++) for (unsigned b = 0; b < 4; b++) for (unsigned s = 0; s < 3; s++) {
        if (!tier && (a + b + s) % 2) continue;
        size_t ol = OL[a], pl = PL[b], sl = SL[s];
        unsigned long long p0 = cost(F[f], ol, pl, sl, 0), p1 = cost(F[f], ol, pl, sl, 1), p2 = cost(F[f], ol, pl, sl, 2), d = p2 - p1; evals += 3;
        if (p0 != p1) printf("FAIL work:%s count 0 costs %llu permutation calls, count 1 costs %llu (outlen %zu pw %zu salt %zu)\n", FN[f], p0, p1, ol, pl, sl);
        if (p2 <= p1) { printf("FAIL work:%s count 2 costs no more than count 1 (%llu vs %llu permutation calls; outlen %zu pw %zu salt %zu)\n", FN[f], p2, p1, ol, pl, sl); continue; }
        for (unsigned long c = 3; c <= N; c++) {
            unsigned long long pc = cost(F[f], ol, pl, sl, c); evals++;
            if (pc != p1 + d * (c - 1)) { printf("FAIL work:%s count %lu costs %llu permutation calls, the iteration model says %llu + %llu * %lu (outlen %zu pw %zu salt %zu)\n", FN[f], c, pc, p1, d, c - 1, ol, pl, sl); break; }
        }
        for (int i = 0; i < nb; i++) {
            unsigned long c = BIG[i]; unsigned long k = c - 1 < K ? c - 1 : K;   /* iterations' worth of work that must be seen */
            calls = 0; budget = p1 + d * k; evals++; big++;
            if (setjmp(out) == 0) {
                F[f](okm, ol, pw, pl, salt, sl, c);
                unsigned long long done = calls; budget = 0;
                printf("FAIL work:%s count %lu (0x%lx) returned after %llu permutation calls: fewer than the %llu that %lu of its iterations cost (outlen %zu pw %zu salt %zu)\n",
                       FN[f], c, c, done, p1 + d * k, k, ol, pl, sl);
            }
            budget = 0;
        }
    }
    printf("STAT evaluations %ld\nSTAT work_model_calls %ld\nSTAT unfinishable_counts_started %ld\n", evals, evals - big, big);
    return 0;
}
