/* Linearised-permutation completeness check for the keyed modes.
 * usage: lpc_modes <family> <alg> <maxlen>
 * family: aead | inc | siv | isap | prf | mac | prfshort
 * For every shape the (library, reference) pair is compared on the zero input and on every
 * unit vector of K||N||A||P; affineness of the library function under T is tested on
 * additivity triples.  Agreement + affineness => agreement on all 2^n inputs of the shape. */
#include "hx.h"
#include "api.h"
#include "lpc.h"
#include <ascon/prf.h>

static const char *family;
static int alg;

typedef struct { size_t klen, nlen, adlen, mlen, outlen; } shape;

static void impl(const shape *s, const uint8_t *x, uint8_t *out)
{
    const uint8_t *k = x, *n = x + s->klen, *ad = x + s->klen + s->nlen, *m = ad + s->adlen;
    size_t clen = 0;
    if (!strcmp(family, "aead")) api_aead_enc[alg](out, &clen, m, s->mlen, ad, s->adlen, n, k);
    else if (!strcmp(family, "inc")) {
        api_inc_state st;
        api_inc_init[alg](&st, n, k); api_inc_start[alg](&st, ad, s->adlen);
        api_inc_enc[alg](&st, m, out, s->mlen); api_inc_encfin[alg](&st, out + s->mlen); api_inc_free[alg](&st);
    } else if (!strcmp(family, "siv")) api_siv_enc[alg](out, &clen, m, s->mlen, ad, s->adlen, n, k);
    else if (!strcmp(family, "isap")) {
        api_isap_key pk;
        api_isap_init[alg](&pk, k);
        api_isap_enc[alg](out, &clen, m, s->mlen, ad, s->adlen, n, &pk);
        api_isap_free[alg](&pk);
    } else if (!strcmp(family, "prf")) ascon_prf(out, s->outlen, m, s->mlen, k);
    else if (!strcmp(family, "mac")) ascon_mac(out, m, s->mlen, k);
    else if (!strcmp(family, "prfshort")) ascon_prf_short(out, s->outlen, m, s->mlen, k);
}
static void refm(const shape *s, const uint8_t *x, uint8_t *out)
{
    const uint8_t *k = x, *n = x + s->klen, *ad = x + s->klen + s->nlen, *m = ad + s->adlen;
    if (!strcmp(family, "aead") || !strcmp(family, "inc")) ref_aead_encrypt(alg, k, n, ad, s->adlen, m, s->mlen, out);
    else if (!strcmp(family, "siv")) ref_siv_encrypt(alg, k, n, ad, s->adlen, m, s->mlen, out);
    else if (!strcmp(family, "isap")) ref_isap_encrypt(alg, k, n, ad, s->adlen, m, s->mlen, out);
    else if (!strcmp(family, "prf")) ref_prf(k, 0, m, s->mlen, out, s->outlen);
    else if (!strcmp(family, "mac")) ref_prf(k, 16, m, s->mlen, out, 16);
    else if (!strcmp(family, "prfshort")) ref_prf_short(k, m, s->mlen, out, s->outlen);
}

static void shape_check(const shape *s)
{
    size_t il = s->klen + s->nlen + s->adlen + s->mlen, ol = s->outlen;
    uint8_t *x = hx_buf(il), *y = hx_buf(ol), *z = hx_buf(ol);
    char kb[64]; snprintf(kb, sizeof kb, "lpc:%s:%s", family, !strcmp(family, "isap") ? api_isap_name[alg] : api_alg_name[alg]);
    for (size_t bit = 0; bit <= il * 8; bit++) {
        memset(x, 0, il);
        if (bit) x[(bit - 1) / 8] = (uint8_t)(0x80 >> ((bit - 1) % 8));
        memset(y, 0x11, ol); memset(z, 0x22, ol);
        impl(s, x, y); refm(s, x, z);
        hx_stat("evaluations", 1);
        if (memcmp(y, z, ol)) { hx_fail(kb, "basis input bit=%zu adlen=%zu mlen=%zu outlen=%zu differs from reference under T", bit, s->adlen, s->mlen, ol); break; }
    }
    /* additivity triples: affineness of the library function itself */
    uint8_t *a = hx_buf(il), *b = hx_buf(il), *c = hx_buf(il), *ya = hx_buf(ol), *yb = hx_buf(ol), *yc = hx_buf(ol);
    for (int t = 0; t < 3; t++) {
        hx_fill(a, il, HX_P_DENSE, 10 + t); hx_fill(b, il, HX_P_DENSE2, 20 + t); hx_fill(c, il, HX_P_DENSE, 30 + t);
        for (size_t i = 0; i < il; i++) x[i] = a[i] ^ b[i] ^ c[i];
        impl(s, a, ya); impl(s, b, yb); impl(s, c, yc); impl(s, x, y);
        hx_stat("additivity_triples", 1);
        for (size_t i = 0; i < ol; i++) if ((ya[i] ^ yb[i] ^ yc[i]) != y[i]) { hx_fail(kb, "library function not affine under T (assumption broken) adlen=%zu mlen=%zu", s->adlen, s->mlen); break; }
        refm(s, x, z);
        if (memcmp(y, z, ol)) hx_fail(kb, "dense input differs from reference under T adlen=%zu mlen=%zu", s->adlen, s->mlen);
    }
    if (!hx_buf_ok(y, ol)) hx_fail(kb, "wrote outside output buffer");
    hx_stat("shapes", 1);
    hx_free(x); hx_free(y); hx_free(z); hx_free(a); hx_free(b); hx_free(c); hx_free(ya); hx_free(yb); hx_free(yc);
}

int main(int argc, char **argv)
{
    hx_init();
    if (argc < 4) return 2;
    family = argv[1]; alg = atoi(argv[2]); int maxlen = atoi(argv[3]);
    lpc_install();
    shape s;
    if (!strcmp(family, "prf") || !strcmp(family, "mac") || !strcmp(family, "prfshort")) {
        s.klen = 16; s.nlen = 0; s.adlen = 0;
        int mmax = !strcmp(family, "prfshort") ? 16 : maxlen * 2;
        for (int m = 0; m <= mmax; m++) {
            int omax = !strcmp(family, "mac") ? 16 : !strcmp(family, "prfshort") ? 16 : maxlen;
            for (int o = (!strcmp(family, "mac") ? 16 : 0); o <= omax; o++) { s.mlen = m; s.outlen = o; shape_check(&s); }
        }
    } else {
        s.klen = !strcmp(family, "isap") ? ref_isap_keylen(alg) : ref_keylen(alg); s.nlen = 16;
        for (int a = 0; a <= maxlen; a++) for (int m = 0; m <= maxlen; m++) { s.adlen = a; s.mlen = m; s.outlen = m + 16; shape_check(&s); }
    }
    hx_sample("family=%s alg=%d shapes up to %d: zero + every unit vector of K||N||A||P, 3 additivity triples per shape", family, alg, maxlen);
    hx_finish();
    return 0;
}
