/* C18e: the checked-in i386 assembly run on the real CPU (32-bit freestanding program, no libc).
 * stdin : records of 1 + 40 bytes: first_round, raw state memory (10 little-endian 32-bit words, the backend's own layout)
 * stdout: records of 40 + 1 bytes: state memory after ascon_permute, status bits
 *         bit0 ebx, bit1 esi, bit2 edi, bit3 ebp not restored; bit4 esp not restored; bit5 guard word around the state changed;
 *         bit6 the words above the arguments (caller's frame) changed */
typedef unsigned int u32; typedef unsigned char u8;
extern void c18_call_checked(void *state, u32 first_round, u32 *report);
static long sys3(long n, long a, long b, long c) { long r; __asm__ volatile("int $0x80" : "=a"(r) : "a"(n), "b"(a), "c"(b), "d"(c) : "memory"); return r; }
static u8 ibuf[41 * 4096], obuf[41 * 4096];
static struct { u32 before[8]; u32 st[10]; u32 after[8]; } area;
static long readn(u8 *p, long n) { long got = 0; while (got < n) { long r = sys3(3, 0, (long)(p + got), n - got); if (r <= 0) break; got += r; } return got; }
static void writen(const u8 *p, long n) { long done = 0; while (done < n) { long r = sys3(4, 1, (long)(p + done), n - done); if (r <= 0) sys3(1, 3, 0, 0); done += r; } }
void _start(void)
{
    for (;;) {
        long got = readn(ibuf, sizeof ibuf); long nrec = got / 41;
        if (nrec == 0) break;
        for (long k = 0; k < nrec; k++) {
            const u8 *rec = ibuf + 41 * k; u8 *out = obuf + 41 * k; u32 rep[8]; u8 status = 0;
            for (int i = 0; i < 8; i++) { area.before[i] = 0xC0DE0000u + i; area.after[i] = 0xFACE0000u + i; }
            for (int i = 0; i < 40; i++) ((u8 *)area.st)[i] = rec[1 + i];
            c18_call_checked(area.st, rec[0], rep);
            if (rep[0] != 0xA5A50001u) status |= 1; if (rep[1] != 0xA5A50002u) status |= 2; if (rep[2] != 0xA5A50003u) status |= 4; if (rep[3] != 0xA5A50004u) status |= 8;
            if (rep[4] != rep[5]) status |= 16;
            for (int i = 0; i < 8; i++) if (area.before[i] != 0xC0DE0000u + i || area.after[i] != 0xFACE0000u + i) status |= 32;
            if (rep[6]) status |= 64;
            for (int i = 0; i < 40; i++) out[i] = ((u8 *)area.st)[i];
            out[40] = status;
        }
        writen(obuf, nrec * 41);
        if (got < (long)sizeof ibuf) break;
    }
    sys3(1, 0, 0, 0);
    for (;;) { }
}
