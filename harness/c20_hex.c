/* C20 (codec part): hex encode/decode against a reference decoder.
 * usage: c20_hex all3 <first byte lo> <first byte hi> | classes <tier> | encode <tier> */
#include "hx.h"
#include "ref.h"
#include <ascon/utility.h>

static long n_eval;
static void dec_case(const char *s, size_t len, size_t outlen, const char *what)
{
    uint8_t e[16]; uint8_t *o = hx_buf(outlen); memset(o, 0xAA, outlen);
    uint8_t *in = hx_buf(len); memcpy(in, s, len);       /* exact-size input: over-reads hit the canary zone / ASan */
    int r = ascon_bytes_from_hex(o, outlen, (const char *)in, len);
    int rr = ref_hex_decode(e, outlen, s, len);
    n_eval++;
    if (r != rr) {
        char h[40]; hx_hex(h, (const uint8_t *)s, len > 16 ? 16 : len);
        hx_fail("hex:decode-result", "%s: input bytes %s (len %zu) outlen %zu: returned %d, expected %d", what, h, len, outlen, r, rr);
    } else if (rr > 0 && memcmp(o, e, rr)) hx_fail("hex:decode-value", "%s: decoded bytes differ (len %zu outlen %zu)", what, len, outlen);
    if (!hx_buf_ok(o, outlen)) hx_fail("hex:decode-overrun", "%s: wrote beyond the %zu bytes given (input len %zu)", what, outlen, len);
    hx_free(o); hx_free(in);
}

int main(int argc, char **argv)
{
    hx_init();
    if (argc < 2) return 2;
    if (!strcmp(argv[1], "all3")) {
        /* every string of length <= 3 over all 256 characters, first byte in [lo, hi) */
        int lo = atoi(argv[2]), hi = atoi(argv[3]); char s[3];
        if (lo == 0) { dec_case("", 0, 0, "empty"); dec_case("", 0, 2, "empty"); }
        for (int a = lo; a < hi; a++) {
            s[0] = (char)a; for (size_t ol = 0; ol <= 2; ol++) dec_case(s, 1, ol, "len1");
            for (int b = 0; b < 256; b++) {
                s[1] = (char)b; for (size_t ol = 0; ol <= 2; ol++) dec_case(s, 2, ol, "len2");
                for (int c = 0; c < 256; c++) { s[2] = (char)c; dec_case(s, 3, 1, "len3"); if ((c & 7) == 0) dec_case(s, 3, 0, "len3"); }
            }
        }
        hx_sample("decode: every string of length <= 3 over all 256 byte values with first byte in [%d,%d) x outlen 0..2", lo, hi);
    } else if (!strcmp(argv[1], "classes")) {
        /* every string of length <= 5 (6 thorough) over 21 class representatives x outlen 0..4 */
        static const unsigned char cls[21] = {'0', '9', 'a', 'f', 'A', 'F', 'g', 'G', '/', ':', '@', '`', ' ', '\t', '\n', '\r', '\f', '\v', 0x00, 0x80, 0xFF};
        int maxlen = atoi(argv[2]) ? 6 : 5;
        int lo = argc > 3 ? atoi(argv[3]) : 0, hi = argc > 4 ? atoi(argv[4]) : 21;
        char s[8];
        for (int len = 1; len <= maxlen; len++) {
            long total = 1; for (int i = 1; i < len; i++) total *= 21;
            for (int first = lo; first < hi; first++) for (long code = 0; code < total; code++) {
                long c = code; s[0] = (char)cls[first];
                for (int i = 1; i < len; i++) { s[i] = (char)cls[c % 21]; c /= 21; }
                for (size_t ol = 0; ol <= 4; ol++) { if (len >= 5 && ol != 0 && ol != 2 && ol != 3) continue; dec_case(s, len, ol, "classes"); }
            }
        }
        hx_sample("decode: every string of length <= %d over 21 character-class representatives (first in [%d,%d)) x outlen 0..4", maxlen, lo, hi);
    } else {
        /* encode . decode identity for all byte strings of length <= 2 and dense longer ones, both cases; outlen around 2n+1 */
        uint8_t in[300], back[300]; char out[700];
        for (int n = 0; n <= 2; n++) for (long v = 0; v < (n == 0 ? 1 : n == 1 ? 256 : 65536); v++) for (int fi = 0; fi < 8; fi++) {
            /* documented: upper case if the flag is non-zero (any non-zero value, not only 1) */
            static const int flags[8] = {0, 1, 2, 3, 16, 0x100, -1, (-2147483647 - 1)}; int up = flags[fi];
            in[0] = (uint8_t)v; in[1] = (uint8_t)(v >> 8);
            memset(out, 0x7f, sizeof out);
            int r = ascon_bytes_to_hex(out, 2 * n + 1, in, n, up); n_eval++;
            if (r != 2 * n || out[2 * n] != 0 || out[2 * n + 1] != 0x7f) hx_fail("hex:encode", "length-%d input: returned %d or wrong termination", n, r);
            int d = ascon_bytes_from_hex(back, n, out, 2 * n);
            if (d != n || memcmp(back, in, n)) hx_fail("hex:roundtrip", "decode(encode(x)) != x for %d-byte input %02x%02x", n, in[0], in[1]);
            for (int i = 0; i < 2 * n; i++) { char ch = out[i]; int okc = (ch >= '0' && ch <= '9') || (up ? (ch >= 'A' && ch <= 'F') : (ch >= 'a' && ch <= 'f')); if (!okc) hx_fail("hex:encode", "non-hex or wrong-case character %02x", (unsigned char)ch); }
        }
        for (int n = 0; n <= 256; n++) for (int up = 0; up < 2; up++) {
            hx_fill(in, n, HX_P_DENSE, n);
            for (int ol = (2 * n + 1 > 3 ? 2 * n - 2 : 0); ol <= 2 * n + 3; ol++) {
                char *o = (char *)hx_buf(ol); memset(o, 0x7f, ol);
                int r = ascon_bytes_to_hex(o, ol, in, n, up); n_eval++;
                if (ol < 2 * n + 1) { if (r != -1) hx_fail("hex:encode", "n=%d outlen=%d: returned %d, expected -1", n, ol, r); }
                else {
                    if (r != 2 * n || o[2 * n] != 0) hx_fail("hex:encode", "n=%d outlen=%d: returned %d", n, ol, r);
                    int d = ascon_bytes_from_hex(back, n, o, 2 * n); if (d != n || memcmp(back, in, n)) hx_fail("hex:roundtrip", "n=%d", n);
                }
                if (!hx_buf_ok((uint8_t *)o, ol)) hx_fail("hex:encode-overrun", "n=%d outlen=%d wrote beyond the output", n, ol);
                hx_free((uint8_t *)o);
            }
        }
        hx_sample("encode: all inputs of length <= 2 (both cases) + dense inputs 0..256 with outlen 2n-2..2n+3; decode(encode(x)) == x");
    }
    hx_stat("evaluations", n_eval); hx_stat("nontrivial", n_eval);
    hx_finish();
    return 0;
}
