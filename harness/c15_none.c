/* C15, configuration "no known random source on this platform" (ascon-trng-none.c: a per-thread pool fed by clocks and by the
 * application's ascon_trng_get_bytes() hook).  The pool carries state from call to call, so every run is a fresh process: the
 * clocks are fixed, the hook delivers a scripted 32-byte string per call, and the first bytes of ascon_random / init+fetch are
 * handed back to the parent.  Oracles: same bytes -> same output (determinism); every byte of every delivery changes the output
 * (influence); status = what the hook reports. */
#define _GNU_SOURCE
#include <ascon/random.h>
#include <stdio.h>
#include <string.h>
#include <stdlib.h>
#include <stdint.h>
#include <time.h>
#include <sys/time.h>
#include <sys/mman.h>
#include <sys/wait.h>
#include <unistd.h>
#include "hx.h"

static int flip_call = -1, flip_byte, hook_ok = 1; static unsigned hook_calls;
int ascon_trng_get_bytes(unsigned char *out, size_t outlen)
{
    unsigned k = hook_calls++;
    if (!hook_ok) return 0;
    for (size_t i = 0; i < outlen; i++) out[i] = (unsigned char)(0x35 + 11 * i + 101 * k);
    if ((int)k == flip_call && (size_t)flip_byte < outlen) out[flip_byte] ^= 0x40;
    return 1;
}
/* fixed clocks */
int clock_gettime(clockid_t id, struct timespec *ts) { ts->tv_sec = 1700000000 + (long)id; ts->tv_nsec = 123456789; return 0; }
int gettimeofday(struct timeval *tv, void *tz) { (void)tz; tv->tv_sec = 1700000000; tv->tv_usec = 654321; return 0; }
time_t time(time_t *t) { if (t) *t = 1700000000; return 1700000000; }

typedef struct { int status[3]; unsigned calls; uint8_t out[3][24]; } result;
static result *shared;
/* scenario 0: ascon_random; 1: init + fetch; 2: init + reseed + fetch */
static void scenario(int sc, result *r)
{
    memset(r, 0, sizeof *r);
    if (sc == 0) { r->status[0] = ascon_random(r->out[0], 24); r->status[1] = ascon_random(r->out[1], 24); }
    else { ascon_random_state_t s; r->status[0] = ascon_random_init(&s); ascon_random_fetch(&s, r->out[0], 24);
           if (sc == 2) r->status[1] = ascon_random_reseed(&s);
           ascon_random_fetch(&s, r->out[1], 24); ascon_random_free(&s); }
    r->calls = hook_calls;
}
static void run(int sc, int ok, int fc, int fb, result *r)
{
    pid_t pid = fork();
    if (pid == 0) { hook_ok = ok; flip_call = fc; flip_byte = fb; scenario(sc, shared); _exit(0); }
    int st; waitpid(pid, &st, 0); *r = *shared;
    if (!WIFEXITED(st) || WEXITSTATUS(st)) hx_fail("prng:none:crash", "scenario %d died (status %#x)", sc, st);
}
int main(void)
{
    hx_init();
    shared = mmap(0, sizeof *shared, PROT_READ | PROT_WRITE, MAP_SHARED | MAP_ANONYMOUS, -1, 0);
    static const char *sn[] = {"ascon_random twice", "init, fetch, fetch", "init, fetch, reseed, fetch"};
    for (int sc = 0; sc < 3; sc++) {
        result a, b, f;
        run(sc, 1, -1, 0, &a); run(sc, 1, -1, 0, &b); hx_stat("runs", 2);
        if (memcmp(&a, &b, sizeof a)) hx_fail("prng:none:determinism", "%s: two fresh processes with the same clock and the same bytes from the application hook differ", sn[sc]);
        if (!a.status[0] || (sc != 1 && !a.status[1])) hx_fail("prng:none:status", "%s: reported a failing source although the application hook delivered", sn[sc]);
        if (memcmp(a.out[0], a.out[1], 24) == 0) hx_fail("prng:none:forward", "%s: two consecutive outputs are equal", sn[sc]);
        for (unsigned call = 0; call < a.calls; call++) for (int byte = 0; byte < 32; byte++) {
            run(sc, 1, (int)call, byte, &f); hx_stat("runs", 1); hx_stat("nontrivial", 1);
            /* the delivery changes everything produced after it: the output that follows it, and all later ones */
            int first = sc == 0 ? (int)call : (call == 0 ? 0 : 1);
            for (int o = first; o < 2; o++) if (!memcmp(f.out[o], a.out[o], 24)) { hx_fail("prng:none:influence", "%s: byte %d of hook delivery %u has no influence on output %d", sn[sc], byte, call, o); break; }
        }
        run(sc, 0, -1, 0, &f); hx_stat("runs", 1);
        if (f.status[0] || (sc != 1 && f.status[1])) hx_fail("prng:none:status", "%s: reported a working source although the application hook delivered nothing", sn[sc]);
    }
    hx_sample("no-known-source configuration: 3 scenarios in fresh processes with fixed clocks; determinism, status, and a flip of each of the 32 bytes of every hook delivery");
    hx_finish();
    return 0;
}
