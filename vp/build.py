"""Builder: compiles /repo/src (current working tree) into any configuration.

Everything is cached under /verif/build keyed by a content hash of every
source file plus the flags, so a changed working tree always rebuilds.
"""
import hashlib, os, subprocess, sys, shutil, json, glob, re, time, threading
from concurrent.futures import ThreadPoolExecutor

VERIF = os.path.dirname(os.path.dirname(os.path.abspath(__file__)))
REPO = os.environ.get("VERIF_REPO_ROOT", "/repo")
BUILD = os.path.join(VERIF, "build")
JOBS = int(os.environ.get("VERIF_JOBS", "16"))

BACKENDS = {
    "asm": [],
    "c64": ["-DASCON_FORCE_C64"],
    "c32": ["-DASCON_FORCE_C32"],
    "dxor": ["-DASCON_FORCE_DIRECT_XOR"],
    "generic": ["-DASCON_FORCE_GENERIC"],
}
ALL_TRIPLES = [(k, d, m) for k in (2, 3, 4) for d in range(1, k + 1) for m in (2, 3, 4)]
DEFAULT_TRIPLE = (4, 2, 4)


class BuildError(Exception):
    pass


def sh(cmd, cwd=None, env=None, timeout=None, check=True):
    p = subprocess.run(cmd, cwd=cwd, env=env, stdout=subprocess.PIPE, stderr=subprocess.STDOUT,
                       timeout=timeout)
    out = p.stdout.decode("utf-8", "replace")
    if check and p.returncode != 0:
        raise BuildError("command failed (%d): %s\n%s" % (p.returncode, " ".join(cmd), out[-4000:]))
    return p.returncode, out


def file_hash(path):
    h = hashlib.sha256()
    with open(path, "rb") as f:
        h.update(f.read())
    return h.hexdigest()


_tree_hash_cache = {}


def tree_hash(subdirs=("src",), extra_files=("CMakeLists.txt", "config.h.in")):
    key = (REPO, tuple(subdirs), tuple(extra_files))
    if key in _tree_hash_cache:
        return _tree_hash_cache[key]
    h = hashlib.sha256()
    files = []
    for sd in subdirs:
        for root, dirs, fs in os.walk(os.path.join(REPO, sd)):
            dirs.sort()
            for f in sorted(fs):
                files.append(os.path.join(root, f))
    for f in extra_files:
        files.append(os.path.join(REPO, f))
    for p in files:
        if os.path.isfile(p):
            h.update(os.path.relpath(p, REPO).encode())
            h.update(file_hash(p).encode())
    r = h.hexdigest()[:16]
    _tree_hash_cache[key] = r
    return r


def cfg_dir():
    """config.h / version.h from a real cmake configure of the repository (HAVE_* as shipped)."""
    key = hashlib.sha256()
    for f in ("CMakeLists.txt", "config.h.in", "src/ascon/version.h.in"):
        p = os.path.join(REPO, f)
        key.update(file_hash(p).encode() if os.path.isfile(p) else b"-")
    final = os.path.join(BUILD, "cfg-" + key.hexdigest()[:12])
    if os.path.isfile(os.path.join(final, "ok")):
        return final
    # built in a private directory and renamed into place: checks running at the same time (other processes) never see a half-made one
    os.makedirs(BUILD, exist_ok=True)
    d = final + ".tmp-%d-%d" % (os.getpid(), threading.get_ident())
    shutil.rmtree(d, ignore_errors=True)
    os.makedirs(d)
    try:
        sh(["cmake", "-G", "Ninja", "-S", REPO, "-B", os.path.join(d, "cm"), "-DMINIMAL=ON"], timeout=300)
        shutil.copy(os.path.join(d, "cm", "config.h"), os.path.join(d, "config.h.tmpl"))
        shutil.copy(os.path.join(d, "cm", "version.h"), os.path.join(d, "version.h"))
    finally:
        shutil.rmtree(os.path.join(d, "cm"), ignore_errors=True)
    open(os.path.join(d, "ok"), "w").write("ok")
    try:
        os.rename(d, final)
    except OSError:
        shutil.rmtree(d, ignore_errors=True)      # another process got there first: use its copy
        if not os.path.isfile(os.path.join(final, "ok")):
            raise
    return final


def lib_sources(omit=()):
    srcs = []
    for ext in ("c", "S", "cpp"):
        srcs += glob.glob(os.path.join(REPO, "src", "*", "*." + ext))
    srcs = sorted(s for s in srcs if os.path.basename(s) not in omit)
    return srcs


_tmpctr = [0]
_tmplock = threading.Lock()


def compile_many(jobs):
    """jobs: list of (cmd without -o, outfile).  Compiles to a unique temporary and renames, so that
    concurrent builders (threads or processes) never see a half-written object."""
    errs = []

    def run(j):
        cmd, out = j[0], j[1]
        if os.path.isfile(out):
            return
        with _tmplock:
            _tmpctr[0] += 1
            tmp = "%s.%d.%d.tmp" % (out, os.getpid(), _tmpctr[0])
        rc, o = sh(cmd + ["-o", tmp], check=False)
        if rc != 0:
            errs.append("FAILED: %s\n%s" % (" ".join(cmd), o[-3000:]))
            try:
                os.unlink(tmp)
            except OSError:
                pass
        else:
            os.rename(tmp, out)

    with ThreadPoolExecutor(JOBS) as ex:
        list(ex.map(run, jobs))
    if errs:
        raise BuildError("\n".join(errs[:3]))


_share_dep_cache = {}


def share_dependent(cfg):
    """Set of source basenames whose compilation can depend on the share numbers (transitively
    include masked-config.h or config.h's share defines through a masking header)."""
    key = tree_hash()
    if key in _share_dep_cache:
        return _share_dep_cache[key]
    cache = os.path.join(BUILD, "sharedeps-" + key + ".json")
    if os.path.isfile(cache):
        r = set(json.load(open(cache)))
        _share_dep_cache[key] = r
        return r
    inc = ["-I" + os.path.join(REPO, "src"), "-I" + os.path.join(REPO, "src", "ascon"), "-I" + cfg]
    res = set()

    def dep(sfile):
        b = os.path.basename(sfile)
        lang = ["-x", "assembler-with-cpp"] if b.endswith(".S") else []
        cc = "g++" if b.endswith(".cpp") else "gcc"
        rc, out = sh([cc, "-DHAVE_CONFIG_H", "-MM"] + inc + lang + [sfile], check=False)
        if rc != 0 or "masked" in out or "masking" in out or "aead-masked" in out:
            res.add(b)

    tmp = os.path.join(BUILD, "sharedeps-tmp-%d" % os.getpid())
    os.makedirs(tmp, exist_ok=True)
    t = open(os.path.join(cfg, "config.h.tmpl")).read()
    open(os.path.join(tmp, "config.h"), "w").write(t)
    shutil.copy(os.path.join(cfg, "version.h"), os.path.join(tmp, "version.h"))
    inc[-1] = "-I" + tmp
    with ThreadPoolExecutor(JOBS) as ex:
        list(ex.map(dep, lib_sources()))
    shutil.rmtree(tmp, ignore_errors=True)
    json.dump(sorted(res), open(cache, "w"))
    _share_dep_cache[key] = res
    return res


def config_dir(cfg, triple, drop=()):
    """config.h for one share triple; drop = HAVE_* probe results to leave undefined (the configuration a libc without that function would give)"""
    d = os.path.join(BUILD, "inc-%s-k%dd%dm%d%s" % (os.path.basename(cfg), triple[0], triple[1], triple[2], "".join("-no" + x for x in sorted(drop))))
    if os.path.isfile(os.path.join(d, "ok")):
        return d
    os.makedirs(d, exist_ok=True)
    t = open(os.path.join(cfg, "config.h.tmpl")).read()
    t = re.sub(r"#define ASCON_MASKED_KEY_SHARES \d+", "#define ASCON_MASKED_KEY_SHARES %d" % triple[0], t)
    t = re.sub(r"#define ASCON_MASKED_DATA_SHARES \d+", "#define ASCON_MASKED_DATA_SHARES %d" % triple[1], t)
    t = re.sub(r"#define ASCON_MASKED_MAX_SHARES \d+", "#define ASCON_MASKED_MAX_SHARES %d" % triple[2], t)
    for x in drop:
        t, n = re.subn(r"(?m)^#define %s\b.*$" % re.escape(x), "/* #undef %s */" % x, t)
        if not n:
            raise BuildError("config.h has no definition of %s to drop" % x)
    for name, text in (("config.h", t), ("version.h", open(os.path.join(cfg, "version.h")).read()), ("ok", "ok")):
        tmp = os.path.join(d, ".%s.%d.%d" % (name, os.getpid(), threading.get_ident()))     # written aside and renamed: a concurrent check never reads a half-written header
        open(tmp, "w").write(text)
        os.rename(tmp, os.path.join(d, name))
    return d


def build_lib(backend="asm", triple=DEFAULT_TRIPLE, cc="gcc", opt="-O2", san=None, checker=False,
              omit=(), extra=(), no_stl=False, cxx=True, tag="", drop=()):
    """Returns dict(lib=path to libascon.a, inc=[-I flags], dir=..., cflags=[...]).
    Objects are cached individually; files that cannot depend on the share numbers are shared
    between share triples (compiled against the default triple's config.h)."""
    cfg = cfg_dir()
    cxxc = {"gcc": "g++", "clang": "clang++"}[cc]
    flags = [opt, "-g", "-DHAVE_CONFIG_H", "-fno-omit-frame-pointer"] + (["-gdwarf-4"] if cc == "clang" else []) + BACKENDS[backend] + list(extra)
    if checker:
        flags += ["-DASCON_FORCE_GENERIC", "-DASCON_CHECK_ACQUIRE_RELEASE"]
    if no_stl:
        flags += ["-DASCON_NO_STL"]
    sanflags = {
        None: [],
        "asan": ["-fsanitize=address,undefined", "-fno-sanitize-recover=all"],
        "tsan": ["-fsanitize=thread"],
        "owntsan": ["-fsanitize=thread"],
    }[san]
    flags += sanflags
    th = tree_hash()
    cfgh = file_hash(os.path.join(cfg, "config.h.tmpl"))
    if drop:
        flags += ["-DVP_CONFIG_WITHOUT_" + "_".join(sorted(drop))]     # only to keep the object cache apart; no source tests it
    key = hashlib.sha256(json.dumps([th, backend, triple, cc, opt, san, checker, sorted(omit),
                                     list(extra), no_stl, cxx, tag, cfgh, sorted(drop)]).encode()).hexdigest()[:16]
    d = os.path.join(BUILD, "lib-" + key)
    lib = os.path.join(d, "libascon.a")
    cdir = config_dir(cfg, triple, drop)
    inc = ["-I" + os.path.join(REPO, "src"), "-I" + os.path.join(REPO, "src", "ascon"), "-I" + cdir]
    res = dict(lib=lib, inc=inc, dir=d, cflags=flags, cc=cc, cxx=cxxc, sanflags=sanflags,
               desc="%s k%dd%dm%d %s %s%s%s" % (backend, triple[0], triple[1], triple[2], cc, opt,
                                                 " " + san if san else "", " checker" if checker else ""))
    if os.path.isfile(lib):
        return res
    shutil.rmtree(d, ignore_errors=True)
    os.makedirs(d)
    dep = share_dependent(cfg)
    ddir = config_dir(cfg, DEFAULT_TRIPLE, drop)
    objroot = os.path.join(BUILD, "obj-" + th)
    os.makedirs(objroot, exist_ok=True)
    jobs = []
    objs = []
    for s in lib_sources(omit):
        b = os.path.basename(s)
        if b.endswith(".cpp") and not cxx:
            continue
        is_dep = b in dep
        finc = inc if is_dep else inc[:2] + ["-I" + ddir]
        okey = hashlib.sha256(json.dumps([b, flags, cc, triple if is_dep else None, cfgh]).encode()).hexdigest()[:20]
        o = os.path.join(objroot, okey + "-" + b + ".o")
        objs.append(o)
        if b.endswith(".cpp"):
            cmd = [cxxc, "-std=gnu++11"] + flags + finc + ["-c", s]
        elif b.endswith(".S"):
            cmd = [cc] + flags + finc + ["-x", "assembler-with-cpp", "-c", s]
        else:
            cmd = [cc, "-std=gnu99"] + flags + finc + ["-c", s]
        jobs.append((cmd, o))
    compile_many(jobs)
    with _tmplock:
        _tmpctr[0] += 1
        tmp = "%s.%d.%d.tmp" % (lib, os.getpid(), _tmpctr[0])
    sh(["ar", "rcs", tmp] + objs)
    os.rename(tmp, lib)
    return res


def build_prog(name, sources, lib=None, cc=None, extra=(), link=(), objs=(), cxx=False, opt="-O1", cfg_dep=False, nosan=False, per_source_extra=None):
    """Compile harness sources (absolute or relative to /verif) and link against lib.
    Harness objects are cached by content; unless cfg_dep is set they are shared between library
    configurations (public headers do not depend on the configuration).  Returns the executable."""
    cc = cc or (lib["cc"] if lib else "gcc")
    cxxc = {"gcc": "g++", "clang": "clang++"}[cc]
    srcs = [s if os.path.isabs(s) else os.path.join(VERIF, s) for s in sources]
    hh = hashlib.sha256()
    for pat in ("harness/*.h", "ref/*.h", "harness/sched/*.h"):
        for f in sorted(glob.glob(os.path.join(VERIF, pat))):
            hh.update(file_hash(f).encode())
    hdrs = hh.hexdigest()
    sanflags = list(lib["sanflags"]) if (lib and not nosan) else []
    per_source_extra = per_source_extra or {}
    th = tree_hash() if lib else ""
    inc = ["-I" + os.path.join(VERIF, "harness"), "-I" + os.path.join(VERIF, "ref")]
    if lib:
        inc += lib["inc"] if cfg_dep else lib["inc"][:2] + ["-I" + config_dir(cfg_dir(), DEFAULT_TRIPLE)]
    if lib and cfg_dep:
        # harnesses that include internal headers must see the library's configuration macros
        extra = list(extra) + [f for f in lib["cflags"] if f.startswith("-D")]
    objroot = os.path.join(BUILD, "hobj")
    os.makedirs(objroot, exist_ok=True)
    jobs = []
    os_ = []
    use_cxx = cxx
    for s in srcs:
        iscpp = s.endswith(".cpp") or s.endswith(".cc")
        use_cxx = use_cxx or iscpp
        sx = list(per_source_extra.get(os.path.basename(s), []))
        okey = hashlib.sha256(json.dumps([file_hash(s), hdrs, cc, opt, sanflags, list(extra) + sx, th,
                                          lib["dir"] if (lib and cfg_dep) else None,
                                          lib["cflags"] if (lib and cfg_dep) else None]).encode()).hexdigest()[:20]
        o = os.path.join(objroot, okey + "-" + os.path.basename(s) + ".o")
        os_.append(o)
        pre = [cxxc, "-std=gnu++11"] if iscpp else [cc, "-std=gnu99"]
        if cc == "clang":
            pre = pre + ["-gdwarf-4"]      # valgrind 3.19 cannot read clang's default DWARF 5
        cmd = pre + [opt, "-g"] + sanflags + inc + list(extra) + sx + ["-c", s]
        jobs.append((cmd, o))
    h = hashlib.sha256()
    h.update(json.dumps([name, os_, list(link), [file_hash(o) for o in objs], use_cxx]).encode())
    if lib:
        h.update(lib["dir"].encode())
    d = os.path.join(BUILD, "prog-" + h.hexdigest()[:16])
    exe = os.path.join(d, name)
    if os.path.isfile(exe) and (not lib or os.path.getmtime(exe) >= os.path.getmtime(lib["lib"])):
        return exe
    compile_many(jobs)
    os.makedirs(d, exist_ok=True)
    with _tmplock:
        _tmpctr[0] += 1
        tmpx = "%s.%d.%d.tmp" % (exe, os.getpid(), _tmpctr[0])
    ld = [cxxc if use_cxx else cc] + sanflags + ["-o", tmpx] + os_ + list(objs)
    if lib:
        ld += [lib["lib"]]
    ld += list(link)
    sh(ld)
    os.rename(tmpx, exe)
    return exe


def cmake_release(opts=(), tag="", cc="gcc", targets=("all",)):
    """The repository's own CMake Release build (the shipped optimisation level) in a scratch dir
    under /verif/build.  Returns the build directory."""
    key = hashlib.sha256(json.dumps([tree_hash(("src", "apps", "test", "examples")), list(opts), tag, cc,
                                     list(targets)]).encode()).hexdigest()[:16]
    d = os.path.join(BUILD, "cmake-" + key)
    if os.path.isfile(os.path.join(d, "ok")):
        return d
    shutil.rmtree(d, ignore_errors=True)
    os.makedirs(d)
    env = dict(os.environ)
    env["CC"] = cc
    env["CXX"] = {"gcc": "g++", "clang": "clang++"}[cc]
    sh(["cmake", "-G", "Ninja", "-S", REPO, "-B", d] + list(opts), env=env, timeout=600)
    sh(["cmake", "--build", d, "-j", str(JOBS), "--"] + [t for t in targets], env=env, timeout=1800)
    open(os.path.join(d, "ok"), "w").write("ok")
    return d


def gc(max_gb=6.0):
    """Remove oldest cache entries when the cache grows beyond max_gb."""
    if not os.path.isdir(BUILD):
        return
    ents = []
    total = 0
    for e in os.listdir(BUILD):
        p = os.path.join(BUILD, e)
        if not os.path.isdir(p) or e in ("run",) or e.startswith("cfg-") or e.startswith("inc-"):
            continue        # (the configure results are tiny and every check uses them)
        sz = 0
        for root, _, fs in os.walk(p):
            for f in fs:
                try:
                    sz += os.path.getsize(os.path.join(root, f))
                except OSError:
                    pass
        try:
            ents.append((os.path.getmtime(p), p, sz))
        except OSError:
            continue    # removed meanwhile by a concurrent run
        total += sz
    ents.sort()
    now = time.time()
    while total > max_gb * 1e9 and ents:
        mt, p, sz = ents.pop(0)
        if now - mt < 7200 and total < 3 * max_gb * 1e9:
            break       # young entries may be in use by a check running at the same time
        shutil.rmtree(p, ignore_errors=True)
        total -= sz


if __name__ == "__main__":
    t0 = time.time()
    r = build_lib(*(sys.argv[1:2] or ["asm"]))
    print(r["lib"], time.time() - t0)
