"""Builder: compiles /repo/src (current working tree) into any configuration.

Everything is cached under /verif/build keyed by a content hash of every
source file plus the flags, so a changed working tree always rebuilds.
"""
import hashlib, os, subprocess, sys, shutil, json, glob, re, time
from concurrent.futures import ThreadPoolExecutor

VERIF = os.path.dirname(os.path.dirname(os.path.abspath(__file__)))
REPO = os.environ.get("VERIF_REPO_ROOT", "/repo")
BUILD = os.path.join(VERIF, "build")
JOBS = int(os.environ.get("VERIF_JOBS", "16"))

BACKENDS = {
    "asm": [],
    "c64": ["-DASCON_FORCE_C64"],
    "c32": ["-DASCON_FORCE_C32"],
    "dxor": ["-DASCON_FORCE_DIRECT_XOR"],
    "generic": ["-DASCON_FORCE_GENERIC"],
}
ALL_TRIPLES = [(k, d, m) for k in (2, 3, 4) for d in range(1, k + 1) for m in (2, 3, 4)]
DEFAULT_TRIPLE = (4, 2, 4)


class BuildError(Exception):
    pass


def sh(cmd, cwd=None, env=None, timeout=None, check=True):
    p = subprocess.run(cmd, cwd=cwd, env=env, stdout=subprocess.PIPE, stderr=subprocess.STDOUT,
                       timeout=timeout)
    out = p.stdout.decode("utf-8", "replace")
    if check and p.returncode != 0:
        raise BuildError("command failed (%d): %s\n%s" % (p.returncode, " ".join(cmd), out[-4000:]))
    return p.returncode, out


def file_hash(path):
    h = hashlib.sha256()
    with open(path, "rb") as f:
        h.update(f.read())
    return h.hexdigest()


_tree_hash_cache = {}


def tree_hash(subdirs=("src",), extra_files=("CMakeLists.txt", "config.h.in")):
    key = (REPO, tuple(subdirs), tuple(extra_files))
    if key in _tree_hash_cache:
        return _tree_hash_cache[key]
    h = hashlib.sha256()
    files = []
    for sd in subdirs:
        for root, dirs, fs in os.walk(os.path.join(REPO, sd)):
            dirs.sort()
            for f in sorted(fs):
                files.append(os.path.join(root, f))
    for f in extra_files:
        files.append(os.path.join(REPO, f))
    for p in files:
        if os.path.isfile(p):
            h.update(os.path.relpath(p, REPO).encode())
            h.update(file_hash(p).encode())
    r = h.hexdigest()[:16]
    _tree_hash_cache[key] = r
    return r


def cfg_dir():
    """config.h / version.h from a real cmake configure of the repository (HAVE_* as shipped)."""
    key = hashlib.sha256()
    for f in ("CMakeLists.txt", "config.h.in", "src/ascon/version.h.in"):
        p = os.path.join(REPO, f)
        key.update(file_hash(p).encode() if os.path.isfile(p) else b"-")
    d = os.path.join(BUILD, "cfg-" + key.hexdigest()[:12])
    if os.path.isfile(os.path.join(d, "ok")):
        return d
    shutil.rmtree(d, ignore_errors=True)
    os.makedirs(d)
    try:
        sh(["cmake", "-G", "Ninja", "-S", REPO, "-B", os.path.join(d, "cm"), "-DMINIMAL=ON"], timeout=300)
        shutil.copy(os.path.join(d, "cm", "config.h"), os.path.join(d, "config.h.tmpl"))
        shutil.copy(os.path.join(d, "cm", "version.h"), os.path.join(d, "version.h"))
    finally:
        shutil.rmtree(os.path.join(d, "cm"), ignore_errors=True)
    open(os.path.join(d, "ok"), "w").write("ok")
    return d


def lib_sources(omit=()):
    srcs = []
    for ext in ("c", "S", "cpp"):
        srcs += glob.glob(os.path.join(REPO, "src", "*", "*." + ext))
    srcs = sorted(s for s in srcs if os.path.basename(s) not in omit)
    return srcs


def compile_many(jobs):
    """jobs: list of (cmd, outfile). Runs in parallel; raises on first failure."""
    errs = []

    def run(j):
        cmd, out = j
        if os.path.isfile(out):
            return
        rc, o = sh(cmd, check=False)
        if rc != 0:
            errs.append("FAILED: %s\n%s" % (" ".join(cmd), o[-3000:]))

    with ThreadPoolExecutor(JOBS) as ex:
        list(ex.map(run, jobs))
    if errs:
        raise BuildError("\n".join(errs[:3]))


def build_lib(backend="asm", triple=DEFAULT_TRIPLE, cc="gcc", opt="-O2", san=None, checker=False,
              omit=(), extra=(), no_stl=False, cxx=True, tag=""):
    """Returns dict(lib=path to libascon.a, inc=[-I flags], dir=..., cflags=[...])."""
    cfg = cfg_dir()
    cxxc = {"gcc": "g++", "clang": "clang++"}[cc]
    flags = [opt, "-g", "-DHAVE_CONFIG_H", "-fno-omit-frame-pointer"] + BACKENDS[backend] + list(extra)
    if checker:
        flags += ["-DASCON_FORCE_GENERIC", "-DASCON_CHECK_ACQUIRE_RELEASE"]
    if no_stl:
        flags += ["-DASCON_NO_STL"]
    sanflags = {
        None: [],
        "asan": ["-fsanitize=address,undefined", "-fno-sanitize-recover=all"],
        "tsan": ["-fsanitize=thread"],
        "owntsan": ["-fsanitize=thread"],
    }[san]
    flags += sanflags
    key = hashlib.sha256(json.dumps([tree_hash(), backend, triple, cc, opt, san, checker, sorted(omit),
                                     list(extra), no_stl, cxx, tag, file_hash(os.path.join(cfg, "config.h.tmpl"))]).encode()).hexdigest()[:16]
    d = os.path.join(BUILD, "lib-" + key)
    lib = os.path.join(d, "libascon.a")
    inc = ["-I" + os.path.join(REPO, "src"), "-I" + os.path.join(REPO, "src", "ascon"), "-I" + d]
    res = dict(lib=lib, inc=inc, dir=d, cflags=flags, cc=cc, cxx=cxxc, sanflags=sanflags,
               desc="%s k%dd%dm%d %s %s%s%s" % (backend, triple[0], triple[1], triple[2], cc, opt,
                                                 " " + san if san else "", " checker" if checker else ""))
    if os.path.isfile(lib):
        return res
    shutil.rmtree(d, ignore_errors=True)
    os.makedirs(d + "/o")
    t = open(os.path.join(cfg, "config.h.tmpl")).read()
    t = re.sub(r"#define ASCON_MASKED_KEY_SHARES \d+", "#define ASCON_MASKED_KEY_SHARES %d" % triple[0], t)
    t = re.sub(r"#define ASCON_MASKED_DATA_SHARES \d+", "#define ASCON_MASKED_DATA_SHARES %d" % triple[1], t)
    t = re.sub(r"#define ASCON_MASKED_MAX_SHARES \d+", "#define ASCON_MASKED_MAX_SHARES %d" % triple[2], t)
    open(os.path.join(d, "config.h"), "w").write(t)
    shutil.copy(os.path.join(cfg, "version.h"), os.path.join(d, "version.h"))
    jobs = []
    objs = []
    for s in lib_sources(omit):
        b = os.path.basename(s)
        if b.endswith(".cpp") and not cxx:
            continue
        o = os.path.join(d, "o", b + ".o")
        objs.append(o)
        if b.endswith(".cpp"):
            cmd = [cxxc, "-std=gnu++11"] + flags + inc + ["-c", s, "-o", o]
        elif b.endswith(".S"):
            cmd = [cc] + flags + inc + ["-x", "assembler-with-cpp", "-c", s, "-o", o]
        else:
            cmd = [cc, "-std=gnu99"] + flags + inc + ["-c", s, "-o", o]
        jobs.append((cmd, o))
    compile_many(jobs)
    tmp = lib + ".tmp"
    sh(["ar", "rcs", tmp] + objs)
    os.rename(tmp, lib)
    return res


def build_prog(name, sources, lib=None, cc=None, extra=(), link=(), objs=(), cxx=False, opt="-O1"):
    """Compile harness sources (absolute or relative to /verif) and link against lib.
    Returns path to executable.  Cached by content hash."""
    cc = cc or (lib["cc"] if lib else "gcc")
    cxxc = {"gcc": "g++", "clang": "clang++"}[cc]
    srcs = [s if os.path.isabs(s) else os.path.join(VERIF, s) for s in sources]
    h = hashlib.sha256()
    deps = list(srcs)
    for pat in ("harness/*.h", "ref/*.h", "harness/sched/*.h"):
        deps += sorted(glob.glob(os.path.join(VERIF, pat)))
    for s in deps + [o for o in objs]:
        h.update(file_hash(s).encode())
    h.update(json.dumps([name, cc, list(extra), list(link), lib["dir"] if lib else None, cxx, opt]).encode())
    if lib:
        h.update(file_hash(lib["lib"]).encode())
    d = os.path.join(BUILD, "prog-" + h.hexdigest()[:16])
    exe = os.path.join(d, name)
    if os.path.isfile(exe):
        return exe
    shutil.rmtree(d, ignore_errors=True)
    os.makedirs(d)
    inc = ["-I" + os.path.join(VERIF, "harness"), "-I" + os.path.join(VERIF, "ref")]
    if lib:
        inc += lib["inc"]
    sanflags = list(lib["sanflags"]) if lib else []
    jobs = []
    os_ = []
    use_cxx = cxx
    for s in srcs:
        o = os.path.join(d, os.path.basename(s) + ".o")
        os_.append(o)
        if s.endswith(".cpp") or s.endswith(".cc"):
            use_cxx = True
            cmd = [cxxc, "-std=gnu++11", opt, "-g"] + sanflags + inc + list(extra) + ["-c", s, "-o", o]
        else:
            cmd = [cc, "-std=gnu99", opt, "-g"] + sanflags + inc + list(extra) + ["-c", s, "-o", o]
        jobs.append((cmd, o))
    compile_many(jobs)
    ld = [cxxc if use_cxx else cc] + sanflags + ["-o", exe + ".tmp"] + os_ + list(objs)
    if lib:
        ld += [lib["lib"]]
    ld += list(link)
    if lib and not use_cxx and cxx is not None:
        # the library contains C++ objects; only pulled in when referenced
        pass
    sh(ld)
    os.rename(exe + ".tmp", exe)
    return exe


def cmake_release(opts=(), tag="", cc="gcc", targets=("all",)):
    """The repository's own CMake Release build (the shipped optimisation level) in a scratch dir
    under /verif/build.  Returns the build directory."""
    key = hashlib.sha256(json.dumps([tree_hash(("src", "apps", "test", "examples")), list(opts), tag, cc,
                                     list(targets)]).encode()).hexdigest()[:16]
    d = os.path.join(BUILD, "cmake-" + key)
    if os.path.isfile(os.path.join(d, "ok")):
        return d
    shutil.rmtree(d, ignore_errors=True)
    os.makedirs(d)
    env = dict(os.environ)
    env["CC"] = cc
    env["CXX"] = {"gcc": "g++", "clang": "clang++"}[cc]
    sh(["cmake", "-G", "Ninja", "-S", REPO, "-B", d] + list(opts), env=env, timeout=600)
    sh(["cmake", "--build", d, "-j", str(JOBS), "--"] + [t for t in targets], env=env, timeout=1800)
    open(os.path.join(d, "ok"), "w").write("ok")
    return d


def gc(max_gb=6.0):
    """Remove oldest cache entries when the cache grows beyond max_gb."""
    if not os.path.isdir(BUILD):
        return
    ents = []
    total = 0
    for e in os.listdir(BUILD):
        p = os.path.join(BUILD, e)
        if not os.path.isdir(p) or e in ("run",):
            continue
        sz = 0
        for root, _, fs in os.walk(p):
            for f in fs:
                try:
                    sz += os.path.getsize(os.path.join(root, f))
                except OSError:
                    pass
        ents.append((os.path.getmtime(p), p, sz))
        total += sz
    ents.sort()
    while total > max_gb * 1e9 and ents:
        _, p, sz = ents.pop(0)
        shutil.rmtree(p, ignore_errors=True)
        total -= sz


if __name__ == "__main__":
    t0 = time.time()
    r = build_lib(*(sys.argv[1:2] or ["asm"]))
    print(r["lib"], time.time() - t0)
