#!/bin/bash
# usage: vp/run_all.sh <tier> [ids...]   runs the checks one after another, prints one summary line per check
T=${1:-quick}; shift
IDS=${@:-C01 C02 C03 C04 C05 C06 C07 C08 C09 C10 C11 C12 C13 C14 C15 C16 C17 C18 C19 C20}
for i in $IDS; do
  s=$(date +%s); L=$(mktemp /tmp/run_all_${i}_XXXXXX.log)
  python3 vp/check.py $i --tier $T > $L 2>&1; rc=$?
  e=$(date +%s)
  echo "$i tier=$T rc=$rc wall=$((e-s))s $(grep -E 'violations=' $L | tail -1 | cut -c1-240)"
  grep -E "VIOLATION|KNOWN-FINDING|HARNESS-ERROR|Traceback" $L | head -5
  rm -f $L
done
