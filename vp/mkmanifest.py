#!/usr/bin/env python3
"""Regenerates /verif/MANIFEST.json from the table below; a property is claimed iff vp/checks/<id>.py exists."""
import json, os, sys
VERIF = os.path.dirname(os.path.dirname(os.path.abspath(__file__)))

T = {
 "C01": ("exploration", "E1+LPC", "bounded exhaustive enumeration of (adlen, mlen) shapes x value patterns x 4 entry families x 5 backends against an independent reference model; affine-basis enumeration under a linearised permutation",
         "Every length shape up to the bound, for every algorithm, entry family and host backend, is executed on the real code and compared byte-for-byte with a reference written from the specification; under the linearised permutation every key/nonce/data bit of every shape is covered (basis of an affine map).",
         "Reference model bound to all 28k shipped KAT vectors; value completeness rests on the LPC argument + C08 + C11; lengths beyond the bound only via 12 long lengths (thorough)."),
}
# filled in as checks are added
EXTRA = {}

NOT_YET = "check not built yet in this session (design in DESIGN.md section 4); not claimed"


def main():
    props = [json.loads(l) for l in open(os.path.join(VERIF, "properties.jsonl"))]
    sys.path.insert(0, os.path.join(VERIF, "vp"))
    import manifest_table
    T.update(manifest_table.T)
    checks, na = [], []
    for p in props:
        pid = p["id"]
        if os.path.isfile(os.path.join(VERIF, "vp", "checks", pid.lower() + ".py")) and pid in T:
            cat, eng, tech, text, note = T[pid]
            checks.append(dict(property_id=pid,
                               quick_cmd="python3 vp/check.py %s --tier quick" % pid,
                               thorough_cmd="python3 vp/check.py %s --tier thorough" % pid,
                               evidence_file="evidence/%s.json" % pid,
                               replay_cmd_template="python3 vp/check.py %s --replay {path}" % pid,
                               engine=eng,
                               level_claimed=dict(category=cat, text=text, design_ref="DESIGN.md section 4, " + pid),
                               level_note=note, technique=tech))
        else:
            na.append(dict(property_id=pid, reason=manifest_table.NA.get(pid, NOT_YET)))
    m = dict(version=1,
             setup_cmd="python3 vp/setup.py",
             hooks=dict(guard="ASCON_SUITE_VERIF",
                        enable="none needed: all instrumentation is link-time (libc getrandom/read/write shims, -Wl,--wrap=ascon_permute, replaced random-source objects) or compiler flags (sanitizers); no guarded source hooks exist in /repo",
                        baseline_off_cmd="cmake -G Ninja -S /repo -B /repo/_build && cmake --build /repo/_build && ctest --test-dir /repo/_build -j8 --timeout 900",
                        source_commits=[], add_only=True),
             engines=manifest_table.ENGINES,
             checks=checks,
             notes="Bounded exhaustive exploration of the real code against a reference model; see DESIGN.md. Known findings: known_findings.json.",
             not_applicable=na)
    json.dump(m, open(os.path.join(VERIF, "MANIFEST.json"), "w"), indent=1)
    print("claimed:", [c["property_id"] for c in checks])


if __name__ == "__main__":
    main()
