"""Per-property manifest rows: id -> (level category, engine, technique, level text, level note)."""
T = {
 "C05": ("exploration", "E1+E2", "bounded exhaustive enumeration of length tuples and of expand-call histories positioned at every offset around the 255-block limit, on the real code against RFC 5869 / RFC 8018 reference",
         "All enumerated length tuples, iteration counts and three-call expand histories are executed; served bytes, refusal status and zero-filled tails are compared with the reference stream.",
         "Reference HMAC/hash bound to KAT corpus; PBKDF2 counts up to 10 (1000 in thorough)."),
 "C06": ("exploration", "E1+LPC+E2", "bounded exhaustive enumeration of shapes against the reference, affine-basis enumeration under the linearised permutation, and exhaustive enumeration of all key-object operation sequences up to depth 4/5 on the real code",
         "Every shape up to the bound for the 6 SIV/ISAP algorithms on 5 backends equals the reference; every operation history up to the depth over an original and a saved+loaded ISAP key keeps the key objects bit-identical and all results equal to the reference.",
         "SIV semantics as pinned by KAT + code (permute-then-squeeze); ISAP reference bound to KAT."),
 "C07": ("model_checking", "E2", "explicit-state breadth-first search over the real objects: state = replayable operation history keyed by canonical observable state; every absorb/squeeze/process chunk length 0..2r+1, in-place, copy and re-init edge from every state; oracle on every edge",
         "All reachable states of each of 24 incremental interfaces up to the stated input/output totals are enumerated on 5 backends; because histories that reach the same canonical state merge, the edge set covers every partition of input and output, not a sample.",
         "Soundness of merging rests on the canonical key containing every field later calls read; replay determinism asserted for every state; absorb-after-squeeze excluded (not in the property)."),
 "C02": ("exploration", "E1", "bounded exhaustive enumeration of forgeries: every single-bit flip of every ciphertext/tag/AD/nonce/key byte, every tag-byte XOR value, every truncation and extension, per length shape and family, on the real code",
         "For each of the 15 AEAD families and each enumerated shape, the round trip and every member of the stated forgery classes is executed; each forgery must be rejected and (one-shot families) leave an all-zero plaintext buffer.",
         "2^-128 tag collisions excluded; value patterns {counting, dense}; lengths up to the stated bound."),
 "C03": ("exploration", "E1", "bounded exhaustive enumeration of (input length, output length, declared length, name length, customisation length) tuples on the real code against an independent reference built from the generic IV",
         "All length tuples up to the bound for HASH/HASHA/XOF/XOFA, the fixed-length and customised XOFs on 5 backends are compared with a reference that derives every initial value with the real permutation from the generic IV.",
         "Unkeyed functions: no LPC; message values by counting and dense patterns; reference bound to the shipped KAT corpus."),
 "C04": ("exploration", "E1+LPC", "bounded exhaustive enumeration of key/message/output length tuples and of wrong tags (all bit flips, all byte XOR values) on the real code against the reference; affine-basis enumeration under a linearised permutation for Prf/Mac/PrfShort",
         "Every length tuple up to the bound and every wrong tag of the two forgery classes is executed against a reference written from the ASCON-PRF spec, RFC 2104 and doc/kmac.dox.",
         "Reference bound to KAT corpus; lengths beyond the bound only by a dozen long lengths."),
}
NA = {}
ENGINES = [
 dict(name="E2", path="harness/c07.c", serves_properties=["C07", "C13", "C14", "C15", "C20"],
      kind_free_text="explicit-state search on the implementation: BFS over operation histories replayed on fresh real objects, states merged by canonical observable key"),
 dict(name="E1", path="harness/", serves_properties=["C01", "C02", "C03", "C04", "C05", "C06", "C08", "C10"],
      kind_free_text="bounded exhaustive shape x pattern enumeration of the real code against the reference model in ref/"),
 dict(name="LPC", path="harness/lpc.h", serves_properties=["C01", "C04", "C06"],
      kind_free_text="linearised-permutation abstraction (--wrap=ascon_permute): affine-basis enumeration covers all values per shape"),
]
