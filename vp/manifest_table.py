"""Per-property manifest rows: id -> (level category, engine, technique, level text, level note)."""
T = {}
NA = {}
ENGINES = [
 dict(name="E1", path="harness/", serves_properties=["C01", "C02", "C03", "C04", "C05", "C06", "C08", "C10"],
      kind_free_text="bounded exhaustive shape x pattern enumeration of the real code against the reference model in ref/"),
 dict(name="LPC", path="harness/lpc.h", serves_properties=["C01", "C04", "C06"],
      kind_free_text="linearised-permutation abstraction (--wrap=ascon_permute): affine-basis enumeration covers all values per shape"),
]
