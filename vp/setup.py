#!/usr/bin/env python3
"""Setup after a fresh restore: build the reference, bind it to the KAT corpus, warm the config cache."""
import os, sys, time
sys.path.insert(0, os.path.dirname(os.path.abspath(__file__)))
import build, refbind

t0 = time.time()
os.makedirs(build.BUILD, exist_ok=True)
n, notes = refbind.bind(full=True)
print("reference model reproduces %d KAT vectors" % n)
for x in notes:
    print("note:", x)
build.cfg_dir()
build.build_lib("asm")
print("setup done in %.1fs" % (time.time() - t0))
