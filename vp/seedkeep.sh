#!/bin/bash
# usage: seedkeep.sh <name> <srcdir> <property> "<needs>" "<caught by / result>"
N=$1; S=$2; P=$3; NEEDS=$4; RES=$5
D=/verif/seeded/$N; mkdir -p $D
cp $S/patch.diff $D/; for f in $S/demo.* $S/run_demo.sh $S/NOTES.md; do [ -f $f ] && cp $f $D/; done
python3 - "$N" "$P" "$NEEDS" "$RES" <<'PY'
import json,sys
n,p,needs,res=sys.argv[1:5]
json.dump(dict(name=n,breaks_property=p,origin="independent sub-agent given only the property text and a scratch worktree",
  needs_to_manifest=needs,
  confirmed=["patch applies to the pinned tree","default cmake build + all 114 ctest tests pass with the change","run_demo.sh exits non-zero on the changed tree and 0 on the unchanged tree (vp/seedverify.sh)"],
  checks_run=res),open('/verif/seeded/%s/meta.json'%n,'w'),indent=1)
PY
