"""Shared plumbing: harness runner, failure collection, known findings, evidence, replay files."""
import fnmatch, json, os, subprocess, sys, time, hashlib, shlex
from concurrent.futures import ThreadPoolExecutor

VERIF = os.path.dirname(os.path.dirname(os.path.abspath(__file__)))
_SCRATCH = os.environ.get("VERIF_REPO_ROOT", "/repo") != "/repo"
# runs against a scratch copy (mutation testing) must not overwrite the evidence of /repo
EVID = os.path.join(VERIF, "build", "scratch-evidence") if _SCRATCH else os.path.join(VERIF, "evidence")
REPLAY = os.path.join(VERIF, "build", "scratch-replay") if _SCRATCH else os.path.join(VERIF, "replay")
FINDINGS = os.path.join(VERIF, "known_findings.json")


class Ctx:
    def __init__(self, pid, tier, seed, deadline_s):
        self.pid = pid
        self.tier = tier
        self.seed = seed
        self.t0 = time.time()
        self.deadline = self.t0 + deadline_s
        self.failures = []        # dicts: key, detail, replay
        self.stats = {}
        self.samples = []
        self.notes = []
        self.assumptions = []
        self.exhaustive = True
        self.incomplete = []
        self.configs = []
        self.hard_errors = []

    @property
    def thorough(self):
        return self.tier == "thorough"

    def remaining(self):
        return self.deadline - time.time()

    def expired(self):
        return time.time() > self.deadline

    def stat(self, name, v=1):
        self.stats[name] = self.stats.get(name, 0) + v

    def fail(self, key, detail, replay=None):
        self.failures.append(dict(key=key, detail=detail, replay=replay or {}))

    def sample(self, s):
        if len(self.samples) < 12:
            self.samples.append(s)

    def cap(self, what):
        self.exhaustive = False
        self.incomplete.append(what)


def run_harness(ctx, exe, args=(), env=None, timeout=None, label="", wrapper=(), san_ok=False, cwd=None,
                stdin=None):
    """Runs one harness process, parses its protocol lines into ctx.  Returns (rc, stdout)."""
    if timeout is None:
        timeout = max(5.0, ctx.remaining())
    e = dict(os.environ)
    e.setdefault("ASAN_OPTIONS", "detect_leaks=0:abort_on_error=0:allocator_may_return_null=1")
    e.setdefault("UBSAN_OPTIONS", "print_stacktrace=1:halt_on_error=1")
    e["VERIF_SEED"] = str(ctx.seed)
    if env:
        e.update(env)
    cmd = list(wrapper) + [exe] + [str(a) for a in args]
    t0 = time.time()
    try:
        p = subprocess.run(cmd, stdout=subprocess.PIPE, stderr=subprocess.PIPE, env=e, timeout=timeout, cwd=cwd,
                           input=stdin)
        rc = p.returncode
        out = p.stdout.decode("utf-8", "replace")
        err = p.stderr.decode("utf-8", "replace")
    except subprocess.TimeoutExpired as ex:
        out = (ex.stdout or b"").decode("utf-8", "replace")
        err = (ex.stderr or b"").decode("utf-8", "replace")
        rc = "timeout"
    rep = dict(cmd=cmd, env={k: v for k, v in (env or {}).items()}, label=label)
    capped = False
    for line in out.splitlines():
        if line.startswith("FAIL "):
            parts = line.split(" ", 2)
            key = parts[1]
            detail = parts[2] if len(parts) > 2 else ""
            r = dict(rep)
            r["case"] = detail
            ctx.fail((label + ":" if label else "") + key, detail, r)
        elif line.startswith("STAT "):
            _, n, v = line.split(" ", 2)
            ctx.stat(n, int(v))
        elif line.startswith("SAMPLE "):
            ctx.sample((label + ": " if label else "") + line[7:])
        elif line.startswith("CAPPED"):
            capped = True
            ctx.cap((label + ": " if label else "") + line[7:])
        elif line.startswith("SETMAX "):
            _, n, v = line.split(" ", 2)
            ctx.stats[n] = max(ctx.stats.get(n, 0), int(v))
    if rc == "timeout":
        if ctx.expired() or timeout >= ctx.remaining():
            ctx.cap("%s: stopped at global deadline after %.0fs" % (label or os.path.basename(exe), time.time() - t0))
        else:
            ctx.fail((label + ":" if label else "") + "timeout", "harness timed out after %.0fs" % timeout, rep)
    elif rc != 0:
        tail = (err[-1500:] if err else out[-1500:])
        kind = "crash"
        if "AddressSanitizer" in err:
            kind = "asan"
        elif "runtime error" in err:
            kind = "ubsan"
        elif "ThreadSanitizer" in err:
            kind = "tsan"
        # a stable key: kind + first interesting frame
        frame = ""
        for l in err.splitlines():
            l = l.strip()
            if l.startswith("#") and (" in " in l):
                fn = l.split(" in ", 1)[1].split(" ")[0]
                if not fn.startswith("__") and fn not in ("memcpy", "memset", "memcmp", "main") and "sanitizer" not in fn:
                    frame = fn
                    break
            if "runtime error" in l and not frame:
                frame = l.split(":")[0].split("/")[-1] + ":" + l.split(":")[1]
                break
        r = dict(rep)
        r["stderr_tail"] = tail
        ctx.fail("%s%s:%s:rc=%s" % (label + ":" if label else "", kind, frame, rc), tail.replace("\n", " | ")[-600:], r)
    return rc, out, err


def parallel(fn, items, jobs=16):
    with ThreadPoolExecutor(jobs) as ex:
        return list(ex.map(fn, items))


def load_findings():
    if not os.path.isfile(FINDINGS):
        return []
    return json.load(open(FINDINGS))["findings"]


def finish(ctx, level, coverage, technique_note=""):
    """Classify failures against known findings, write replay files + evidence, print lines, return exit code."""
    findings = [f for f in load_findings() if f["property"] == ctx.pid]
    open_f = [f for f in findings if f.get("status") == "open"]
    known_hit = {}
    new = []
    for fl in ctx.failures:
        hit = None
        for f in open_f:
            if any(fnmatch.fnmatchcase(fl["key"], pat) for pat in f["keys"]):
                hit = f
                break
        if hit:
            known_hit.setdefault(hit["id"], (hit, []))[1].append(fl)
        else:
            new.append(fl)
    os.makedirs(EVID, exist_ok=True)
    for fid, (f, fls) in known_hit.items():
        print("KNOWN-FINDING: property=%s %s [%s] (%d failing cases this run, e.g. %s)" %
              (ctx.pid, f["what"], fid, len(fls), fls[0]["key"]))
    rc = 0
    if new:
        os.makedirs(REPLAY, exist_ok=True)
        seen = set()
        for fl in new:
            if fl["key"] in seen:
                continue
            seen.add(fl["key"])
            if len(seen) > 25:
                break
            name = "%s-%s.json" % (ctx.pid, hashlib.sha256(fl["key"].encode()).hexdigest()[:10])
            path = os.path.join(REPLAY, name)
            json.dump(dict(property=ctx.pid, key=fl["key"], detail=fl["detail"], tier=ctx.tier, seed=ctx.seed,
                           replay=fl["replay"]), open(path, "w"), indent=1)
            print("VIOLATION property=%s replay=%s" % (ctx.pid, path))
            print("  key=%s %s" % (fl["key"], fl["detail"][:300]))
        rc = 1
    cov = dict(coverage)
    cov.setdefault("samples", ctx.samples[:12] or ["(none)"])
    cov["exhaustive"] = bool(ctx.exhaustive and cov.get("exhaustive", True))
    if ctx.incomplete:
        cov["caps_hit"] = ctx.incomplete[:20]
    cov["counters"] = ctx.stats
    if ctx.configs:
        cov["configurations"] = ctx.configs
    cov["known_findings_reported"] = sorted(known_hit.keys())
    ev = dict(property_id=ctx.pid, tier=ctx.tier, seed=ctx.seed, level=level, coverage=cov,
              assumptions=ctx.assumptions, wall_s=round(time.time() - ctx.t0, 2),
              violations=len(set(f["key"] for f in new)))
    tmp = os.path.join(EVID, ctx.pid + ".json.tmp")
    json.dump(ev, open(tmp, "w"), indent=1)
    os.rename(tmp, os.path.join(EVID, ctx.pid + ".json"))
    print("%s %s: %s in %.1fs; violations=%d known=%d exhaustive=%s" %
          (ctx.pid, ctx.tier, " ".join("%s=%s" % kv for kv in sorted(ctx.stats.items())[:8]),
           time.time() - ctx.t0, ev["violations"], len(known_hit), cov["exhaustive"]))
    return rc


def huge_lengths(ctx, whats, jobs=4):
    """thorough tier only: one call with a length of 2^32 + 40 per listed function (4.3 GB of real memory per process)"""
    import build
    lib = build.build_lib("asm", opt="-O2")
    exe = build.build_prog("huge", ["harness/huge.c", "harness/sysrand.c", "ref/ref.c"], lib, opt="-O2")
    def one(w):
        if ctx.remaining() < 420:
            ctx.cap("huge-length run %s skipped: less than 7 minutes left before the deadline" % w)
            return
        run_harness(ctx, exe, [w], label="asm", timeout=max(60, ctx.remaining()))
    parallel(one, whats, jobs=jobs)
    ctx.assumptions.append("lengths at and beyond 2^32: one call of 2^32 + 40 bytes per function against an independent streaming 64-bit reference (itself cross-checked against ref.c); x86-64 back end only")


MID_LENGTHS = [131073, (1 << 20) + 5, (1 << 24) + 3]


def mid_lengths(ctx, whats, backends=("asm", "c32")):
    """every tier: one call per listed function with lengths of 128 KiB+1, 1 MiB+5 and 16 MiB+3 (17-, 20- and 24-bit counters and buffers) against the streaming reference"""
    import build
    jobs = []
    for be in backends:
        lib = build.build_lib(be, opt="-O2")
        exe = build.build_prog("huge", ["harness/huge.c", "harness/sysrand.c", "ref/ref.c"], lib, opt="-O2")
        for w in whats:
            for L in MID_LENGTHS:
                if be != "asm" and L > (1 << 21) and not ctx.thorough:
                    continue
                jobs.append((exe, [w, L], be))
    parallel(lambda j: run_harness(ctx, j[0], j[1], label=j[2], timeout=max(60, ctx.remaining())), jobs)
    ctx.stats["mid_length_calls"] = ctx.stats.get("mid_length_calls", 0) + len(jobs)
    ctx.assumptions.append("moderately long inputs: %s bytes per function on back ends %s against an independent streaming 64-bit reference" % (MID_LENGTHS, list(backends)))


def align_jobs(ctx, jobs, pick, offs=None):
    """the selected harness jobs again with every canary-guarded buffer (outputs, and inputs allocated through the harness) starting k bytes off a 16-byte boundary"""
    if offs is None:
        offs = (1, 2, 3, 4, 5, 6, 7) if ctx.thorough else (3, 5)
    sel = [(j, o) for j in jobs if pick(j) for o in offs]
    parallel(lambda jo: run_harness(ctx, jo[0][0], jo[0][1], label="%s+align%d" % (jo[0][2], jo[1]), env={"HX_OFF": str(jo[1])}), sel)
    ctx.stats["alignment_jobs"] = ctx.stats.get("alignment_jobs", 0) + len(sel)
    if sel:
        ctx.assumptions.append("alignment: %d harness jobs repeated with all harness buffers %s bytes off a 16-byte boundary" % (len(sel), list(offs)))


def run_on_pty(args, answers, cwd=None, timeout=60, env=None, prompt=b"assword: "):
    """Runs a program on a pseudo-terminal (its controlling tty) and types one answer per prompt.  Returns (exit status, everything the program wrote to the terminal)."""
    import pty, select
    pid, fd = pty.fork()
    if pid == 0:
        try:
            if cwd:
                os.chdir(cwd)
            os.execve(args[0], args, env if env is not None else dict(os.environ))
        finally:
            os._exit(127)
    out, sent, answers, t0 = b"", 0, list(answers), time.time()
    while True:
        r, _, _ = select.select([fd], [], [], 0.2)
        if r:
            try:
                dta = os.read(fd, 4096)
            except OSError:
                break
            if not dta:
                break
            out += dta
        while answers and sent < out.count(prompt):
            os.write(fd, answers.pop(0) + b"\n")
            sent += 1
        if time.time() - t0 > timeout:
            os.kill(pid, 9)
            break
    _, st = os.waitpid(pid, 0)
    os.close(fd)
    return os.waitstatus_to_exitcode(st), out
