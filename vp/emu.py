"""Dispatcher for the text-level ISA emulators of C18 (filled in per ISA under /verif/emu)."""
import importlib, os, sys, glob
sys.path.insert(0, os.path.join(os.path.dirname(os.path.dirname(os.path.abspath(__file__))), "emu"))
ALL = ["riscv32i", "riscv32e", "riscv64i", "armv8a64", "armv7m", "armv6", "armv6m", "i386", "m68k", "xtensa", "avr5", "avr5_x2", "avr5_x3"]


def run_all(ctx):
    ctx.not_emulated = []
    for isa in ALL:
        try:
            m = importlib.import_module("emu_" + isa)
        except ImportError:
            ctx.not_emulated.append(isa)
            continue
        m.run(ctx)
        ctx.stat("emulated_isas")
