"""C10: masked word toolkit / permutations / AEAD / keys equal their unmasked counterparts for every random tape and share count."""
import build, common

LEVEL = "exploration"
EMPTY_COVERAGE = dict(evaluations=0, distinct_nontrivial=0, rule="", samples=[])
QUICK_TRIPLES = [(4, 2, 4), (2, 1, 2), (2, 2, 2), (3, 2, 3), (3, 3, 3), (4, 1, 4), (4, 3, 4), (4, 4, 4), (2, 2, 3), (3, 1, 4)]


def run(ctx):
    t = 1 if ctx.thorough else 0
    triples = build.ALL_TRIPLES if t else QUICK_TRIPLES
    jobs = []
    # the direct-XOR and generic core back ends select their own branches of the state conversions (masked state <-> plain state): every (key shares, data shares) pair there too
    pairs = [(k, d, k) for k in (2, 3, 4) for d in range(1, k + 1)]
    for be in ("asm", "c64", "c32", "dxor", "generic"):
        for tr in (triples if (t or be in ("asm", "c64", "c32")) else pairs):
            name = "%s-k%dd%dm%d" % ((be,) + tr)
            try:
                lib = build.build_lib(be, tr, omit=("ascon-trng-mixer.c",), opt="-O2")
                exe = build.build_prog("c10", ["harness/c10.c", "harness/sysrand.c", "ref/ref.c"], lib, opt="-O2", cfg_dep=True)
            except build.BuildError as e:
                ctx.fail("build-error:" + name, str(e)[-600:])
                continue
            ctx.configs.append(name)
            main = tr == build.DEFAULT_TRIPLE
            jobs.append((exe, ["words"], name, 3))
            jobs.append((exe, ["keys"], name, 1))
            for n in (2, 3, 4):
                if n <= tr[2]:
                    jobs.append((exe, ["perm", n, 1 if (t and main) else 0], name, 9))
            for alg in range(3):
                jobs.append((exe, ["aead", alg, 1 if (t and main) else 0], name, 2))
    # the AVR-only direct-XOR masked-word back end, compiled stand-alone for the host with the selecting macros forced
    import os
    for m in (2, 3):
        try:
            src = os.path.join(build.REPO, "src", "masking", "ascon-masked-word-direct.c")
            exe = build.build_prog("c10_direct_m%d" % m, ["harness/c10.c", src], cc="gcc", opt="-O1",
                                   extra=["-D__AVR__", "-D__AVR_ARCH__=5", "-DASCON_MASKED_MAX_SHARES=%d" % m, "-DC10_WORDS_ONLY", "-I" + os.path.join(build.REPO, "src"),
                                          "-I" + os.path.join(build.REPO, "src", "ascon"), "-I" + os.path.join(common.VERIF, "emu", "stubs"), "-DVERIF_TREE=\"%s\"" % build.tree_hash()])
            jobs.append((exe, ["words"], "direct-word-m%d" % m, 3))
            ctx.configs.append("direct-xor masked-word back end (AVR source on the host) max shares %d" % m)
        except build.BuildError as e:
            ctx.fail("build-error:direct-word-m%d" % m, str(e)[-600:])
    jobs.sort(key=lambda j: -j[3])
    common.parallel(lambda j: common.run_harness(ctx, j[0], j[1], label=j[2]), jobs)
    # long inputs of the masked ciphers with the library's own random source: messages and associated data of 128 KiB+1 .. 16 MiB+3 bytes (thorough: 2^32 + 40 bytes of associated data)
    common.mid_lengths(ctx, ["masked:0", "masked:1", "masked:2", "masked-ad:0", "masked-ad:1", "masked-ad:2"], ("asm", "c64", "c32", "dxor", "generic") if ctx.thorough else ("asm", "c32"))
    if ctx.thorough:
        common.huge_lengths(ctx, ["masked-ad:0", "masked-ad:1", "masked-ad:2"], jobs=3)
    ctx.assumptions += [
        "the masking random source is replaced at link time (library built without ascon-trng-mixer.c; harness supplies ascon_trng_generate_32/64 from a scripted tape)",
        "unmasking uses the library's own store / copy_to_x1 functions, so a compensating error in both directions of a representation would go unnoticed by the word-level oracle (the AEAD-level and permutation-level oracles compare with the reference)",
        "word operations are GF(2)-linear in data and randomness: each random word ranges over {0, ~0, every unit bit, 8000..01, dense} one at a time plus all {0,~0,dense} combinations",
        "'every share changed' is judged on the generic (dense, all words distinct and non-zero) tape only",
    ]
    cov = dict(evaluations=ctx.stats.get("evaluations", 0), distinct_nontrivial=ctx.stats.get("nontrivial", 0),
               rule="per (masked backend in {x86-64 asm, C64, C32}) x share triple (%d triples): word toolkit operations x value set (70 values) x random-tape corner words; xN permutations on the weight<=2 set "
                    "(strided pairs in quick) x 12 rounds + 7 tape generators x preserve corners; masked AEAD x shapes x 7 tape generators; masked key mask/extract/randomize" % len(triples),
               exhaustive=True)
    return LEVEL, cov
