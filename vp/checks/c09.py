"""C09: identical results in every build configuration (transcript digests) + the acquire/release checker build."""
import os, subprocess, time
import build, common

LEVEL = "exploration"
EMPTY_COVERAGE = dict(evaluations=0, distinct_nontrivial=0, rule="", samples=[])
SRC = ["harness/c09.c", "harness/cpp_shim.cpp", "harness/sysrand.c", "ref/ref.c"]


def cfgname(be, tr, chk, cc="gcc", opt="-O2", extra=()):
    return "%s-k%dd%dm%d%s%s%s" % (be, tr[0], tr[1], tr[2], "-checker" if chk else "", "" if (cc, opt) == ("gcc", "-O2") else "-%s%s" % (cc, opt), "".join("," + e for e in extra))


def run(ctx):
    D = build.DEFAULT_TRIPLE
    configs = []
    if ctx.thorough:
        for be in ("asm", "c64", "c32", "dxor", "generic"):
            for tr in build.ALL_TRIPLES:
                configs.append((be, tr, False))
        for tr in build.ALL_TRIPLES:
            configs.append(("generic", tr, True))
    else:
        # the three masked backends (x86-64 asm, C64, C32) x all 27 triples, checker build x {default, every D=1 triple subset}
        for be in ("asm", "c64", "c32"):
            for tr in build.ALL_TRIPLES:
                configs.append((be, tr, False))
        # the direct-XOR and generic cores share the C64 masked words, but the masked-state conversions have branches of their own for them: every (key shares, data shares) pair
        for be in ("dxor", "generic"):
            for tr in [D] + [(k, d, k) for k in (2, 3, 4) for d in range(1, k + 1)]:
                configs.append((be, tr, False))
        configs += [("generic", D, True), ("generic", (4, 1, 4), True), ("generic", (2, 2, 2), True), ("generic", (3, 3, 3), True), ("generic", (4, 4, 4), True), ("generic", (2, 1, 2), True)]
    # other compilers and optimisation levels (not a configuration option of the library, but the same sources must give the same bytes)
    for be in (("asm", "c64", "c32", "dxor", "generic") if ctx.thorough else ("asm", "c64", "c32", "generic")):
        configs.append((be, D, False, "clang", "-O3"))
        configs.append((be, D, False, "gcc", "-O3"))
        configs.append((be, D, False, "gcc", "-Os"))       # size-optimising builds define __OPTIMIZE_SIZE__ (CMake's MinSizeRel, the Arduino default)
        if ctx.thorough or be in ("asm", "c32"):
            configs.append((be, D, False, "clang", "-Oz"))
        if ctx.thorough or be == "c32":
            configs.append((be, D, False, "gcc", "-O0"))
            configs.append((be, (3, 3, 3), False, "clang", "-O1"))
    # compilers that do not predefine the macros some sources test (the sources have a branch for that case): same bytes expected
    for be in (("asm", "c64", "c32", "generic") if ctx.thorough else ("asm", "c32")):
        for cc in ("gcc", "clang"):
            configs.append((be, D, False, cc, "-O2", ("-U__SIZEOF_SIZE_T__",)))
            configs.append((be, D, False, cc, "-O2", ("-DNDEBUG",)))      # assertion-free builds (RelWithDebInfo / MinSizeRel define it)
    # the repository's own build system (CMake, Release): the flags it gives the C, C++ and assembly sources are part of the configuration -- default and two MAX_SHARES values on the x86-64 back end
    for tr in ((D, (3, 2, 3), (2, 1, 2)) if not ctx.thorough else (D, (3, 2, 3), (2, 1, 2), (3, 3, 3), (2, 2, 2), (3, 1, 3))):
        configs.append(("asm", tr, False, "gcc", "cmake"))
    if ctx.thorough:
        configs.append(("c32", (3, 2, 3), False, "gcc", "cmake"))
    results = {}

    def one(c):
        be, tr, chk = c[:3]
        cc, opt = (c[3], c[4]) if len(c) > 3 else ("gcc", "-O2")
        extra = tuple(c[5]) if len(c) > 5 else ()
        name = cfgname(be, tr, chk, cc, opt, extra)
        try:
            if opt == "cmake":
                from checks.c13 import release_lib
                lib = release_lib(be, cc, None if tr == D else tr)
            else:
                lib = build.build_lib(be, tr, checker=chk, cc=cc, opt=opt, extra=list(extra))
            exe = build.build_prog("c09", SRC, lib, opt="-O2")
        except build.BuildError as e:
            ctx.fail("build-error:" + name, str(e)[-800:])
            return
        if ctx.expired():
            ctx.cap("configuration %s not run (deadline)" % name)
            return
        rc, out, err = common.run_harness(ctx, exe, [], label=name, timeout=600)
        if rc != 0 and "not balanced" in err:
            # re-key the generic crash failure into a stable finding key
            for f in ctx.failures:
                if f["key"].startswith(name + ":crash"):
                    last = [l for l in out.splitlines() if l.startswith("T ")]
                    f["key"] = "%s:checker-abort-after:%s" % (name, last[-1].split()[1] if last else "start")
                    f["detail"] = "acquire/release checker aborted in single-threaded use: " + f["detail"][:200]
        results[name] = dict(l.split()[1:3] for l in out.splitlines() if l.startswith("T "))
        ctx.configs.append(name)

    # build serially in small batches (each build already uses all cores), run in parallel
    common.parallel(one, configs, jobs=4)
    base = results.get(cfgname("asm", D, False), {})
    ndiff = 0
    for name, r in sorted(results.items()):
        for item, dig in base.items():
            if item in r and r[item] != dig:
                ndiff += 1
                ctx.fail("%s:diverges:%s" % (name, item), "transcript digest of item group '%s' differs from the default configuration" % item)
    ctx.stats["configurations_run"] = len(results)
    ctx.stats["digest_comparisons"] = sum(len(r) for r in results.values())
    # checker build: every pair of live objects, every interleaved op sequence up to depth 3
    lib = build.build_lib("generic", D, checker=True)
    exe = build.build_prog("c09", SRC, lib, opt="-O2")
    n = int(subprocess.run([exe, "nlive"], stdout=subprocess.PIPE).stdout.split()[1])
    pairs = [(i, j) for i in range(n) for j in range(n)]

    def live(p):
        try:
            pr = subprocess.run([exe, "live", str(p[0]), str(p[1])], stdout=subprocess.PIPE, stderr=subprocess.PIPE, timeout=120)
        except subprocess.TimeoutExpired as ex:
            seqs = [l for l in (ex.stdout or b"").decode().splitlines() if l.startswith("LIVE ")]
            ctx.fail("checker-live-hang:%d+%d" % p, "live-object sequence did not terminate: %s" % (seqs[-1] if seqs else "?"))
            return
        out = pr.stdout.decode()
        seqs = [l for l in out.splitlines() if l.startswith("LIVE ")]
        ctx.stat("live_sequences", len(seqs))
        if pr.returncode != 0:
            last = seqs[-1] if seqs else "LIVE ? ?"
            w = last.split()
            ctx.fail("checker-live:%s+%s" % (w[1], w[2]), "checker build aborted (%s) during: %s" % (pr.stderr.decode()[-80:].strip(), last),
                     dict(cmd=[exe, "live", str(p[0]), str(p[1])], label="checker", case=last))
    common.parallel(live, pairs, jobs=16)
    ctx.sample("checker build: %d kinds of live object, all %d ordered pairs, all interleaved op sequences of depth <= 3 (259 per pair)" % (n, len(pairs)))
    ctx.assumptions += [
        "every configuration additionally compares each result with the reference model inline; the digest comparison also covers items without a reference (hex, masked-key extraction, PRNG under a scripted source)",
        "system entropy is scripted (libc getrandom defined by the harness); the library's own mixer stays in place",
        "quick tier: the three distinct masked back ends x all 27 share triples + the remaining back ends with the default triple + 6 checker builds; thorough: all 135 + 27 checker builds",
    ]
    cov = dict(evaluations=ctx.stats.get("evaluations", 0) + ctx.stats.get("live_sequences", 0),
               distinct_nontrivial=len(results) + ctx.stats.get("live_sequences", 0),
               rule="configurations = back end x share triple (x checker), plus the default triple under clang -O3 / gcc -O3 / gcc -O0 / clang -O1; one process per build configuration runs the common workload (every public function family, ~%d item groups) and prints a digest per item group; digests must equal those of the "
                    "default configuration and every value must equal the reference; the checker build must reach the end of the workload and survive every interleaved op sequence (depth <= 3) on every ordered pair of live object kinds. "
                    "distinct_nontrivial = configurations run + live sequences" % len(base),
               exhaustive=True)
    return LEVEL, cov
