"""C17: every C++ member compiles when used (g++ and clang++, with and without the STL) and equals the C API for every keying path."""
import os, re
import build, common

LEVEL = "exploration"
EMPTY_COVERAGE = dict(evaluations=0, distinct_nontrivial=0, rule="", samples=[])
HEADERS = ["aead.h", "aead-masked.h", "siv.h", "isap.h", "hash.h", "xof.h", "utility.h"]


def public_members():
    """Names of public member functions / helpers declared in the C++ parts of the headers."""
    names = set()
    for h in HEADERS:
        t = open(os.path.join(build.REPO, "src", "ascon", h)).read()
        i = t.find("namespace ascon")
        if i < 0:
            continue
        t = re.sub(r"/\*.*?\*/", "", t[i:], flags=re.S)
        t = re.sub(r"//[^\n]*", "", t)
        access = "public"
        depth = 0
        for line in t.split("\n"):
            s = line.strip()
            if s.startswith("private:") or s.startswith("protected:"):
                access = "hidden"
            elif s.startswith("public:"):
                access = "public"
            elif re.match(r"(class|struct)\s+\w+", s) and not s.endswith(";"):
                access = "hidden" if s.startswith("class") else "public"
            if access == "public":
                for m in re.finditer(r"\b([a-z_][a-z0-9_]*)\s*\(", s):
                    n = m.group(1)
                    if n in ("if", "while", "for", "return", "sizeof", "switch", "defined", "reinterpret_cast", "static_cast", "memcpy", "memset", "strlen", "byte_array_private", "detach", "cmp", "string", "ascon", "do_encrypt", "do_decrypt", "aead_masked", "aead") or n.startswith("ascon_") or n.startswith("ascon1") or n.startswith("ascon8"):
                        continue
                    names.add(n)
    return names


def run(ctx):
    src = open(os.path.join(common.VERIF, "harness", "c17.cpp")).read() + open(os.path.join(common.VERIF, "harness", "c20_ba.cpp")).read()
    members = public_members()
    missing = sorted(n for n in members if not re.search(r"\b" + re.escape(n) + r"\b", src))
    ctx.stats["public_member_names"] = len(members)
    for n in missing:
        ctx.fail("cpp:member-not-exercised:" + n, "public C++ member '%s' declared in the headers is not used by the harness translation unit (extend harness/c17.cpp)" % n)
    jobs = []
    for cc in ("gcc", "clang"):
        for nostl in (False, True):
            name = "%s-%s" % (cc, "nostl" if nostl else "stl")
            try:
                lib = build.build_lib("asm", cc=cc, no_stl=nostl, opt="-O1", san="asan")
                exe = build.build_prog("c17", ["harness/c17.cpp", "harness/sysrand.c", "ref/ref.c"], lib, opt="-O1",
                                       extra=(["-DASCON_NO_STL"] if nostl else []) + ["-Wall"], cfg_dep=True)
            except build.BuildError as e:
                msg = str(e)
                first = [l for l in msg.splitlines() if "error" in l][:2]
                ctx.fail("build-error:%s" % name, "C++ sources / headers do not compile with %s: %s" % (name, " | ".join(first)[:500]))
                continue
            ctx.configs.append(lib["desc"] + (" nostl" if nostl else ""))
            jobs.append((exe, [], name))
    common.parallel(lambda j: common.run_harness(ctx, j[0], j[1], label=j[2]), jobs)
    ctx.stats["compilers_x_configs_built"] = len(jobs)
    ctx.assumptions += [
        "explicit instantiation of xof_with_output_length<N> / xofa_with_output_length<N> for N in {0,1,32,64} forces every member body to compile; all other members are called at least once (checked by name against the headers)",
        "oracle = the corresponding C function called with the same key, nonce and data (itself checked against the reference in C01-C06)",
        "default-constructed objects and zero-length keys mean the all-zero key",
    ]
    cov = dict(evaluations=ctx.stats.get("evaluations", 0), distinct_nontrivial=ctx.stats.get("nontrivial", 0),
               rule="one translation unit using every public member and overload, compiled with g++ and clang++ x {STL, ASCON_NO_STL} under ASan+UBSan; 12 cipher classes x 10+ keying paths "
                    "(default ctor, key ctor, null key ctor, set_key full, set_key(nullptr,0), set_key(ptr,0), re-key sequences, wrong lengths, ISAP saved key via ctor and set_key) x 16 shapes x "
                    "{raw pointer, byte_array} against the C functions; hash/hasha/xof/xofa<0,1,32,64> overloads. distinct_nontrivial = (class, keying path) pairs + hash/xof suites executed",
               exhaustive=True)
    return LEVEL, cov
