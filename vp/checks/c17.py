"""C17: every C++ member compiles when used (g++ and clang++, with and without the STL) and equals the C API for every keying path."""
import os, re, json, glob, shutil, subprocess
import build, common

LEVEL = "exploration"
EMPTY_COVERAGE = dict(evaluations=0, distinct_nontrivial=0, rule="", samples=[])
HEADERS = ["aead.h", "aead-masked.h", "siv.h", "isap.h", "hash.h", "xof.h", "utility.h"]


def public_members():
    """Names of public member functions / helpers declared in the C++ parts of the headers."""
    names = set()
    for h in HEADERS:
        t = open(os.path.join(build.REPO, "src", "ascon", h)).read()
        i = t.find("namespace ascon")
        if i < 0:
            continue
        t = re.sub(r"/\*.*?\*/", "", t[i:], flags=re.S)
        t = re.sub(r"//[^\n]*", "", t)
        access = "public"
        depth = 0
        for line in t.split("\n"):
            s = line.strip()
            if s.startswith("private:") or s.startswith("protected:"):
                access = "hidden"
            elif s.startswith("public:"):
                access = "public"
            elif re.match(r"(class|struct)\s+\w+", s) and not s.endswith(";"):
                access = "hidden" if s.startswith("class") else "public"
            if access == "public":
                for m in re.finditer(r"\b([a-z_][a-z0-9_]*)\s*\(", s):
                    n = m.group(1)
                    if n in ("if", "while", "for", "return", "sizeof", "switch", "defined", "reinterpret_cast", "static_cast", "memcpy", "memset", "strlen", "byte_array_private", "detach", "cmp", "string", "ascon", "do_encrypt", "do_decrypt", "aead_masked", "aead") or n.startswith("ascon_") or n.startswith("ascon1") or n.startswith("ascon8"):
                        continue
                    names.add(n)
    return names


def _stream(txt):
    dec, i = json.JSONDecoder(), 0
    while i < len(txt):
        while i < len(txt) and txt[i].isspace():
            i += 1
        if i >= len(txt):
            break
        o, i = dec.raw_decode(txt, i)
        yield o


def declared_overloads(inc, defs):
    """Every member function / constructor / destructor / namespace-level helper the C++ headers declare, one entry per overload, from clang's AST."""
    d = os.path.join(build.BUILD, "run", "c17ast-%d" % os.getpid())
    os.makedirs(d, exist_ok=True)
    tu = os.path.join(d, "tu.cpp")
    with open(tu, "w") as f:
        f.write("".join("#include <ascon/%s>\n" % h for h in HEADERS))
    p = subprocess.run(["clang++", "-std=c++11", "-fsyntax-only", "-Xclang", "-ast-dump=json", "-Xclang", "-ast-dump-filter=ascon"] + defs + inc + [tu], stdout=subprocess.PIPE, stderr=subprocess.PIPE)
    shutil.rmtree(d, ignore_errors=True)
    out = []

    def walk_class(c, prefix, tmpl):
        access = "private" if c.get("tagUsed") == "class" else "public"
        for m in c.get("inner", []):
            k = m["kind"]
            if k == "AccessSpecDecl":
                access = m["access"]
            elif k in ("CXXMethodDecl", "CXXConstructorDecl", "CXXDestructorDecl", "CXXConversionDecl") and not m.get("isImplicit"):
                out.append(dict(access=access, name=prefix + "::" + m["name"], type=m["type"]["qualType"], mangled=m.get("mangledName"), pure=m.get("pure", False),
                                tmpl=tmpl, deleted=m.get("explicitlyDeleted", False)))

    for t in _stream(p.stdout.decode()):
        if t["kind"] == "NamespaceDecl" and t.get("name") == "ascon":
            for m in t.get("inner", []):
                k = m["kind"]
                if k == "CXXRecordDecl" and m.get("completeDefinition"):
                    walk_class(m, m["name"], False)
                elif k == "ClassTemplateDecl":
                    for x in m.get("inner", []):
                        if x["kind"] == "CXXRecordDecl" and x.get("completeDefinition"):
                            walk_class(x, m["name"], True)
                elif k == "FunctionDecl":
                    out.append(dict(access="public", name="::" + m["name"], type=m["type"]["qualType"], mangled=m.get("mangledName"), pure=False, tmpl=False, deleted=False))
    return out


def overload_census(ctx, nostl):
    """Dynamic census: the harness translation units are run with function-level execution counts (gcov); every public overload the headers declare must have been executed.
    (The by-name census above cannot tell overloads apart.)"""
    label = "nostl" if nostl else "stl"
    lib = build.build_lib("asm", no_stl=nostl)
    inc, defs = list(lib["inc"]), (["-DASCON_NO_STL"] if nostl else [])
    decl = declared_overloads(inc, defs)
    if len([o for o in decl if o["access"] == "public"]) < 100:
        raise RuntimeError("overload census: the AST walk found too few declarations (%d)" % len(decl))
    d = os.path.join(build.BUILD, "run", "c17cov-%s-%d" % (label, os.getpid()))
    shutil.rmtree(d, ignore_errors=True)
    os.makedirs(d)
    try:
        hinc = ["-I" + os.path.join(common.VERIF, "harness"), "-I" + os.path.join(common.VERIF, "ref")]
        objs = []
        cmds = []
        cpp = sorted(glob.glob(os.path.join(build.REPO, "src", "cplusplus", "*.cpp")))
        for f in cpp + [os.path.join(common.VERIF, "harness", "c17.cpp")] + ([os.path.join(common.VERIF, "harness", "c20_ba.cpp")] if nostl else []):
            o = os.path.join(d, os.path.basename(f)[:-4] + ".o")
            cmds.append(["g++", "-std=c++11", "--coverage", "-O0", "-w"] + defs + hinc + inc + ["-I" + os.path.join(build.REPO, "src", "cplusplus"), "-c", f, "-o", o])
            objs.append(o)
        for f in ("harness/sysrand.c", "ref/ref.c", "harness/hx.c"):
            if os.path.exists(os.path.join(common.VERIF, f)):
                o = os.path.join(d, os.path.basename(f)[:-2] + "_c.o")
                cmds.append(["gcc", "-O1", "-w"] + hinc + inc + ["-c", os.path.join(common.VERIF, f), "-o", o])
                objs.append(o)
        res = common.parallel(lambda c: subprocess.run(c, stdout=subprocess.PIPE, stderr=subprocess.STDOUT), cmds)
        for c, r in zip(cmds, res):
            if r.returncode:
                ctx.fail("build-error:overload-census-" + label, r.stdout.decode()[-500:])
                return
        libobjs = [o for o in objs if os.path.basename(o) not in ("c17.o", "c20_ba.o")]
        for main in ["c17.o"] + (["c20_ba.o"] if nostl else []):
            exe = os.path.join(d, main[:-2])
            r = subprocess.run(["g++", "--coverage", "-o", exe, os.path.join(d, main)] + libobjs + [lib["lib"]], stdout=subprocess.PIPE, stderr=subprocess.STDOUT)
            if r.returncode:
                ctx.fail("build-error:overload-census-" + label, r.stdout.decode()[-500:])
                return
            subprocess.run([exe] + (["2", "3"] if main == "c20_ba.o" else []), stdout=subprocess.DEVNULL, stderr=subprocess.DEVNULL, cwd=d, timeout=600)
        gc = subprocess.run(["gcov", "--json-format", "--stdout"] + sorted(glob.glob(os.path.join(d, "*.gcda"))), stdout=subprocess.PIPE, stderr=subprocess.DEVNULL, cwd=d)
        counts, dem = {}, {}
        norm = lambda m: re.sub(r"([CD])[0-3]E", r"\1*E", m.replace("B5cxx11", ""))
        for o in _stream(gc.stdout.decode()):
            for f in o["files"]:
                for g in f["functions"]:
                    k = norm(g["name"])
                    counts[k] = max(counts.get(k, 0), g["execution_count"])
                    dem[k] = g["demangled_name"]
        n = 0
        for o in decl:
            if o["access"] != "public" or o["pure"] or o["deleted"] or o["tmpl"]:
                continue
            n += 1
            if not o["mangled"] or not counts.get(norm(o["mangled"])):
                ctx.fail("cpp:overload-not-executed:%s:%s %s" % (label, o["name"], o["type"]), "the public overload %s %s is declared in the headers but never executed by the harness (extend harness/c17.cpp)" % (o["name"], o["type"]))
        # class templates: the harness instantiates them explicitly, so every member exists in the object file; each must run in at least one instantiation
        tm = {}
        for k, v in counts.items():
            m = re.match(r"ascon::(xofa?_with_output_length)<\d+ul>::(.*)$", dem[k])
            if m:
                key = m.group(1) + "::" + re.sub(r"<\d+ul>", "<N>", m.group(2))
                tm[key] = max(tm.get(key, 0), v)
        want = len([o for o in decl if o["tmpl"] and o["access"] == "public"])
        if len(tm) < want:
            ctx.fail("cpp:overload-not-executed:%s:templates" % label, "%d template members are declared, only %d exist in the harness object file" % (want, len(tm)))
        for key, v in sorted(tm.items()):
            n += 1
            if not v:
                ctx.fail("cpp:overload-not-executed:%s:%s" % (label, key), "the template member %s is never executed by the harness in any instantiation" % key)
        ctx.stats["public_overloads_executed_" + label] = n
    finally:
        shutil.rmtree(d, ignore_errors=True)


def run(ctx):
    src = open(os.path.join(common.VERIF, "harness", "c17.cpp")).read() + open(os.path.join(common.VERIF, "harness", "c20_ba.cpp")).read()
    members = public_members()
    missing = sorted(n for n in members if not re.search(r"\b" + re.escape(n) + r"\b", src))
    ctx.stats["public_member_names"] = len(members)
    for n in missing:
        ctx.fail("cpp:member-not-exercised:" + n, "public C++ member '%s' declared in the headers is not used by the harness translation unit (extend harness/c17.cpp)" % n)
    for nostl in (False, True):
        overload_census(ctx, nostl)
    jobs = []
    for cc in ("gcc", "clang"):
        for nostl in (False, True):
            name = "%s-%s" % (cc, "nostl" if nostl else "stl")
            try:
                lib = build.build_lib("asm", cc=cc, no_stl=nostl, opt="-O1", san="asan")
                exe = build.build_prog("c17", ["harness/c17.cpp", "harness/sysrand.c", "ref/ref.c"], lib, opt="-O1",
                                       extra=(["-DASCON_NO_STL"] if nostl else []) + ["-Wall"], cfg_dep=True)
            except build.BuildError as e:
                msg = str(e)
                first = [l for l in msg.splitlines() if "error" in l][:2]
                ctx.fail("build-error:%s" % name, "C++ sources / headers do not compile with %s: %s" % (name, " | ".join(first)[:500]))
                continue
            ctx.configs.append(lib["desc"] + (" nostl" if nostl else ""))
            jobs.append((exe, [], name))
    common.parallel(lambda j: common.run_harness(ctx, j[0], j[1], label=j[2]), jobs)
    ctx.stats["compilers_x_configs_built"] = len(jobs)
    ctx.assumptions += [
        "explicit instantiation of xof_with_output_length<N> / xofa_with_output_length<N> for N in {0,1,32,64} forces every member body to compile; all other members are called at least once (checked by name against the headers)",
        "oracle = the corresponding C function called with the same key, nonce and data (itself checked against the reference in C01-C06)",
        "default-constructed objects and zero-length keys mean the all-zero key",
    ]
    cov = dict(evaluations=ctx.stats.get("evaluations", 0), distinct_nontrivial=ctx.stats.get("nontrivial", 0),
               rule="one translation unit using every public member and overload, compiled with g++ and clang++ x {STL, ASCON_NO_STL} under ASan+UBSan; 12 cipher classes x 10+ keying paths "
                    "(default ctor, key ctor, null key ctor, set_key full, set_key(nullptr,0), set_key(ptr,0), re-key sequences, wrong lengths, ISAP saved key via ctor and set_key) x 16 shapes x "
                    "{raw pointer, byte_array} against the C functions; hash/hasha/xof/xofa<0,1,32,64> overloads. distinct_nontrivial = (class, keying path) pairs + hash/xof suites executed",
               exhaustive=True)
    return LEVEL, cov
