"""C08: permutation (degree-2 completeness set) and byte-range primitives on every host backend."""
import build, common

LEVEL = "exploration"
EMPTY_COVERAGE = dict(evaluations=0, distinct_nontrivial=0, rule="", samples=[])


def run(ctx):
    backends = ["asm", "c64", "c32", "dxor", "generic"]
    jobs = []
    for be in backends:
        lib = build.build_lib(be)
        ctx.configs.append(lib["desc"])
        exe = build.build_prog("c08", ["harness/c08.c", "ref/ref.c"], lib, opt="-O2")
        t = 1 if ctx.thorough else 0
        for r in range(12):
            jobs.append((exe, ["perm", r, t], be))
        # call histories from a cold process: first call at round f (thorough: first two calls at f1, f2), then every starting round
        for f1 in range(12):
            for f2 in (range(-1, 12) if ctx.thorough else (-1,)):
                jobs.append((exe, ["order", f1, f2, 0], be))
        jobs.append((exe, ["bytes", t], be))
        jobs.append((exe, ["seq", 5 if ctx.thorough else 3], be))
    # the plain-C back ends once more compiled with clang (compiler-version conditionals, other builtins), and size-optimised
    for be, cc, opt in [("c64", "clang", "-O2"), ("c32", "clang", "-O2"), ("dxor", "clang", "-O2"), ("generic", "clang", "-O2"), ("c64", "gcc", "-Os"), ("c32", "clang", "-Oz")] + ([("dxor", "gcc", "-Os"), ("generic", "clang", "-Oz"), ("asm", "clang", "-O2")] if ctx.thorough else []):
        lib = build.build_lib(be, cc=cc, opt=opt)
        ctx.configs.append(lib["desc"])
        exe = build.build_prog("c08", ["harness/c08.c", "ref/ref.c"], lib, opt="-O2")
        lab = "%s-%s%s" % (be, cc, opt)
        for r in range(12):
            jobs.append((exe, ["perm", r, 0], lab))
        jobs.append((exe, ["bytes", 0], lab))
        jobs.append((exe, ["seq", 3], lab))
    common.parallel(lambda j: common.run_harness(ctx, j[0], j[1], label=j[2]), jobs)
    ctx.assumptions += [
        "each implemented round is a map of algebraic degree <= 2 over GF(2) (true for any AND-depth-1 bit-sliced round), so agreement on all inputs of weight <= 2 "
        "determines it; every backend enters straight-line per-round code at first_round, so downward induction from first_round 11 to 0 extends agreement to all 2^320 states",
        "byte-range operations are GF(2)-affine in (state, data): zero + every unit vector of state and data determines them; dense pairs test the assumption",
        "call history: a permutation may keep process-wide state (lazily built tables); every first call (thorough: every pair of first calls) of a cold process x the full sweep over all 12 starting rounds is run in its own process",
        "all access is through the public interface (overwrite_bytes / op / extract_bytes), which is itself part of what is being checked",
    ]
    cov = dict(evaluations=ctx.stats.get("evaluations", 0), distinct_nontrivial=ctx.stats.get("nontrivial", 0),
               rule="per backend: (1 + 320 + 51040) states of Hamming weight <= 2 and their complements + dense states x 12 starting rounds against the table-S-box reference; "
                    "861 (offset,size) ranges x {add, overwrite, zero, extract, extract_and_add, extract_and_overwrite out-of-place and in-place} x affine basis of (state, data); "
                    "every sequence of <= 3 (thorough: 5) operations from an 18-letter alphabet (permute, byte-range calls, ascon_copy both ways, release+acquire) on two live states against a byte-array model",
               exhaustive=True)
    return LEVEL, cov
