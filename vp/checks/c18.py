"""C18: assembly back ends = generator output = specification = ABI; no executable stack."""
import os, re, shutil, subprocess, filecmp, glob, hashlib
import build, common

LEVEL = "exploration"
EMPTY_COVERAGE = dict(evaluations=0, distinct_nontrivial=0, rule="", samples=[])
ASM_FILES = ["core/ascon-asm-armv6.S", "core/ascon-asm-armv6m.S", "core/ascon-asm-armv7m.S", "core/ascon-asm-armv8a-64.S", "core/ascon-asm-avr5.S", "core/ascon-asm-i386.S",
             "core/ascon-asm-m68k.S", "core/ascon-asm-riscv32e.S", "core/ascon-asm-riscv32i.S", "core/ascon-asm-riscv64i.S", "core/ascon-asm-x86-64.S", "core/ascon-asm-xtensa.S",
             "masking/ascon-word-asm-x86-64.S", "masking/ascon-x2-asm-x86-64.S", "masking/ascon-x3-asm-x86-64.S", "masking/ascon-x4-asm-x86-64.S", "masking/ascon-x2-asm-avr5.S", "masking/ascon-x3-asm-avr5.S"]


def generators(ctx):
    key = build.tree_hash(("tools",), ())
    d = os.path.join(build.BUILD, "gen-" + key)
    if not os.path.isfile(os.path.join(d, "ok")):
        shutil.rmtree(d, ignore_errors=True)
        os.makedirs(d)
        shutil.copytree(os.path.join(build.REPO, "tools"), os.path.join(d, "tools"))
        for sub in ("core", "masking"):
            os.makedirs(os.path.join(d, "src", sub))
        p = subprocess.run(["make", "-C", os.path.join(d, "tools"), "generate", "-j8"], stdout=subprocess.PIPE, stderr=subprocess.STDOUT, timeout=900)
        open(os.path.join(d, "make.log"), "wb").write(p.stdout)
        if p.returncode != 0:
            ctx.fail("generators:build", "make generate failed: " + p.stdout.decode()[-600:])
            return
        open(os.path.join(d, "ok"), "w").write("ok")
    for f in ASM_FILES:
        g = os.path.join(d, "src", f)
        r = os.path.join(build.REPO, "src", f)
        ctx.stat("evaluations")
        ctx.stat("nontrivial")
        if not os.path.isfile(g):
            ctx.fail("generators:missing:" + f, "the generators do not produce %s" % f)
        elif not os.path.isfile(r):
            ctx.fail("generators:missing-checked-in:" + f, "%s is not in the repository" % f)
        elif not filecmp.cmp(g, r, shallow=False):
            a = open(g, errors="replace").read().splitlines()
            b = open(r, errors="replace").read().splitlines()
            first = next((i for i, (x, y) in enumerate(zip(a, b)) if x != y), min(len(a), len(b)))
            ctx.fail("generators:differs:" + f, "checked-in file differs from the generator output at line %d: generator %r, checked-in %r" %
                     (first + 1, a[first][:80] if first < len(a) else "<eof>", b[first][:80] if first < len(b) else "<eof>"))
    extra = [f for f in glob.glob(os.path.join(build.REPO, "src", "*", "*.S")) if os.path.relpath(f, os.path.join(build.REPO, "src")) not in ASM_FILES]
    for f in extra:
        ctx.fail("generators:unlisted:" + os.path.basename(f), "assembly file %s is not produced by any generator rule" % f)
    ctx.sample("generators: `make generate` in a scratch copy of tools/ reproduces %d checked-in assembly files byte for byte" % len(ASM_FILES))


def elf(ctx):
    # the repository's own CMake build with each installed compiler driver (the assembler options are decided by the build rules, per driver),
    # in the default (Release) and in the Debug build type, and with a forced C back end (where every .S file assembles to an empty object)
    variants = [("gcc", [], "gcc"), ("clang", [], "clang")]
    if ctx.thorough:
        variants += [("gcc", ["-DCMAKE_BUILD_TYPE=Debug"], "gcc-debug"), ("clang", ["-DBACKEND_C32=ON"], "clang-c32"), ("gcc", ["-DBACKEND_GENERIC=ON", "-DCHECK_ACQUIRE_RELEASE=ON"], "gcc-generic-checker")]
    for cc, opts, name in variants:
        if not shutil.which(cc):
            ctx.sample("ELF: compiler driver %s not installed, variant %s skipped" % (cc, name))
            continue
        try:
            d = build.cmake_release(opts, tag="c18-elf", cc=cc, targets=("all",))
        except build.BuildError as e:
            ctx.fail("build-error:cmake-" + name, str(e)[-400:])
            continue
        elf_one(ctx, d, name)


def elf_one(ctx, d, variant):
    targets = [os.path.join(d, "src", "libascon.so"), os.path.join(d, "apps", "asconcrypt", "asconcrypt"), os.path.join(d, "apps", "asconsum", "asconsum")]
    targets += sorted(glob.glob(os.path.join(d, "test", "unit", "test-*")))[:4] + sorted(glob.glob(os.path.join(d, "test", "kat", "kat*")))[:2]
    for tg in targets:
        if not os.path.isfile(tg):
            continue
        out = subprocess.run(["readelf", "-lW", tg], stdout=subprocess.PIPE).stdout.decode()
        ctx.stat("evaluations")
        ctx.stat("nontrivial")
        gs = [l for l in out.splitlines() if "GNU_STACK" in l]
        if not gs:
            ctx.fail("elf:no-gnu-stack:%s%s" % (os.path.basename(tg), "" if variant == "gcc" else ":" + variant), "no PT_GNU_STACK header (stack executable by default)")
        elif "E" in gs[0].split()[-2]:
            ctx.fail("elf:executable-stack:%s%s" % (os.path.basename(tg), "" if variant == "gcc" else ":" + variant), "PT_GNU_STACK flags %s: the object forces an executable stack (CMake build with %s)" % (gs[0].split()[-2], variant))
    # every object assembled from a .S file must carry .note.GNU-stack
    objs = glob.glob(os.path.join(d, "src", "CMakeFiles", "ascon_static.dir", "*", "*.S.o"))
    for o in objs:
        out = subprocess.run(["readelf", "-SW", o], stdout=subprocess.PIPE).stdout.decode()
        ctx.stat("evaluations")
        if ".note.GNU-stack" not in out:
            ctx.fail("elf:object-without-stack-note:%s%s" % (os.path.basename(o), "" if variant == "gcc" else ":" + variant), "assembled object has no .note.GNU-stack section, so the linker marks the stack executable (CMake build with %s)" % variant)
    ctx.sample("ELF (%s): PT_GNU_STACK of libascon.so, the tools and test programs from the repository's own CMake build; .note.GNU-stack of %d assembled objects" % (variant, len(objs)))


def entry_point_census(ctx):
    """every global function label of every checked-in assembly file must be executed by the host harness or by an emulator; otherwise say so (incomplete, not a violation)"""
    srcs = ""
    for f in ["harness/c18_host.c"] + [os.path.join("emu", x) for x in os.listdir(os.path.join(common.VERIF, "emu")) if x.endswith(".py")]:
        srcs += open(os.path.join(common.VERIF, f)).read()
    # names built by token pasting / formatting in the harness sources (x##N##, x" #N "_permute, "ascon_x%d_permute")
    srcs = "".join(srcs.replace("##N##", k).replace('" #N "', k).replace("%d", k) for k in "234")
    n = 0
    for d in ("core", "masking"):
        for f in sorted(glob.glob(os.path.join(build.REPO, "src", d, "*.S"))):
            text = open(f).read()
            for sym in sorted(set(m.lstrip("_") for m in re.findall(r"^\s*\.glob[a]?l\s+(\S+)", text, re.M))):
                n += 1
                if not re.search(r"\b" + re.escape(sym) + r"\b", srcs):
                    ctx.cap("assembly entry point %s of %s is not executed by any harness or emulator" % (sym, os.path.basename(f)))
    ctx.stats["asm_entry_points"] = n


def native_i386(ctx, py):
    """(e) the i386 file assembled with gcc -m32 into a freestanding program and run on the host CPU in 32-bit mode (if the host can)"""
    out = os.path.join(build.BUILD, "tmp", "c18-i386-%d" % os.getpid())
    os.makedirs(os.path.dirname(out), exist_ok=True)
    core = os.path.join(build.REPO, "src", "core")
    cmd = ["gcc", "-m32", "-ffreestanding", "-nostdlib", "-static", "-O1", "-fno-stack-protector", "-Wa,--noexecstack", "-I" + core, "-o", out,
           os.path.join(common.VERIF, "harness", "i386", "srv.c"), os.path.join(common.VERIF, "harness", "i386", "tramp.S"), os.path.join(core, "ascon-asm-i386.S")]
    def unavailable(why):
        # no 32-bit code generation or execution on this host: the text-level emulator above remains the only executor for i386
        ctx.sample("native i386 run not available on this host (%s); i386 covered by the emulator only" % why)
        ctx.stats["native_i386"] = 0
    try:
        # the harness alone first: tells "this host cannot do -m32" apart from "the checked-in file does not assemble"
        probe = subprocess.run(cmd[:-1] + ["-Wl,--unresolved-symbols=ignore-all"], stdout=subprocess.PIPE, stderr=subprocess.STDOUT, timeout=300)
        if probe.returncode != 0:
            return unavailable("gcc -m32 cannot build a freestanding program")
        p = subprocess.run(cmd, stdout=subprocess.PIPE, stderr=subprocess.STDOUT, timeout=300)
        if p.returncode != 0:
            ctx.fail("i386-native:assemble", "the checked-in i386 file does not assemble/link with gcc -m32: " + p.stdout.decode("utf-8", "replace")[-300:])
            return
        if subprocess.run([out], input=b"", stdout=subprocess.PIPE, stderr=subprocess.PIPE, timeout=60).returncode != 0:
            return unavailable("32-bit programs do not execute")
    except (OSError, subprocess.TimeoutExpired) as ex:
        return unavailable(str(ex)[:80])
    rc, o, e = common.run_harness(ctx, py, [os.path.join(common.VERIF, "emu", "native_i386.py"), out, 1], label="", timeout=max(60, ctx.remaining()),
                                  env={"EMU_REFPERM": build.build_prog("refperm_cli", ["ref/refperm_cli.c", "ref/ref.c"], cc="gcc", opt="-O2")})
    ctx.stats["native_i386"] = 1 if rc == 0 else 0
    try:
        os.unlink(out)
    except OSError:
        pass


def isa_baseline(ctx):
    """every instruction of the x86-64 and i386 files must belong to the baseline instruction set of the CPU family the back end is selected for (ascon-select-backend.h selects
    them on __x86_64__ / __i386__ alone, with no run-time dispatch): the assembler is told to accept nothing else (generic64: no BMI/AVX/ADX...; i386)"""
    lib = build.build_lib("asm", opt="-O2")
    out = os.path.join(build.BUILD, "tmp", "c18-isa-%d.o" % os.getpid())
    os.makedirs(os.path.dirname(out), exist_ok=True)
    n = 0
    for f in ASM_FILES:
        if "x86-64" in f:
            flags, what = ["-Wa,-march=generic64"], "x86-64 baseline (generic64)"
        elif "i386" in f:
            flags, what = ["-m32", "-Wa,-march=i386"], "i386"
        else:
            continue
        for variant in ([], ["-DASCON_MASKED_MAX_SHARES=2"], ["-DASCON_MASKED_MAX_SHARES=3"]) if "masking" in f else ([],):
            p = subprocess.run(["gcc", "-c"] + flags + lib["inc"] + ["-DHAVE_CONFIG_H"] + variant + [os.path.join(build.REPO, "src", f), "-o", out], stdout=subprocess.PIPE, stderr=subprocess.STDOUT)
            msg = p.stdout.decode("utf-8", "replace")
            ctx.stat("evaluations")
            if p.returncode != 0 and "-m32" in flags and ("not supported" not in msg and "Error:" not in msg):
                continue      # no 32-bit preprocessing on this host
            if p.returncode != 0:
                ctx.fail("isa-baseline:%s" % os.path.basename(f), "uses instructions outside %s: %s" % (what, " | ".join(l.split(": ", 1)[-1] for l in msg.splitlines() if "Error:" in l)[:300] or msg[-300:]))
            n += 1
    try:
        os.unlink(out)
    except OSError:
        pass
    ctx.stats["isa_baseline_objects"] = n
    ctx.sample("ISA baseline: %d assemblies of the x86-64 / i386 files with the assembler restricted to generic64 / i386" % n)


# which assembly back ends may be selected for which compilation target: the architecture must be the file's, and the x86-64 files follow the System V calling convention
# (arguments in rdi/rsi, rsi/rdi caller-saved), so no target with the Microsoft x64 convention may select them.  A plain-C back end is acceptable everywhere.
SELECTION_TARGETS = [
    ("x86_64-linux-gnu", {"X86_64"}), ("x86_64-unknown-freebsd", {"X86_64"}), ("x86_64-apple-darwin", {"X86_64"}), ("x86_64-unknown-netbsd", {"X86_64"}),
    ("x86_64-pc-windows-msvc", set()), ("x86_64-w64-mingw32", set()), ("x86_64-pc-windows-cygnus", set()),
    ("i686-linux-gnu", {"I386"}), ("i686-pc-windows-msvc", {"I386"}), ("i386-unknown-freebsd", {"I386"}),
    ("aarch64-linux-gnu", {"ARMV8A"}), ("aarch64-pc-windows-msvc", {"ARMV8A"}), ("arm64-apple-darwin", {"ARMV8A"}),
    ("armv7m-none-eabi", {"ARMV7M"}), ("thumbv7em-none-eabi", {"ARMV7M"}), ("armv7a-none-eabi", {"ARMV7M", "ARMV6"}), ("armv6m-none-eabi", {"ARMV6M"}), ("thumbv6m-none-eabi", {"ARMV6M"}),
    ("armv6-none-eabi", {"ARMV6"}), ("armv5te-none-eabi", set()), ("thumbv8m.base-none-eabi", {"ARMV6M"}), ("thumbv8m.main-none-eabi", {"ARMV7M", "ARMV6M"}),
    ("riscv32-unknown-elf", {"RISCV32I", "RISCV32E"}), ("riscv64-unknown-elf", {"RISCV64I"}), ("riscv64-linux-gnu", {"RISCV64I"}),
    ("m68k-linux-gnu", {"M68K"}), ("mips-linux-gnu", set()), ("mips64-linux-gnu", set()), ("powerpc64le-linux-gnu", set()), ("powerpc-linux-gnu", set()), ("sparcv9-linux-gnu", set()),
    ("wasm32", set()), ("wasm64", set()), ("s390x-linux-gnu", set()), ("hexagon", set()), ("msp430", set()), ("bpf", set()),
]
ASM_BACKENDS = {"ARMV6", "ARMV6M", "ARMV7M", "ARMV8A", "AVR5", "I386", "M68K", "RISCV32E", "RISCV32I", "RISCV64I", "X86_64", "XTENSA"}


def selection_census(ctx):
    """program enumeration over compilation targets: ascon-select-backend.h preprocessed with clang's predefined macros of each target; the assembly back end it selects (if any)
    must be one written for that architecture and calling convention"""
    hdr = os.path.join(build.REPO, "src", "core", "ascon-select-backend.h")
    done = []
    for target, allowed in SELECTION_TARGETS:
        for extra in ([], ["-DASCON_FORCE_C32"], ["-DASCON_FORCE_C64"]) if not allowed else ([],):
            p = subprocess.run(["clang", "--target=" + target, "-E", "-dM", "-I" + os.path.join(build.REPO, "src", "core"), "-include", hdr, "-x", "c", "/dev/null"] + extra,
                               stdout=subprocess.PIPE, stderr=subprocess.PIPE)
            if p.returncode != 0:
                break     # this clang cannot target it
            sel = set(re.findall(r"#define ASCON_BACKEND_([A-Z0-9_]+) 1", p.stdout.decode()))
            asm = sel & ASM_BACKENDS
            ctx.stat("evaluations")
            if len(asm) > 1:
                ctx.fail("backend-selection:%s" % target, "more than one assembly back end selected: %s" % sorted(asm))
            bad = asm - allowed
            if bad:
                ctx.fail("backend-selection:%s" % target, "selects the assembly back end %s, which is not written for this target's architecture / calling convention (acceptable here: %s or plain C)" % (sorted(bad), sorted(allowed) or "none"))
            if not extra:
                done.append("%s->%s" % (target, ",".join(sorted(asm)) or "C"))
    ctx.stats["selection_targets"] = len(done)
    ctx.sample("back-end selection over %d clang targets: %s" % (len(done), " ".join(done)))


def run(ctx):
    t = ctx.thorough
    generators(ctx)
    elf(ctx)
    isa_baseline(ctx)
    selection_census(ctx)
    entry_point_census(ctx)
    jobs = []
    for tr in (build.ALL_TRIPLES if t else [build.DEFAULT_TRIPLE, (2, 1, 2), (3, 3, 3)]):
        lib = build.build_lib("asm", tr, opt="-O2")
        exe = build.build_prog("c18_host", ["harness/c18_host.c", "harness/abi_tramp.S", "harness/sysrand.c", "ref/ref.c"], lib, opt="-O1", cfg_dep=True)
        jobs.append((exe, [], "host-k%dd%dm%d" % tr))
        ctx.configs.append(lib["desc"])
    common.parallel(lambda j: common.run_harness(ctx, j[0], j[1], label=j[2]), jobs)
    # (d) text-level emulation of the other ISAs (numpy; runs under the tooling interpreter python3-vt)
    isas = ["riscv32i", "riscv32e", "riscv64i", "armv8a64", "armv7m", "armv6", "armv6m", "i386", "m68k", "xtensa", "avr5", "avr5_x2", "avr5_x3"]
    ctx.not_emulated = []
    py = shutil.which("python3-vt")
    if not py:
        ctx.not_emulated = isas
        ctx.cap("python3-vt (numpy) not available: no ISA emulated")
    else:
        runpy = os.path.join(common.VERIF, "emu", "run.py")
        refperm = build.build_prog("refperm_cli", ["ref/refperm_cli.c", "ref/ref.c"], cc="gcc", opt="-O2")

        def emu_one(isa):
            rc, out, err = common.run_harness(ctx, py, [runpy, isa, 1 if t else 0], label="", timeout=max(60, ctx.remaining()), env={"EMU_REFPERM": refperm})
            if rc == 0:
                ctx.stat("emulated_isas")
            else:
                ctx.not_emulated.append(isa)
        common.parallel(emu_one, isas, jobs=13)
        native_i386(ctx, py)
    ctx.assumptions += [
        "generator check: the generators are built and run from a scratch copy of tools/ and their output compared byte for byte with the 18 checked-in files",
        "x86 instruction-set baseline: the back ends are selected on __x86_64__ / __i386__ alone, so every instruction must assemble under -march=generic64 / -march=i386 (what the emulators are for the other ISAs: an unknown instruction is an error)",
        "host ABI: System V x86-64 callee-saved set {rbx, rbp, r12-r15}, rsp, direction flag, no write above the return address; objects flush against PROT_NONE pages",
        "the i386 file is also run natively in 32-bit mode when the host allows it (evidence counter native_i386 = 1); if not, only the emulator speaks for it",
        "other ISAs are executed by text-level emulators of the instruction subsets these files use (a model of the ISA, not silicon); an ISA without a finished emulator is listed under not_emulated and nothing is claimed for it",
    ]
    cov = dict(evaluations=ctx.stats.get("evaluations", 0), distinct_nontrivial=ctx.stats.get("nontrivial", 0),
               emulated=ctx.stats.get("emulated_isas", 0), not_emulated=getattr(ctx, "not_emulated", []),
               rule="18 generated files vs generator output; ELF stack flags of every linked artefact and .note.GNU-stack of every assembled object; x86-64 entry points (permutation, masked x2-x4 permutations, "
                    "masked word functions) x states x 12 rounds through an ABI-checking trampoline; per emulated ISA: weight<=2 states x 12 starting rounds vs the specification with callee-saved / stack / memory-bounds checks; "
                    "i386 additionally assembled with gcc -m32 and run on the host CPU: all weight<=2 states and complements x 12 rounds, cdecl registers, esp, guard words",
               exhaustive=True)
    return LEVEL, cov
