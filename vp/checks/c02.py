"""C02: decryption inverts, rejects every forgery, wipes plaintext (15 families)."""
import build, common

LEVEL = "exploration"
EMPTY_COVERAGE = dict(evaluations=0, distinct_nontrivial=0, rule="", samples=[])


def run(ctx):
    backends = ["asm", "c64", "c32", "dxor", "generic"]
    jobs = []
    for be in backends:
        lib = build.build_lib(be)
        ctx.configs.append(lib["desc"])
        exe = build.build_prog("c02", ["harness/c02.c", "harness/cpp_shim.cpp", "harness/sysrand.c", "ref/ref.c"], lib)
        for fam in range(5):
            for alg in range(3):
                for pat in ((0, 3) if be == "asm" else (3,)):
                    jobs.append((exe, [fam, alg, pat, 1 if (ctx.thorough and be == "asm") else 0], be, fam == 4))
        # the C++ classes of the same four families (asm and one C back end in quick)
        if ctx.thorough or be in ("asm", "c32"):
            for fam in range(5, 9):
                for alg in range(3):
                    jobs.append((exe, [fam, alg, 3, 0], be, fam == 8))
    # the C++ classes once more in the ASCON_NO_STL configuration (the library's own copy-on-write byte_array under the byte_array overloads)
    for be in (("asm", "c32") if ctx.thorough else ("asm",)):
        lib = build.build_lib(be, no_stl=True)
        exe = build.build_prog("c02", ["harness/c02.c", "harness/cpp_shim.cpp", "harness/sysrand.c", "ref/ref.c"], lib, extra=["-DASCON_NO_STL"], cfg_dep=True)
        ctx.configs.append(lib["desc"] + " ASCON_NO_STL")
        for fam in range(5, 9):
            for alg in range(3):
                jobs.append((exe, [fam, alg, 3, 0], be + "-nostl", fam == 8))
    # the C++ classes in an assertion-free build (-DNDEBUG, as CMake's RelWithDebInfo / MinSizeRel define it)
    for be in (("asm", "c32") if ctx.thorough else ("asm",)):
        lib = build.build_lib(be, extra=["-DNDEBUG"])
        exe = build.build_prog("c02", ["harness/c02.c", "harness/cpp_shim.cpp", "harness/sysrand.c", "ref/ref.c"], lib, extra=["-DNDEBUG"])
        ctx.configs.append(lib["desc"] + " NDEBUG")
        for fam in range(5, 9):
            for alg in range(3):
                jobs.append((exe, [fam, alg, 3, 0], be + "-ndebug", fam == 8))
    # the masked family additionally under other share counts (its decrypt path differs per data-share count)
    for be in ("asm", "c64", "c32"):
        for tr in ([(2, 1, 2), (3, 3, 3), (4, 4, 4), (4, 1, 4), (3, 2, 3)] if not ctx.thorough else [t for t in build.ALL_TRIPLES if t != build.DEFAULT_TRIPLE]):
            lib = build.build_lib(be, tr)
            exe = build.build_prog("c02", ["harness/c02.c", "harness/cpp_shim.cpp", "harness/sysrand.c", "ref/ref.c"], lib)
            ctx.configs.append(lib["desc"])
            for alg in range(3):
                jobs.append((exe, [2, alg, 3, 0], "%s-k%dd%dm%d" % ((be,) + tr), False))
    # the families that draw randomness, with the system source not there at all (every request fails: ENOSYS as under a seccomp filter or an old kernel, EIO, EPERM):
    # what decryption accepts, rejects and wipes does not depend on it
    for be in (("asm", "c64", "c32", "dxor", "generic") if ctx.thorough else ("asm", "c32")):
        lib = build.build_lib(be)
        exe = build.build_prog("c02", ["harness/c02.c", "harness/cpp_shim.cpp", "harness/sysrand.c", "ref/ref.c"], lib)
        for err in ((38, 5, 1) if ctx.thorough else (38,)):
            for alg in range(3):
                for fam in (2, 6, 4, 8):
                    jobs.append((exe, [fam, alg, 3, 0], "%s-rng-down-%d" % (be, err), fam in (4, 8), {"VP_SYSRAND_DOWN": str(err)}))
    jobs.sort(key=lambda j: not j[3])
    common.parallel(lambda j: common.run_harness(ctx, j[0], j[1], label=j[2], env=j[4] if len(j) > 4 else None), jobs)
    common.align_jobs(ctx, jobs, lambda j: j[2] in ("asm", "c64") and j[1][2] == 3 and j[1][0] < 5)
    ADW = ["aead-ad:0", "aead-ad:1", "aead-ad:2", "siv-ad:0", "siv-ad:1", "siv-ad:2", "isap-ad:0", "isap-ad:1", "isap-ad:2"]
    common.mid_lengths(ctx, ADW, ("asm", "c64", "c32", "dxor", "generic") if ctx.thorough else ("asm", "c32"))
    if ctx.thorough:
        common.huge_lengths(ctx, ADW, jobs=4)
    ctx.assumptions += [
        "a 2^-128 tag collision does not occur among the enumerated forgeries (it would be deterministic)",
        "the plaintext-wipe oracle is applied to the one-shot families (plain, masked, SIV, ISAP) as the property states; the incremental interface is judged on its finalize result only",
        "key flips for masked/ISAP families are applied to the raw key before building the key object",
    ]
    cov = dict(evaluations=ctx.stats.get("evaluations", 0), distinct_nontrivial=ctx.stats.get("forgeries", 0),
               rule="per (family, algorithm, backend, pattern, adlen, mlen): round trip; every single-bit flip of every ciphertext, tag, AD, nonce and key byte; "
                    "AD shortened/extended; all 255 XOR values on each tag byte (reduced shape set); tag complement; every truncation 0..clen-1; extension by 1, 8, 16. "
                    "distinct_nontrivial = number of distinct forged inputs submitted (each must be rejected, plaintext zeroed for one-shot families)",
               exhaustive=True)
    return LEVEL, cov
