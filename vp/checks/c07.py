"""C07: explicit-state search over the real incremental objects (chunking, in-place, copy, re-init)."""
import build, common

LEVEL = "model_checking"
EMPTY_COVERAGE = dict(states=0, transitions=0, traces_validated_against_impl=0, samples=[])
MACHINES = ["xof", "xofa", "xof:fixed", "xofa:fixed", "xof:custom", "xofa:custom", "hash", "hasha", "prf", "prf:fixed",
            "kmac", "kmaca", "kdf", "kdfa", "hmac", "hmaca", "hkdf", "hkdfa",
            "enc128", "enc128a", "enc80pq", "dec128", "dec128a", "dec80pq", "enc128:null", "enc128a:null", "enc80pq:null", "dec80pq:null", "longrun", "longrun-a", "cppcopy"]


def run(ctx):
    backends = ["asm", "c64", "c32", "dxor", "generic"]
    jobs = []
    for be in backends:
        lib = build.build_lib(be)
        ctx.configs.append(lib["desc"])
        exe = build.build_prog("c07", ["harness/c07.c", "harness/cpp_shim.cpp", "harness/sysrand.c", "ref/ref.c"], lib, opt="-O2")
        for m in MACHINES:
            jobs.append((exe, [m, 2 if ctx.thorough else 0], be))
    res = common.parallel(lambda j: common.run_harness(ctx, j[0], j[1], label=j[2]), jobs)
    common.align_jobs(ctx, jobs, lambda j: j[2] in ("asm", "c32", "generic") and j[1][0] not in ("cppcopy",))
    for (rc, out, err), j in zip(res, jobs):
        if "HARNESS-NONDETERMINISM" in out:
            ctx.hard_errors.append(j)
    ctx.assumptions += [
        "canonical state key = ascon_extract_bytes(0..40) of the embedded permutation state + every scalar field a later call can read (count, mode, posn, key, nonce, prk, counter, chaining block); struct padding is never compared",
        "merging histories with equal keys is sound because the key holds everything later calls read; replay determinism is asserted for every new state",
        "absorb after any squeeze call (documented library behaviour, not part of the property) is not explored; expected values are the library's own one-shot results, themselves cross-checked against the reference",
    ]
    cov = dict(states=ctx.stats.get("states", 0), transitions=ctx.stats.get("transitions", 0),
               traces_validated_against_impl=ctx.stats.get("traces_validated", 0),
               max_depth=ctx.stats.get("max_depth", 0), merged_edges=ctx.stats.get("merged_edges", 0),
               machines=MACHINES,
               rule="BFS from the freshly initialised object of each of 28 interfaces x 5 backends; edges: absorb/update/process chunk of every length 0..2r+1 (in-place and out-of-place for AEAD), "
                    "squeeze/expand chunk of every length 0..2r+1, finalize, copy, re-init; oracle on every edge; plus a long run of 66,001 bytes in chunks of 7 / 13 through every interface against the single-call result",
               exhaustive=True)
    return LEVEL, cov
