"""C03: hash / XOF / fixed-length XOF / cXOF against the reference."""
import build, common

LEVEL = "exploration"
EMPTY_COVERAGE = dict(evaluations=0, distinct_nontrivial=0, rule="", samples=[])


def run(ctx):
    backends = ["asm", "c64", "c32", "dxor", "generic"]
    jobs = []
    for be in backends:
        lib = build.build_lib(be)
        ctx.configs.append(lib["desc"])
        exe = build.build_prog("c03", ["harness/c03.c", "harness/cpp_shim.cpp", "ref/ref.c"], lib)
        main = be == "asm"
        for a in (0, 1):
            for mode in ("plain", "fixed", "cxof"):
                for pat in ((0, 3) if main else (3,)):
                    jobs.append((exe, [a, mode, pat, 1 if (ctx.thorough and main) else 0], be))
    # the sources test __SIZEOF_SIZE_T__ (not predefined by every compiler) around the declared-length clamp: the same checks with the macro undefined
    for be, cc in ((("asm", "gcc"), ("c32", "clang"), ("generic", "gcc")) if ctx.thorough else (("asm", "gcc"), ("c32", "clang"))):
        lib = build.build_lib(be, cc=cc, extra=["-U__SIZEOF_SIZE_T__"])
        ctx.configs.append(lib["desc"] + " -U__SIZEOF_SIZE_T__")
        exe = build.build_prog("c03", ["harness/c03.c", "harness/cpp_shim.cpp", "ref/ref.c"], lib)
        for a in (0, 1):
            for mode in ("fixed", "cxof"):
                jobs.append((exe, [a, mode, 3, 0], "%s-%s-no-sizeof-macro" % (be, cc)))
    common.parallel(lambda j: common.run_harness(ctx, j[0], j[1], label=j[2]), jobs)
    common.align_jobs(ctx, jobs, lambda j: j[2] in ("asm", "c64") and j[1][2] == 3)
    common.mid_lengths(ctx, ["hash:0", "hash:1", "xof-in:0", "xof-in:1", "xof-out:0", "xof-out:1"], ("asm", "c64", "c32", "dxor", "generic") if ctx.thorough else ("asm", "c32"))
    if ctx.thorough:
        common.huge_lengths(ctx, ["hash:0", "hash:1", "xof-in:0", "xof-in:1", "xof-out:0", "xof-out:1"])
    ctx.assumptions += [
        "reference: generic IV 00 40 0c {00|04} || outbits32 followed by the real 12-round permutation, so every pre-computed IV table of every backend is checked against the generic construction",
        "cXOF as documented in doc/cxof.dox; function names are NUL-free C strings",
        "hash functions are unkeyed: no LPC pass; values covered by the counting and dense patterns only",
    ]
    cov = dict(evaluations=ctx.stats.get("evaluations", 0), distinct_nontrivial=ctx.stats.get("nontrivial", 0),
               rule="(inlen, outlen) grid for HASH/HASHA/XOF/XOFA one-shot, incremental and streaming; declared lengths incl. 32, 0, 2^29-1, 2^29, 2^32+32, SIZE_MAX; "
                    "cXOF name length NULL/0..40(70) x custom 0..24(40) x declared x inlen x outlen; 5 backends; distinct_nontrivial counts parameter tuples executed (per backend and pattern)",
               exhaustive=True)
    return LEVEL, cov
