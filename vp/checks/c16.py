"""C16: re-entrancy. (1) census of writable static storage, (2) preemption-bounded exhaustive schedule exploration under an own
TSan runtime, (3) free-running pass under the real ThreadSanitizer."""
import os, re, subprocess
import build, common

LEVEL = "model_checking"
EMPTY_COVERAGE = dict(states=0, transitions=0, traces_validated_against_impl=0, samples=[])
RT = ["harness/sched/c16.c", "harness/sched/rt.c", "harness/cpp_session.cpp"]


def census(lib):
    """writable static storage of every library object: data symbols in .data* / .bss* / .tdata* / .tbss* (not .rodata, not .data.rel.ro)"""
    out = subprocess.run(["objdump", "-t", lib["lib"]], stdout=subprocess.PIPE, stderr=subprocess.DEVNULL).stdout.decode()
    syms = []
    cur = ""
    for l in out.splitlines():
        m = re.match(r"^(\S+):\s+file format", l)
        if m:
            cur = m.group(1)
            continue
        m = re.match(r"^[0-9a-f]+\s+(.{7})\s+(\S+)\s+([0-9a-f]+)\s+(\S+)$", l)
        if not m:
            continue
        flags, sec, size, name = m.group(1), m.group(2), int(m.group(3), 16), m.group(4)
        tls = re.match(r"^\.(tdata|tbss)(\.|$)", sec) is not None      # objdump gives thread-local objects no 'O' flag; per-thread static storage is hidden mutable state all the same
        if ("O" not in flags and not (tls and "d" not in flags)) or size == 0 or name.startswith("__"):
            continue
        if re.match(r"^\.(data|bss|tdata|tbss)(\.|$)", sec) and not sec.startswith(".data.rel.ro"):
            syms.append("%s:%s(%d bytes)" % (cur.split("-")[-1], name, size))
    return sorted(syms)


# libc functions that keep process-wide mutable state (POSIX "need not be thread-safe" list and the random-number families):
# a library that calls one of them has hidden global state even if its own object files have no writable statics
NON_REENTRANT = set("""rand srand random srandom initstate setstate drand48 erand48 lrand48 nrand48 mrand48 jrand48 srand48 seed48 lcong48
strtok asctime ctime gmtime localtime strerror strsignal setenv putenv unsetenv clearenv tmpnam tempnam getlogin ttyname readdir
getpwnam getpwuid getpwent getgrnam getgrgid getgrent gethostbyname gethostbyaddr getservbyname getservbyport getprotobyname getnetbyname
setlocale ecvt fcvt gcvt l64a a64l crypt encrypt setkey hcreate hsearch hdestroy lgamma lgammaf lgammal getopt getopt_long
basename dirname ptsname getdate inet_ntoa ether_ntoa ether_aton nl_langinfo catgets dbm_fetch dlerror getutxent mblen mbtowc wctomb mbrlen
signal sigaction umask chdir fchdir""".split())


def imports(lib):
    out = subprocess.run(["nm", "-u", lib["lib"]], stdout=subprocess.PIPE, stderr=subprocess.DEVNULL).stdout.decode()
    syms, cur = [], ""
    for l in out.splitlines():
        if l.endswith(":"):
            cur = l[:-1].split("-")[-1]
            continue
        p = l.split()
        if len(p) == 2 and p[0] == "U":
            syms.append((cur, p[1].split("@")[0]))
    return syms


def explorer(lib):
    return build.build_prog("c16", RT, lib, cc="clang", opt="-O1", nosan=True, link=["-lpthread", "-no-pie"], extra=["-I" + os.path.join(common.VERIF, "harness", "sched")],
                            per_source_extra={"rt.c": ["-fno-builtin"]})


def tsan_parse(ctx, label, err):
    blocks = err.split("WARNING: ThreadSanitizer: ")
    seen = set()
    for b in blocks[1:]:
        kind = b.split("\n", 1)[0].split(" (")[0]
        loc = re.search(r"Location is (global|heap block|stack) ('?[^\n]*)", b)
        fns = re.findall(r"#0 (\S+) ", b)
        where = (loc.group(2).split(" of size")[0].strip("'") if loc else "") or (fns[0] if fns else "?")
        key = "%s:tsan:%s:%s" % (label, kind.replace(" ", "-"), where.split(" ")[0])
        if key not in seen:
            seen.add(key)
            ctx.fail(key, "ThreadSanitizer: %s | %s | accesses in: %s" % (kind, loc.group(0)[:160] if loc else "", ", ".join(fns[:4])))


def run(ctx):
    t = ctx.thorough
    nproc = 16
    jobs = []
    cens = {}
    # (1) census on the shipped-style builds
    for be in ("asm", "c64", "c32", "dxor", "generic"):
        cens[be] = census(build.build_lib(be))
    cens["generic+checker"] = census(build.build_lib("generic", checker=True))
    for be in ("asm", "generic"):
        for obj, sym in imports(build.build_lib(be)):
            ctx.stat("imports_examined", 1)
            if sym in NON_REENTRANT:
                ctx.fail("global-state-via-libc:%s:%s:%s" % (be, obj, sym), "the library object %s calls %s(), a libc function that keeps process-wide mutable state" % (obj, sym))
    for be, syms in cens.items():
        ctx.stat("census_objects_examined", 1)
        if be.endswith("+checker"):
            continue    # the balance checker's one-bit global is that configuration's documented purpose; it serves as the explorer's positive control below
        for sy in syms:
            ctx.fail("static-storage:%s:%s" % (be, sy.split("(")[0]), "the library object file keeps writable static storage %s: hidden mutable global state shared by all threads" % sy)
    # (1b) the branches selected by libc probes (config.h): the few files that test HAVE_* macros, compiled stand-alone under each selection and put through the same census
    vdir = os.path.join(build.BUILD, "run", "c16var-%d" % os.getpid())
    os.makedirs(vdir, exist_ok=True)
    try:
        inc = ["-I" + os.path.join(build.REPO, "src"), "-I" + os.path.join(build.REPO, "src", "ascon"), "-I" + os.path.join(build.REPO, "src", "core"), "-I" + os.path.join(build.REPO, "src", "random")]
        variants = [("core/ascon-clean.c", []), ("core/ascon-clean.c", ["-DHAVE_EXPLICIT_BZERO", "-DHAVE_STRINGS_H"]),
                    ("random/ascon-trng-dev-random.c", ["-DHAVE_GETRANDOM", "-DHAVE_SYS_RANDOM_H"]), ("random/ascon-trng-dev-random.c", ["-DHAVE_GETENTROPY", "-DHAVE_SYS_RANDOM_H"]),
                    ("random/ascon-trng-dev-random.c", ["-U__linux__", "-Ulinux", "-U__linux"])]
        for cc in ("gcc", "clang"):
            for vi, (src, defs) in enumerate(variants):
                o = os.path.join(vdir, "%s-%d-%s.o" % (cc, vi, os.path.basename(src)))
                r = subprocess.run([cc, "-std=gnu99", "-O2", "-c", os.path.join(build.REPO, "src", src), "-o", o] + defs + inc, stdout=subprocess.PIPE, stderr=subprocess.STDOUT)
                label = "%s[%s]" % (os.path.basename(src), " ".join(defs) or "no probe macros")
                if r.returncode:
                    ctx.cap("variant %s does not compile here with %s (%s)" % (label, cc, r.stdout.decode().strip().splitlines()[-1][:120] if r.stdout else ""))
                    continue
                ctx.stat("census_objects_examined", 1)
                for sy in census(dict(lib=o)):
                    ctx.fail("static-storage:probe-variant:%s:%s" % (label, sy.split(":")[-1].split("(")[0]), "compiled with %s, the library file keeps writable static storage %s: hidden mutable global state shared by all threads" % (cc, sy))
                for obj, sym in imports(dict(lib=o)):
                    if sym in NON_REENTRANT:
                        ctx.fail("global-state-via-libc:probe-variant:%s:%s" % (label, sym), "the library file calls %s(), a libc function that keeps process-wide mutable state" % sym)
    finally:
        import shutil
        shutil.rmtree(vdir, ignore_errors=True)
    # (1c) descriptor numbers are process-wide state too: in the configuration that reads /dev/urandom every descriptor the library opens must be closed exactly once
    #      (a second close destroys whatever another thread was given under that number in between); the PRNG histories of C15 are run with open / read / close counted
    try:
        DEV = ("HAVE_GETENTROPY", "HAVE_GETRANDOM", "HAVE_SYS_SYSCALL_H")
        dlib = build.build_lib("asm", drop=DEV, extra=["-U__linux__", "-U__linux", "-Ulinux"])
        dexe = build.build_prog("c15", ["harness/c15.c", "harness/sysrand.c", "ref/ref.c"], dlib, opt="-O2", extra=["-DVP_SYSRAND_DEVICE"])
        common.run_harness(ctx, dexe, [2, 0, 22, 0], label="dev-urandom", env={"VP_CHECK_DESCRIPTORS": "1"})
        ctx.configs.append(dlib["desc"] + " /dev/urandom configuration (descriptor discipline)")
    except build.BuildError as e:
        ctx.fail("build-error:dev-urandom", str(e)[-500:])
    # (2) explorer on the C back ends
    budget = max(30.0, min(ctx.remaining() * 0.55, 1500.0 if t else 110.0))
    for be in (("c64", "c32", "generic") if t else ("c64", "c32")):
        try:
            lib = build.build_lib(be, cc="clang", san="owntsan", opt="-O1")
            exe = explorer(lib)
        except build.BuildError as e:
            ctx.fail("build-error:explorer-" + be, str(e)[-600:])
            continue
        ctx.configs.append(lib["desc"] + " own-tsan-runtime")
        parts = nproc if be == "c64" else 8
        for part in range(parts):
            jobs.append((exe, ["pairs", 2, 0, part, parts, budget], be + ":pairs-private-inputs-bound2"))
            jobs.append((exe, ["pairs", 2 if t else 1, 1, part, parts, budget], be + ":pairs-shared-inputs-bound%d" % (2 if t else 1)))
        if t or be == "c64":
            for part in range(4):
                jobs.append((exe, ["triples", 1, part, 4, budget], be + ":triples-bound1"))
        # cold start: every schedule in a fresh process whose parent never ran library code (first-call races on lazily initialised statics)
        if t or be == "c64":
            cparts = nproc if t else 8
            for part in range(cparts):
                jobs.append((exe, ["coldpairs", 1, 0, part, cparts, budget], be + ":cold-pairs-bound1"))
    res = common.parallel(lambda j: common.run_harness(ctx, j[0], j[1], label=j[2], timeout=budget + 120), jobs)
    # symbolise static addresses in race reports (non-PIE executables)
    symtabs = {}
    for f in ctx.failures:
        m = re.search(r"static:(0x[0-9a-f]+)", f["detail"])
        exe = (f.get("replay") or {}).get("cmd", [None])[0]
        if m and exe:
            if exe not in symtabs:
                tab = []
                for l in subprocess.run(["nm", "-n", exe], stdout=subprocess.PIPE).stdout.decode().splitlines():
                    p3 = l.split()
                    if len(p3) == 3 and p3[1] in "dDbB":
                        tab.append((int(p3[0], 16), p3[2]))
                symtabs[exe] = tab
            a = int(m.group(1), 16)
            best = [n for (ad, n) in symtabs[exe] if ad <= a]
            if best:
                f["detail"] = f["detail"].replace(m.group(0), "static object '%s' (%s)" % (best[-1], m.group(1)))
    for (rc, out, err), j in zip(res, jobs):
        if "HARNESS-ERROR" in out:
            print("HARNESS-ERROR", j[2], out[-300:])
            raise RuntimeError("explorer harness error: " + out[-300:])
    # positive control: the acquire/release checker's one-bit global must be found by the explorer
    try:
        clib = build.build_lib("generic", cc="clang", san="owntsan", opt="-O1", checker=True)
        cexe = explorer(clib)
        p = subprocess.run([cexe, "pairs", "1", "0", "0", "200", "60"], stdout=subprocess.PIPE, stderr=subprocess.PIPE, timeout=300)
        found = [l for l in p.stdout.decode().splitlines() if l.startswith("FAIL race:")]
        ctx.stats["positive_control_races_found"] = len(found)
        if not found:
            raise RuntimeError("explorer self-test failed: the CHECK_ACQUIRE_RELEASE global was not reported")
        ctx.sample("positive control (checker build, not a violation): " + found[0][:260])
    except build.BuildError as e:
        ctx.fail("build-error:explorer-checker", str(e)[-400:])
    # (3) free-running pass under the real ThreadSanitizer, assembly back end included
    fjobs = []
    for be, cc, nostl in ((("asm", "gcc", False), ("c64", "clang", False), ("c32", "gcc", False), ("generic", "clang", False), ("dxor", "gcc", False), ("asm", "clang", True), ("c64", "gcc", True)) if t
                          else (("asm", "gcc", False), ("c32", "clang", False), ("asm", "gcc", True))):
        try:
            lib = build.build_lib(be, cc=cc, san="tsan", opt="-O1", no_stl=nostl)
            fexe = build.build_prog("c16_free", ["harness/sched/c16_free.c", "harness/cpp_session.cpp"], lib, opt="-O1", link=["-lpthread"], cfg_dep=nostl,
                                    extra=["-I" + os.path.join(common.VERIF, "harness", "sched")] + (["-DASCON_NO_STL"] if nostl else []))
        except build.BuildError as e:
            ctx.fail("build-error:tsan-" + be, str(e)[-600:])
            continue
        ctx.configs.append(lib["desc"])
        for part in range(nproc):
            fjobs.append((fexe, [60 if t else 12, part, nproc], "%s-%s%s" % (be, cc, "-nostl" if nostl else "")))

    def free(j):
        env = {"TSAN_OPTIONS": "halt_on_error=0:exitcode=0:report_signal_unsafe=0:history_size=4"}
        rc, out, err = common.run_harness(ctx, j[0], j[1], label=j[2], env=env, timeout=max(60, ctx.remaining()))
        if "ThreadSanitizer" in err:
            tsan_parse(ctx, j[2], err)
    common.parallel(free, fjobs)
    ctx.assumptions += [
        "scheduling points are the library's accesses to writable static storage and to objects registered as shared (pre-computed ISAP keys, masked keys, shared inputs); accesses to thread-private objects and stacks commute with everything; an access to another thread's private block is itself reported",
        "the library has no synchronisation operations, so any two accesses of different threads to the same byte with at least one write are a data race regardless of their order; sequentially consistent interleavings only",
        "every schedule is re-executed from scratch on real pthreads (stateless exploration); a replay that diverges from its prefix or a schedule that is not reproducible aborts the check as a harness error",
        "in the warm passes all schedules of a process share its static storage, so a lazily initialised static is in its steady state after the first schedule; the cold-start pass and the census cover the first call",
        "assembly code is not instrumented: the explorer runs the C back ends; the assembly back end is covered by the free-running ThreadSanitizer pass and by the census",
    ]
    cov = dict(states=ctx.stats.get("programs", 0), transitions=ctx.stats.get("schedules", 0), traces_validated_against_impl=ctx.stats.get("schedules", 0),
               schedules=ctx.stats.get("schedules", 0), programs=ctx.stats.get("programs", 0), max_scheduling_points=ctx.stats.get("max_scheduling_points", 0),
               free_running_programs=ctx.stats.get("free_running_programs", 0),
               writable_static_storage=cens,
               rule="programs = every unordered pair of a 47-operation alphabet (one operation per thread) with per-thread inputs to preemption bound 2 and with all inputs shared to bound 1 (2 in thorough), plus triples to bound 1; "
                    "every schedule within the bound is executed on the real library under the own runtime; states = programs, transitions = schedules; "
                    "cold-start pass: the same pairs to bound 1 with every schedule run in a freshly forked process that has executed no library code before (first-call behaviour); "
                    "writable static storage of every object file of the 5 back ends must be empty, and the library must import no libc function with process-wide state (denylist of ~100 names)",
               exhaustive=True)
    return LEVEL, cov
