"""C06: SIV and ISAP constructions (E1 + LPC) and ISAP key persistence (all op sequences up to a depth)."""
import build, common

LEVEL = "exploration"
EMPTY_COVERAGE = dict(evaluations=0, distinct_nontrivial=0, rule="", samples=[])


def run(ctx):
    backends = ["asm", "c64", "c32", "dxor", "generic"]
    jobs = []
    depth = 5 if ctx.thorough else 4
    for be in backends:
        lib = build.build_lib(be)
        ctx.configs.append(lib["desc"])
        exe = build.build_prog("c06", ["harness/c06.c", "harness/cpp_shim.cpp", "harness/sysrand.c", "ref/ref.c"], lib, opt="-O2")
        lpc = build.build_prog("lpc_modes", ["harness/lpc_modes.c", "harness/sysrand.c", "ref/ref.c"], lib,
                               link=["-Wl,--wrap=ascon_permute"])
        main = be == "asm"
        maxlen = (64 if main else 40) if ctx.thorough else (40 if main else 24)
        for alg in range(3):
            for pat in ((0, 1, 2, 3) if main else (3,)):
                jobs.append((exe, ["enc", "siv", alg, pat, maxlen], be))
                if pat in (0, 3) or ctx.thorough:
                    il = (maxlen if alg == 0 else min(maxlen, 33)) if ctx.thorough else (24 if main else 17)
                    jobs.append((exe, ["enc", "isap", alg, pat, il], be))
            jobs.append((exe, ["key", alg, depth if main else 3], be))
            jobs.append((lpc, ["siv", alg, (32 if ctx.thorough else 18) if main else 10], be))
            jobs.append((lpc, ["isap", alg, (20 if ctx.thorough else 10) if main else 6], be))
    # size-optimised library builds (the sources have branches of their own under __OPTIMIZE_SIZE__)
    for be, cc, opt in ([("asm", "gcc", "-Os"), ("c32", "clang", "-Oz")] + ([("c64", "gcc", "-Os"), ("dxor", "gcc", "-Os"), ("generic", "clang", "-Oz")] if ctx.thorough else [])):
        lib = build.build_lib(be, cc=cc, opt=opt)
        ctx.configs.append(lib["desc"])
        exe = build.build_prog("c06", ["harness/c06.c", "harness/cpp_shim.cpp", "harness/sysrand.c", "ref/ref.c"], lib, opt="-O2")
        for alg in range(3):
            jobs.append((exe, ["enc", "siv", alg, 3, 24], "%s-%s%s" % (be, cc, opt)))
            jobs.append((exe, ["enc", "isap", alg, 3, 17], "%s-%s%s" % (be, cc, opt)))
            jobs.append((exe, ["key", alg, 3], "%s-%s%s" % (be, cc, opt)))
    jobs.sort(key=lambda j: 0 if j[1][1] == 'isap' else 1)
    common.parallel(lambda j: common.run_harness(ctx, j[0], j[1], label=j[2]), jobs)
    common.align_jobs(ctx, jobs, lambda j: j[2] in ("asm", "c64") and j[1][0] == "enc" and j[1][3] == 3)
    common.mid_lengths(ctx, ["siv:0", "siv:1", "siv:2", "isap:0", "isap:1", "isap:2", "siv-ad:0", "siv-ad:1", "siv-ad:2", "isap-ad:0", "isap-ad:1", "isap-ad:2"], ("asm", "c64", "c32", "dxor", "generic") if ctx.thorough else ("asm", "c32"))
    if ctx.thorough:
        common.huge_lengths(ctx, ["siv:0", "siv:1", "siv:2", "isap:0", "isap:1", "isap:2", "siv-ad:0", "siv-ad:1", "siv-ad:2", "isap-ad:0", "isap-ad:1", "isap-ad:2"], jobs=3)
    ctx.assumptions += [
        "SIV as pinned by code, KAT and property anchor: keystream pass is permute-then-squeeze with the tag as nonce (doc/siv.dox prose orders the two differently)",
        "ISAP v2.0 parameters 12/1/6/12 (A-128A) and 12/12/12/12 (A-128, A-80PQ with a 160-bit key) as bound to the shipped ISAP KAT files",
        "saved-key format = canonical bytes of p_K(K||IV_KE) || p_K(K||IV_KA)",
    ]
    cov = dict(evaluations=ctx.stats.get("evaluations", 0) + ctx.stats.get("transitions", 0),
               distinct_nontrivial=ctx.stats.get("nontrivial", 0) + ctx.stats.get("histories", 0) + ctx.stats.get("shapes", 0),
               rule="SIV x3 / ISAP x3: every (adlen, mlen) up to the bound x patterns on 5 backends: ciphertext == reference, determinism, reference ciphertext decrypts; LPC basis enumeration; "
                    "key persistence: every operation sequence up to depth %d over an 11-operation alphabet on an original and a loaded key, invariants after every step. "
                    "distinct_nontrivial = non-empty shapes + LPC shapes + operation histories" % depth,
               states=ctx.stats.get("states", 0), transitions=ctx.stats.get("transitions", 0),
               exhaustive=True)
    return LEVEL, cov
