"""C11: no secret-dependent branch or address: memcheck definedness as a taint monitor on the Release (-O3) library."""
import os, re, subprocess, time
import build, common
from checks.c13 import OPTS

LEVEL = "exploration"
EMPTY_COVERAGE = dict(evaluations=0, distinct_nontrivial=0, rule="", samples=[])


def release_lib(be, tr, cc="gcc", more=()):
    opts = OPTS[be] + ["-DMINIMAL=ON", "-DKEY_SHARES=%d" % tr[0], "-DDATA_SHARES=%d" % tr[1], "-DMAX_SHARES=%d" % tr[2]] + list(more)
    d = build.cmake_release(opts, tag="c11", cc=cc, targets=("ascon_static",))
    return dict(lib=os.path.join(d, "src", "libascon_static.a"), inc=["-I" + os.path.join(build.REPO, "src"), "-I" + os.path.join(build.REPO, "src", "ascon"), "-I" + d],
                dir=d, cflags=[], cc=cc, cxx={"gcc": "g++", "clang": "clang++"}[cc], sanflags=[], desc="cmake Release %s k%dd%dm%d %s" % ((be,) + tr + (cc,)))


ERR = re.compile(r"^==\d+== (Conditional jump or move depends on uninitialised value|Use of uninitialised value of size|Syscall param .* uninitialised|Invalid (read|write))")
FRAME = re.compile(r"^==\d+==\s+(at|by) 0x[0-9A-Fa-f]+: (\S+) \((.*)\)")


def valgrind_run(ctx, exe, args, label):
    cmd = ["valgrind", "--tool=memcheck", "-q", "--error-exitcode=0", "--num-callers=14", "--error-limit=no", "--leak-check=no", exe] + [str(a) for a in args]
    t0 = time.time()
    try:
        p = subprocess.run(cmd, stdout=subprocess.PIPE, stderr=subprocess.PIPE, timeout=max(30, ctx.remaining()))
    except subprocess.TimeoutExpired:
        ctx.cap("%s %s stopped at the deadline" % (label, args))
        return
    out = p.stdout.decode("utf-8", "replace")
    err = p.stderr.decode("utf-8", "replace").splitlines()
    for line in out.splitlines():
        if line.startswith("STAT "):
            _, n, v = line.split(" ", 2)
            ctx.stat(n, int(v))
        elif line.startswith("SAMPLE "):
            ctx.sample(label + ": " + line[7:])
        elif line.startswith("FAIL "):
            parts = line.split(" ", 2)
            ctx.fail(label + ":" + parts[1], parts[2] if len(parts) > 2 else "")
        elif line.startswith("NOTE not running"):
            ctx.fail(label + ":not-monitored", "harness did not run under valgrind")
    if p.returncode != 0:
        ctx.fail("%s:crash:rc=%s" % (label, p.returncode), "\n".join(err[-8:]))
    cur = "?"
    i = 0
    seen = set()
    while i < len(err):
        l = err[i]
        if l.startswith("C11-PRIM "):
            cur = l[9:]
        m = ERR.match(l)
        if m:
            kind = "branch" if "Conditional" in l else "address" if "Use of" in l else "syscall" if "Syscall" in l else "invalid-access"
            frames = []
            j = i + 1
            while j < len(err):
                fm = FRAME.match(err[j])
                if not fm:
                    break
                frames.append((fm.group(2), fm.group(3)))
                j += 1
            lib = [f for f in frames if f[0].startswith("ascon") or "/src/" in f[1] or f[0] in ("bcmp", "memcmp", "__memcmp_avx2_movbe", "__memcmp_sse4_1")]
            fn = next((f[0] for f in frames if f[0].startswith("ascon")), frames[0][0] if frames else "?")
            inharness = frames and all(("harness" in f[1] or f[0] in ("main",)) for f in frames[:1])
            prim = cur.split(" ")[0]
            key = "%s:secret-dependent-%s:%s:%s" % (label, kind, fn, prim)
            if inharness:
                key = "%s:harness-own-branch:%s" % (label, prim)
            if key not in seen:
                seen.add(key)
                ctx.fail(key, "memcheck: %s | primitive: %s | stack: %s" % (l.split("== ", 1)[1], cur, " <- ".join("%s (%s)" % f for f in frames[:6])),
                         dict(cmd=cmd, label=label))
            i = j
            continue
        i += 1
    ctx.stat("valgrind_runs")


def run(ctx):
    t = ctx.thorough
    D = build.DEFAULT_TRIPLE
    cfgs = [("asm", D), ("c64", D), ("c32", D), ("generic", D), ("asm", (2, 1, 2)), ("asm", (3, 3, 3)), ("asm", (4, 4, 4))]
    if t:
        cfgs += [("dxor", D), ("c64", (2, 1, 2)), ("c64", (3, 3, 3)), ("c64", (4, 4, 4)), ("c32", (2, 1, 2)), ("c32", (3, 3, 3)), ("c32", (4, 4, 4))]
    jobs = []
    for be, tr in cfgs:
        name = "%s-k%dd%dm%d" % ((be,) + tr)
        try:
            lib = release_lib(be, tr)
            exe = build.build_prog("c11", ["harness/c11.c", "harness/cpp_session.cpp", "ref/ref.c"], lib, opt="-O1", cfg_dep=True)
        except build.BuildError as e:
            ctx.fail("build-error:" + name, str(e)[-600:])
            continue
        ctx.configs.append(lib["desc"])
        groups = [["aead", f] for f in range(5)] + [["mac"], ["prng"], ["cpp"]]
        if tr != D:
            groups = [["aead", 2], ["prng"], ["cpp"]]          # share counts only matter for the masked code and its random source
        for g in groups:
            jobs.append((exe, g, name))
    if t:
        lib = release_lib("asm", D, cc="clang")
        exe = build.build_prog("c11", ["harness/c11.c", "harness/cpp_session.cpp", "ref/ref.c"], lib, opt="-O1", cfg_dep=True)
        ctx.configs.append(lib["desc"])
        for g in [["aead", f] for f in range(5)] + [["mac"], ["prng"], ["cpp"]]:
            jobs.append((exe, g, "asm-clang"))
    # a C library with neither explicit_bzero nor memset_s: the portable wiping loop of ascon_clean() is the shipped code and runs on every secret
    lib = release_lib("asm", D, more=["-DHAVE_EXPLICIT_BZERO=OFF", "-DHAVE_MEMSET_S=OFF"])
    exe = build.build_prog("c11", ["harness/c11.c", "harness/cpp_session.cpp", "ref/ref.c"], lib, opt="-O1", cfg_dep=True)
    ctx.configs.append(lib["desc"] + " without explicit_bzero / memset_s")
    for g in ([["aead", f] for f in range(5)] + [["mac"], ["prng"], ["cpp"]]) if t else [["aead", 0], ["aead", 2], ["aead", 3], ["mac"], ["prng"]]:
        jobs.append((exe, g, "asm-no-explicit_bzero"))
    jobs.sort(key=lambda j: 0 if j[1] == ["aead", 4] else 1)
    common.parallel(lambda j: valgrind_run(ctx, j[0], j[1], j[2]), jobs)
    # ---- monitor 2: instruction / data-address trace equality across secret assignments (lackey)
    import hashlib
    tr_cfgs = [("asm", D)] if not t else [("asm", D), ("c64", D), ("c32", D), ("generic", D), ("asm", (2, 1, 2)), ("asm", (4, 4, 4))]
    tr_groups = [["aead", "0"], ["mac"]] if not t else [["aead", str(f)] for f in range(5)] + [["mac"], ["prng"]]
    secrets = {"zero": bytes(4096), "ones": b"\xff" * 4096, "dense": hashlib.shake_256(b"c11-%d" % ctx.seed).digest(4096)}

    def trace_job(job):
        be, tr, g = job
        name = "%s-k%dd%dm%d" % ((be,) + tr)
        try:
            lib = release_lib(be, tr)
            exe = build.build_prog("c11_trace", ["harness/c11_trace.c"], lib, opt="-O1", cfg_dep=True, link=["-no-pie"])
        except build.BuildError as e:
            ctx.fail("build-error:trace-" + name, str(e)[-400:])
            return
        digests = {}
        counts = {}
        nm = subprocess.run(["nm", exe], stdout=subprocess.PIPE).stdout.decode()
        mark = {l.split()[2]: ("I  %08x," % int(l.split()[0], 16)).encode() for l in nm.splitlines() if l.split()[-1] in ("c11_marker_begin", "c11_marker_end", "c11_marker_rej", "c11_marker_other")}
        for sname, sbytes in secrets.items():
            cmd = ["setarch", "x86_64", "-R", "valgrind", "--tool=lackey", "--trace-mem=yes", "--log-fd=9", exe] + g
            env = {"PATH": os.environ.get("PATH", "/usr/bin:/bin"), "LC_ALL": "C"}
            p = subprocess.Popen("exec 9>&1 1>/dev/null; exec " + " ".join(cmd), shell=True, stdin=subprocess.PIPE, stdout=subprocess.PIPE, stderr=subprocess.DEVNULL, env=env)
            h = hashlib.sha256()
            n = 0
            import threading
            def feed():
                try:
                    p.stdin.write(sbytes); p.stdin.close()
                except Exception:
                    pass
            th = threading.Thread(target=feed); th.start()
            inside = False
            seg = None; segn = 0; segs = []
            for line in p.stdout:
                if not inside:
                    inside = line.startswith(mark["c11_marker_begin"])      # only the window between the harness markers: process start-up is not under test
                    continue
                if line.startswith(mark["c11_marker_end"]):
                    break
                if line.startswith(mark["c11_marker_rej"]):
                    seg = hashlib.sha256(); segn = 0
                elif line.startswith(mark["c11_marker_other"]):
                    if seg is not None:
                        segs.append((seg.hexdigest(), segn)); seg = None
                elif seg is not None and line[:1] in (b"I", b" "):
                    seg.update(line); segn += 1
                if line[:1] in (b"I", b" "):
                    h.update(line); n += 1
            for line in p.stdout:
                pass
            p.wait(); th.join()
            if p.returncode != 0 or n < 1000:
                ctx.fail("%s:trace-run-failed:%s" % (name, "-".join(g)), "lackey run for secret set %s exited %s with %d trace lines" % (sname, p.returncode, n))
                return
            digests[sname] = h.hexdigest(); counts[sname] = n
            # the three rejections of one ciphertext (tag wrong in byte 0 / byte 15 / all bytes) must execute identically
            for k in range(0, len(segs) - 2, 3):
                ctx.stat("reject_position_triples")
                if not (segs[k] == segs[k + 1] == segs[k + 2]):
                    ctx.fail("%s:trace-depends-on-tag-difference-position:%s" % (name, "-".join(g)),
                             "rejection traces for a tag wrong in byte 0 / byte 15 / all bytes differ (lines %s) for verification #%d, secret set %s" % ([x[1] for x in segs[k:k + 3]], k // 3, sname))
                    break
            ctx.stat("trace_lines", n)
        ctx.stat("trace_comparisons")
        ctx.stat("evaluations", 3)
        if len(set(digests.values())) != 1:
            ctx.fail("%s:trace-differs:%s" % (name, "-".join(g)), "instruction/data-address traces differ between secret assignments (lines: %s): a branch or an address depends on a secret" % counts,
                     dict(cmd=["valgrind", "--tool=lackey", "--trace-mem=yes", exe] + g))
    common.parallel(trace_job, [(be, tr, g) for be, tr in tr_cfgs for g in tr_groups], jobs=8)
    ctx.sample("lackey trace equality: %d (configuration, group) pairs x 3 secret assignments read from stdin (zero / ones / dense); %d trace lines hashed" % (ctx.stats.get("trace_comparisons", 0), ctx.stats.get("trace_lines", 0)))
    ctx.assumptions += [
        "monitor 2 (lackey): whole-process instruction and data-address traces of runs that differ only in the secret bytes fed on stdin must be identical (non-PIE link, ASLR disabled with setarch -R, fixed environment)",
        "memcheck's bit-precise definedness propagation is used as a taint tracker: a conditional jump or an address that depends on a secret is reported as use of an uninitialised value; data-dependent instruction timing, caches and speculation are out of scope",
        "artefact: the repository's CMake Release (-O3) static library per back end / share triple, gcc 12 (clang 14 in thorough)",
        "declassified by the harness: ciphertext and tag produced by encryption, accept/reject results; never declassified: keys, plaintext, delivered entropy, PRNG state and output, masking randomness",
        "the C++ wrappers are not monitored (they branch on the public accept/reject result, which cannot be declassified without a source hook)",
    ]
    cov = dict(evaluations=ctx.stats.get("evaluations", 0), distinct_nontrivial=ctx.stats.get("nontrivial", 0),
               rule="per configuration: every keyed primitive of the C API x public shapes (adlen/mlen in {0,1,8,9,16,17,33}, key lengths across 64/65) x secret alphabet {zero, ones, dense} x "
                    "{accept, reject at tag byte 0, byte 15, all bytes}, executed under memcheck with the secrets tainted; one primitive call = one evaluation",
               valgrind_runs=ctx.stats.get("valgrind_runs", 0), exhaustive=True)
    return LEVEL, cov
