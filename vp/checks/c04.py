"""C04: PRF / PrfShort / MAC+verify / HMAC / KMAC against the reference (+ LPC for the keyed PRF family)."""
import build, common

LEVEL = "exploration"
EMPTY_COVERAGE = dict(evaluations=0, distinct_nontrivial=0, rule="", samples=[])


def run(ctx):
    backends = ["asm", "c64", "c32", "dxor", "generic"]
    jobs = []
    for be in backends:
        lib = build.build_lib(be)
        ctx.configs.append(lib["desc"])
        exe = build.build_prog("c04", ["harness/c04.c", "ref/ref.c"], lib)
        lpc = build.build_prog("lpc_modes", ["harness/lpc_modes.c", "harness/sysrand.c", "ref/ref.c"], lib,
                               link=["-Wl,--wrap=ascon_permute"])
        main = be == "asm"
        t = 1 if (ctx.thorough and main) else 0
        for pat in ((0, 3) if main else (3,)):
            jobs.append((exe, ["prf", 0, pat, t], be))
            jobs.append((exe, ["prfshort", 0, pat, t], be))
            jobs.append((exe, ["mac", 0, pat, t], be))
            for a in (0, 1):
                jobs.append((exe, ["hmac", a, pat, t], be))
                jobs.append((exe, ["kmac", a, pat, t], be))
        for fam in ("prf", "mac", "prfshort"):
            jobs.append((lpc, [fam, 0, 40 if t else 24], be))
    common.parallel(lambda j: common.run_harness(ctx, j[0], j[1], label=j[2]), jobs)
    common.align_jobs(ctx, jobs, lambda j: j[2] in ("asm", "c64") and j[1][2] == 3)
    common.mid_lengths(ctx, ["prf-in", "prf-out", "hmac:0", "hmac:1", "kmac:0", "kmac:1"], ("asm", "c64", "c32", "dxor", "generic") if ctx.thorough else ("asm", "c32"))
    if ctx.thorough:
        common.huge_lengths(ctx, ["prf-in", "prf-out", "hmac:0", "hmac:1", "kmac:0", "kmac:1"])
    ctx.assumptions += [
        "ASCON-PRF v1 constants as bound to the shipped Prf/Mac/PrfShort KAT files; RFC 2104 with 64-byte block; KMAC = cXOF('KMAC', custom, declared = requested output length)(key || message) as in doc/kmac.dox",
        "PrfShort: for lengths above 16 only the error result is judged, not the buffer",
    ]
    cov = dict(evaluations=ctx.stats.get("evaluations", 0), distinct_nontrivial=ctx.stats.get("nontrivial", 0) + ctx.stats.get("shapes", 0),
               rule="Prf (one-shot, incremental, fixed, fixed-incremental) over (inlen, outlen) grid; PrfShort 0..20^2 + huge lengths; Mac value + verify with the correct tag, "
                    "all 128 bit flips and 16x255 byte XORs, changed message/key; HMAC/HMACA key lengths across 64/65/96/128 x message lengths; KMAC/KMACA key x msg x custom x outlen "
                    "(32 = special-cased); LPC basis enumeration for prf/mac/prfshort; 5 backends. distinct_nontrivial counts parameter tuples and wrong tags submitted",
               exhaustive=True)
    return LEVEL, cov
