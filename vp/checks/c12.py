"""C12: the argument spaces of the other checks re-run under ASan+UBSan (gcc and clang), exact-size buffers, every start
offset 0..7, guard pages around everything handed to assembly, and the tools' argv / file spaces."""
import os, shutil, subprocess, itertools
import build, common

LEVEL = "exploration"
EMPTY_COVERAGE = dict(evaluations=0, distinct_nontrivial=0, rule="", samples=[])
STD = ["harness/sysrand.c", "ref/ref.c"]
EX = {"HX_EXACT": "1"}


def harness_jobs(lib, label, full, masked_only=False, thorough=False):
    """(exe, args, label, env) tuples for one sanitizer-instrumented library configuration."""
    jobs = []

    def prog(name, srcs, **kw):
        return build.build_prog(name, srcs, lib, opt="-O1", **kw)

    c01 = prog("c01", ["harness/c01.c", "harness/cpp_shim.cpp"] + STD)
    c02 = prog("c02", ["harness/c02.c", "harness/cpp_shim.cpp"] + STD)
    c09 = prog("c09", ["harness/c09.c", "harness/cpp_shim.cpp"] + STD)
    for alg in range(3):
        jobs.append((c01, [alg, 3, 33, 0], label, EX))
        jobs.append((c02, [2, alg, 3, 0], label, EX))
    jobs.append((c09, [], label, EX))
    if masked_only:
        return jobs
    # the C++ classes on every keying path (null / zero-length keys use the library's internal all-zero key buffers) and the byte_array helpers
    if thorough or label.startswith("gcc-c64-") or label.startswith("gcc-c32-"):
        c17 = build.build_prog("c17", ["harness/c17.cpp", "harness/sysrand.c", "ref/ref.c"], lib, opt="-O1", cfg_dep=True)
        jobs.append((c17, [], label, EX))
    c03 = prog("c03", ["harness/c03.c", "harness/cpp_shim.cpp", "ref/ref.c"])
    c04 = prog("c04", ["harness/c04.c", "ref/ref.c"])
    c05 = prog("c05", ["harness/c05.c", "ref/ref.c"])
    c06 = prog("c06", ["harness/c06.c", "harness/cpp_shim.cpp"] + STD)
    c07 = prog("c07", ["harness/c07.c", "harness/cpp_shim.cpp"] + STD)
    c08 = prog("c08", ["harness/c08.c", "ref/ref.c"])
    c14 = prog("c14", ["harness/c14.c", "harness/cpp_session.cpp"] + STD)
    c15 = prog("c15", ["harness/c15.c"] + STD)
    for alg in range(3):
        jobs.append((c01, [alg, 0, 40 if full else 24, 1 if (full and thorough) else 0], label, EX))
        jobs.append((c01, [alg, "chunks", 0, 1 if (thorough and full) else 0], label, EX))   # chunk sizes of the incremental calls around 256/512/768/1024(/65536/131072)
        for fam in (0, 1, 3, 4):
            jobs.append((c02, [fam, alg, 3, 0], label, EX))
        jobs.append((c06, ["enc", "siv", alg, 3, 20], label, EX))
        jobs.append((c06, ["enc", "isap", alg, 3, 17 if alg == 0 else 9], label, EX))
        jobs.append((c06, ["key", alg, 3], label, EX))
        jobs.append((c14, ["session", alg, 0], label, EX))
        for fam in range(4):
            jobs.append((c14, ["cpp", fam, alg, 0], label, EX))
    for a in (0, 1):
        for mode in ("plain", "fixed", "cxof"):
            jobs.append((c03, [a, mode, 3, 0], label, EX))
        for mode in ("hmac", "kmac"):
            jobs.append((c04, [mode, a, 3, 0], label, EX))
        for mode in ("hkdf", "expand", "kdf"):
            jobs.append((c05, [mode, a, 3, 0], label, EX))
    for mode in ("prf", "prfshort", "mac"):
        jobs.append((c04, [mode, 0, 3, 0], label, EX))
    jobs.append((c05, ["pbkdf2", 0, 3, 0], label, EX))
    from checks.c07 import MACHINES
    for m in MACHINES:
        jobs.append((c07, [m, 0], label, EX))
    jobs.append((c08, ["bytes", 0], label, EX))
    for r in ((0, 5, 11) if full else (0,)):
        jobs.append((c08, ["perm", r, 0], label, EX))
    jobs.append((c14, ["inc", 0], label, EX))
    c20 = prog("c20_hex", ["harness/c20_hex.c", "ref/ref.c"])
    jobs.append((c20, ["encode", 0], label, EX))
    for lo in ((0x20, 0x30, 0x40, 0x60) if full else (0x30,)):
        jobs.append((c20, ["all3", lo, lo + 16], label, EX))
    for f in ((0, 6, 12, 18) if full else (0,)):
        jobs.append((c20, ["classes", 0, f, f + 3], label, EX))
    for a in range(22):
        jobs.append((c15, [2, a, a + 1, 0], label, EX))
    if full:
        # every start offset 1..7 for all harness-allocated buffers (0 is the run above)
        for off in range(1, 8):
            env = {"HX_EXACT": "1", "HX_OFF": str(off)}
            for alg in range(3):
                jobs.append((c01, [alg, 3, 24, 0], label + "+off%d" % off, env))
                jobs.append((c02, [0, alg, 3, 0], label + "+off%d" % off, env))
                jobs.append((c06, ["enc", "siv", alg, 3, 17], label + "+off%d" % off, env))
            jobs.append((c06, ["enc", "isap", 0, 3, 17], label + "+off%d" % off, env))
            jobs.append((c03, [0, "plain", 3, 0], label + "+off%d" % off, env))
            jobs.append((c04, ["prf", 0, 3, 0], label + "+off%d" % off, env))
            jobs.append((c04, ["hmac", 1, 3, 0], label + "+off%d" % off, env))
            for m in ("xof", "prf", "enc128", "dec128a", "enc80pq", "hkdf"):
                jobs.append((c07, [m, 0], label + "+off%d" % off, env))
            jobs.append((c08, ["bytes", 0], label + "+off%d" % off, env))
            for mode, a in (("pbkdf2", 0), ("hkdf", off & 1), ("kdf", 1 - (off & 1)), ("expand", off & 1)):
                jobs.append((c05, [mode, a, 3, 0], label + "+off%d" % off, env))
    return jobs


def tool_space(ctx):
    """argv / file spaces of asconcrypt and asconsum under ASan+UBSan."""
    from checks.c19 import build_tools
    lib, crypt, summ = build_tools(san="asan")
    ctx.configs.append(lib["desc"] + " tools")
    root = os.path.join(build.BUILD, "run", "c12-%d" % os.getpid())
    shutil.rmtree(root, ignore_errors=True)
    os.makedirs(root)
    cnt = itertools.count()
    env = dict(os.environ)
    env["ASAN_OPTIONS"] = "detect_leaks=0:abort_on_error=0"
    env["UBSAN_OPTIONS"] = "print_stacktrace=1:halt_on_error=1"

    def run(args, cwd, what):
        try:
            p = subprocess.run(args, cwd=cwd, env=env, stdout=subprocess.PIPE, stderr=subprocess.PIPE, timeout=120, stdin=subprocess.DEVNULL)
        except OSError as e:
            # argument vector too long for the kernel: not a property of the tool
            return
        ctx.stat("evaluations")
        ctx.stat("nontrivial")
        err = p.stderr.decode("utf-8", "replace")
        bad = None
        if "AddressSanitizer" in err:
            bad = "asan"
        elif "runtime error" in err:
            bad = "ubsan"
        elif p.returncode < 0:
            bad = "signal%d" % -p.returncode
        if bad:
            frame = ""
            for l in err.splitlines():
                l = l.strip()
                if l.startswith("#") and " in " in l:
                    fn = l.split(" in ", 1)[1].split(" ")[0]
                    if not fn.startswith("__") and "sanitizer" not in fn and fn not in ("memcpy", "strlen", "main", "memmove", "strncmp"):
                        frame = fn
                        break
            tool = os.path.basename(args[0])
            ctx.fail("tool:%s:%s:%s" % (tool, bad, frame), "%s: %s | %s" % (what, " ".join(a if len(a) < 40 else a[:20] + "...(%d chars)" % len(a) for a in args[1:]), err[-300:].replace("\n", " | ")),
                     dict(cmd=args, cwd=cwd, env={}))

    jobs = []
    # ---- asconcrypt: file names of many lengths, with and without suffix, every mode
    lens = [1, 2, 3, 4, 5, 6, 7, 8, 100, 249, 255]
    for n in lens:
        for suffix in ("", ".ascon"):
            base = ("n" * max(1, n - len(suffix)))[: max(1, n - len(suffix))]
            name = base + suffix
            if len(name) > 255:
                continue
            for mode in (["-e"], ["-d"], []):
                for out in ([], ["-o", "out.bin"]):
                    jobs.append(("crypt-name", name, mode + ["-p", "pw"] + out))
    # long path names (directories nested), around the tool's 8192-byte name buffer
    for total in (4095, 8180, 8186, 8190, 8191, 8192, 8193, 8200, 20000):
        jobs.append(("crypt-longpath", total, None))
    for plen in (0, 1, 1022, 1023, 1024, 1025, 5000):
        jobs.append(("crypt-password", plen, None))
    for ksize in (0, 1, 1022, 1023, 1024, 1025, 5000):
        for tail in (b"", b"\n", b"\r\n", b"\0", b"\n\0x"):
            jobs.append(("crypt-keyfile", ksize, tail))
    for ll in (0, 1, 63, 64, 65, 66, 1022, 1023, 1024, 1025, 1026, 5000):
        for kind in ("hex", "hexsp", "junk", "name"):
            jobs.append(("sum-line", ll, kind))
    # checksum lists are arbitrary bytes (other encodings, a byte-order mark, a binary file given by mistake): every byte value where a digest character is expected
    for v in range(0, 256, 8):
        jobs.append(("sum-bytes", v, None))

    # file contents: every truncation length of a small encrypted file, sizes around the I/O buffer, stdin/stdout modes, several files at once
    for n in range(0, 140):
        jobs.append(("crypt-trunc", n, None))
    for n in (0, 1, 15, 16, 17, 8175, 8176, 8177, 8191, 8192, 8193, 16383, 16384, 16385, 24576):
        jobs.append(("crypt-size", n, None))
        jobs.append(("sum-size", n, None))

    def run_in(args, cwd, what, data):
        f = os.path.join(cwd, "stdin.tmp")
        with open(f, "wb") as fh:
            fh.write(data)
        with open(f, "rb") as fh:
            try:
                p = subprocess.run(args, cwd=cwd, env=env, stdout=subprocess.PIPE, stderr=subprocess.PIPE, timeout=120, stdin=fh)
            except OSError:
                return b""
        ctx.stat("evaluations")
        err = p.stderr.decode("utf-8", "replace")
        if "AddressSanitizer" in err or "runtime error" in err or p.returncode < 0:
            ctx.fail("tool:%s:%s:stdin" % (os.path.basename(args[0]), "asan" if "AddressSanitizer" in err else "ubsan" if "runtime error" in err else "signal%d" % -p.returncode),
                     "%s: %s | %s" % (what, " ".join(args[1:]), err[-300:].replace("\n", " | ")), dict(cmd=args, cwd=cwd, env={}))
        return p.stdout

    def one(j):
        kind, a, b = j
        d = os.path.join(root, "w%d" % next(cnt))
        os.makedirs(d)
        try:
            if kind == "crypt-trunc":
                with open(os.path.join(d, "f.bin"), "wb") as f:
                    f.write(bytes(range(44)))
                subprocess.run([crypt, "-e", "-p", "pw", "-o", "full.enc", "f.bin"], cwd=d, env=env, stdout=subprocess.DEVNULL, stderr=subprocess.DEVNULL)
                blob = open(os.path.join(d, "full.enc"), "rb").read()
                with open(os.path.join(d, "t.ascon"), "wb") as f:
                    f.write(blob[:a])
                run([crypt, "-d", "-p", "pw", "-o", "t.out", "t.ascon"], d, "encrypted file truncated to %d of %d bytes" % (a, len(blob)))
                run([crypt, "-p", "pw", "t.ascon"], d, "encrypted file truncated to %d bytes, direction detected" % a)
                run_in([crypt, "-d", "-p", "pw", "-"], d, "stdin stream truncated to %d bytes" % a, blob[:a])
            elif kind == "crypt-size":
                data = bytes((i * 13 + 5) & 0xff for i in range(a))
                for nm in ("a.bin", "b.bin"):
                    with open(os.path.join(d, nm), "wb") as f:
                        f.write(data)
                run([crypt, "-p", "pw", "a.bin", "b.bin"], d, "two %d-byte files, default names" % a)
                run([crypt, "-p", "pw", "a.bin.ascon", "b.bin.ascon"], d, "two encrypted %d-byte files, default names" % a)
                enc = run_in([crypt, "-e", "-p", "pw", "-"], d, "%d bytes stdin->stdout" % a, data)
                run_in([crypt, "-d", "-p", "pw", "-"], d, "%d bytes stdin->stdout (decrypt)" % len(enc), enc)
                if len(enc) > 100:
                    e2 = bytearray(enc)
                    e2[len(e2) // 2] ^= 1
                    run_in([crypt, "-d", "-p", "pw", "-o", "x.out", "-"], d, "tampered %d-byte stream" % len(enc), bytes(e2))
            elif kind == "sum-size":
                data = bytes((i * 13 + 5) & 0xff for i in range(a))
                with open(os.path.join(d, "a.bin"), "wb") as f:
                    f.write(data)
                for flag in ("-h", "-a", "-x", "-y"):
                    run([summ, flag, "a.bin"], d, "%d-byte file" % a)
                    o = run_in([summ, flag], d, "%d bytes on stdin" % a, data)
                    run_in([summ, flag, "-c"], d, "checksum list on stdin", o.replace(b"  -", b"  a.bin"))
            elif kind == "sum-bytes":
                with open(os.path.join(d, "data.bin"), "wb") as f:
                    f.write(b"y" * 100)
                for v in range(a, a + 8):
                    for line in (bytes([v]) * 64, bytes([v]) + b"0" * 63, b"0" * 63 + bytes([v]), b"\xef\xbb\xbf"[: 1 + v % 3] + bytes([v]) + b"0" * 62):
                        with open(os.path.join(d, "sums.txt"), "wb") as f:
                            f.write(line + b"  data.bin\n" + b"0" * 64 + b"  data.bin\n")
                        for flag in ("-h", "-y"):
                            run([summ, flag, "-c", "sums.txt"], d, "checksum line with byte value %d among the digest characters" % v)
            elif kind == "crypt-name":
                name, opts = a, b
                data = b"hello world" * 3
                with open(os.path.join(d, name), "wb") as f:
                    f.write(data)
                run([crypt] + opts + [name], d, "file name of length %d" % len(name))
                # also a genuinely encrypted file under that name for the decrypt / auto modes
                subprocess.run([crypt, "-e", "-p", "pw", "-o", "tmp.enc", name], cwd=d, env=env, stdout=subprocess.DEVNULL, stderr=subprocess.DEVNULL)
                if os.path.exists(os.path.join(d, "tmp.enc")):
                    os.replace(os.path.join(d, "tmp.enc"), os.path.join(d, name))
                    run([crypt] + opts + [name], d, "encrypted file under a name of length %d" % len(name))
            elif kind == "crypt-longpath":
                total = a
                parts = []
                remaining = total
                while remaining > 0:
                    seg = min(200, remaining - 1) if remaining > 1 else 1
                    parts.append("d" * seg)
                    remaining -= seg + 1
                path = "/".join(parts) + ".ascon"
                # the path need not exist: the tool must fail cleanly
                for mode in (["-e"], ["-d"], []):
                    run([crypt] + mode + ["-p", "pw", path], d, "path of %d characters" % len(path))
                    run([crypt] + mode + ["-p", "pw", path[:-6]], d, "path of %d characters" % (len(path) - 6))
            elif kind == "crypt-password":
                with open(os.path.join(d, "f.bin"), "wb") as f:
                    f.write(b"x" * 20)
                run([crypt, "-e", "-p", "P" * a, "-o", "f.enc", "f.bin"], d, "password of %d characters" % a)
                run([crypt, "-d", "-p", "P" * a, "-o", "f.out", "f.enc"], d, "password of %d characters" % a)
            elif kind == "crypt-keyfile":
                with open(os.path.join(d, "f.bin"), "wb") as f:
                    f.write(b"x" * 20)
                with open(os.path.join(d, "key"), "wb") as f:
                    f.write(b"K" * a + b)
                run([crypt, "-e", "-k", "key", "-o", "f.enc", "f.bin"], d, "key file of %d bytes + %r" % (a, b))
                run([crypt, "-d", "-k", "key", "-o", "f.out", "f.enc"], d, "key file of %d bytes + %r" % (a, b))
                run([crypt, "-g", "newkey"], d, "generate key file")
            else:
                ll, k2 = a, b
                with open(os.path.join(d, "data.bin"), "wb") as f:
                    f.write(b"y" * 100)
                if k2 == "hex":
                    line = b"a" * ll
                elif k2 == "hexsp":
                    line = b"0" * min(ll, 64) + b"  " + b"f" * max(0, ll - 66)
                elif k2 == "junk":
                    line = bytes((i * 7 + 33) % 94 + 33 for i in range(ll))
                else:
                    line = b"0" * 64 + b"  " + b"n" * ll
                for tail in (b"\n", b"", b"\r\n"):
                    with open(os.path.join(d, "sums.txt"), "wb") as f:
                        f.write(line + tail + b"0" * 64 + b"  data.bin\n")
                    for flag in ("-h", "-y"):
                        run([summ, flag, "-c", "sums.txt"], d, "checksum line of %d characters (%s)" % (ll, k2))
                run([summ, "-x", "data.bin", "n" * min(ll + 1, 255)], d, "file name argument")
        finally:
            shutil.rmtree(d, ignore_errors=True)

    common.parallel(one, jobs)
    # benign answers of the system calls (one interrupted read / write at each position, transfers of one byte at a time): the buffer cursors of the tools' I/O layer under the sanitizers
    d = os.path.join(root, "eintr")
    os.makedirs(d)
    with open(os.path.join(d, "f.bin"), "wb") as f:
        f.write(bytes((i * 7 + 1) & 0xff for i in range(8192 + 37)))
    subprocess.run([crypt, "-e", "-p", "pw", "-o", "f.enc", "f.bin"], cwd=d, env=env, stdout=subprocess.DEVNULL, stderr=subprocess.DEVNULL)
    for var in ("VP_EINTR_READ", "VP_EINTR_WRITE", "VP_SHORT"):
        for k in ((1,) if var == "VP_SHORT" else range(0, 8)):
            e2 = dict(env)
            e2[var] = str(k)
            saved, env = env, e2
            run([crypt, "-e", "-p", "pw", "-o", "o.enc", "f.bin"], d, "%s=%d (benign)" % (var, k))
            run([crypt, "-d", "-p", "pw", "-o", "o.bin", "f.enc"], d, "%s=%d (benign)" % (var, k))
            env = saved
    # passwords typed at the terminal (no -p / -k): lengths around the 1024-byte password buffers, on a pseudo-terminal
    d = os.path.join(root, "tty")
    os.makedirs(d)
    with open(os.path.join(d, "f.bin"), "wb") as f:
        f.write(b"q" * 50)
    for plen in (0, 1, 1022, 1023, 1024, 1025, 2000, 4000):
        for second in (plen, 3):
            rc, out = common.run_on_pty([crypt, "-e", "-o", "f%d.enc" % plen, "f.bin"], [b"P" * plen, b"P" * second], cwd=d, env=env)
            ctx.stat("evaluations")
            text = out.decode("utf-8", "replace")
            bad = "asan" if "AddressSanitizer" in text else "ubsan" if "runtime error" in text else ("signal%d" % -rc) if rc < 0 else None
            if bad:
                where = [l.split(" in ", 1)[1].split(" ")[0] for l in text.splitlines() if l.strip().startswith("#") and " in " in l]
                where = [w for w in where if not w.startswith("__") and w not in ("memcpy", "strlen", "main")]
                ctx.fail("tool:asconcrypt:%s:%s" % (bad, where[0] if where else "prompt"), "password of %d characters typed at the prompt (confirmation %d): %s" % (plen, second, text[-300:].replace("\n", " | ")))
    # command-line syntax: options without their operand, bundled options, empty words, unknown options -- with getopt() and with the tools' own parser (a libc without getopt)
    crypt_lines = [["-g"], ["-e", "-g"], ["-d", "-g"], ["-p"], ["-k"], ["-o"], ["-e", "-p"], ["-e", "-o"], ["-ep"], ["-eg"], ["-dk"], ["-z"], ["--"], ["-"], [""], ["-e", ""], ["-p", "x", "-o"],
                   ["-e", "-p", "x", "-k"], ["-e", "-p", "x", "f.bin", "-o"], ["-gk"], ["-g", ""], ["-e", "-pfoo", "f.bin"], ["-epfoo", "f.bin"], ["-e", "-p", "foo", "-of.enc", "f.bin"], ["-d", "-p", "foo", "f.enc", "-o", "x"],
                   ["-e", "-p", "foo", "--", "f.bin"], ["-e", "-p", "foo", "-", "f.bin"], ["-p", "foo"], ["-e", "-e", "-d", "-p", "foo", "f.bin"], ["-gkey1", "extra"], ["-g", "key2", "extra"]]
    sum_lines = [["-c"], ["-z"], ["-h", "-c"], ["-hc"], ["--"], [""], ["-x"], ["-xy", "f.bin"], ["-c", "-c", "f.bin"], ["-h", "", "f.bin"], ["-a", "--", "f.bin"], ["f.bin", "-c"]]
    for variant in ("getopt", "own-parser"):
        try:
            tools = (crypt, summ) if variant == "getopt" else build_tools(san="asan", nogetopt=True)[1:]
        except build.BuildError as e:
            ctx.fail("build-error:tools-" + variant, str(e)[-500:])
            continue
        d = os.path.join(root, "syntax-" + variant)
        os.makedirs(d)
        with open(os.path.join(d, "f.bin"), "wb") as f:
            f.write(b"q" * 50)
        for line in crypt_lines:
            run([tools[0]] + line, d, "command line (%s)" % variant)
        for line in sum_lines:
            run([tools[1]] + line, d, "command line (%s)" % variant)
    shutil.rmtree(root, ignore_errors=True)
    ctx.sample("tools under ASan+UBSan: %d argv/file-shape cases (file names 1..255 with/without .ascon in -e/-d/auto modes, paths around 8192 characters, passwords and key files around 1024, checksum lines around 1024)" % len(jobs))


def run(ctx):
    t = ctx.thorough
    D = build.DEFAULT_TRIPLE
    cfgs = []   # (cc, backend, triple, full, masked_only)
    for be in ("asm", "c64", "c32", "dxor", "generic"):
        cfgs.append(("gcc", be, D, be in ("asm", "c32"), False))
    extra_triples = build.ALL_TRIPLES if t else [(2, 1, 2), (3, 1, 3), (3, 3, 3), (4, 4, 4)]
    for be in ("asm", "c64", "c32"):
        for tr in extra_triples:
            if tr != D:
                cfgs.append(("gcc", be, tr, False, True))
    for be in (("asm", "c64", "c32", "dxor", "generic") if t else ("asm", "c32")):
        cfgs.append(("clang", be, D, False, False))
    jobs = []
    for cc, be, tr, full, monly in cfgs:
        label = "%s-%s-k%dd%dm%d" % ((cc, be) + tr)
        try:
            lib = build.build_lib(be, tr, cc=cc, san="asan", opt="-O1")
            jobs += harness_jobs(lib, label, full, monly, t)
            # internal masked toolkit, scripted random source, exact-size objects
            mlib = build.build_lib(be, tr, cc=cc, san="asan", opt="-O1", omit=("ascon-trng-mixer.c",))
            if be in ("asm", "c64", "c32"):
                c10 = build.build_prog("c10", ["harness/c10.c"] + STD, mlib, opt="-O1", cfg_dep=True)
                jobs.append((c10, ["words"], label, EX))
                jobs.append((c10, ["keys"], label, EX))
                for n in (2, 3, 4):
                    if n <= tr[2]:
                        jobs.append((c10, ["perm", n, 0], label, EX))
        except build.BuildError as e:
            ctx.fail("build-error:" + label, str(e)[-600:])
            continue
        ctx.configs.append(label + " asan+ubsan")
    # the ASCON_NO_STL configuration: the library's own copy-on-write byte_array under every C++ class and helper, and searched on its own (operation histories of C20)
    for cc, be in ((("gcc", "asm"), ("clang", "c32"), ("gcc", "c64")) if t else (("gcc", "asm"),)):
        label = "%s-%s-nostl" % (cc, be)
        try:
            nolib = build.build_lib(be, D, cc=cc, san="asan", opt="-O1", no_stl=True)
            c17 = build.build_prog("c17", ["harness/c17.cpp", "harness/sysrand.c", "ref/ref.c"], nolib, opt="-O1", extra=["-DASCON_NO_STL"], cfg_dep=True)
            ba = build.build_prog("c20_ba", ["harness/c20_ba.cpp"], nolib, opt="-O1", extra=["-DASCON_NO_STL"], cfg_dep=True)
            hp = build.build_prog("c20_helpers", ["harness/c20_helpers.cpp", "ref/ref.c"], nolib, opt="-O1", extra=["-DASCON_NO_STL"], cfg_dep=True)
            c14 = build.build_prog("c14", ["harness/c14.c", "harness/cpp_session.cpp"] + STD, nolib, opt="-O1", extra=["-DASCON_NO_STL"], cfg_dep=True)
        except build.BuildError as e:
            ctx.fail("build-error:" + label, str(e)[-600:])
            continue
        jobs += [(c17, [], label, EX), (ba, [2, 5], label, EX), (ba, [3, 4], label, EX), (hp, [], label, EX)]
        jobs += [(c14, ["cpp", fam, alg, 0], label, EX) for fam in range(4) for alg in range(3)]
        ctx.configs.append(label + " asan+ubsan ASCON_NO_STL")
    # guard pages around everything handed to assembly (no sanitizer: native -O2 library)
    for tr in ([D, (2, 1, 2), (3, 3, 3)] if not t else build.ALL_TRIPLES):
        lib = build.build_lib("asm", tr, opt="-O2")
        g = build.build_prog("c12_guard", ["harness/c12_guard.c"] + STD, lib, opt="-O1", cfg_dep=True)
        jobs.append((g, [], "guard-asm-k%dd%dm%d" % tr, {}))
    jobs.sort(key=lambda j: 0 if os.path.basename(j[0]) in ("c10", "c02", "c15") else 1)
    common.parallel(lambda j: common.run_harness(ctx, j[0], j[1], label=j[2], env=j[3], timeout=900), jobs)
    ctx.stats["harness_processes"] = len(jobs)
    tool_space(ctx)
    ctx.assumptions += [
        "memory-safety / UB oracle = gcc and clang AddressSanitizer + UndefinedBehaviorSanitizer (-fno-sanitize-recover), exact-size heap buffers (HX_EXACT), canaries in the non-sanitizer runs of the other checks, PROT_NONE guard pages for objects handed to assembly",
        "the enumerated argument spaces are those of C01-C08, C10, C14, C15 (quick bounds) re-run per configuration; start offsets 1..7 applied to every harness-allocated buffer on the x86-64 and C32 back ends",
        "sanitizers do not see inside the assembly back end; guard pages catch only accesses that leave the page-aligned object boundary",
    ]
    cov = dict(evaluations=ctx.stats.get("evaluations", 0), distinct_nontrivial=ctx.stats.get("harness_processes", 0) + ctx.stats.get("nontrivial", 0),
               rule="each harness process = one (harness, argument subspace, configuration, start offset) combination executed under ASan+UBSan; configurations: gcc x 5 back ends (default shares) + "
                    "gcc x 3 masked back ends x extra share triples + clang x {x86-64, C32}; masked toolkit called directly on exact-size objects; guard-page runs on the assembly back end; "
                    "tools: argv / file shapes around every fixed-size buffer of asconcrypt and asconsum. Oracle: no sanitizer report, no signal, canaries intact",
               exhaustive=True)
    return LEVEL, cov
