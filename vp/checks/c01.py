"""C01: AEAD encryption == ASCON v1.2 for every shape x pattern x entry family (+ LPC basis enumeration)."""
import build, common

LEVEL = "exploration"
EMPTY_COVERAGE = dict(evaluations=0, distinct_nontrivial=0, rule="", samples=[])


def run(ctx):
    maxlen = 272 if ctx.thorough else 40
    lpcmax = 40 if ctx.thorough else 20
    backends = ["asm", "c64", "c32", "dxor", "generic"]
    jobs = []
    for be in backends:
        lib = build.build_lib(be)
        ctx.configs.append(lib["desc"])
        exe = build.build_prog("c01", ["harness/c01.c", "harness/cpp_shim.cpp", "harness/sysrand.c", "ref/ref.c"], lib)
        lpc = build.build_prog("lpc_modes", ["harness/lpc_modes.c", "harness/sysrand.c", "ref/ref.c"], lib,
                               link=["-Wl,--wrap=ascon_permute"])
        main = be == "asm"
        pats = ["0", "1", "2", "3", "walk"] if (main or ctx.thorough) else ["0", "3"]
        for alg in range(3):
            for p in pats:
                ml = maxlen if (main or p in ("0", "3")) else 40
                if not main and ctx.thorough:
                    ml = min(ml, 96)
                jobs.append((exe, [alg, p, ml, 1 if (p != "walk" and (ctx.thorough or (main and p in ("0", "3")))) else 0], "%s" % be))
            for fam in ("aead", "inc"):
                jobs.append((lpc, [fam, alg, lpcmax if main else 12], "%s" % be))
            jobs.append((exe, [alg, "chunks", 0, 1 if (ctx.thorough and be in ("asm", "dxor", "c32")) else 0], "%s" % be))   # chunk sizes of the incremental calls around 256/512/.../65536
    # the masked (and C++ masked) entry points again under other share configurations: their init/finalize paths convert between share counts
    triples = [t for t in build.ALL_TRIPLES if t != build.DEFAULT_TRIPLE] if ctx.thorough else [(2, 1, 2), (3, 2, 3), (4, 3, 4), (3, 3, 3), (4, 4, 4)]
    # (the direct-XOR and generic cores have branches of their own in the conversions between share counts)
    pairs = [(k, d, k) for k in (2, 3, 4) for d in range(1, k + 1)]
    for be in ("asm", "c64", "c32", "dxor", "generic"):
        for tr in (triples if be in ("asm", "c64", "c32") else (pairs if ctx.thorough else [(3, 1, 3), (2, 1, 2), (4, 1, 4), (3, 2, 3), (4, 3, 4)])):
            lib = build.build_lib(be, tr)
            ctx.configs.append(lib["desc"])
            exe = build.build_prog("c01", ["harness/c01.c", "harness/cpp_shim.cpp", "harness/sysrand.c", "ref/ref.c"], lib)
            for alg in range(3):
                jobs.append((exe, [alg, "3", 24 if not ctx.thorough else 40, 0], "%s-k%dd%dm%d" % ((be,) + tr)))
    # the C++ entries once more in the ASCON_NO_STL configuration (copy-on-write byte_array under the byte_array overloads)
    nlib = build.build_lib("asm", no_stl=True)
    ctx.configs.append(nlib["desc"] + " ASCON_NO_STL")
    nexe = build.build_prog("c01", ["harness/c01.c", "harness/cpp_shim.cpp", "harness/sysrand.c", "ref/ref.c"], nlib, extra=["-DASCON_NO_STL"], cfg_dep=True)
    for alg in range(3):
        jobs.append((nexe, [alg, "3", 40, 0], "asm-nostl"))
    # with the system random source not there at all (every request fails with ENOSYS; thorough: also EIO, EPERM): the masked entries still compute the function
    for be in (("asm", "c64", "c32", "dxor", "generic") if ctx.thorough else ("asm", "c32")):
        lib = build.build_lib(be)
        exe = build.build_prog("c01", ["harness/c01.c", "harness/cpp_shim.cpp", "harness/sysrand.c", "ref/ref.c"], lib)
        for err in ((38, 5, 1) if ctx.thorough else (38,)):
            for alg in range(3):
                jobs.append((exe, [alg, "3", 24, 0], "%s-rng-down-%d" % (be, err), {"VP_SYSRAND_DOWN": str(err)}))
    # longest first
    jobs.sort(key=lambda j: -int(j[1][2]) if str(j[1][2]).isdigit() else 0)
    common.parallel(lambda j: common.run_harness(ctx, j[0], j[1], label=j[2], env=j[3] if len(j) > 3 else None), jobs)
    common.align_jobs(ctx, jobs, lambda j: j[2] in ("asm", "c64", "c32") and str(j[1][1]) == "3" and len(j[1]) == 4)
    common.mid_lengths(ctx, ["aead:0", "aead:1", "aead:2", "aead-ad:0", "aead-ad:1", "aead-ad:2", "inc:0", "inc:1", "inc:2", "masked:0", "masked:1", "masked:2", "masked-ad:0", "masked-ad:1", "masked-ad:2"], ("asm", "c64", "c32", "dxor", "generic") if ctx.thorough else ("asm", "c32"))
    if ctx.thorough:
        common.huge_lengths(ctx, ["aead:0", "aead:1", "aead:2", "aead-ad:0", "aead-ad:1", "aead-ad:2", "inc:0", "inc:1", "inc:2", "masked:1", "masked-ad:1", "masked-ad:2"])
    ctx.assumptions += [
        "reference model = ASCON v1.2 as bound to all shipped KAT vectors (frozen digests in /verif/ref)",
        "value completeness per shape rests on the linearised-permutation argument (DESIGN 3.1) + C08 + C11; real-permutation runs use 4 value patterns and single-bit walks",
        "lengths beyond the enumerated bound are covered only by the listed long lengths (thorough tier)",
    ]
    cov = dict(evaluations=ctx.stats.get("evaluations", 0),
               distinct_nontrivial=ctx.stats.get("nontrivial_shapes", 0) + ctx.stats.get("shapes", 0),
               rule="every (adlen, mlen) in 0..%d^2 x value pattern {KAT counting, zero, FF, dense(seed), key/nonce bit walk} x "
                    "{one-shot, incremental, masked, C++} x 3 algorithms x 5 backends compared with the reference; LPC: zero + every unit "
                    "vector of K||N||A||P per shape up to %d. distinct_nontrivial counts (backend, algorithm, pattern, adlen, mlen) tuples "
                    "with a non-empty input plus LPC shapes" % (maxlen, lpcmax),
               exhaustive=True)
    return LEVEL, cov
