"""C20: hex codec (exhaustive short strings) and non-STL byte_array vs std::vector (explicit-state search)."""
import build, common

LEVEL = "model_checking"
EMPTY_COVERAGE = dict(states=0, transitions=0, traces_validated_against_impl=0, samples=[])


def run(ctx):
    t = 1 if ctx.thorough else 0
    lib = build.build_lib("asm", san="asan", opt="-O1")
    ctx.configs.append(lib["desc"])
    hexe = build.build_prog("c20_hex", ["harness/c20_hex.c", "ref/ref.c"], lib, opt="-O1")
    jobs = []
    for lo in range(0, 256, 16):
        jobs.append((hexe, ["all3", lo, lo + 16], "hex"))
    for f in range(0, 21, 3):
        jobs.append((hexe, ["classes", t, f, min(21, f + 3)], "hex"))
    jobs.append((hexe, ["encode", t], "hex"))
    stl = build.build_prog("c20_helpers", ["harness/c20_helpers.cpp", "ref/ref.c"], lib, opt="-O1")
    jobs.append((stl, [], "helpers-stl"))
    nolib = build.build_lib("asm", san="asan", opt="-O1", no_stl=True, extra=["-fsanitize-recover=address"])
    ctx.configs.append(nolib["desc"] + " ASCON_NO_STL")
    nostl = build.build_prog("c20_helpers", ["harness/c20_helpers.cpp", "ref/ref.c"], nolib, opt="-O1", extra=["-DASCON_NO_STL"], cfg_dep=True)
    jobs.append((nostl, [], "helpers-nostl"))
    # the Arduino configuration of the helpers (String overloads), on a stand-in WString.h
    import os
    ardflags = ["-DARDUINO", "-I" + os.path.join(common.VERIF, "harness", "stubs", "arduino")]
    ardlib = build.build_lib("asm", san="asan", opt="-O1", no_stl=True, extra=["-fsanitize-recover=address"] + ardflags)
    ctx.configs.append(ardlib["desc"] + " ARDUINO (stand-in String)")
    jobs.append((build.build_prog("c20_helpers", ["harness/c20_helpers.cpp", "ref/ref.c"], ardlib, opt="-O1", extra=ardflags, cfg_dep=True), [], "helpers-arduino"))
    ba = build.build_prog("c20_ba", ["harness/c20_ba.cpp"], nolib, opt="-O1", extra=["-DASCON_NO_STL", "-fsanitize-recover=address"], cfg_dep=True)
    env = {"ASAN_OPTIONS": "halt_on_error=0:detect_leaks=0:print_summary=0"}
    jobs.append((ba, [2, 6 if t else 5], "byte_array", env))
    jobs.append((ba, [3, 5 if t else 4], "byte_array", env))
    common.parallel(lambda j: common.run_harness(ctx, j[0], j[1], label=j[2], env=(j[3] if len(j) > 3 else None)), jobs)
    ctx.assumptions += [
        "byte_array canonical key = contents + buffer-sharing partition + capacity class (sharing and capacity are invisible to std::vector but decide the implementation's futures); operations undefined for std::vector (pop_back on empty, index out of range) are not in the alphabet",
        "a reference obtained by operator[] is held only across other operator[] calls, which never invalidate references of a std::vector",
        "memory errors are observed with AddressSanitizer in recover mode (an error raises a flag and is reported with the history)",
    ]
    cov = dict(states=ctx.stats.get("states", 0), transitions=ctx.stats.get("transitions", 0) + ctx.stats.get("evaluations", 0),
               traces_validated_against_impl=ctx.stats.get("traces_validated", 0), max_depth=ctx.stats.get("max_depth", 0),
               codec_cases=ctx.stats.get("evaluations", 0),
               rule="decode: every string of length <= 3 over all 256 byte values and every string of length <= 5 (6) over 21 character-class representatives x output sizes, against a reference decoder, "
                    "exact-size buffers under ASan; encode: all inputs of length <= 2 + dense, outlen around 2n+1; C++ helpers in STL and NO_STL builds; "
                    "byte_array: BFS over operation histories on 2 values (depth 5/6) and 3 values (depth 4/5), every observer compared with std::vector after every operation",
               exhaustive=True)
    return LEVEL, cov
