"""C15: PRNG histories x entropy/storage fault plans (determinism, influence, forward security, reseed trigger, status)."""
import build, common

LEVEL = "fault_enumeration"
EMPTY_COVERAGE = dict(evaluations=0, distinct_nontrivial=0, rule="", samples=[])


def run(ctx):
    t = 1 if ctx.thorough else 0
    depth = 4 if t else 3
    jobs = []
    for be in (["asm", "c64", "c32", "dxor", "generic"] if t else ["asm", "c32", "generic"]):
        lib = build.build_lib(be)
        ctx.configs.append(lib["desc"])
        exe = build.build_prog("c15", ["harness/c15.c", "harness/sysrand.c", "ref/ref.c"], lib, opt="-O2")
        d = depth if be == "asm" else 3
        for a in range(22):
            jobs.append((exe, [d, a, a + 1, t if be == "asm" else 0], be))
    # the system-source interface is chosen by libc probes: the same histories (depth 2 | 3) with the library configured for getentropy() and for syscall(SYS_getrandom)
    DEV = ("HAVE_GETENTROPY", "HAVE_GETRANDOM", "HAVE_SYS_SYSCALL_H")
    for be, drop, tag in (("asm", ("HAVE_GETRANDOM",), "getentropy"), ("c32", ("HAVE_GETENTROPY", "HAVE_GETRANDOM"), "syscall"), ("asm", DEV, "device"), ("c32", DEV, "device-fd0")) + ((("generic", ("HAVE_GETRANDOM",), "getentropy"),) if t else ()):
        lib = build.build_lib(be, drop=drop, extra=(["-U__linux__", "-U__linux", "-Ulinux"] if tag.startswith("device") else []))
        ctx.configs.append(lib["desc"] + " via " + tag)
        exe = build.build_prog("c15", ["harness/c15.c", "harness/sysrand.c", "ref/ref.c"], lib, opt="-O2",
                               extra={"syscall": ["-DVP_SYSRAND_SYSCALL"], "device": ["-DVP_SYSRAND_DEVICE"], "device-fd0": ["-DVP_SYSRAND_DEVICE", "-DVP_SYSRAND_FD=0"]}.get(tag, []))
        for a in range(22):
            jobs.append((exe, [3 if t else 2, a, a + 1, 0], be + "-" + tag))
    # a platform without any known random source (ascon-trng-none.c): a pool fed by the clocks and by the application's ascon_trng_get_bytes() hook; fresh process per run
    for be in (("asm", "c32") if t else ("asm",)):
        lib = build.build_lib(be, extra=["-U__linux__", "-U__linux", "-Ulinux", "-U__unix__", "-U__unix", "-Uunix", "-w"], tag="none")
        ctx.configs.append(lib["desc"] + " no known random source")
        jobs.append((build.build_prog("c15_none", ["harness/c15_none.c"], lib, opt="-O1"), [], be + "-no-known-source"))
    # the system-source drivers of the other platforms, compiled for this host against stand-in platform headers with a scripted source behind them
    import os
    UNIX = ["-U__linux__", "-U__linux", "-Ulinux", "-U__unix__", "-U__unix", "-Uunix", "-w"]
    DRIVERS = [("due", "ascon-trng-due.c", ["-D__arm__", "-D__SAM3X8E__", "-DARDUINO", "-DASCON_FORCE_C64"], "due"),
               ("esp", "ascon-trng-esp.c", ["-DESP32"], "esp"),
               ("stm32", "ascon-trng-stm32.c", ["-DUSE_HAL_DRIVER", "-DSTM32F407xx"], "stm32"),
               ("windows", "ascon-trng-windows.c", ["-D_WIN32", "-DASCON_FORCE_C64"], "windows"),
               ("zephyr-csrand", "ascon-trng-zephyr.c", ["-D__zephyr__", "-DCONFIG_CTR_DRBG_CSPRNG_GENERATOR", "-DASCON_FORCE_C64"], "zephyr"),
               ("zephyr-bt", "ascon-trng-zephyr.c", ["-D__zephyr__", "-DCONFIG_BT", "-DASCON_FORCE_C64"], "zephyr")]
    dlib = build.build_lib("asm", omit=("ascon-trng-dev-random.c",))
    for name, src, defs, stub in DRIVERS:
        try:
            sp = os.path.join(build.REPO, "src", "random", src)
            flags = UNIX + defs + ["-I" + os.path.join(common.VERIF, "harness", "stubs", stub), "-I" + os.path.join(build.REPO, "src", "random"), "-DVP_DRIVER_" + name.replace("-", "_")]
            exe = build.build_prog("c15_drivers_" + name, ["harness/c15_drivers.c", sp], dlib, opt="-O1", per_source_extra={src: flags}, cfg_dep=True)
            jobs.append((exe, [name], "driver"))
            ctx.configs.append("system-source driver %s on stand-in headers" % name)
        except build.BuildError as e:
            ctx.fail("build-error:driver-" + name, str(e)[-600:])
    common.parallel(lambda j: common.run_harness(ctx, j[0], j[1], label=j[2]), jobs)
    ctx.assumptions += [
        "the system source is libc getrandom() -- in further configurations getentropy(), syscall(SYS_getrandom) and the /dev/urandom device (descriptor 100 and descriptor 0) -- defined by the harness (scripted tape, per-call failure plan); the library's own ascon-trng-dev-random.c stays in place",
        "forward security is judged structurally: applying the reference inverse permutation to the canonical state after every operation must give an all-zero rate",
        "the reseed trigger is judged on histories without save/load (whose internal fetches are an implementation detail); status results are judged against random.h: init/reseed/ascon_random non-zero iff the source succeeded, save/load 0 on success and -1 on storage failure or invalid arguments",
        "influence is a probabilistic statement (an accidental collision on >= 16 output bytes has probability 2^-128)",
    ]
    cov = dict(evaluations=ctx.stats.get("runs", 0), distinct_nontrivial=ctx.stats.get("histories", 0),
               rule="every operation history of depth <= %d after init over a 22-entry alphabet; for each: default environment, every subset of failing system-source calls (<= 6 calls), "
                    "storage read/write answers {-1, 0, 31, 33} and storage size 31 (one deviation at a time; thorough: combined); every single-byte flip of every delivered seed and fed string for the influence oracle. "
                    "distinct_nontrivial = histories; evaluations = executions of a history on the real generator" % depth,
               exhaustive=True)
    return LEVEL, cov
