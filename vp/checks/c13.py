"""C13: freed / cleared / destroyed objects retain nothing secret-derived, on the repository's own Release (-O3) build."""
import os
import build, common

LEVEL = "model_checking"
EMPTY_COVERAGE = dict(states=0, transitions=0, traces_validated_against_impl=0, samples=[])
OPTS = {"asm": [], "c64": ["-DBACKEND_C64=ON"], "c32": ["-DBACKEND_C32=ON"], "dxor": ["-DBACKEND_DIRECT_XOR=ON"], "generic": ["-DBACKEND_GENERIC=ON"]}


NOPROBE = ["-DHAVE_EXPLICIT_BZERO=OFF", "-DHAVE_MEMSET_S=OFF"]   # the wipe primitive's fall-back branch (a libc with neither explicit_bzero nor memset_s)


def release_lib(be, cc, tr=None, more=()):
    extra = ([] if tr is None else ["-DKEY_SHARES=%d" % tr[0], "-DDATA_SHARES=%d" % tr[1], "-DMAX_SHARES=%d" % tr[2]]) + list(more)
    d = build.cmake_release(OPTS[be] + ["-DMINIMAL=ON"] + extra, tag="c13", cc=cc, targets=("ascon_static",))
    lib = os.path.join(d, "src", "libascon_static.a")
    return dict(lib=lib, inc=["-I" + os.path.join(build.REPO, "src"), "-I" + os.path.join(build.REPO, "src", "ascon"), "-I" + d], dir=d, cflags=["-DHAVE_CONFIG_H"],
                cc=cc, cxx={"gcc": "g++", "clang": "clang++"}[cc], sanflags=[], desc="cmake Release %s %s%s%s" % (be, cc, "" if tr is None else " k%dd%dm%d" % tr, " " + " ".join(more) if more else ""))


def run(ctx):
    t = ctx.thorough
    maxh = 4 if t else 3
    cfgs = [("asm", "gcc"), ("c32", "gcc"), ("generic", "gcc"), ("asm", "clang")]
    if t:
        cfgs = [(be, cc) for be in OPTS for cc in ("gcc", "clang")]
    jobs = []
    # the size of the masked objects' internal words depends on the share configuration
    cfgs = [c + (None,) for c in cfgs] + [("asm", "gcc", tr) for tr in ([(2, 1, 2), (3, 2, 3), (2, 2, 4), (3, 3, 3)] if not t else [x for x in build.ALL_TRIPLES if x != build.DEFAULT_TRIPLE])]
    if t:
        cfgs += [("c32", "gcc", (2, 1, 2)), ("c64", "clang", (3, 3, 3))]
    # CMake's other build types: MinSizeRel (-Os -DNDEBUG) and RelWithDebInfo (-O2 -g -DNDEBUG) -- assertion-free and size-optimised code
    OTHER = [("asm", "gcc", None, ["-DCMAKE_BUILD_TYPE=MinSizeRel"]), ("c32", "clang", None, ["-DCMAKE_BUILD_TYPE=RelWithDebInfo"])] + ([("generic", "gcc", None, ["-DCMAKE_BUILD_TYPE=RelWithDebInfo"]), ("c64", "clang", None, ["-DCMAKE_BUILD_TYPE=MinSizeRel"])] if t else [])
    cfgs = [c + ((),) for c in cfgs] + [("asm", "gcc", None, NOPROBE), ("c32", "clang", None, NOPROBE)] + ([("generic", "gcc", (3, 3, 3), NOPROBE)] if t else []) + OTHER
    for be, cc, tr, more in cfgs:
        name = "%s-%s-release%s%s" % (be, cc, "" if tr is None else "-k%dd%dm%d" % tr, ("-no-explicit_bzero" if more == NOPROBE else "-" + more[0].split("=")[-1]) if more else "")
        try:
            lib = release_lib(be, cc, tr, more)
            c = build.build_prog("c13", ["harness/c13.c", "harness/sysrand.c"], lib, opt="-O3", cfg_dep=True)
            cpp = build.build_prog("c13cpp", ["harness/c13.cpp", "harness/sysrand.c"], lib, opt="-O3", cfg_dep=True)
        except build.BuildError as e:
            ctx.fail("build-error:" + name, str(e)[-600:])
            continue
        ctx.configs.append(lib["desc"])
        jobs.append((c, [maxh], name))
        jobs.append((cpp, [maxh if (be == "asm" and tr is None) else 2], name))
    common.parallel(lambda j: common.run_harness(ctx, j[0], j[1], label=j[2]), jobs)
    ctx.assumptions += [
        "artefact = the repository's own CMake Release build (-O3) of the static library; the C++ scenarios are compiled at -O3 as well because the header-only destructors are compiled into the user's translation unit",
        "'no longer depends on' is decided differentially: two runs in identical pre-patterned memory whose secrets (key, nonce, message, associated data, entropy tape) differ in every byte must leave identical object bytes",
        "observes the object's own bytes only (not registers or dead stack)",
    ]
    cov = dict(states=ctx.stats.get("states", 0), transitions=ctx.stats.get("transitions", 0),
               traces_validated_against_impl=ctx.stats.get("traces_validated", 0), object_types=ctx.stats.get("object_types", 0),
               rule="27 C object types (incl. the masked permutation states x2-x4 and the TRNG state) and 16 C++ classes x every operation history of length <= %d over a 4-operation alphabet per type x terminal {free | destructor | clear()} x 2 secret assignments, "
                    "on the CMake Release library of each configuration in %s" % (maxh, [c[0] + "/" + c[1] + ("" if c[2] is None else "/k%dd%dm%d" % c[2]) + (("/no-explicit_bzero" if c[3] == NOPROBE else "/" + c[3][0].split("=")[-1]) if c[3] else "") for c in cfgs]),
               exhaustive=True)
    return LEVEL, cov
