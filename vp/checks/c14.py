"""C14: nonce increment (all carry chains), incremental sessions and C++ cipher objects (explicit histories)."""
import build, common

LEVEL = "model_checking"
EMPTY_COVERAGE = dict(states=0, transitions=0, traces_validated_against_impl=0, samples=[])
SRC = ["harness/c14.c", "harness/cpp_session.cpp", "harness/sysrand.c", "ref/ref.c"]


def run(ctx):
    t = 1 if ctx.thorough else 0
    jobs = []
    for be in (["asm", "c64", "c32", "dxor", "generic"] if ctx.thorough else ["asm", "c32", "generic"]):
        lib = build.build_lib(be)
        ctx.configs.append(lib["desc"])
        exe = build.build_prog("c14", SRC, lib, opt="-O2")
        jobs.append((exe, ["inc", t], be))
        for alg in range(3):
            jobs.append((exe, ["session", alg, t], be))
            for fam in range(4):
                jobs.append((exe, ["cpp", fam, alg, t], be))
                if be in ("asm", "c32") or ctx.thorough:
                    jobs.append((exe, ["cppseq", fam, alg, 4 if (ctx.thorough and fam != 1) else 3], be))
    jobs.sort(key=lambda j: 0 if (j[1][0] == "cpp" and j[1][1] == 3) else 1)
    common.parallel(lambda j: common.run_harness(ctx, j[0], j[1], label=j[2]), jobs)
    ctx.assumptions += [
        "C++ objects are judged black-box: each operation's output must equal the reference one-shot result under the nonce predicted by '+1 after encrypt, +1 after successful decrypt, unchanged after failed decrypt'",
        "incremental sessions: the public nonce field is read directly; packet i must equal the one-shot result under N+i",
    ]
    cov = dict(states=ctx.stats.get("histories", 0), transitions=ctx.stats.get("transitions", 0) + ctx.stats.get("evaluations", 0),
               traces_validated_against_impl=ctx.stats.get("histories", 0),
               nonce_values_enumerated=ctx.stats.get("evaluations", 0),
               rule="increment: every 16-byte nonce over {00,FF} (quick) / {00,FE,FF} (thorough, 3^16) per byte + every carry-chain length x lead bytes against a 128-bit big-endian reference; "
                    "sessions: every starting carry-chain length 0..16 x every packet history of depth 3 (4) over {encrypt, decrypt, forged decrypt} for 3 incremental ciphers and 12 C++ classes; "
                    "set_nonce lengths 0..20, set_counter at bit/byte boundaries; C++ objects against an explicit (key, nonce) model: every sequence of 3 (4) member calls over a 14-operation alphabet "
                    "(3 encrypt forms, valid / forged / short decrypts in pointer and byte_array form, accepted / zero-length / refused keying, set_nonce 16 / 5 bytes, set_counter) for the 12 classes. "
                    "states = histories executed on the real objects",
               exhaustive=True)
    return LEVEL, cov
