"""C19: command-line tools: round trip, tamper/truncation detection, k-th I/O fault for every k (libc shim)."""
import os, shutil, subprocess, hashlib, itertools, pty, select, time
import build, common

LEVEL = "fault_enumeration"
EMPTY_COVERAGE = dict(evaluations=0, distinct_nontrivial=0, rule="", samples=[])
B = 8192  # BUFSIZ on this platform (checked below)


def build_tools(san=None, nogetopt=False):
    """nogetopt: the configuration a libc without getopt() gives (the tools then use their own command-line parser)"""
    lib = build.build_lib("asm", san=san, opt="-O1" if san else "-O2", drop=(("HAVE_GETOPT", "HAVE_GETOPT_H") if nogetopt else ()))
    apps = os.path.join(build.REPO, "apps")
    crypt = build.build_prog("asconcrypt", [os.path.join(apps, "asconcrypt", f) for f in ("asconcrypt.c", "fileops.c", "readpass.c")] + ["harness/ioshim.c"],
                             lib, opt="-O1", extra=["-DHAVE_CONFIG_H", "-I" + os.path.join(apps, "asconcrypt")], cfg_dep=True)
    summ = build.build_prog("asconsum", [os.path.join(apps, "asconsum", "asconsum.c")], lib, opt="-O1", extra=["-DHAVE_CONFIG_H"], cfg_dep=True)
    return lib, crypt, summ


def content(n, pat):
    if pat == 0:
        return bytes(i & 0xff for i in range(n))
    h = hashlib.sha256(b"c19-%d" % pat).digest()
    out = bytearray()
    c = 0
    while len(out) < n:
        out += hashlib.sha256(h + c.to_bytes(4, "big")).digest()
        c += 1
    return bytes(out[:n])


def run(ctx):
    lib, crypt, summ = build_tools()
    ctx.configs.append(lib["desc"])
    refsum = build.build_prog("refsum", ["ref/refsum.c", "ref/ref.c"], cc="gcc", opt="-O2")
    root = os.path.join(build.BUILD, "run", "c19-%d" % os.getpid())
    shutil.rmtree(root, ignore_errors=True)
    os.makedirs(root)
    counter = itertools.count()

    def wd():
        d = os.path.join(root, "w%d" % next(counter))
        os.makedirs(d)
        return d

    CLOSED = [()]

    def tool(args, env=None, cwd=None, timeout=120, nofile=None):
        e = dict(os.environ)
        if env:
            e.update({k: str(v) for k, v in env.items()})
        pre = None
        if nofile:
            import resource
            pre = lambda: resource.setrlimit(resource.RLIMIT_NOFILE, (nofile, nofile))     # the process may hold that many open files at a time
        if CLOSED[0]:
            cl = tuple(CLOSED[0])
            pre = lambda: [os.close(f) for f in cl]      # the tool starts with these standard descriptors closed (the files it opens then get their numbers)
        p = subprocess.run(args, stdout=subprocess.PIPE, stderr=subprocess.PIPE, env=e, cwd=cwd, timeout=timeout, preexec_fn=pre, stdin=subprocess.DEVNULL)
        ctx.stat("evaluations")
        return p.returncode, p.stdout, p.stderr

    def rep(args, env=None):
        return dict(cmd=args, env=env or {})

    def write(path, data):
        with open(path, "wb") as f:
            f.write(data)

    def encrypt(d, data, pw_args, name="in.bin", prior=None):
        src = os.path.join(d, name)
        write(src, data)
        if prior is not None:
            write(os.path.join(d, "enc.ascon"), prior)
        rc, o, e = tool([crypt, "-e"] + pw_args + ["-o", os.path.join(d, "enc.ascon"), src])
        return rc, os.path.join(d, "enc.ascon"), e

    PW = ["-p", "correct horse"]
    thorough = ctx.thorough

    # ---------------- round trip over sizes x passwords x contents
    sizes = [0, 1, 15, 16, 17] + list(range(B - 17, B + 2)) + list(range(2 * B - 17, 2 * B + 2)) + [3 * B]
    if not thorough:
        sizes = [0, 1, 15, 16, 17, B - 17, B - 16, B - 15, B - 1, B, B + 1, 2 * B - 17, 2 * B - 16, 2 * B - 15, 2 * B - 1, 2 * B, 2 * B + 1, 3 * B]

    def roundtrip(job):
        n, pwkind, pat = job[:3]
        prior = job[3] if len(job) > 3 else None     # an output file of that name already exists: longer or shorter than what is about to be written
        d = wd()
        data = content(n, pat)
        if pwkind == "short":
            pa = ["-p", "x"]
        elif pwkind == "long":
            pa = ["-p", "P" * 1023]
        else:
            kf = os.path.join(d, "key.txt")
            write(kf, b"k3y-file-secret\n")
            pa = ["-k", kf]
        junk = lambda k: bytes((i * 29 + 3) & 0xff for i in range(k))
        rc, enc, e = encrypt(d, data, pa, prior=None if prior is None else junk(n + 96 + 50 if prior == "longer" else max(0, n + 96 - 7)))
        key = "asconcrypt:roundtrip:%s" % pwkind + (":existing-output-" + prior if prior else "")
        if rc != 0 or not os.path.isfile(enc):
            ctx.fail(key, "encryption of a %d-byte file exits %d: %s" % (n, rc, e[-200:]), rep([crypt, "-e"] + pa))
            return
        encsize = os.path.getsize(enc)
        if encsize != n + 96:
            ctx.fail(key, "encrypted size %d for %d input bytes (expected +96)" % (encsize, n))
        out = os.path.join(d, "out.bin")
        if prior:
            write(out, junk(n + 33 if prior == "longer" else n // 2))
        rc, o, e = tool([crypt, "-d"] + pa + ["-o", out, enc])
        if rc != 0 or not os.path.isfile(out) or open(out, "rb").read() != data:
            ctx.fail(key, "decryption of a %d-byte file does not reproduce it (exit %d): %s" % (n, rc, e[-200:]), rep([crypt, "-d"] + pa))
        # wrong password
        out2 = os.path.join(d, "out2.bin")
        rc, o, e = tool([crypt, "-d", "-p", "wrong", "-o", out2, enc])
        if rc == 0 or os.path.exists(out2):
            ctx.fail("asconcrypt:wrong-password", "wrong password: exit %d, output file %s (size %d)" % (rc, "left behind" if os.path.exists(out2) else "absent", n))
        ctx.stat("nontrivial")
        shutil.rmtree(d, ignore_errors=True)

    jobs = [(n, pk, pat) for n in sizes for pk in ("short", "long", "keyfile") for pat in ((0, 1) if thorough or n < 100 else (1,))]
    jobs += [(n, "short", 1, prior) for n in sizes for prior in ("longer", "shorter")]
    common.parallel(roundtrip, jobs)

    # ---------------- tampering: bit flips and truncation at every position
    def tamper_base(n):
        d = wd()
        data = content(n, 1)
        rc, enc, e = encrypt(d, data, PW)
        return d, open(enc, "rb").read()

    def expect_reject(kind, d, blob, desc, idx):
        f = os.path.join(d, "t%d.ascon" % idx)
        out = os.path.join(d, "t%d.out" % idx)
        write(f, blob)
        rc, o, e = tool([crypt, "-d"] + PW + ["-o", out, f])
        left = os.path.exists(out)
        if rc == 0 or left:
            ctx.fail("asconcrypt:%s" % kind, "%s: exit status %d, output file %s" % (desc, rc, "left behind" if left else "absent"),
                     rep([crypt, "-d"] + PW + ["-o", out, f]))
        ctx.stat("nontrivial")
        for p in (f, out):
            if os.path.exists(p):
                os.unlink(p)

    tjobs = []
    for n in ([0, 1, 17, 64] if not thorough else [0, 1, 16, 17, 64, 100]):
        d, blob = tamper_base(n)
        for i in range(len(blob)):
            for bit in range(8):
                b2 = bytearray(blob)
                b2[i] ^= 1 << bit
                tjobs.append(("bitflip", d, bytes(b2), "bit %d of byte %d of the %d-byte encrypted file (plaintext %d bytes) flipped" % (bit, i, len(blob), n)))
        for t in range(len(blob)):
            tjobs.append(("truncated", d, blob[:t], "encrypted file of %d bytes truncated to %d" % (len(blob), t)))
        tjobs.append(("extended", d, blob + b"\0", "one byte appended to the encrypted file"))
    for n in ([B + 1] if not thorough else [B - 16, B + 1, 2 * B + 5]):
        d, blob = tamper_base(n)
        step = 1 if thorough else 53
        pos = sorted(set(list(range(0, len(blob), step)) + list(range(0, 96)) + list(range(len(blob) - 40, len(blob))) + list(range(B + 60, B + 100))))
        for i in pos:
            if i < len(blob):
                b2 = bytearray(blob)
                b2[i] ^= 1 << (i % 8)
                tjobs.append(("bitflip", d, bytes(b2), "bit %d of byte %d of the %d-byte encrypted file flipped" % (i % 8, i, len(blob))))
        tpos = range(len(blob)) if thorough else sorted(set(list(range(0, len(blob), 97)) + list(range(0, 130)) + list(range(B - 20, B + 130)) + list(range(len(blob) - 40, len(blob)))))
        for t in tpos:
            if t < len(blob):
                tjobs.append(("truncated", d, blob[:t], "encrypted file of %d bytes truncated to %d" % (len(blob), t)))
    common.parallel(lambda j: expect_reject(j[1][0], j[1][1], j[1][2], j[1][3], j[0]), list(enumerate(tjobs)))

    # ---------------- k-th call faults
    def counts(args, d):
        cf = os.path.join(d, "counts.txt")
        rc, o, e = tool(args, env={"VP_COUNTS": cf})
        r, w, op, rn = map(int, open(cf).read().split())
        os.unlink(cf)
        return rc, r, w, op, rn

    fjobs = []
    for n in ([0, 17, B + 1] if not thorough else [0, 17, B - 16, B + 1, 2 * B + 5]):
        d = wd()
        data = content(n, 1)
        src = os.path.join(d, "in.bin")
        write(src, data)
        encf = os.path.join(d, "good.ascon")
        tool([crypt, "-e"] + PW + ["-o", encf, src])
        for mode, args_of in (("encrypt", lambda out, src=src: [crypt, "-e"] + PW + ["-o", out, src]), ("decrypt", lambda out, encf=encf: [crypt, "-d"] + PW + ["-o", out, encf])):
            probe = os.path.join(d, "probe.out")
            rc, r, w, op, rn = counts(args_of(probe), d)
            good = open(probe, "rb").read()
            os.unlink(probe)
            plan = [("VP_FAIL_READ", k, 5) for k in range(r)] + [("VP_FAIL_WRITE", k, 28) for k in range(w)] + [("VP_FAIL_WRITE", k, 5) for k in range(w)] + \
                   [("VP_FAIL_OPEN", k, 13) for k in range(op)] + [("VP_FAIL_RAND", k, 38) for k in range(rn)]
            for var, k, en in plan:
                fjobs.append((mode, n, args_of, {var: k, "VP_ERRNO": en}, None, d))
            for var, kmax in (("VP_EINTR_READ", r), ("VP_EINTR_WRITE", w), ("VP_EINTR_RAND", rn)):
                for k in range(kmax):
                    fjobs.append((mode, n, args_of, {var: k}, good if mode == "decrypt" else b"", d))
            fjobs.append((mode, n, args_of, {"VP_SHORT": 1}, good if mode == "decrypt" else b"", d))

    def fault(job):
        idx, (mode, n, args_of, env, benign_expect, d) = job
        out = os.path.join(d, "f%d.out" % idx)
        args = args_of(out)
        rc, o, e = tool(args, env=env)
        what = ",".join("%s=%s" % kv for kv in sorted(env.items()))
        left = os.path.exists(out)
        if benign_expect is None:
            # the k-th zero-length probe write of safe_file_write never transfers data; failing it is still a failed write
            kind = [k for k in env if k.startswith("VP_FAIL")][0][8:].lower()
            if rc == 0 or left:
                ctx.fail("asconcrypt:fault:%s:%s" % (kind, mode), "%s of a %d-byte file with %s: exit status %d, output file %s" %
                         (mode, n, what, rc, "left behind" if left else "absent"), rep(args, env))
        else:
            kind = "short-io" if "VP_SHORT" in env else "eintr"
            if rc != 0 or not left:
                ctx.fail("asconcrypt:benign:%s:%s" % (kind, mode), "%s of a %d-byte file with %s fails (exit %d) although the deviation is benign" % (mode, n, what, rc), rep(args, env))
            elif mode == "decrypt" and open(out, "rb").read() != benign_expect:
                ctx.fail("asconcrypt:benign:%s:%s" % (kind, mode), "%s with %s produces different output" % (mode, what), rep(args, env))
            elif mode == "encrypt":
                back = out + ".back"
                rc2, o2, e2 = tool([crypt, "-d"] + PW + ["-o", back, out])
                if rc2 != 0 or open(back, "rb").read() != content(n, 1):
                    ctx.fail("asconcrypt:benign:%s:%s" % (kind, mode), "file encrypted under %s does not decrypt" % what, rep(args, env))
                if os.path.exists(back):
                    os.unlink(back)
        ctx.stat("nontrivial")
        ctx.stat("fault_plans")
        if os.path.exists(out):
            os.unlink(out)

    common.parallel(fault, list(enumerate(fjobs)))

    # ---------------- other modes of asconcrypt: -g key generation, key-file syntax, stdin/stdout, several files, direction detection
    def tool_io(args, data, env=None, cwd=None):
        e = dict(os.environ)
        if env:
            e.update({k: str(v) for k, v in env.items()})
        p = subprocess.run(args, input=data, stdout=subprocess.PIPE, stderr=subprocess.PIPE, env=e, cwd=cwd, timeout=120)
        ctx.stat("evaluations")
        return p.returncode, p.stdout, p.stderr

    PWCHARS = set(b"0123456789abcdefghijklmnopqrstuvwxyzABCDEFGHIJKLMNOPQRSTUVWXYZ%$")

    def genkey():
        d = wd()
        kf = os.path.join(d, "gen.key")
        rc, r, w, op, rn = counts([crypt, "-g", kf], d)
        key = "asconcrypt:genkey"
        if rc != 0 or not os.path.isfile(kf):
            ctx.fail(key, "-g exits %d, key file %s" % (rc, "present" if os.path.isfile(kf) else "absent"), rep([crypt, "-g", kf]))
            return
        k = open(kf, "rb").read()
        if len(k) != 41 or k[-1:] != b"\n" or not set(k[:-1]) <= PWCHARS:
            ctx.fail(key, "generated key file is not 40 password characters and a newline: %r" % k[:60])
        if (os.stat(kf).st_mode & 0o077) != 0:
            ctx.fail(key, "generated key file is accessible to group/other: mode %o" % (os.stat(kf).st_mode & 0o777))
        k2f = os.path.join(d, "gen2.key")
        tool([crypt, "-g", k2f])
        if os.path.isfile(k2f) and open(k2f, "rb").read() == k:
            ctx.fail(key, "two -g runs produced the same password")
        # the generated file is usable as -k, and is the same password as its first line given with -p
        data = content(100, 1)
        rc, enc, e = encrypt(d, data, ["-k", kf])
        out = os.path.join(d, "o.bin")
        rc2, o, e = tool([crypt, "-d", "-p", k[:-1].decode(), "-o", out, enc])
        if rc != 0 or rc2 != 0 or open(out, "rb").read() != data:
            ctx.fail(key, "file encrypted with -k <generated> does not decrypt with -p <its first line> (exit %d/%d)" % (rc, rc2))
        ctx.stat("nontrivial")
        # every k-th write / open / getrandom failure, EINTR and 1-byte transfers
        plans = [({"VP_FAIL_WRITE": i, "VP_ERRNO": en}, None) for i in range(w) for en in (28, 5)] + [({"VP_FAIL_OPEN": i, "VP_ERRNO": 13}, None) for i in range(op)] + \
                [({"VP_FAIL_RAND": i, "VP_ERRNO": 38}, None) for i in range(rn)] + [({"VP_EINTR_WRITE": i}, 1) for i in range(w)] + [({"VP_EINTR_RAND": i}, 1) for i in range(rn)] + [({"VP_SHORT": 1}, 1)]
        for i, (env, benign) in enumerate(plans):
            f = os.path.join(d, "g%d.key" % i)
            rc, o, e = tool([crypt, "-g", f], env=env)
            what = ",".join("%s=%s" % kv for kv in sorted(env.items()))
            if benign:
                kk = open(f, "rb").read() if os.path.isfile(f) else b""
                if rc != 0 or len(kk) != 41 or not set(kk[:-1]) <= PWCHARS:
                    ctx.fail("asconcrypt:benign:genkey", "-g with %s: exit %d, key file %r" % (what, rc, kk[:50]), rep([crypt, "-g", f], env))
            elif rc == 0 or os.path.exists(f):
                kind = [x for x in env if x.startswith("VP_FAIL")][0][8:].lower()
                ctx.fail("asconcrypt:fault:%s:genkey" % kind, "-g with %s: exit status %d, key file %s (%d bytes)" %
                         (what, rc, "left behind" if os.path.exists(f) else "absent", os.path.getsize(f) if os.path.exists(f) else 0), rep([crypt, "-g", f], env))
            ctx.stat("nontrivial")
            ctx.stat("fault_plans")
    genkey()

    def keyfile_syntax():
        # the password is the first line of the key file: LF, CRLF, no terminator, further lines ignored; the same password through -p must interoperate
        d = wd()
        data = content(33, 1)
        for desc, raw, pw in (("LF", b"s3cret pw\n", "s3cret pw"), ("CRLF", b"s3cret pw\r\n", "s3cret pw"), ("no terminator", b"s3cret pw", "s3cret pw"), ("second line", b"s3cret pw\nignored\n", "s3cret pw"),
                              ("1023 chars", b"Q" * 1023, "Q" * 1023), ("1023 chars + LF", b"Q" * 1023 + b"\n", "Q" * 1023), ("one char", b"z\n", "z")):
            kf = os.path.join(d, "k.txt")
            write(kf, raw)
            rc, enc, e = encrypt(d, data, ["-k", kf])
            out = os.path.join(d, "o.bin")
            if os.path.exists(out):
                os.unlink(out)
            rc2, o, e2 = tool([crypt, "-d", "-p", pw, "-o", out, enc])
            if rc != 0 or rc2 != 0 or not os.path.isfile(out) or open(out, "rb").read() != data:
                ctx.fail("asconcrypt:keyfile", "key file (%s): encrypt -k exits %d, decrypt -p exits %d: %s" % (desc, rc, rc2, (e + e2)[-160:]), rep([crypt, "-e", "-k", kf]))
            rc3, o, e3 = tool([crypt, "-d", "-p", pw + "x", "-o", out + "2", enc])
            if rc3 == 0 or os.path.exists(out + "2"):
                ctx.fail("asconcrypt:wrong-password", "key file (%s): a longer password is accepted" % desc)
            ctx.stat("nontrivial")
        for desc, raw in (("NUL in the password", b"ab\0cd\n"), ("1024 chars without end of line", b"Q" * 1024), ("2000 chars", b"Q" * 2000 + b"\n")):
            kf = os.path.join(d, "bad.txt")
            write(kf, raw)
            outp = os.path.join(d, "bad.ascon")
            src = os.path.join(d, "in.bin")
            rc, o, e = tool([crypt, "-e", "-k", kf, "-o", outp, src])
            if rc == 0 or os.path.exists(outp):
                ctx.fail("asconcrypt:keyfile", "unusable key file (%s) but exit status %d, output %s" % (desc, rc, "left behind" if os.path.exists(outp) else "absent"), rep([crypt, "-e", "-k", kf, "-o", outp, src]))
            ctx.stat("nontrivial")
        missing = os.path.join(d, "nonexistent.key")
        rc, o, e = tool([crypt, "-e", "-k", missing, "-o", os.path.join(d, "m.ascon"), os.path.join(d, "in.bin")])
        if rc == 0 or os.path.exists(os.path.join(d, "m.ascon")):
            ctx.fail("asconcrypt:keyfile", "missing key file but exit status %d" % rc)
        # the k-th read of the key file fails
        kf = os.path.join(d, "k.txt")
        write(kf, b"s3cret pw\n")
        for k in range(3):
            outp = os.path.join(d, "kr%d.ascon" % k)
            env = {"VP_FAIL_READ": k, "VP_ERRNO": 5}
            rc, o, e = tool([crypt, "-e", "-k", kf, "-o", outp, os.path.join(d, "in.bin")], env=env)
            if rc == 0 or os.path.exists(outp):
                ctx.fail("asconcrypt:fault:read:keyfile", "read %d fails (key file / input): exit %d, output %s" % (k, rc, "left behind" if os.path.exists(outp) else "absent"), rep([crypt, "-e", "-k", kf, "-o", outp], env))
            ctx.stat("fault_plans")
    keyfile_syntax()

    def stdio_modes(n):
        d = wd()
        data = content(n, 1)
        key = "asconcrypt:stdio"
        rc, enc, e = tool_io([crypt, "-e"] + PW + ["-"], data, cwd=d)
        if rc != 0 or len(enc) != n + 96:
            ctx.fail(key, "encrypting %d bytes from stdin to stdout: exit %d, %d bytes out: %s" % (n, rc, len(enc), e[-120:]), rep([crypt, "-e"] + PW + ["-"]))
            return
        rc, dec, e = tool_io([crypt, "-d"] + PW + ["-"], enc, cwd=d)
        if rc != 0 or dec != data:
            ctx.fail(key, "decrypting %d bytes from stdin to stdout: exit %d, output %s" % (len(enc), rc, "differs" if dec != data else "equal"), rep([crypt, "-d"] + PW + ["-"]))
        # file <-> stdio interoperability in both directions
        f = os.path.join(d, "x.ascon")
        write(f, enc)
        rc, dec2, e = tool_io([crypt, "-d"] + PW + ["-o", "-", f], b"", cwd=d)
        if rc != 0 or dec2 != data:
            ctx.fail(key, "decrypting a file to stdout (-o -): exit %d" % rc)
        out = os.path.join(d, "x.out")
        rc, o, e = tool_io([crypt, "-d"] + PW + ["-o", out, "-"], enc, cwd=d)
        if rc != 0 or not os.path.isfile(out) or open(out, "rb").read() != data:
            ctx.fail(key, "decrypting stdin to a file: exit %d" % rc)
        if set(os.listdir(d)) - {"x.ascon", "x.out"}:
            ctx.fail(key, "stdin/stdout modes created files: %s" % sorted(set(os.listdir(d)) - {"x.ascon", "x.out"}))
        ctx.stat("nontrivial")
        # tampering and truncation on the stdin path: non-zero exit status (there is no output file to remove)
        pos = range(len(enc)) if (thorough or len(enc) < 200) else sorted(set(list(range(0, len(enc), 61)) + list(range(96)) + list(range(len(enc) - 20, len(enc)))))
        for i in pos:
            b2 = bytearray(enc)
            b2[i] ^= 1 << (i % 8)
            rc, o, e = tool_io([crypt, "-d"] + PW + ["-"], bytes(b2), cwd=d)
            if rc == 0:
                ctx.fail("asconcrypt:bitflip:stdio", "bit %d of byte %d of %d bytes on stdin flipped: exit status 0" % (i % 8, i, len(enc)))
            rc, o, e = tool_io([crypt, "-d"] + PW + ["-"], enc[:i], cwd=d)
            if rc == 0:
                ctx.fail("asconcrypt:truncated:stdio", "stdin stream of %d bytes truncated to %d: exit status 0" % (len(enc), i))
            ctx.stat("nontrivial", 2)
        # k-th read/write fault on descriptors 0/1
        for mode, args, inp in (("encrypt", [crypt, "-e"] + PW + ["-"], data), ("decrypt", [crypt, "-d"] + PW + ["-"], enc)):
            cf = os.path.join(d, "counts.txt")
            tool_io(args, inp, env={"VP_COUNTS": cf, "VP_STDIO": 1}, cwd=d)
            r, w, op, rn = map(int, open(cf).read().split())
            os.unlink(cf)
            for var, kmax in (("VP_FAIL_READ", r), ("VP_FAIL_WRITE", w), ("VP_FAIL_RAND", rn)):
                for k in range(kmax):
                    env = {var: k, "VP_ERRNO": 5, "VP_STDIO": 1}
                    rc, o, e = tool_io(args, inp, env=env, cwd=d)
                    if rc == 0:
                        ctx.fail("asconcrypt:fault:%s:%s-stdio" % (var[8:].lower(), mode), "%s of %d bytes stdin->stdout with %s=%d: exit status 0" % (mode, n, var, k), rep(args, env))
                    ctx.stat("fault_plans")
            for env in ({"VP_SHORT": 1, "VP_STDIO": 1},):
                rc, o, e = tool_io(args, inp, env=env, cwd=d)
                ok = (rc == 0 and o == data) if mode == "decrypt" else (rc == 0 and tool_io([crypt, "-d"] + PW + ["-"], o, cwd=d)[1] == data)
                if not ok:
                    ctx.fail("asconcrypt:benign:short-io:%s-stdio" % mode, "%s stdin->stdout with 1-byte transfers fails (exit %d)" % (mode, rc), rep(args, env))
        shutil.rmtree(d, ignore_errors=True)
    common.parallel(stdio_modes, [0, 1, 17, B + 1] if not thorough else [0, 1, 16, 17, B - 16, B + 1, 2 * B + 5])

    def run_tty(args, answers, cwd=None, timeout=60):
        """run the tool on a pseudo-terminal (its controlling tty) and type one answer per 'assword: ' prompt"""
        pid, fd = pty.fork()
        if pid == 0:
            try:
                if cwd:
                    os.chdir(cwd)
                os.execv(args[0], args)
            finally:
                os._exit(127)
        out, sent, answers, t0 = b"", 0, list(answers), time.time()
        while True:
            r, _, _ = select.select([fd], [], [], 0.2)
            if r:
                try:
                    dta = os.read(fd, 4096)
                except OSError:
                    break
                if not dta:
                    break
                out += dta
            while answers and sent < out.count(b"assword: "):
                os.write(fd, answers.pop(0) + b"\n")
                sent += 1
            if time.time() - t0 > timeout:
                os.kill(pid, 9)
                break
        _, st = os.waitpid(pid, 0)
        os.close(fd)
        ctx.stat("evaluations")
        return os.waitstatus_to_exitcode(st), out

    def prompt_mode():
        # no -p/-k: the password is typed at the terminal (twice when encrypting); it must interoperate with -p
        d = wd()
        data = content(B + 3, 1)
        write(os.path.join(d, "in.bin"), data)
        key = "asconcrypt:prompt"
        for pw in (b"x", b"typed pass phrase", b"Q" * 300, b"swordfish ", b"tab\t", b" lead and trail  "):     # what is typed is the password, white space at either end included
            enc, out = os.path.join(d, "p.ascon"), os.path.join(d, "p.out")
            for f in (enc, out):
                if os.path.exists(f):
                    os.unlink(f)
            rc, o = run_tty([crypt, "-e", "-o", enc, os.path.join(d, "in.bin")], [pw, pw])
            rc2, o2, e2 = tool([crypt, "-d", "-p", pw.decode(), "-o", out, enc])
            if rc != 0 or rc2 != 0 or not os.path.isfile(out) or open(out, "rb").read() != data:
                ctx.fail(key, "encrypt with a typed %d-character password (exit %d), decrypt with -p (exit %d): no round trip; terminal output %r" % (len(pw), rc, rc2, o[-80:]))
            os.unlink(out) if os.path.exists(out) else None
            rc, o = run_tty([crypt, "-d", "-o", out, enc], [pw])
            if rc != 0 or not os.path.isfile(out) or open(out, "rb").read() != data:
                ctx.fail(key, "decrypt with a typed %d-character password: exit %d" % (len(pw), rc))
            os.unlink(out) if os.path.exists(out) else None
            rc, o = run_tty([crypt, "-d", "-o", out, enc], [pw + b"!"])
            if rc == 0 or os.path.exists(out):
                ctx.fail("asconcrypt:wrong-password", "wrong typed password: exit %d, output %s" % (rc, "left behind" if os.path.exists(out) else "absent"))
            ctx.stat("nontrivial", 3)
        enc = os.path.join(d, "mm.ascon")
        rc, o = run_tty([crypt, "-e", "-o", enc, os.path.join(d, "in.bin")], [b"one", b"other"])
        if rc == 0 or os.path.exists(enc):
            ctx.fail(key, "confirmation differs from the password: exit %d, output %s" % (rc, "left behind" if os.path.exists(enc) else "absent"))
        # without a terminal the tool must refuse rather than use an empty password
        rc, o, e = tool_io([crypt, "-e", "-o", enc, os.path.join(d, "in.bin")], b"pw\npw\n")
        if rc == 0 or os.path.exists(enc):
            ctx.fail(key, "no -p/-k and no terminal: exit %d, output %s" % (rc, "left behind" if os.path.exists(enc) else "absent"))
        ctx.stat("nontrivial", 2)
    try:
        prompt_mode()
    except OSError as ex:
        ctx.cap("password-prompt mode not exercised: no pseudo-terminal available (%s)" % ex)

    def multi_file():
        # several inputs, default output names, direction detection by suffix; one bad file must not stop or spoil the others but must fail the exit status
        d = wd()
        names = ["a.bin", "b", "c.dat"]
        datas = {nm: content(50 + 7 * i, 1) for i, nm in enumerate(names)}
        for nm in names:
            write(os.path.join(d, nm), datas[nm])
        key = "asconcrypt:multi"
        rc, o, e = tool([crypt] + PW + names, cwd=d)
        if rc != 0 or any(not os.path.isfile(os.path.join(d, nm + ".ascon")) for nm in names):
            ctx.fail(key, "encrypting three files by default names (direction detected): exit %d, directory %s" % (rc, sorted(os.listdir(d))))
            return
        for nm in names:
            os.unlink(os.path.join(d, nm))
        rc, o, e = tool([crypt] + PW + [nm + ".ascon" for nm in names], cwd=d)
        if rc != 0 or any(not os.path.isfile(os.path.join(d, nm)) or open(os.path.join(d, nm), "rb").read() != datas[nm] for nm in names):
            ctx.fail(key, "decrypting three .ascon files by default names (direction detected): exit %d, directory %s" % (rc, sorted(os.listdir(d))))
        ctx.stat("nontrivial")
        # mixture of directions is refused
        rc, o, e = tool([crypt] + PW + ["a.bin", "b.ascon"], cwd=d)
        if rc == 0:
            ctx.fail(key, "mixture of plain and .ascon inputs without -e/-d: exit status 0")
        # tamper with the middle file: first and last decrypt, the middle one is absent, exit status non-zero
        for which in range(3):
            for nm in names:
                if os.path.exists(os.path.join(d, nm)):
                    os.unlink(os.path.join(d, nm))
            encs = {nm: open(os.path.join(d, nm + ".ascon"), "rb").read() for nm in names}
            bad = names[which]
            b2 = bytearray(encs[bad])
            b2[100] ^= 1
            write(os.path.join(d, bad + ".ascon"), bytes(b2))
            rc, o, e = tool([crypt, "-d"] + PW + [nm + ".ascon" for nm in names], cwd=d)
            okothers = all(os.path.isfile(os.path.join(d, nm)) and open(os.path.join(d, nm), "rb").read() == datas[nm] for nm in names if nm != bad)
            if rc == 0 or os.path.exists(os.path.join(d, bad)) or not okothers:
                ctx.fail(key, "file %d of 3 tampered: exit %d, its output %s, the other outputs %s" % (which, rc, "left behind" if os.path.exists(os.path.join(d, bad)) else "absent", "correct" if okothers else "wrong/missing"))
            write(os.path.join(d, bad + ".ascon"), encs[bad])
            ctx.stat("nontrivial")
        # -o with two inputs is refused; a missing input fails the exit status and leaves no output
        rc, o, e = tool([crypt, "-d"] + PW + ["-o", "out.x", "a.bin.ascon", "b.ascon"], cwd=d)
        if rc == 0 or os.path.exists(os.path.join(d, "out.x")):
            ctx.fail(key, "-o with two inputs: exit %d" % rc)
        rc, o, e = tool([crypt, "-e"] + PW + ["nothere.bin"], cwd=d)
        if rc == 0 or os.path.exists(os.path.join(d, "nothere.bin.ascon")):
            ctx.fail(key, "missing input file: exit %d, output %s" % (rc, "left behind" if os.path.exists(os.path.join(d, "nothere.bin.ascon")) else "absent"))
        # decrypting something that is not an encrypted file (every size around the header) fails and leaves nothing
        for n in list(range(0, 100)) + [B, B + 96]:
            write(os.path.join(d, "plain.bin"), content(n, 2))
            rc, o, e = tool([crypt, "-d"] + PW + ["plain.bin"], cwd=d)
            if rc == 0 or os.path.exists(os.path.join(d, "plain.bin.decrypted")):
                ctx.fail("asconcrypt:not-encrypted", "decrypting a %d-byte file that is not in the format: exit %d, output %s" % (n, rc, "left behind" if os.path.exists(os.path.join(d, "plain.bin.decrypted")) else "absent"))
            ctx.stat("nontrivial")
    multi_file()

    # ---------------- asconsum: more files on one command line than the process may hold open at a time (each is done with before the next), hash and check mode
    d = wd()
    many = []
    for i in range(80):
        p = os.path.join(d, "m%02d.bin" % i)
        write(p, content(i, 1))
        many.append(os.path.basename(p))
    for flag in ("-h", "-y"):
        rc, o, e = tool([summ, flag] + many + ["-", "-"], cwd=d, nofile=24)
        lines = o.decode().splitlines()
        if rc != 0 or len(lines) != len(many) + 2:
            ctx.fail("asconsum:many-files:%s" % flag, "%d files with a limit of 24 open files: exit %d, %d digest lines: %s" % (len(many) + 2, rc, len(lines), e.decode()[-160:]))
        else:
            write(os.path.join(d, "many.txt"), b"\n".join(l.encode() for l in lines[:len(many)]) + b"\n")
            rc, o2, e2 = tool([summ, flag, "-c", "many.txt"], cwd=d, nofile=24)
            if rc != 0 or o2.decode().count(": OK") != len(many):
                ctx.fail("asconsum:many-files:%s" % flag, "check mode over %d files with a limit of 24 open files: exit %d, %d OK lines" % (len(many), rc, o2.decode().count(": OK")))
        ctx.stat("nontrivial")
    d = wd()
    names = []
    for n in ([0, 1, 7, 8, 9, 100, B - 1, B, B + 1, 2 * B, 2 * B + 7] if not thorough else sizes + [7, 8, 9, 100, 5 * B + 3]):
        p = os.path.join(d, "f%d.bin" % n)
        write(p, content(n, 1))
        names.append(p)
    for flag in ("-h", "-a", "-x", "-y"):
        rc, o, e = tool([summ, flag] + names, cwd=d)
        lines = o.decode().splitlines()
        if rc != 0 or len(lines) != len(names):
            ctx.fail("asconsum:digest:%s" % flag, "exit %d, %d lines for %d files" % (rc, len(lines), len(names)))
            continue
        for ln, p in zip(lines, names):
            want = subprocess.run([refsum, flag[1], p], stdout=subprocess.PIPE).stdout.decode().strip()
            if ln != "%s  %s" % (want, p):
                ctx.fail("asconsum:digest:%s" % flag, "printed '%s...' for %s, reference digest %s" % (ln[:70], os.path.basename(p), want))
            ctx.stat("nontrivial")
        sums = os.path.join(d, "sums%s.txt" % flag)
        write(sums, o)
        rc, o2, e2 = tool([summ, flag, "-c", sums], cwd=d)
        oks = o2.decode().splitlines()
        if rc != 0 or len(oks) != len(names) or any(not l.endswith(": OK") for l in oks):
            ctx.fail("asconsum:check:%s" % flag, "check mode on unmodified files: exit %d, output %r" % (rc, o2[:200]))
        # modify one byte of each (non-empty) file in turn, then restore
        for p in names:
            data = open(p, "rb").read()
            if not data:
                continue
            for posn in sorted(set([0, len(data) // 2, len(data) - 1])):
                b2 = bytearray(data)
                b2[posn] ^= 0x40
                write(p, bytes(b2))
                rc, o2, e2 = tool([summ, flag, "-c", sums], cwd=d)
                line = [l for l in o2.decode().splitlines() if l.startswith(p + ":")]
                if rc == 0 or not line or "FAILED" not in line[0] or sum(1 for l in o2.decode().splitlines() if l.endswith(": OK")) != len(names) - 1:
                    ctx.fail("asconsum:check:%s" % flag, "byte %d of %s modified: exit %d, line %r" % (posn, os.path.basename(p), rc, line))
                ctx.stat("nontrivial")
            write(p, data)
        # missing file, malformed lines
        os.rename(names[1], names[1] + ".gone")
        rc, o2, e2 = tool([summ, flag, "-c", sums], cwd=d)
        if rc == 0 or b"FAILED" not in o2:
            ctx.fail("asconsum:check:%s" % flag, "missing file: exit %d" % rc)
        os.rename(names[1] + ".gone", names[1])
        good = open(sums, "rb").read().splitlines()
        for desc, bad in (("odd digit count", good[0][1:]), ("short hash", good[0][2:]), ("non-hex digit", b"g" + good[0][1:]), ("no file name", good[0][:64]), ("one space only then nothing", good[0][:64] + b" "), ("empty checksum file", b"")):
            bs = os.path.join(d, "bad.txt")
            write(bs, bad + b"\n" + (b"\n".join(good[1:3]) + b"\n" if desc != "empty checksum file" else b""))
            rc, o2, e2 = tool([summ, flag, "-c", bs], cwd=d)
            if rc == 0:
                ctx.fail("asconsum:check:%s" % flag, "malformed checksum line (%s) but exit status 0" % desc)
            ctx.stat("nontrivial")
    # ---------------- asconsum: stdin modes, check-file syntax variants, unreadable arguments
    d = wd()
    for n in ([0, 1, B, B + 1] if not thorough else [0, 1, 7, 8, 9, B - 1, B, B + 1, 2 * B, 3 * B + 5]):
        data = content(n, 1)
        p = os.path.join(d, "s%d.bin" % n)
        write(p, data)
        for flag in ("-h", "-a", "-x", "-y"):
            want = subprocess.run([refsum, flag[1], p], stdout=subprocess.PIPE).stdout.decode().strip()
            for args in ([summ, flag], [summ, flag, "-"]):
                rc, o, e = tool_io(args, data, cwd=d)
                if rc != 0 or o.decode() != "%s  -\n" % want:
                    ctx.fail("asconsum:stdin:%s" % flag, "%d bytes on stdin: exit %d, printed %r, reference digest %s" % (n, rc, o[:80], want))
                ctx.stat("nontrivial")
            good = "%s  %s\n" % (want, p)
            variants = [("as printed", good, True), ("upper-case digits", "%s  %s\n" % (want.upper(), p), True), ("CRLF line end", good[:-1] + "\r\n", True), ("one space", "%s %s\n" % (want, p), True),
                        ("blank lines around", "\n\n" + good + "\n", True), ("no final newline", good[:-1], True),
                        ("last digit changed", "%s%s  %s\n" % (want[:-1], "0" if want[-1] != "0" else "1", p), False), ("first digit changed", "%s%s  %s\n" % ("0" if want[0] != "0" else "1", want[1:], p), False),
                        ("62 digits", "%s  %s\n" % (want[:62], p), False), ("66 digits", "%s00  %s\n" % (want, p), False), ("tab separator", "%s\t%s\n" % (want, p), False)]
            for desc, text, ok in variants:
                # the list on stdin (no file argument), and as a file
                for via in ("stdin", "file"):
                    if via == "stdin":
                        rc, o, e = tool_io([summ, flag, "-c"], text.encode(), cwd=d)
                    else:
                        lf = os.path.join(d, "list.txt")
                        write(lf, text.encode())
                        rc, o, e = tool([summ, flag, "-c", lf], cwd=d)
                    said_ok = (p + ": OK") in o.decode().splitlines()
                    if ok != (rc == 0) or ok != said_ok:
                        ctx.fail("asconsum:check-syntax:%s" % flag, "checksum list via %s (%s) for an unmodified %d-byte file: exit %d, output %r, expected %s" % (via, desc, n, rc, o[-60:], "OK/0" if ok else "failure"))
                    ctx.stat("nontrivial")
            # an entry naming '-' checks standard input
            lf = os.path.join(d, "list.txt")
            write(lf, ("%s  -\n" % want).encode())
            rc, o, e = tool_io([summ, flag, "-c", lf], data, cwd=d)
            if rc != 0 or o.decode() != "-: OK\n":
                ctx.fail("asconsum:check-stdin:%s" % flag, "list entry '-' with the right data on stdin: exit %d, output %r" % (rc, o[:60]))
            if n:
                rc, o, e = tool_io([summ, flag, "-c", lf], data[:-1] + bytes([data[-1] ^ 1]), cwd=d)
                if rc == 0 or b"FAILED" not in o:
                    ctx.fail("asconsum:check-stdin:%s" % flag, "list entry '-' with modified data on stdin: exit %d, output %r" % (rc, o[:60]))
            rc, o, e = tool_io([summ, flag, "-c"], ("%s  -\n" % want).encode(), cwd=d)
            if rc == 0:
                ctx.fail("asconsum:check-stdin:%s" % flag, "list on stdin naming stdin: exit status 0")
            ctx.stat("nontrivial", 3)
    # an unreadable argument (a directory) and a missing one fail the exit status, the other files are still printed
    sub = os.path.join(d, "adir")
    os.makedirs(sub)
    p0 = os.path.join(d, "s1.bin")
    for flag in ("-h", "-a", "-x", "-y"):
        for bad in (sub, os.path.join(d, "missing.bin")):
            rc, o, e = tool([summ, flag, p0, bad, p0], cwd=d)
            want = subprocess.run([refsum, flag[1], p0], stdout=subprocess.PIPE).stdout.decode().strip()
            if rc == 0 or o.decode().splitlines() != ["%s  %s" % (want, p0)] * 2:
                ctx.fail("asconsum:unreadable:%s" % flag, "argument %s: exit %d, output %r" % (os.path.basename(bad), rc, o[:200]))
            ctx.stat("nontrivial")
    # the number of failing operands in one call (an exit status has 8 bits): 1, 2, 255, 256, 257, 512, 1024 missing files among readable ones; the same numbers of check lists with a mismatch
    want = subprocess.run([refsum, "h", p0], stdout=subprocess.PIPE).stdout.decode().strip()
    badlist = os.path.join(d, "bad.list")
    write(badlist, ("%s  %s\n" % (want[:-1] + ("0" if want[-1] != "0" else "1"), p0)).encode())
    for nbad in (1, 2, 255, 256, 257, 512, 1024):
        rc, o, e = tool([summ, p0] + [os.path.join(d, "missing-%d.bin" % i) for i in range(nbad)] + [p0], cwd=d)
        if rc == 0 or o.decode().splitlines() != ["%s  %s" % (want, p0)] * 2:
            ctx.fail("asconsum:failure-count", "%d missing operands among readable ones: exit %d, %d digest lines" % (nbad, rc, len(o.decode().splitlines())))
        rc, o, e = tool([summ, "-c"] + [badlist] * nbad, cwd=d)
        if rc == 0 or o.decode().count("FAILED") < nbad:
            ctx.fail("asconsum:failure-count", "%d check lists with a mismatch: exit %d, %d FAILED lines" % (nbad, rc, o.decode().count("FAILED")))
        ctx.stat("nontrivial", 2)

    # ---------------- named pipes as input and as key file; the writer connects late (after the tool has started) and delivers in pieces with pauses
    import threading
    dq = wd()

    def late_writer(path, pieces, delay):
        def body():
            time.sleep(delay)
            fd = None
            for _ in range(400):         # a non-blocking open succeeds as soon as the tool has the pipe open (or is waiting in open) for reading
                try:
                    fd = os.open(path, os.O_WRONLY | os.O_NONBLOCK)
                    break
                except OSError:
                    time.sleep(0.01)
            if fd is None:
                return
            import fcntl
            fcntl.fcntl(fd, fcntl.F_SETFL, fcntl.fcntl(fd, fcntl.F_GETFL) & ~os.O_NONBLOCK)
            try:
                for i, piece in enumerate(pieces):
                    if i:
                        time.sleep(0.15)
                    os.write(fd, piece)
            except OSError:
                pass
            os.close(fd)
        th = threading.Thread(target=body)
        th.start()
        return th

    for n, cuts, delay in ((0, (), 0.3), (1, (), 0.3), (5000, (1,), 0.3), (5000, (4999,), 0.0), (20000, (1024, 1025, 9000), 0.3), (70000, (65536,), 0.5)):
        data = content(n, 1)
        pieces = [data[a:b] for a, b in zip((0,) + cuts, cuts + (n,))]
        for what in ("input", "keyfile"):
            fifo = os.path.join(dq, "p.fifo")
            if os.path.exists(fifo):
                os.unlink(fifo)
            os.mkfifo(fifo)
            if what == "input":
                th = late_writer(fifo, pieces, delay)
                rc, o, e = tool([crypt, "-e", "-p", "pw", "-o", "q.enc", "p.fifo"], cwd=dq, timeout=60)
                th.join()
                rc2, o2, e2 = tool([crypt, "-d", "-p", "pw", "-o", "q.out", "q.enc"], cwd=dq) if rc == 0 else (None, b"", b"")
                got = open(os.path.join(dq, "q.out"), "rb").read() if rc2 == 0 else None
                if rc != 0 or rc2 != 0 or got != data:
                    ctx.fail("asconcrypt:named-pipe:input", "%d bytes through a named pipe whose writer connects %.1f s late in %d pieces: encrypt exit %s, decrypt exit %s, %s" % (n, delay, len(pieces), rc, rc2, "content differs (%s bytes)" % (len(got) if got is not None else "no") if got != data else "ok"))
            elif n in (1, 5000):
                key = (b"k" * min(n, 700)) + b"\n"
                write(os.path.join(dq, "k.txt"), key)
                write(os.path.join(dq, "kp.bin"), content(333, 1))
                th = late_writer(fifo, [key[:1], key[1:]] if len(key) > 1 else [key], delay)
                rc, o, e = tool([crypt, "-e", "-k", "p.fifo", "-o", "k.enc", "kp.bin"], cwd=dq, timeout=60)
                th.join()
                rc2, o2, e2 = tool([crypt, "-d", "-k", "k.txt", "-o", "k.out", "k.enc"], cwd=dq) if rc == 0 else (None, b"", b"")
                if rc != 0 or rc2 != 0 or open(os.path.join(dq, "k.out"), "rb").read() != content(333, 1):
                    ctx.fail("asconcrypt:named-pipe:keyfile", "key file read from a named pipe whose writer connects late (%d key characters): encrypt exit %s, decrypt with the same key from a regular file exit %s" % (len(key) - 1, rc, rc2))
            for f in ("q.enc", "q.out", "k.enc", "k.out"):
                try:
                    os.unlink(os.path.join(dq, f))
                except OSError:
                    pass
            ctx.stat("nontrivial")
    # ---------------- file names and places: names with spaces, newlines, leading dashes, non-ASCII bytes, the longest component; sub-directories; outputs in missing directories; directories as input or output
    d = wd()
    os.makedirs(os.path.join(d, "sub dir"))
    for name in ("with space.bin", "new\nline.bin", "-dash.bin", "\xc3\xa9\xff.bin", "x" * 240 + ".bin", "sub dir/in.bin", ".hidden", "a.ascon.ascon"):
        data = content(33, 1)
        src = os.path.join(d, name)
        write(src, data)
        rel = name if not name.startswith("-") else "./" + name
        rc, o, e = tool([crypt, "-e", "-p", "pw", rel], cwd=d)
        enc = src + ".ascon"
        okenc = rc == 0 and os.path.isfile(enc) and os.path.getsize(enc) == 33 + 96
        os.unlink(src)
        rc2, o2, e2 = tool([crypt, "-d", "-p", "pw", rel + ".ascon"], cwd=d) if okenc else (None, b"", b"")
        if not okenc or rc2 != 0 or not os.path.isfile(src) or open(src, "rb").read() != data:
            ctx.fail("asconcrypt:file-names", "round trip by default names of a file called %r: encrypt exit %s, decrypt exit %s: %s" % (name[:40], rc, rc2, (e + e2)[-120:]))
        ctx.stat("nontrivial")
    # failures under every spelling of the output name: explicit -o NAME (NAME may begin with a dash: it is the option's argument) and default names of inputs given after "--"
    d3 = wd()
    os.makedirs(os.path.join(d3, "sub dir"))
    plain = content(300, 1)
    write(os.path.join(d3, "good.bin"), plain)
    tool([crypt, "-e", "-p", "pw", "-o", "good.enc", "good.bin"], cwd=d3)
    genc = open(os.path.join(d3, "good.enc"), "rb").read()
    bad = {"wrong-password": (genc, "other"), "modified-payload": (genc[:150] + bytes([genc[150] ^ 1]) + genc[151:], "pw"), "modified-tag": (genc[:-1] + bytes([genc[-1] ^ 0x80]), "pw"),
           "truncated": (genc[:-7], "pw"), "header-only": (genc[:80], "pw")}
    for oname in ("-out.bin", "--out.bin", "-", "-o", "--", "-d", "./-out.bin", "sub dir/-out.bin", "out put.bin", "out\nput.bin", "\xc3\xa9.bin", "-\xff.bin"):
        if oname == "-":
            continue      # standard output: covered by the stdin/stdout section
        full = os.path.join(d3, oname)
        rc, o, e = tool([crypt, "-d", "-p", "pw", "-o", oname, "good.enc"], cwd=d3)
        if rc != 0 or not os.path.isfile(full) or open(full, "rb").read() != plain:
            ctx.fail("asconcrypt:output-names", "decrypting to -o %r: exit %d, output %s" % (oname, rc, "missing or wrong" ))
        if os.path.exists(full):
            os.unlink(full)
        for what, (blob, pw) in sorted(bad.items()):
            write(os.path.join(d3, "bad.enc"), blob)
            rc, o, e = tool([crypt, "-d", "-p", pw, "-o", oname, "bad.enc"], cwd=d3)
            left = os.path.lexists(full)
            if rc == 0 or left:
                ctx.fail("asconcrypt:output-names", "%s, output given as -o %r: exit %d, output file %s" % (what, oname, rc, "LEFT BEHIND (%d bytes)" % os.path.getsize(full) if left else "absent"))
            if left:
                os.unlink(full)
            ctx.stat("nontrivial")
    for iname in ("-data.ascon", "--data.ascon", "-x", "-data"):
        for what, (blob, pw) in [("genuine", (genc, "pw"))] + sorted(bad.items()):
            write(os.path.join(d3, iname), blob)
            oname = iname[:-6] if iname.endswith(".ascon") else iname + ".decrypted"
            full = os.path.join(d3, oname)
            rc, o, e = tool([crypt, "-d", "-p", pw, "--", iname], cwd=d3)
            left = os.path.lexists(full)
            if what == "genuine":
                if rc != 0 or not left or open(full, "rb").read() != plain:
                    ctx.fail("asconcrypt:output-names", "decrypting an input called %r given after --: exit %d, default output %r %s" % (iname, rc, oname, "missing or wrong"))
            elif rc == 0 or left:
                ctx.fail("asconcrypt:output-names", "%s, input %r given after --: exit %d, default output %r %s" % (what, iname, rc, oname, "LEFT BEHIND" if left else "absent"))
            if left:
                os.unlink(full)
            ctx.stat("nontrivial")
    # paths at the system's limit (4095 bytes): with default output names the longer name cannot exist -- the tool must say so and leave the input alone, or produce a file that decrypts
    d2 = wd()
    dfd = os.open(d2, os.O_RDONLY)      # everything below is addressed relative to this directory: the absolute paths would be longer than the system allows
    parts = ["d" * 255] * 15
    for i in range(1, 16):
        os.mkdir("/".join(parts[:i]), dir_fd=dfd)
    deep = "/".join(parts)
    deepfd = os.open(deep, os.O_RDONLY, dir_fd=dfd)

    def wr(rel, data):
        fd = os.open(rel, os.O_WRONLY | os.O_CREAT | os.O_TRUNC, 0o644, dir_fd=dfd)
        os.write(fd, data)
        os.close(fd)

    def rd(rel):
        try:
            fd = os.open(rel, os.O_RDONLY, dir_fd=dfd)
        except OSError:
            return None     # gone
        data = os.read(fd, 1 << 20)
        os.close(fd)
        return data

    for L in (4000, 4085, 4086, 4089, 4090, 4091, 4092, 4093, 4094, 4095):
        for mode in ("-e", "-d"):
            rel = deep + "/" + "f" * (L - len(deep) - 1)
            data = content(40, 1)
            if mode == "-d":      # a genuine encrypted file under a name that does not end in .ascon: the default output name is NAME.decrypted
                wr("t.bin", data)
                tool([crypt, "-e", "-p", "pw", "-o", "t.enc", "t.bin"], cwd=d2)
                os.replace("t.enc", rel, src_dir_fd=dfd, dst_dir_fd=dfd)
                data = rd(rel)
            else:
                wr(rel, data)
            before = set(os.listdir(deepfd))
            rc, o, e = tool([crypt, mode, "-p", "pw", rel], cwd=d2)
            after = set(os.listdir(deepfd))
            same = rd(rel) == data
            new = sorted(after - before)
            okname = os.path.basename(rel) + (".ascon" if mode == "-e" else ".decrypted")
            if not same or (rc == 0 and new != [okname]) or (rc != 0 and new):
                ctx.fail("asconcrypt:path-limit", "%s of a file whose path has %d bytes, default output name: exit %d, input %s, new directory entries %s" % (mode, L, rc, "unchanged" if same else "MODIFIED OR GONE", [n[-12:] for n in new]))
            for n in after | {os.path.basename(rel)}:
                try:
                    os.unlink(n, dir_fd=deepfd)
                except OSError:
                    pass
            ctx.stat("nontrivial")
    os.close(deepfd)
    os.close(dfd)
    subprocess.run(["rm", "-rf", parts[0]], cwd=d2)      # (shutil.rmtree would build paths that are too long)
    write(os.path.join(d, "p.bin"), content(50, 1))
    for args, what, leftover in (([crypt, "-e", "-p", "pw", "-o", "missing/out.enc", "p.bin"], "output in a missing directory", "missing"),
                                 ([crypt, "-e", "-p", "pw", "-o", "sub dir", "p.bin"], "output path is a directory", None),
                                 ([crypt, "-e", "-p", "pw", "-o", "o1.enc", "sub dir"], "input is a directory", "o1.enc"),
                                 ([crypt, "-d", "-p", "pw", "-o", "o2.bin", "sub dir"], "input is a directory (decrypt)", "o2.bin"),
                                 ([crypt, "-e", "-p", "pw", "-o", "o3.enc", "nope.bin"], "input does not exist", "o3.enc"),
                                 ([crypt, "-e", "-k", "nokey", "-o", "o4.enc", "p.bin"], "key file does not exist", "o4.enc")):
        rc, o, e = tool(args, cwd=d)
        if rc == 0 or (leftover and os.path.exists(os.path.join(d, leftover))) or not os.path.isdir(os.path.join(d, "sub dir")):
            ctx.fail("asconcrypt:file-places", "%s: exit status %d, %s" % (what, rc, "something left behind or removed" if rc != 0 else "reported success"))
        ctx.stat("nontrivial")
    # ---------------- the process environment: standard descriptors closed at start (round trip, wrong password, key generation, digests)
    for cl in ((0,), (1,), (2,), (0, 1, 2)):
        CLOSED[0] = cl
        orig_fail = ctx.fail
        ctx.fail = lambda key, *a, **k: orig_fail("closed-descriptors-%s:" % "".join(map(str, cl)) + key, *a, **k)
        try:
            common.parallel(roundtrip, [(n, pk, 1) for n in (0, 17, B + 1) for pk in ("short", "keyfile")])
            d = wd()
            write(os.path.join(d, "s.bin"), content(100, 1))
            rc, o, e = tool([summ, "-h", "s.bin"], cwd=d)
            want = subprocess.run([refsum, "h", os.path.join(d, "s.bin")], stdout=subprocess.PIPE).stdout.decode().strip()
            if 1 not in cl and (rc != 0 or o.decode().strip() != "%s  s.bin" % want):
                ctx.fail("asconsum:digest:-h", "exit %d, output %r" % (rc, o[:100]))
            if 1 in cl and open(os.path.join(d, "s.bin"), "rb").read() != content(100, 1):
                ctx.fail("asconsum:digest:-h", "the hashed file was modified (standard output was closed and the digest went to the descriptor of the next file opened)")
        finally:
            ctx.fail = orig_fail
            CLOSED[0] = ()
    # ---------------- the tools as a libc without getopt() gets them (their own command-line parser): the option-handling parts again
    try:
        _, crypt, summ = build_tools(nogetopt=True)
        orig_fail = ctx.fail
        ctx.fail = lambda key, *a, **k: orig_fail("nogetopt:" + key, *a, **k)
        try:
            common.parallel(roundtrip, [(n, pk, 1) for n in (0, 17, B + 1) for pk in ("short", "long", "keyfile")] + [(n, "short", 1, prior) for n in (1, B) for prior in ("longer", "shorter")])
            genkey()
            keyfile_syntax()
            common.parallel(stdio_modes, [0, 17])
            multi_file()
        finally:
            ctx.fail = orig_fail
        ctx.configs.append("tools without getopt()")
    except build.BuildError as e:
        ctx.fail("build-error:tools-without-getopt", str(e)[-500:])
    shutil.rmtree(root, ignore_errors=True)
    ctx.sample("asconcrypt round trip: sizes %s x passwords {1 char, 1023 chars, key file}" % sizes[:8])
    ctx.sample("tamper: every bit of every byte + every truncation length of the encrypted files for small plaintexts; every k-th read/write/open/getrandom failure for encrypt and decrypt (%d fault plans)" % ctx.stats.get("fault_plans", 0))
    ctx.assumptions += [
        "I/O faults are injected by defining libc's read/write/open/getrandom in the tool binary (link-time shim, no source change); asconsum reads through stdio and the property states no I/O-fault requirement for it",
        "'fails loudly' = non-zero exit status AND the output path does not exist afterwards; benign deviations (one EINTR, 1-byte transfers) must give the identical result",
        "BUFSIZ = %d on this platform" % B,
    ]
    cov = dict(evaluations=ctx.stats.get("evaluations", 0), distinct_nontrivial=ctx.stats.get("nontrivial", 0),
               rule="one tool process per case: round trips over sizes around 0/16/BUFSIZ/2*BUFSIZ x 3 password sources; wrong password; every single-bit flip of every byte and every truncation length of small encrypted files "
                    "(strided + boundary positions for a BUFSIZ+1 file; all positions in thorough); for encrypt and decrypt of 3-5 sizes: the k-th read / write (ENOSPC and EIO) / open / getrandom call fails for every k, "
                    "one EINTR at every k, 1-byte short transfers; asconsum digests x 4 algorithms vs reference, check mode with every listed file modified, missing, and malformed lines",
               exhaustive=True)
    return LEVEL, cov
