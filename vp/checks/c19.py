"""C19: command-line tools: round trip, tamper/truncation detection, k-th I/O fault for every k (libc shim)."""
import os, shutil, subprocess, hashlib, itertools
import build, common

LEVEL = "fault_enumeration"
EMPTY_COVERAGE = dict(evaluations=0, distinct_nontrivial=0, rule="", samples=[])
B = 8192  # BUFSIZ on this platform (checked below)


def build_tools(san=None):
    lib = build.build_lib("asm", san=san, opt="-O1" if san else "-O2")
    apps = os.path.join(build.REPO, "apps")
    crypt = build.build_prog("asconcrypt", [os.path.join(apps, "asconcrypt", f) for f in ("asconcrypt.c", "fileops.c", "readpass.c")] + ["harness/ioshim.c"],
                             lib, opt="-O1", extra=["-DHAVE_CONFIG_H", "-I" + os.path.join(apps, "asconcrypt")], cfg_dep=True)
    summ = build.build_prog("asconsum", [os.path.join(apps, "asconsum", "asconsum.c")], lib, opt="-O1", extra=["-DHAVE_CONFIG_H"], cfg_dep=True)
    return lib, crypt, summ


def content(n, pat):
    if pat == 0:
        return bytes(i & 0xff for i in range(n))
    h = hashlib.sha256(b"c19-%d" % pat).digest()
    out = bytearray()
    c = 0
    while len(out) < n:
        out += hashlib.sha256(h + c.to_bytes(4, "big")).digest()
        c += 1
    return bytes(out[:n])


def run(ctx):
    lib, crypt, summ = build_tools()
    ctx.configs.append(lib["desc"])
    refsum = build.build_prog("refsum", ["ref/refsum.c", "ref/ref.c"], cc="gcc", opt="-O2")
    root = os.path.join(build.BUILD, "run", "c19-%d" % os.getpid())
    shutil.rmtree(root, ignore_errors=True)
    os.makedirs(root)
    counter = itertools.count()

    def wd():
        d = os.path.join(root, "w%d" % next(counter))
        os.makedirs(d)
        return d

    def tool(args, env=None, cwd=None, timeout=120):
        e = dict(os.environ)
        if env:
            e.update({k: str(v) for k, v in env.items()})
        p = subprocess.run(args, stdout=subprocess.PIPE, stderr=subprocess.PIPE, env=e, cwd=cwd, timeout=timeout)
        ctx.stat("evaluations")
        return p.returncode, p.stdout, p.stderr

    def rep(args, env=None):
        return dict(cmd=args, env=env or {})

    def write(path, data):
        with open(path, "wb") as f:
            f.write(data)

    def encrypt(d, data, pw_args, name="in.bin"):
        src = os.path.join(d, name)
        write(src, data)
        rc, o, e = tool([crypt, "-e"] + pw_args + ["-o", os.path.join(d, "enc.ascon"), src])
        return rc, os.path.join(d, "enc.ascon"), e

    PW = ["-p", "correct horse"]
    thorough = ctx.thorough

    # ---------------- round trip over sizes x passwords x contents
    sizes = [0, 1, 15, 16, 17] + list(range(B - 17, B + 2)) + list(range(2 * B - 17, 2 * B + 2)) + [3 * B]
    if not thorough:
        sizes = [0, 1, 15, 16, 17, B - 17, B - 16, B - 15, B - 1, B, B + 1, 2 * B - 17, 2 * B - 16, 2 * B - 15, 2 * B - 1, 2 * B, 2 * B + 1, 3 * B]

    def roundtrip(job):
        n, pwkind, pat = job
        d = wd()
        data = content(n, pat)
        if pwkind == "short":
            pa = ["-p", "x"]
        elif pwkind == "long":
            pa = ["-p", "P" * 1023]
        else:
            kf = os.path.join(d, "key.txt")
            write(kf, b"k3y-file-secret\n")
            pa = ["-k", kf]
        rc, enc, e = encrypt(d, data, pa)
        key = "asconcrypt:roundtrip:%s" % pwkind
        if rc != 0 or not os.path.isfile(enc):
            ctx.fail(key, "encryption of a %d-byte file exits %d: %s" % (n, rc, e[-200:]), rep([crypt, "-e"] + pa))
            return
        encsize = os.path.getsize(enc)
        if encsize != n + 96:
            ctx.fail(key, "encrypted size %d for %d input bytes (expected +96)" % (encsize, n))
        out = os.path.join(d, "out.bin")
        rc, o, e = tool([crypt, "-d"] + pa + ["-o", out, enc])
        if rc != 0 or not os.path.isfile(out) or open(out, "rb").read() != data:
            ctx.fail(key, "decryption of a %d-byte file does not reproduce it (exit %d): %s" % (n, rc, e[-200:]), rep([crypt, "-d"] + pa))
        # wrong password
        out2 = os.path.join(d, "out2.bin")
        rc, o, e = tool([crypt, "-d", "-p", "wrong", "-o", out2, enc])
        if rc == 0 or os.path.exists(out2):
            ctx.fail("asconcrypt:wrong-password", "wrong password: exit %d, output file %s (size %d)" % (rc, "left behind" if os.path.exists(out2) else "absent", n))
        ctx.stat("nontrivial")
        shutil.rmtree(d, ignore_errors=True)

    jobs = [(n, pk, pat) for n in sizes for pk in ("short", "long", "keyfile") for pat in ((0, 1) if thorough or n < 100 else (1,))]
    common.parallel(roundtrip, jobs)

    # ---------------- tampering: bit flips and truncation at every position
    def tamper_base(n):
        d = wd()
        data = content(n, 1)
        rc, enc, e = encrypt(d, data, PW)
        return d, open(enc, "rb").read()

    def expect_reject(kind, d, blob, desc, idx):
        f = os.path.join(d, "t%d.ascon" % idx)
        out = os.path.join(d, "t%d.out" % idx)
        write(f, blob)
        rc, o, e = tool([crypt, "-d"] + PW + ["-o", out, f])
        left = os.path.exists(out)
        if rc == 0 or left:
            ctx.fail("asconcrypt:%s" % kind, "%s: exit status %d, output file %s" % (desc, rc, "left behind" if left else "absent"),
                     rep([crypt, "-d"] + PW + ["-o", out, f]))
        ctx.stat("nontrivial")
        for p in (f, out):
            if os.path.exists(p):
                os.unlink(p)

    tjobs = []
    for n in ([0, 1, 17, 64] if not thorough else [0, 1, 16, 17, 64, 100]):
        d, blob = tamper_base(n)
        for i in range(len(blob)):
            for bit in range(8):
                b2 = bytearray(blob)
                b2[i] ^= 1 << bit
                tjobs.append(("bitflip", d, bytes(b2), "bit %d of byte %d of the %d-byte encrypted file (plaintext %d bytes) flipped" % (bit, i, len(blob), n)))
        for t in range(len(blob)):
            tjobs.append(("truncated", d, blob[:t], "encrypted file of %d bytes truncated to %d" % (len(blob), t)))
        tjobs.append(("extended", d, blob + b"\0", "one byte appended to the encrypted file"))
    for n in ([B + 1] if not thorough else [B - 16, B + 1, 2 * B + 5]):
        d, blob = tamper_base(n)
        step = 1 if thorough else 53
        pos = sorted(set(list(range(0, len(blob), step)) + list(range(0, 96)) + list(range(len(blob) - 40, len(blob))) + list(range(B + 60, B + 100))))
        for i in pos:
            if i < len(blob):
                b2 = bytearray(blob)
                b2[i] ^= 1 << (i % 8)
                tjobs.append(("bitflip", d, bytes(b2), "bit %d of byte %d of the %d-byte encrypted file flipped" % (i % 8, i, len(blob))))
        tpos = range(len(blob)) if thorough else sorted(set(list(range(0, len(blob), 97)) + list(range(0, 130)) + list(range(B - 20, B + 130)) + list(range(len(blob) - 40, len(blob)))))
        for t in tpos:
            if t < len(blob):
                tjobs.append(("truncated", d, blob[:t], "encrypted file of %d bytes truncated to %d" % (len(blob), t)))
    common.parallel(lambda j: expect_reject(j[1][0], j[1][1], j[1][2], j[1][3], j[0]), list(enumerate(tjobs)))

    # ---------------- k-th call faults
    def counts(args, d):
        cf = os.path.join(d, "counts.txt")
        rc, o, e = tool(args, env={"VP_COUNTS": cf})
        r, w, op, rn = map(int, open(cf).read().split())
        os.unlink(cf)
        return rc, r, w, op, rn

    fjobs = []
    for n in ([0, 17, B + 1] if not thorough else [0, 17, B - 16, B + 1, 2 * B + 5]):
        d = wd()
        data = content(n, 1)
        src = os.path.join(d, "in.bin")
        write(src, data)
        encf = os.path.join(d, "good.ascon")
        tool([crypt, "-e"] + PW + ["-o", encf, src])
        for mode, args_of in (("encrypt", lambda out, src=src: [crypt, "-e"] + PW + ["-o", out, src]), ("decrypt", lambda out, encf=encf: [crypt, "-d"] + PW + ["-o", out, encf])):
            probe = os.path.join(d, "probe.out")
            rc, r, w, op, rn = counts(args_of(probe), d)
            good = open(probe, "rb").read()
            os.unlink(probe)
            plan = [("VP_FAIL_READ", k, 5) for k in range(r)] + [("VP_FAIL_WRITE", k, 28) for k in range(w)] + [("VP_FAIL_WRITE", k, 5) for k in range(w)] + \
                   [("VP_FAIL_OPEN", k, 13) for k in range(op)] + [("VP_FAIL_RAND", k, 38) for k in range(rn)]
            for var, k, en in plan:
                fjobs.append((mode, n, args_of, {var: k, "VP_ERRNO": en}, None, d))
            for var, kmax in (("VP_EINTR_READ", r), ("VP_EINTR_WRITE", w)):
                for k in range(kmax):
                    fjobs.append((mode, n, args_of, {var: k}, good if mode == "decrypt" else b"", d))
            fjobs.append((mode, n, args_of, {"VP_SHORT": 1}, good if mode == "decrypt" else b"", d))

    def fault(job):
        idx, (mode, n, args_of, env, benign_expect, d) = job
        out = os.path.join(d, "f%d.out" % idx)
        args = args_of(out)
        rc, o, e = tool(args, env=env)
        what = ",".join("%s=%s" % kv for kv in sorted(env.items()))
        left = os.path.exists(out)
        if benign_expect is None:
            # the k-th zero-length probe write of safe_file_write never transfers data; failing it is still a failed write
            kind = [k for k in env if k.startswith("VP_FAIL")][0][8:].lower()
            if rc == 0 or left:
                ctx.fail("asconcrypt:fault:%s:%s" % (kind, mode), "%s of a %d-byte file with %s: exit status %d, output file %s" %
                         (mode, n, what, rc, "left behind" if left else "absent"), rep(args, env))
        else:
            kind = "short-io" if "VP_SHORT" in env else "eintr"
            if rc != 0 or not left:
                ctx.fail("asconcrypt:benign:%s:%s" % (kind, mode), "%s of a %d-byte file with %s fails (exit %d) although the deviation is benign" % (mode, n, what, rc), rep(args, env))
            elif mode == "decrypt" and open(out, "rb").read() != benign_expect:
                ctx.fail("asconcrypt:benign:%s:%s" % (kind, mode), "%s with %s produces different output" % (mode, what), rep(args, env))
            elif mode == "encrypt":
                back = out + ".back"
                rc2, o2, e2 = tool([crypt, "-d"] + PW + ["-o", back, out])
                if rc2 != 0 or open(back, "rb").read() != content(n, 1):
                    ctx.fail("asconcrypt:benign:%s:%s" % (kind, mode), "file encrypted under %s does not decrypt" % what, rep(args, env))
                if os.path.exists(back):
                    os.unlink(back)
        ctx.stat("nontrivial")
        ctx.stat("fault_plans")
        if os.path.exists(out):
            os.unlink(out)

    common.parallel(fault, list(enumerate(fjobs)))

    # ---------------- asconsum
    d = wd()
    names = []
    for n in ([0, 1, 7, 8, 9, 100, B - 1, B, B + 1, 2 * B, 2 * B + 7] if not thorough else sizes + [7, 8, 9, 100, 5 * B + 3]):
        p = os.path.join(d, "f%d.bin" % n)
        write(p, content(n, 1))
        names.append(p)
    for flag in ("-h", "-a", "-x", "-y"):
        rc, o, e = tool([summ, flag] + names, cwd=d)
        lines = o.decode().splitlines()
        if rc != 0 or len(lines) != len(names):
            ctx.fail("asconsum:digest:%s" % flag, "exit %d, %d lines for %d files" % (rc, len(lines), len(names)))
            continue
        for ln, p in zip(lines, names):
            want = subprocess.run([refsum, flag[1], p], stdout=subprocess.PIPE).stdout.decode().strip()
            if ln != "%s  %s" % (want, p):
                ctx.fail("asconsum:digest:%s" % flag, "printed '%s...' for %s, reference digest %s" % (ln[:70], os.path.basename(p), want))
            ctx.stat("nontrivial")
        sums = os.path.join(d, "sums%s.txt" % flag)
        write(sums, o)
        rc, o2, e2 = tool([summ, flag, "-c", sums], cwd=d)
        oks = o2.decode().splitlines()
        if rc != 0 or len(oks) != len(names) or any(not l.endswith(": OK") for l in oks):
            ctx.fail("asconsum:check:%s" % flag, "check mode on unmodified files: exit %d, output %r" % (rc, o2[:200]))
        # modify one byte of each (non-empty) file in turn, then restore
        for p in names:
            data = open(p, "rb").read()
            if not data:
                continue
            for posn in sorted(set([0, len(data) // 2, len(data) - 1])):
                b2 = bytearray(data)
                b2[posn] ^= 0x40
                write(p, bytes(b2))
                rc, o2, e2 = tool([summ, flag, "-c", sums], cwd=d)
                line = [l for l in o2.decode().splitlines() if l.startswith(p + ":")]
                if rc == 0 or not line or "FAILED" not in line[0] or sum(1 for l in o2.decode().splitlines() if l.endswith(": OK")) != len(names) - 1:
                    ctx.fail("asconsum:check:%s" % flag, "byte %d of %s modified: exit %d, line %r" % (posn, os.path.basename(p), rc, line))
                ctx.stat("nontrivial")
            write(p, data)
        # missing file, malformed lines
        os.rename(names[1], names[1] + ".gone")
        rc, o2, e2 = tool([summ, flag, "-c", sums], cwd=d)
        if rc == 0 or b"FAILED" not in o2:
            ctx.fail("asconsum:check:%s" % flag, "missing file: exit %d" % rc)
        os.rename(names[1] + ".gone", names[1])
        good = open(sums, "rb").read().splitlines()
        for desc, bad in (("odd digit count", good[0][1:]), ("short hash", good[0][2:]), ("non-hex digit", b"g" + good[0][1:]), ("no file name", good[0][:64]), ("one space only then nothing", good[0][:64] + b" "), ("empty checksum file", b"")):
            bs = os.path.join(d, "bad.txt")
            write(bs, bad + b"\n" + (b"\n".join(good[1:3]) + b"\n" if desc != "empty checksum file" else b""))
            rc, o2, e2 = tool([summ, flag, "-c", bs], cwd=d)
            if rc == 0:
                ctx.fail("asconsum:check:%s" % flag, "malformed checksum line (%s) but exit status 0" % desc)
            ctx.stat("nontrivial")
    shutil.rmtree(root, ignore_errors=True)
    ctx.sample("asconcrypt round trip: sizes %s x passwords {1 char, 1023 chars, key file}" % sizes[:8])
    ctx.sample("tamper: every bit of every byte + every truncation length of the encrypted files for small plaintexts; every k-th read/write/open/getrandom failure for encrypt and decrypt (%d fault plans)" % ctx.stats.get("fault_plans", 0))
    ctx.assumptions += [
        "I/O faults are injected by defining libc's read/write/open/getrandom in the tool binary (link-time shim, no source change); asconsum reads through stdio and the property states no I/O-fault requirement for it",
        "'fails loudly' = non-zero exit status AND the output path does not exist afterwards; benign deviations (one EINTR, 1-byte transfers) must give the identical result",
        "BUFSIZ = %d on this platform" % B,
    ]
    cov = dict(evaluations=ctx.stats.get("evaluations", 0), distinct_nontrivial=ctx.stats.get("nontrivial", 0),
               rule="one tool process per case: round trips over sizes around 0/16/BUFSIZ/2*BUFSIZ x 3 password sources; wrong password; every single-bit flip of every byte and every truncation length of small encrypted files "
                    "(strided + boundary positions for a BUFSIZ+1 file; all positions in thorough); for encrypt and decrypt of 3-5 sizes: the k-th read / write (ENOSPC and EIO) / open / getrandom call fails for every k, "
                    "one EINTR at every k, 1-byte short transfers; asconsum digests x 4 algorithms vs reference, check mode with every listed file modified, missing, and malformed lines",
               exhaustive=True)
    return LEVEL, cov
