"""C05: HKDF (RFC 5869), PBKDF2 (RFC 8018), KDF (cXOF 'KDF') against the reference; expand histories across the 8160-byte limit."""
import build, common

LEVEL = "exploration"
EMPTY_COVERAGE = dict(evaluations=0, distinct_nontrivial=0, rule="", samples=[])


def run(ctx):
    backends = ["asm", "c64", "c32", "dxor", "generic"]
    jobs = []
    for be in backends:
        lib = build.build_lib(be)
        ctx.configs.append(lib["desc"])
        exe = build.build_prog("c05", ["harness/c05.c", "ref/ref.c"], lib, opt="-O2")
        main = be == "asm"
        t = 1 if (ctx.thorough and main) else 0
        for pat in ((0, 3) if main else (3,)):
            for a in (0, 1):
                for mode in ("hkdf", "expand", "kdf"):
                    jobs.append((exe, [mode, a, pat, t], be))
            jobs.append((exe, ["pbkdf2", 0, pat, t], be))
    # work model of the PBKDF2 iteration count over the whole range of unsigned long (harness/c05_work.c)
    for be in (backends if ctx.thorough else ["asm", "c32"]):
        lib = build.build_lib(be)
        wexe = build.build_prog("c05_work", ["harness/c05_work.c"], lib, opt="-O2", link=["-Wl,--wrap=ascon_permute"])
        jobs.append((wexe, [1 if ctx.thorough else 0, 0, 0], be))
    common.parallel(lambda j: common.run_harness(ctx, j[0], j[1], label=j[2]), jobs)
    common.align_jobs(ctx, jobs, lambda j: j[2] in ("asm", "c64") and j[1][2] == 3)
    # long one-shot KDF outputs (the declared length is the output length): 128 KiB+1 .. 16 MiB+3, and 2^29 bytes (the limit of the declared-length field; thorough: also 2^29-1 and 2^29+9)
    common.mid_lengths(ctx, ["kdf-out:0", "kdf-out:1"], ("asm", "c64", "c32", "dxor", "generic") if ctx.thorough else ("asm", "c32"))
    # long secondary parameters (salt, password, context string) of 128 KiB+1 .. 16 MiB+3 bytes: more than a thread stack holds
    common.mid_lengths(ctx, ["pbkdf2-salt:0", "pbkdf2-salt:1", "pbkdf2-pw:0", "pbkdf2-pw:1", "hkdf-salt:0", "hkdf-salt:1", "hkdf-info:0", "hkdf-info:1"], ("asm", "c32") if ctx.thorough else ("asm",))
    lib = build.build_lib("asm", opt="-O2")
    hexe = build.build_prog("huge", ["harness/huge.c", "harness/sysrand.c", "ref/ref.c"], lib, opt="-O2")
    big = [[w, L] for w in ("kdf-out:0", "kdf-out:1") for L in ((1 << 29) - 1, 1 << 29, (1 << 29) + 9)] if ctx.thorough else [["kdf-out:0", 1 << 29], ["kdf-out:1", 1 << 29]]
    common.parallel(lambda j: common.run_harness(ctx, hexe, j, label="asm", timeout=max(60, ctx.remaining())), big, jobs=2)
    ctx.assumptions += [
        "RFC 5869 over the reference HMAC; absent salt == empty salt (both give a zero block key); RFC 8018 with INT(i) big-endian from 1, count 0 treated as 1",
        "PBKDF2 PRF = cXOF('PBKDF2', custom = password, declared 32) as documented in pbkdf2.h; KDF = cXOF('KDF', custom, declared = outlen)(key)",
        "PBKDF2 counts that no run can finish (2^31 .. ULONG_MAX): decided through the work model -- permutation calls are affine in the count for counts 1..N (outputs judged against the reference), and a call with such a count must still be running after K iterations' worth of permutation calls",
        "after a refused expand request only the refusal, the served prefix and the zero-filled tail are judged",
    ]
    cov = dict(evaluations=ctx.stats.get("evaluations", 0), distinct_nontrivial=ctx.stats.get("nontrivial", 0),
               rule="HKDF one-shot: key/salt/info length triples x output lengths incl. 8159/8160/8161/8191/8192/10000/65536; expand histories (n1, n2, n3) positioned at "
                    "every offset around the 255-block limit plus all small histories; PBKDF2 both PRFs: pw/salt lengths x count {0,1,2,3,4,5,10} x outlen; KDF/KDFA key x custom x outlen; "
                    "distinct_nontrivial counts executed parameter tuples / histories",
               exhaustive=True)
    return LEVEL, cov
