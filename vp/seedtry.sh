#!/bin/bash
# usage: seedtry.sh <patchfile> <check id>...   runs the given checks (quick tier unless TIER=thorough) on a scratch copy of /repo with the patch applied
P=$1; shift
S=/tmp/st/$$; mkdir -p $S
rsync -a --exclude _build --exclude .git /repo/ $S/
( cd $S && patch -p1 -s < $P ) || { echo "patch failed"; rm -rf $S; exit 2; }
for id in "$@"; do
  VERIF_REPO_ROOT=$S python3 /verif/vp/check.py $id --tier ${TIER:-quick} 2>&1 | grep -E "VIOLATION|KNOWN-FINDING|HARNESS-ERROR|violations=|key=" | head -${LINES_MAX:-8}
  echo "== $id exit ${PIPESTATUS[0]}"
done
rm -rf $S
