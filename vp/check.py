#!/usr/bin/env python3
"""Entry point: python3 vp/check.py <ID> --tier quick|thorough  |  --replay <file>"""
import argparse, importlib, json, os, subprocess, sys, time, traceback

sys.path.insert(0, os.path.dirname(os.path.abspath(__file__)))
import common, build, refbind

DEADLINES = {"quick": 240, "thorough": 2400}
# per-check overrides: C12 runs ~1300 sanitizer processes (about 100 s on 16 idle cores, several minutes on a loaded machine); C11/C16 thorough are the long explorations
DEADLINE_OVERRIDES = {("C12", "quick"): 900, ("C12", "thorough"): 3000, ("C16", "thorough"): 3000, ("C11", "thorough"): 3000}


def main():
    ap = argparse.ArgumentParser()
    ap.add_argument("pid")
    ap.add_argument("--tier", default=os.environ.get("VERIF_TIER", "quick"))
    ap.add_argument("--replay")
    ap.add_argument("--deadline", type=float)
    a = ap.parse_args()
    pid = a.pid.upper()
    seed = int(os.environ.get("VERIF_SEED", "1"))
    if a.replay:
        r = json.load(open(a.replay))
        rp = r.get("replay", {})
        if "cmd" in rp:
            env = dict(os.environ)
            env.update(rp.get("env", {}))
            env["VERIF_SEED"] = str(r.get("seed", 1))
            # rebuild through the normal check so the binary exists, then re-run just the failing process
            if not os.path.isfile(rp["cmd"][0]) and not os.path.isfile(rp["cmd"][-1] if rp["cmd"] else ""):
                print("harness binary missing; run the check once to rebuild it")
            p = subprocess.run(rp["cmd"], env=env)
            print("replay exit status", p.returncode, "expected failure key:", r["key"])
            return 1 if p.returncode != 0 else 0
        print(json.dumps(r, indent=1))
        return 0
    tier = a.tier if a.tier in ("quick", "thorough") else "quick"
    mod = importlib.import_module("checks." + pid.lower())
    for attempt in (1, 2):
        ctx = common.Ctx(pid, tier, seed, a.deadline or float(os.environ.get("VERIF_DEADLINE", DEADLINE_OVERRIDES.get((pid, tier), DEADLINES[tier]))))
        try:
            build.gc()
            ctx.stats["ref_kat_vectors_checked"] = refbind.bind(ctx)
            level, coverage = mod.run(ctx)
        except build.BuildError as e:
            # the tree does not build in a configuration the property quantifies over
            ctx.fail("build-error:" + getattr(e, "key", "generic"), str(e)[-1500:])
            level, coverage = mod.LEVEL, dict(mod.EMPTY_COVERAGE)
        except Exception:
            # an error of the machinery itself (not a verdict about the tree): shown, and the whole check is run once more before giving up
            traceback.print_exc()
            print("HARNESS-ERROR in %s (attempt %d)" % (pid, attempt))
            if attempt == 1:
                continue
            return 2
        return common.finish(ctx, level, coverage)


if __name__ == "__main__":
    sys.exit(main())
