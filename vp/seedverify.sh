#!/bin/bash
# usage: seedverify.sh <ID> <dir with patch.diff and run_demo.sh>
# Confirms: patch applies; tree builds; all existing tests pass; demo fails with the change and passes without.
set -u
ID=$1; SRC=$2
W=/tmp/sv/$ID
rm -rf $W; mkdir -p /tmp/sv
git -C /repo worktree add -f --detach $W HEAD >/dev/null 2>&1 || { echo "worktree failed"; exit 2; }
cleanup() { git -C /repo worktree remove --force $W >/dev/null 2>&1; rm -rf $W; }
trap cleanup EXIT
git -C $W apply $SRC/patch.diff || { echo "RESULT $ID patch-does-not-apply"; exit 1; }
( cd $W && cmake -G Ninja -S . -B _build >/dev/null 2>&1 && cmake --build _build >/dev/null 2>&1 ) || { echo "RESULT $ID build-fails"; exit 1; }
T=$(ctest --test-dir $W/_build -j8 --timeout 900 2>&1 | tail -3 | grep "tests passed")
echo "tests: $T"
case "$T" in "100% tests passed, 0 tests failed out of 114") ;; *) echo "RESULT $ID tests-fail"; exit 1;; esac
rm -rf $W/_build
bash $SRC/run_demo.sh $W >/tmp/sv/$ID.demo.mut.log 2>&1; M=$?
bash $SRC/run_demo.sh /repo >/tmp/sv/$ID.demo.clean.log 2>&1; C=$?
echo "demo on changed tree: exit $M; on unchanged tree: exit $C"
if [ $M -ne 0 ] && [ $C -eq 0 ]; then echo "RESULT $ID confirmed"; exit 0; else echo "RESULT $ID demo-inconclusive"; exit 1; fi
