#!/bin/bash
# usage: seedmatrix.sh <dir> <ID> <checks...> : verify seed, run listed checks on a patched scratch copy, one line per check
D=$1; ID=$2; shift 2
R=$(vp/seedverify.sh $ID $D | tail -1)
echo "$R"
S=/tmp/st/m$$; mkdir -p $S; rsync -a --exclude _build --exclude .git /repo/ $S/
( cd $S && patch -p1 -s < $D/patch.diff ) || { echo "patch failed"; rm -rf $S; exit 2; }
for c in "$@"; do
  VERIF_REPO_ROOT=$S python3 /verif/vp/check.py $c --tier ${TIER:-quick} > /tmp/st/m$$.$c.log 2>&1; rc=$?
  echo "  $c exit=$rc $(grep -m1 'key=' /tmp/st/m$$.$c.log | cut -c1-220)"
done
rm -rf $S /tmp/st/m$$.*.log
