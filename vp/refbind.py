"""Binds the reference model to the frozen KAT subset (every run) and to the full corpus (setup)."""
import json, os, subprocess, hashlib
import build

VERIF = build.VERIF


def katcheck_exe():
    return build.build_prog("katcheck", ["ref/katcheck.c", "ref/ref.c"], cc="gcc", opt="-O2")


def bind(ctx=None, full=False):
    exe = katcheck_exe()
    idx = json.load(open(os.path.join(VERIF, "ref", "kat_index.json")))
    total = 0
    notes = []
    for name, info in sorted(idx.items()):
        path = os.path.join(VERIF, "ref", "kat_frozen", name + ".txt")
        p = subprocess.run([exe, info["type"], path], stdout=subprocess.PIPE)
        ok, tot = map(int, p.stdout.split())
        if p.returncode != 0 or ok != tot or tot != info["frozen"]:
            raise RuntimeError("reference model disagrees with frozen KAT %s: %d/%d" % (name, ok, tot))
        total += tot
        if full:
            rp = os.path.join(build.REPO, "test", "kat", name + ".txt")
            if not os.path.isfile(rp):
                notes.append("%s missing in repo" % name)
                continue
            if hashlib.sha256(open(rp, "rb").read()).hexdigest() != info["sha256"]:
                notes.append("%s differs from the corpus recorded when the oracle was frozen; not used" % name)
                continue
            p = subprocess.run([exe, info["type"], rp], stdout=subprocess.PIPE)
            ok, tot = map(int, p.stdout.split())
            if p.returncode != 0 or tot != info["records"]:
                raise RuntimeError("reference model disagrees with KAT %s: %d/%d" % (name, ok, tot))
            total += tot
    if full:
        return total, notes
    return total
