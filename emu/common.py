"""Shared machinery of the text-level ISA emulators (C18d).

Registers hold numpy vectors over the whole input set (one lane per input state), so one pass of the
emulator per starting round executes the checked-in text on every state.  Pointers (state pointer, stack
pointer and registers derived from them by constants) are tracked as plain integers; every load/store is
checked against the two legal regions: the 40-byte state and the function's own stack frame
[current SP, entry SP) (plus read-only incoming argument slots above the entry SP where the ABI has them).
Branches must not depend on the lane (the only run-time condition is first_round)."""
import itertools, os, re, subprocess, sys, time
import numpy as np

REPO = os.environ.get("VERIF_REPO_ROOT", "/repo")
U8, U16, U32, U64 = np.uint8, np.uint16, np.uint32, np.uint64
STATE = 0x10000
SP0 = 0x80000


class EmuError(Exception):
    pass


def preprocess(relpath, defines, undef=True):
    src = os.path.join(REPO, "src", relpath)
    cmd = ["gcc", "-E", "-P", "-x", "assembler-with-cpp"] + (["-undef"] if undef else []) + ["-I" + os.path.join(REPO, "src", "core"), "-I" + os.path.join(REPO, "src", "masking"), "-I" + os.path.join(REPO, "src"), "-I" + os.path.join(os.path.dirname(os.path.abspath(__file__)), "stubs")]
    cmd += ["-D" + d for d in defines] + [src]
    p = subprocess.run(cmd, stdout=subprocess.PIPE, stderr=subprocess.PIPE)
    if p.returncode != 0:
        raise EmuError("preprocessing %s failed: %s" % (relpath, p.stderr.decode()[-300:]))
    return p.stdout.decode()


def parse(text, comment_chars=("#", "//", "@", ";"), keep_directives=()):
    """-> (program [(op, [args])], labels {name: index})"""
    prog, labels = [], {}
    for raw in text.splitlines():
        l = raw
        for c in comment_chars:
            i = l.find(c)
            if i >= 0 and not (c == "#" and re.search(r"[,\s]#-?\w", l[i - 1:i + 3] if i else "")):
                l = l[:i]
        l = l.strip()
        if not l:
            continue
        m = re.match(r"^([.\w$]+):\s*(.*)$", l)
        if m:
            labels[m.group(1)] = len(prog)
            l = m.group(2).strip()
            if not l:
                continue
        if l.startswith("."):
            if l.split()[0] in keep_directives:
                prog.append((l.split()[0], [a.strip() for a in l.split(None, 1)[1].split(",")] if len(l.split(None, 1)) > 1 else []))
            continue
        parts = l.split(None, 1)
        args = split_args(parts[1]) if len(parts) > 1 else []
        prog.append((parts[0].lower(), args))
    return prog, labels


def split_args(s):
    out, depth, cur = [], 0, ""
    for ch in s:
        if ch in "([{":
            depth += 1
        elif ch in ")]}":
            depth -= 1
        if ch == "," and depth == 0:
            out.append(cur.strip())
            cur = ""
        else:
            cur += ch
    if cur.strip():
        out.append(cur.strip())
    return out


# ---------------------------------------------------------------- input set and reference
M64 = np.uint64


def weight_le2(full=True):
    """(5, N) uint64: zero, 320 unit states, all pairs, and their complements; words x0..x4, bit 63 = first bit of the big-endian word"""
    S = [[0] * 5]
    for i in range(320):
        s = [0] * 5
        s[i // 64] |= 1 << (63 - i % 64)
        S.append(s)
    pairs = itertools.combinations(range(320), 2)
    if not full:
        pairs = ((i, j) for (i, j) in pairs if (i * 7 + j) % 11 == 0)
    for i, j in pairs:
        s = [0] * 5
        s[i // 64] |= 1 << (63 - i % 64)
        s[j // 64] |= 1 << (63 - j % 64)
        S.append(s)
    X = np.array(S, dtype=np.uint64).T.copy()
    rng = np.random.RandomState(12345)
    dense = rng.randint(0, 2 ** 32, size=(5, 64), dtype=np.uint64) << M64(32) | rng.randint(0, 2 ** 32, size=(5, 64), dtype=np.uint64)
    return np.concatenate([X, ~X, dense], axis=1)


def ror64(x, n):
    return (x >> M64(n)) | (x << M64(64 - n))


def refperm(x, first):
    """the specification's permutation on (5, N) uint64 big-endian-word values (vectorised, written from the spec's ANF)"""
    x = [v.copy() for v in x]
    for r in range(first, 12):
        x[2] ^= M64(((0xf - r) << 4) | r)
        x[0] ^= x[4]; x[4] ^= x[3]; x[2] ^= x[1]
        t = [(~x[i]) & x[(i + 1) % 5] for i in range(5)]
        for i in range(5):
            x[i] ^= t[(i + 1) % 5]
        x[1] ^= x[0]; x[0] ^= x[4]; x[3] ^= x[2]; x[2] = ~x[2]
        for i, (a, b) in enumerate([(19, 28), (61, 39), (1, 6), (10, 17), (7, 41)]):
            x[i] ^= ror64(x[i], a) ^ ror64(x[i], b)
    return x


def bind_reference(katcheck_like_exe=None):
    """cross-check the vectorised reference against the table-S-box C reference (ref/ref.c) on weight <= 1 and dense states"""
    verif = os.path.dirname(os.path.dirname(os.path.abspath(__file__)))
    exe = os.environ.get("EMU_REFPERM")
    if not exe or not os.path.isfile(exe):
        # stand-alone use: build into a private temporary and rename atomically (several emulators may start at once)
        exe = os.path.join(verif, "build", "tmp", "refperm_cli")
        src = os.path.join(verif, "ref", "refperm_cli.c")
        os.makedirs(os.path.dirname(exe), exist_ok=True)
        if not os.path.isfile(exe) or os.path.getmtime(exe) < max(os.path.getmtime(src), os.path.getmtime(os.path.join(verif, "ref", "ref.c"))):
            tmp = "%s.%d.tmp" % (exe, os.getpid())
            subprocess.run(["gcc", "-O2", "-o", tmp, src, os.path.join(verif, "ref", "ref.c"), "-I" + os.path.join(verif, "ref")], check=True)
            os.rename(tmp, exe)
    X = weight_le2(False)[:, :700]
    X = np.concatenate([X, weight_le2(False)[:, -64:]], axis=1)
    lines = []
    for r in range(12):
        for k in range(X.shape[1]):
            lines.append("%d %s" % (r, "".join("%016x" % int(X[w, k]) for w in range(5))))
    out = subprocess.run([exe], input="\n".join(lines).encode(), stdout=subprocess.PIPE, check=True).stdout.decode().split()
    idx = 0
    for r in range(12):
        Y = refperm(list(X), r)
        for k in range(X.shape[1]):
            want = "".join("%016x" % int(Y[w][k]) for w in range(5))
            if out[idx] != want:
                raise EmuError("vectorised reference disagrees with ref.c for round %d state %d" % (r, k))
            idx += 1
    return idx


# ---------------------------------------------------------------- layouts
def to_sliced32(x64):
    """(5,N) uint64 -> (10,N) uint32: for each word [even bits, odd bits] (the library's 32-bit sliced layout)"""
    out = []
    for w in x64:
        e = np.zeros(w.shape, U32); o = np.zeros(w.shape, U32)
        for b in range(32):
            e |= ((w >> M64(2 * b)) & M64(1)).astype(U32) << U32(b)
            o |= ((w >> M64(2 * b + 1)) & M64(1)).astype(U32) << U32(b)
        out += [e, o]
    return np.stack(out)


def to_words64_le(x64):
    """host-order 64-bit words on a little-endian 32-bit machine: (10,N) uint32 low half first"""
    out = []
    for w in x64:
        out += [(w & M64(0xffffffff)).astype(U32), (w >> M64(32)).astype(U32)]
    return np.stack(out)


def to_bytes_be(x64):
    """canonical big-endian bytes (40,N) uint8"""
    out = []
    for w in x64:
        for b in range(8):
            out.append(((w >> M64(56 - 8 * b)) & M64(0xff)).astype(U8))
    return np.stack(out)


# ---------------------------------------------------------------- reporting helpers
class Report:
    def __init__(self, isa):
        self.isa = isa
        self.fails = []
        self.stats = {}

    def fail(self, key, msg):
        self.fails.append((key, msg))
        print("FAIL emu:%s:%s %s" % (self.isa, key, msg))

    def stat(self, k, v):
        print("STAT %s %d" % (k, v))


def second_entry(rep, labels, call, words, suffix=""):
    """the register-scrubbing entry point ascon_backend_free(state): must return with callee-saved registers, stack pointer and return address intact and must not touch memory"""
    if "ascon_backend_free" not in labels:
        return 0
    try:
        out, problems = call()
    except EmuError as e:
        rep.fail("execution:backend_free" + suffix, str(e))
        return 0
    if out.shape != words.shape or (out != words).any():
        rep.fail("value:backend_free" + suffix, "ascon_backend_free modified the state memory")
    for pmsg in sorted(set(problems))[:4]:
        rep.fail("abi:backend_free" + suffix, pmsg)
    print("SAMPLE second entry point ascon_backend_free%s emulated: callee-saved registers / stack pointer / return address / no memory access" % suffix)
    return words.shape[1]
