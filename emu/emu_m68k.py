"""m68k / ColdFire text-level emulator for src/core/ascon-asm-m68k.S (arguments on the stack, link/unlk frame)."""
import re, numpy as np
from common import *
from machine import Mem

CALLEE_SAVED = ["d2", "d3", "d4", "d5", "d6", "d7", "a2", "a3", "a4", "a5"]


def run_one(prog, labels, words, first_round):
    N = words.shape[1]
    mem = Mem(N, 4, arg_bytes=12)
    mem.ptrcells = {SP0 + 4: STATE}
    for i in range(10):
        mem.cells[(STATE + 4 * i, 4)] = words[i].copy()
    mem.cells[(SP0 + 8, 4)] = np.full(N, first_round, U32)
    mem.cells[(SP0, 4)] = np.full(N, 0x0badc0de, U32)
    FP_SENT = ("fp-sentinel",)
    reg = {"sp": SP0, "fp": FP_SENT}
    sent = {r: np.full(N, 0xA5A50000 + i, U32) for i, r in enumerate(CALLEE_SAVED)}
    reg.update({k: v.copy() for k, v in sent.items()})
    flags = [None]

    def rname(s):
        r = s.strip().lstrip("%").lower()
        return {"a6": "fp", "a7": "sp"}.get(r, r)

    def ea(s):
        m = re.match(r"^(-?\w*)\(%(\w+)\)$", s.strip())
        if not m:
            raise EmuError("unsupported addressing mode " + s)
        base = reg.get(rname(m.group(2)))
        if not isinstance(base, int):
            raise EmuError("memory access through a register that does not hold a pointer: " + s)
        return base + (int(m.group(1), 0) if m.group(1) else 0)

    def rd(s):
        s = s.strip()
        if s.startswith("#"):
            return np.full(N, int(s[1:], 0) & 0xffffffff, U32)
        if s.startswith("%"):
            r = rname(s)
            if r not in reg:
                raise EmuError("register %s read before it is written" % r)
            return reg[r]
        a = ea(s)
        if a in mem.ptrcells and (a, 4) not in mem.cells:
            mem._check(a, 4, False, s)
            return mem.ptrcells[a]
        return mem.load(a, 4, s)

    def wr(s, v):
        s = s.strip()
        if s.startswith("%"):
            r = rname(s)
            reg[r] = v
            if r == "sp":
                if not isinstance(v, int):
                    raise EmuError("stack pointer loaded with data")
                mem.set_sp(v)
            return
        a = ea(s)
        if isinstance(v, np.ndarray):
            mem.ptrcells.pop(a, None)
            mem.store(a, v, 4, s)
        else:
            mem._check(a, 4, True, s)
            mem.cells.pop((a, 4), None)
            mem.ptrcells[a] = v

    def data(s):
        v = rd(s)
        if not isinstance(v, np.ndarray):
            raise EmuError("pointer used as data: " + s)
        return v

    def count(s):
        if s.strip().startswith("#"):
            return int(s.strip()[1:], 0)
        v = data(s)
        if not (v == v[0]).all():
            raise EmuError("shift count depends on the state")
        return int(v[0]) & 63

    pc, steps = labels["ascon_permute"], 0
    while True:
        if pc >= len(prog):
            raise EmuError("fell off the end of the program")
        op, a = prog[pc]
        pc += 1
        steps += 1
        if steps > 600000:
            raise EmuError("too many steps")
        if op in ("move.l", "movea.l", "moveq.l", "moveq"):
            v = rd(a[0])
            wr(a[1], v.copy() if isinstance(v, np.ndarray) else v)
        elif op in ("eor.l", "eori.l"):
            wr(a[1], data(a[1]) ^ data(a[0]))
        elif op in ("or.l", "ori.l"):
            wr(a[1], data(a[1]) | data(a[0]))
        elif op in ("and.l", "andi.l"):
            wr(a[1], data(a[1]) & data(a[0]))
        elif op == "not.l":
            wr(a[0], ~data(a[0]))
        elif op in ("ror.l", "rol.l", "lsl.l", "lsr.l"):
            n = count(a[0])
            v = data(a[1])
            if op == "ror.l":
                n %= 32
                v = v if n == 0 else (v >> U32(n)) | (v << U32(32 - n))
            elif op == "rol.l":
                n %= 32
                v = v if n == 0 else (v << U32(n)) | (v >> U32(32 - n))
            elif op == "lsl.l":
                v = np.zeros(N, U32) if n >= 32 else v << U32(n)
            else:
                v = np.zeros(N, U32) if n >= 32 else v >> U32(n)
            wr(a[1], v)
        elif op in ("cmpi.l", "cmp.l"):
            flags[0] = (data(a[1]).copy(), data(a[0]).copy())
        elif op in ("jbeq", "beq", "jeq", "beq.s", "beq.w", "jbne", "bne"):
            x, y = flags[0]
            r = (x == y) if "eq" in op else (x != y)
            if not (r.all() or (~r).all()):
                raise EmuError("branch depends on the state")
            if r.all():
                pc = labels[a[0]]
        elif op in ("jmp", "jra", "bra", "jbra"):
            pc = labels[a[0]]
        elif op == "link.w" or op == "link":
            reg["sp"] -= 4
            mem.set_sp(reg["sp"])
            wr("(%sp)", reg["fp"])
            reg["fp"] = reg["sp"]
            reg["sp"] = reg["fp"] + int(a[1].lstrip("#"), 0)
            mem.set_sp(reg["sp"])
        elif op == "unlk":
            if not isinstance(reg["fp"], int):
                raise EmuError("unlk with a frame pointer that is not a pointer")
            reg["sp"] = reg["fp"]
            mem.set_sp(reg["sp"])
            reg["fp"] = rd("(%sp)")
            reg["sp"] += 4
            mem.set_sp(reg["sp"])
        elif op == "rts":
            break
        else:
            raise EmuError("unknown instruction " + op)
    problems = list(mem.violations)
    for r, v in sent.items():
        cur = reg.get(r)
        if not isinstance(cur, np.ndarray) or not (cur == v).all():
            problems.append("callee-saved register %s not restored" % r)
    if reg["fp"] != FP_SENT:
        problems.append("frame pointer a6 not restored")
    if reg["sp"] != SP0:
        problems.append("stack pointer at rts is entry%+d" % (reg["sp"] - SP0))
    ra = mem.cells.get((SP0, 4))
    if ra is None or not (ra == U32(0x0badc0de)).all():
        problems.append("return address slot overwritten")
    out = np.stack([mem.cells[(STATE + 4 * i, 4)] for i in range(10)])
    return out, steps, problems


def run(rep, variant, X, tier):
    total = 0
    for name, defs in (("m68k", ["__m68k__", "__m68k"]), ("coldfire", ["__m68k__", "__m68k", "__mcoldfire__"])):
        text = preprocess("core/ascon-asm-m68k.S", defs)
        prog, labels = parse(text, comment_chars=("|",))
        if "ascon_permute" not in labels or len(prog) < 100:
            rep.fail("no-code", "ascon-asm-m68k.S does not produce an ascon_permute function (%s)" % name)
            return
        words = to_sliced32(list(X))
        for fr in range(12):
            try:
                out, steps, problems = run_one(prog, labels, words, fr)
            except EmuError as e:
                rep.fail("execution:" + name, "first_round=%d: %s" % (fr, e))
                continue
            exp = to_sliced32(refperm(list(X), fr))
            bad = np.nonzero((out != exp).any(axis=0))[0]
            if len(bad):
                rep.fail("value:" + name, "first_round=%d: %d of %d states differ from the specification (first: state index %d)" % (fr, len(bad), X.shape[1], int(bad[0])))
            for pmsg in sorted(set(problems))[:4]:
                rep.fail("abi:" + name, "first_round=%d: %s" % (fr, pmsg))
            total += X.shape[1]
        print("SAMPLE emulated m68k (%s variant): %d instructions, %d states x 12 starting rounds, d2-d7/a2-a6/sp, frame bounds (no access below sp) checked" % (name, len(prog), X.shape[1]))
    rep.stat("evaluations", total)
    rep.stat("nontrivial", total)
