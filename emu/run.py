#!/usr/bin/env python3
"""usage: python3-vt emu/run.py <isa> <tier>"""
import os, sys, time
sys.path.insert(0, os.path.dirname(os.path.abspath(__file__)))
from common import *
import emu_riscv, emu_arm, emu_i386, emu_m68k, emu_xtensa, emu_avr

DISPATCH = {"riscv32i": emu_riscv, "riscv32e": emu_riscv, "riscv64i": emu_riscv, "armv8a64": emu_arm, "armv7m": emu_arm, "armv6": emu_arm, "armv6m": emu_arm, "i386": emu_i386, "m68k": emu_m68k, "xtensa": emu_xtensa, "avr5": emu_avr}


def main():
    isa, tier = sys.argv[1], int(sys.argv[2])
    t0 = time.time()
    rep = Report(isa)
    try:
        n = bind_reference()
        rep.stat("emu_reference_crosschecks", n)
        X = weight_le2(full=bool(tier) or os.environ.get("EMU_FULL") == "1")
        if isa in ("avr5_x2", "avr5_x3"):
            emu_avr.run_masked(rep, isa, X, tier)
        else:
            DISPATCH[isa].run(rep, isa, X, tier)
    except EmuError as e:
        rep.fail("harness", str(e))
    print("STAT emu_seconds %d" % int(time.time() - t0))


if __name__ == "__main__":
    main()
