"""C18e: run the checked-in i386 assembly natively (gcc -m32, freestanding) on the full input set and compare with the specification.
usage: native_i386.py <server-exe> <tier>   prints FAIL/STAT/SAMPLE lines like the emulators; exit status 0 unless the harness itself broke"""
import sys, subprocess, numpy as np
from common import *

def main():
    exe, tier = sys.argv[1], int(sys.argv[2])
    rep = Report("i386-native")
    bind_reference()
    X = weight_le2(bool(tier))
    words = to_sliced32(list(X))                      # (10, N) uint32, the backend's state layout
    N = X.shape[1]
    raw = np.ascontiguousarray(words.T).astype("<u4").view(np.uint8).reshape(N, 40)
    total = 0
    for fr in range(12):
        rec = np.concatenate([np.full((N, 1), fr, np.uint8), raw], axis=1).tobytes()
        p = subprocess.run([exe], input=rec, stdout=subprocess.PIPE, stderr=subprocess.PIPE)
        if p.returncode != 0 or len(p.stdout) != N * 41:
            rep.fail("execution", "first_round=%d: native server exit %d, %d of %d output bytes" % (fr, p.returncode, len(p.stdout), N * 41))
            continue
        out = np.frombuffer(p.stdout, np.uint8).reshape(N, 41)
        got = out[:, :40].copy().view("<u4").reshape(N, 10).T
        exp = to_sliced32(refperm(list(X), fr))
        bad = np.nonzero((got != exp).any(axis=0))[0]
        if len(bad):
            rep.fail("value", "first_round=%d: %d of %d states differ from the specification on the real CPU (first: state index %d)" % (fr, len(bad), N, int(bad[0])))
        st = out[:, 40]
        if st.any():
            bits = int(np.bitwise_or.reduce(st))
            names = [n for b, n in enumerate(["ebx", "esi", "edi", "ebp", "esp", "guard words around the state", "caller's stack words above the arguments"]) if bits >> b & 1]
            rep.fail("abi", "first_round=%d: not preserved: %s (%d of %d calls)" % (fr, ", ".join(names), int((st != 0).sum()), N))
        total += N
    rep.stat("evaluations", total)
    rep.stat("nontrivial", total)
    print("SAMPLE native i386: %d states x 12 starting rounds executed on the host CPU in 32-bit mode; values vs specification, cdecl callee-saved registers, esp, guard words, caller frame" % N)

main()
