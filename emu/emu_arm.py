"""ARM family text-level emulator: AArch64 (armv8a-64), ARMv7-M / ARMv6 (Thumb-2 / ARM, unified syntax), ARMv6-M (Thumb-1)."""
import re, numpy as np
from common import *
from machine import Mem

RETURN = ("code", "__return__")


def is_ptr(v):
    return isinstance(v, int)


def is_code(v):
    return isinstance(v, tuple)


class ArmMachine:
    def __init__(self, prog, labels, words, first_round, a64, datawords, junk=0):
        self.prog, self.labels, self.a64 = prog, labels, a64
        self.T = U64 if a64 else U32
        self.ws = 8 if a64 else 4
        self.N = words.shape[1]
        self.mem = Mem(self.N, self.ws)
        self.mem.ptrcells = {}
        for i in range(40 // self.ws):
            self.mem.cells[(STATE + self.ws * i, self.ws)] = words[i].copy()
        self.reg = {}
        self.sent = {}
        # x18 is the AAPCS64 platform register (reserved on Darwin, Windows and with shadow call stacks; "software that is intended to be portable should avoid it"): it must come back unchanged too
        saved = ["x%d" % i for i in range(18, 30)] if a64 else ["r4", "r5", "r6", "r7", "r8", "r9", "r10", "r11"]
        for i, r in enumerate(saved):
            self.sent[r] = np.full(self.N, (0xA5A50000 + i), self.T)
            self.reg[r] = self.sent[r].copy()
        self.reg["x0" if a64 else "r0"] = STATE
        # AAPCS64: bits above the declared width of a narrow argument (uint8_t first_round) are unspecified, the callee must not rely on them;
        # AAPCS32 has the caller extend to a full word
        self.reg["x1" if a64 else "r1"] = np.full(self.N, first_round | (junk if a64 else 0), self.T)
        self.reg["sp"] = SP0
        self.reg["x30" if a64 else "r14"] = RETURN
        self.flags = None
        self.datawords = datawords      # label -> list of (.word expressions)
        self.steps = 0

    # ---- registers
    ALIAS = {"fp": "r11", "ip": "r12", "lr": "r14", "sl": "r10", "sb": "r9", "pc": "r15"}

    def rn(self, r):
        r = r.strip().lower()
        if self.a64:
            if r == "lr":
                return "x30"
            if r.startswith("w") and r[1:].isdigit():
                return "x" + r[1:]
            return r
        if r == "sp" or r == "r13":
            return "sp"
        return self.ALIAS.get(r, r)

    def get(self, r, as32=False):
        name = self.rn(r)
        if name in ("xzr", "wzr"):
            return np.zeros(self.N, self.T)
        if name not in self.reg:
            raise EmuError("register %s read before it is written" % r)
        v = self.reg[name]
        if self.a64 and r.strip().lower().startswith("w") and isinstance(v, np.ndarray):
            return v & U64(0xffffffff)
        return v

    def put(self, r, v):
        name = self.rn(r)
        if name == "r15":
            raise EmuError("write to pc through a data instruction")
        if self.a64 and r.strip().lower().startswith("w") and isinstance(v, np.ndarray):
            v = v & U64(0xffffffff)
        self.reg[name] = v
        if name == "sp":
            if not is_ptr(v):
                raise EmuError("stack pointer loaded with a non-pointer")
            self.mem.set_sp(v)

    def data(self, r):
        v = self.get(r)
        if not isinstance(v, np.ndarray):
            raise EmuError("register %s holds a pointer where data is expected" % r)
        return v

    def imm(self, s):
        s = s.strip().lstrip("#")
        return int(s, 0)

    def rot(self, v, kind, n):
        bits = 64 if self.a64 else 32
        T = self.T
        n %= bits
        if kind == "ror":
            return v if n == 0 else (v >> T(n)) | (v << T(bits - n))
        if kind == "lsl":
            return v << T(n)
        if kind == "lsr":
            return v >> T(n)
        raise EmuError("shift kind " + kind)

    def operand2(self, args):
        """args = remaining operand list (1 or 2 items): register [, shift #n] or immediate"""
        a = args[0].strip()
        if a.startswith("#") or re.match(r"^-?(0x)?[0-9a-f]+$", a, re.I):
            return np.full(self.N, self.imm(a) & ((1 << (64 if self.a64 else 32)) - 1), self.T)
        v = self.data(a)
        if len(args) > 1:
            m = re.match(r"^(ror|lsl|lsr)\s+#?(\d+)$", args[1].strip().lower())
            if not m:
                raise EmuError("unsupported operand " + args[1])
            v = self.rot(v, m.group(1), int(m.group(2)))
        return v

    # ---- memory
    def addr(self, s):
        m = re.match(r"^\[\s*(\w+)\s*(?:,\s*#?(-?\w+)\s*)?\]$", s.strip())
        if not m:
            raise EmuError("unsupported addressing mode " + s)
        base = self.get(m.group(1))
        off = m.group(2)
        if is_code(base):
            return base, off
        if not is_ptr(base):
            raise EmuError("memory access through a data register: " + s)
        if off is None:
            return base, None
        if re.match(r"^-?(0x)?[0-9a-f]+$", off, re.I) and not re.match(r"^[rxw]\d+$", off):
            return base + int(off, 0), None
        return base, off

    def load(self, s, size):
        base, off = self.addr(s)
        if is_code(base):       # jump table read: [table, index]
            idx = self.data(off)
            if not (idx == idx[0]).all():
                raise EmuError("table index depends on the state")
            words = self.datawords.get(base[1])
            k = int(idx[0]) // 4
            if words is None or k >= len(words):
                raise EmuError("jump table access out of range")
            m = re.match(r"^(\.?\w+)\s*-\s*(\.?\w+)$", words[k])
            if not m or m.group(2) != base[1]:
                raise EmuError("unsupported table entry " + words[k])
            return ("rel", m.group(1), base[1])
        if off is not None:
            raise EmuError("register-offset load from data memory")
        if (base, size) in self.mem.ptrcells and (base, size) not in self.mem.cells:
            self.mem._check(base, size, False, s)
            return self.mem.ptrcells[(base, size)]
        return self.mem.load(base, size, s).astype(self.T)

    def store(self, s, v, size):
        base, off = self.addr(s)
        if off is not None or is_code(base):
            raise EmuError("unsupported store address " + s)
        if isinstance(v, np.ndarray):
            self.mem.ptrcells.pop((base, size), None)
            self.mem.store(base, v.astype(U32) if size == 4 else v, size, s)
        else:
            self.mem._check(base, size, True, s)
            self.mem.cells.pop((base, size), None)
            self.mem.ptrcells[(base, size)] = v

    def push(self, regs):
        order = sorted(regs, key=lambda r: int(self.rn(r)[1:]) if self.rn(r) != "sp" else 13)
        sp = self.reg["sp"] - 4 * len(order)
        self.put("sp", sp)
        for i, r in enumerate(order):
            self.store("[sp, #%d]" % (4 * i), self.get(r), 4)

    def pop(self, regs):
        order = sorted(regs, key=lambda r: int(self.rn(r)[1:]) if self.rn(r) != "sp" else 13)
        ret = None
        sp = self.reg["sp"]
        for i, r in enumerate(order):
            v = self.load("[sp, #%d]" % (4 * i), 4)
            if self.rn(r) == "r15":
                ret = v
            else:
                self.reg[self.rn(r)] = v
        self.put("sp", sp + 4 * len(order))
        return ret

    def cond(self, c):
        if self.flags is None:
            raise EmuError("conditional branch without a preceding compare")
        a, b = self.flags
        r = {"eq": a == b, "ne": a != b, "hi": a > b, "ls": a <= b, "hs": a >= b, "cs": a >= b, "lo": a < b, "cc": a < b}[c]
        if not (r.all() or (~r).all()):
            raise EmuError("branch depends on the state")
        return bool(r.all())

    def run(self, entry):
        pc = self.labels[entry]
        P = self.prog
        while True:
            if pc >= len(P):
                raise EmuError("fell off the end of the program")
            op, a = P[pc]
            pc += 1
            self.steps += 1
            if self.steps > 400000:
                raise EmuError("too many steps")
            base = op[:-1] if (op.endswith("s") and op[:-1] in ("eor", "and", "orr", "bic", "mvn", "mov", "ror", "lsl", "lsr", "add", "sub")) else op
            if base.endswith(".n") or base.endswith(".w"):
                base = base[:-2]
            if base in ("eor", "and", "orr", "bic"):
                if len(a) == 2 or (len(a) == 3 and re.match(r"^(ror|lsl|lsr)\b", a[2].strip().lower())):
                    d, x, rest = a[0], a[0], a[1:]
                else:
                    d, x, rest = a[0], a[1], a[2:]
                y = self.operand2(rest)
                xv = self.data(x)
                self.put(d, xv ^ y if base == "eor" else xv & y if base == "and" else xv | y if base == "orr" else xv & ~y)
            elif base == "mvn":
                self.put(a[0], ~self.operand2(a[1:]))
            elif base == "mov":
                if self.rn(a[0]) == "r15":
                    v = self.get(a[1])
                    if not is_code(v) or v[0] != "code":
                        raise EmuError("mov pc from a non-code value")
                    if v == RETURN:
                        return
                    pc = self.labels[v[1]]
                    continue
                src = a[1].strip()
                if not src.startswith("#") and not isinstance(self.get(src), np.ndarray):
                    self.put(a[0], self.get(src))
                else:
                    self.put(a[0], self.operand2(a[1:]).copy())
            elif base in ("ror", "lsl", "lsr"):
                if len(a) == 2:          # Thumb-1: rd = rd <op> rs
                    s = self.data(a[1])
                    if not (s == s[0]).all():
                        raise EmuError("shift amount depends on the state")
                    self.put(a[0], self.rot(self.data(a[0]), base, int(s[0]) & 0xff))
                else:
                    third = a[2].strip()
                    if third.startswith("#") or third.isdigit():
                        self.put(a[0], self.rot(self.data(a[1]), base, self.imm(third)))
                    else:
                        s = self.data(third)
                        if not (s == s[0]).all():
                            raise EmuError("shift amount depends on the state")
                        self.put(a[0], self.rot(self.data(a[1]), base, int(s[0]) & 0xff))
            elif base in ("add", "sub"):
                d = a[0]
                x = a[1] if len(a) == 3 else a[0]
                y = a[2] if len(a) == 3 else a[1]
                xv = self.get(x)
                sign = 1 if base == "add" else -1
                if is_ptr(xv):
                    self.put(d, xv + sign * self.imm(y))
                elif is_code(xv) and xv[0] == "rel":
                    yv = self.get(y)
                    if yv != ("code", xv[2]):
                        raise EmuError("unsupported code address arithmetic")
                    self.put(d, ("code", xv[1]))
                else:
                    yv = self.operand2([y])
                    self.put(d, xv + yv if sign > 0 else xv - yv)
            elif base == "adr":
                self.put(a[0], ("code", a[1].strip()))
            elif base == "cmp":
                self.flags = (self.data(a[0]).copy(), self.operand2(a[1:]))
            elif base in ("beq", "bne", "bhi", "bls", "bhs", "blo", "bcs", "bcc") or (base.startswith("b.") and len(base) == 4):
                c = base[-2:]
                if self.cond(c):
                    pc = self.labels[a[0].strip()]
            elif base == "b":
                pc = self.labels[a[0].strip()]
            elif base == "bl":
                self.reg["x30" if self.a64 else "r14"] = ("code", "__after_bl__")
                pc = self.labels[a[0].strip()]
            elif base == "bx":
                v = self.get(a[0])
                if v == RETURN:
                    return
                raise EmuError("bx to a non-return address")
            elif base == "ret":
                if self.reg.get("x30") != RETURN:
                    raise EmuError("return address register x30 was modified")
                return
            elif base == "ldr":
                if a[1].strip().startswith("="):
                    self.put(a[0], np.full(self.N, int(a[1].strip()[1:], 0) & ((1 << (8 * self.ws)) - 1), self.T))
                else:
                    self.put(a[0], self.load(",".join(a[1:]), 4 if (self.a64 and a[0].strip().lower().startswith("w")) else self.ws))
            elif base == "str":
                self.store(",".join(a[1:]), self.get(a[0]), self.ws)
            elif base == "ldp":
                b, off = self.addr(",".join(a[2:]))
                self.put(a[0], self.load("[%s, #%d]" % ("sp" if b == self.reg["sp"] and "sp" in a[2] else self._reg_of(b, a[2]), self._off(b, a[2])), 8))
                self.put(a[1], self.load("[%s, #%d]" % (self._reg_of(b, a[2]), self._off(b, a[2]) + 8), 8))
            elif base == "stp":
                b, off = self.addr(",".join(a[2:]))
                self.store("[%s, #%d]" % (self._reg_of(b, a[2]), self._off(b, a[2])), self.get(a[0]), 8)
                self.store("[%s, #%d]" % (self._reg_of(b, a[2]), self._off(b, a[2]) + 8), self.get(a[1]), 8)
            elif base == "push":
                self.push([r.strip() for r in ",".join(a).strip("{} ").split(",")])
            elif base == "pop":
                v = self.pop([r.strip() for r in ",".join(a).strip("{} ").split(",")])
                if v is not None:
                    if v == RETURN:
                        return
                    raise EmuError("pop {pc} with a value that is not the return address")
            elif base == "nop":
                pass
            else:
                raise EmuError("unknown instruction " + op)

    def _reg_of(self, b, s):
        return re.match(r"^\[\s*(\w+)", s.strip()).group(1)

    def _off(self, b, s):
        return b - self.get(self._reg_of(b, s))


def parse_arm(text):
    """like common.parse, but keeps .word tables: returns prog, labels, datawords"""
    prog, labels, data = [], {}, {}
    cur_label = None
    for raw in text.splitlines():
        l = re.sub(r"(@|//).*$", "", raw).strip()
        if not l:
            continue
        m = re.match(r"^([.\w$]+):\s*(.*)$", l)
        if m:
            labels[m.group(1)] = len(prog)
            cur_label = m.group(1)
            l = m.group(2).strip()
            if not l:
                continue
        if l.startswith(".word"):
            data.setdefault(cur_label, []).append(l.split(None, 1)[1].strip())
            continue
        if l.startswith("."):
            continue
        parts = l.split(None, 1)
        prog.append((parts[0].lower(), split_args(parts[1]) if len(parts) > 1 else []))
    return prog, labels, data


VARIANTS = {
    "armv8a64": ("core/ascon-asm-armv8a-64.S", ["__ARM_ARCH_8A", "__ARM_ARCH_ISA_A64", "__aarch64__"], True, "w64"),
    "armv7m": ("core/ascon-asm-armv7m.S", ["__ARM_ARCH_ISA_THUMB=2", "__ARM_ARCH=7"], False, "s32"),
    "armv6": ("core/ascon-asm-armv6.S", ["__ARM_ARCH=6"], False, "s32"),
    "armv6m": ("core/ascon-asm-armv6m.S", ["__ARM_ARCH_ISA_THUMB=1", "__ARM_ARCH=6", "__ARM_ARCH_6M__"], False, "s32"),
}


def run(rep, variant, X, tier):
    relpath, defines, a64, layout = VARIANTS[variant]
    text = preprocess(relpath, defines)
    prog, labels, data = parse_arm(text)
    if "ascon_permute" not in labels or len(prog) < 100:
        rep.fail("no-code", "%s does not produce an ascon_permute function under %s" % (relpath, defines))
        return
    words = np.stack(list(X)) if a64 else to_sliced32(list(X))
    total = 0
    for fr, junk in [(f, 0) for f in range(12)] + ([(f, 0xC3A5F00DDEADBE00) for f in range(12)] if a64 else []):
        try:
            m = ArmMachine(prog, labels, words, fr, a64, data, junk)
            m.run("ascon_permute")
        except EmuError as e:
            rep.fail("execution", "first_round=%d%s: %s" % (fr, " (unspecified upper bits of the argument register set)" if junk else "", e))
            continue
        ws = m.ws
        try:
            out = np.stack([m.mem.cells[(STATE + ws * i, ws)] for i in range(40 // ws)])
        except KeyError:
            rep.fail("value", "first_round=%d: state not completely written back" % fr)
            continue
        Y = refperm(list(X), fr)
        exp = np.stack(Y) if a64 else to_sliced32(Y)
        bad = np.nonzero((out != exp).any(axis=0))[0]
        if len(bad):
            rep.fail("value", "first_round=%d%s: %d of %d states differ from the specification (first: state index %d)" % (fr, " with the unspecified upper bits of w1/x1 set (AAPCS64)" if junk else "", len(bad), X.shape[1], int(bad[0])))
        problems = list(m.mem.violations)
        for r, v in m.sent.items():
            cur = m.reg.get(r)
            if not isinstance(cur, np.ndarray) or not (cur == v).all():
                problems.append(("platform register %s (AAPCS64) changed" if r == "x18" else "callee-saved register %s not restored") % r)
        if m.reg.get("sp") != SP0:
            problems.append("stack pointer not restored (entry%+d)" % (m.reg.get("sp", 0) - SP0))
        for pmsg in sorted(set(problems))[:4]:
            rep.fail("abi", "first_round=%d: %s" % (fr, pmsg))
        total += X.shape[1]
    def free_call():
        m = ArmMachine(prog, labels, words, 0, a64, data)
        m.run("ascon_backend_free")
        ws = m.ws
        out = np.stack([m.mem.cells[(STATE + ws * i, ws)] for i in range(40 // ws)])
        problems = list(m.mem.violations)
        for r, v in m.sent.items():
            cur = m.reg.get(r)
            if not isinstance(cur, np.ndarray) or not (cur == v).all():
                problems.append(("platform register %s (AAPCS64) changed" if r == "x18" else "callee-saved register %s not restored") % r)
        if m.reg.get("sp") != SP0:
            problems.append("stack pointer not restored (entry%+d)" % (m.reg.get("sp", 0) - SP0))
        return out, problems
    total += second_entry(rep, labels, free_call, words)
    rep.stat("evaluations", total)
    rep.stat("nontrivial", total)
    print("SAMPLE emulated %s: %d instructions, %d states x 12 starting rounds, callee-saved registers / sp / load-store bounds checked" % (variant, len(prog), X.shape[1]))
