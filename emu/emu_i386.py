"""i386 (AT&T syntax) text-level emulator for src/core/ascon-asm-i386.S (cdecl: arguments on the stack)."""
import re, numpy as np
from common import *
from machine import Mem

CALLEE_SAVED = ["ebx", "esi", "edi", "ebp"]


def run_one(prog, labels, entry, words, first_round):
    N = words.shape[1]
    mem = Mem(N, 4, arg_bytes=12)
    mem.ptrcells = {SP0 + 4: STATE}
    for i in range(10):
        mem.cells[(STATE + 4 * i, 4)] = words[i].copy()
    mem.cells[(SP0 + 8, 4)] = np.full(N, first_round, U32)
    mem.cells[(SP0, 4)] = np.full(N, 0x0badc0de, U32)      # return address slot
    reg = {"esp": SP0}
    sent = {r: np.full(N, 0xA5A50000 + i, U32) for i, r in enumerate(CALLEE_SAVED)}
    reg.update({k: v.copy() for k, v in sent.items()})
    flags = [None]

    def is_mem(s):
        return "(" in s

    def ea(s):
        m = re.match(r"^(-?\w*)\(%(\w+)\)$", s.strip())
        if not m:
            raise EmuError("unsupported addressing mode " + s)
        base = reg.get(m.group(2))
        if not isinstance(base, int):
            raise EmuError("memory access through a non-pointer register: " + s)
        return base + (int(m.group(1), 0) if m.group(1) else 0)

    def rd(s):
        s = s.strip()
        if s.startswith("$"):
            return np.full(N, int(s[1:], 0) & 0xffffffff, U32)
        if s.startswith("%"):
            r = s[1:]
            if r not in reg:
                raise EmuError("register %s read before it is written" % r)
            return reg[r]
        a = ea(s)
        if a in mem.ptrcells and (a, 4) not in mem.cells:
            mem._check(a, 4, False, s)
            return mem.ptrcells[a]
        return mem.load(a, 4, s)

    def wr(s, v):
        s = s.strip()
        if s.startswith("%"):
            reg[s[1:]] = v
            if s[1:] == "esp":
                if not isinstance(v, int):
                    raise EmuError("esp loaded with data")
                mem.set_sp(v)
            return
        a = ea(s)
        if isinstance(v, int):
            mem._check(a, 4, True, s)
            mem.cells.pop((a, 4), None)
            mem.ptrcells[a] = v
        else:
            mem.ptrcells.pop(a, None)
            mem.store(a, v, 4, s)

    def data(s):
        v = rd(s)
        if isinstance(v, int):
            raise EmuError("pointer used as data: " + s)
        return v

    pc, steps = labels[entry], 0
    while True:
        if pc >= len(prog):
            raise EmuError("fell off the end of the program")
        op, a = prog[pc]
        pc += 1
        steps += 1
        if steps > 400000:
            raise EmuError("too many steps")
        if op == "movl":
            v = rd(a[0])
            wr(a[1], v.copy() if isinstance(v, np.ndarray) else v)
        elif op == "xorl":
            wr(a[1], data(a[1]) ^ data(a[0]))
        elif op == "andl":
            wr(a[1], data(a[1]) & data(a[0]))
        elif op == "orl":
            wr(a[1], data(a[1]) | data(a[0]))
        elif op == "notl":
            wr(a[0], ~data(a[0]))
        elif op in ("rorl", "roll"):
            n = int(a[0].lstrip("$"), 0) % 32
            v = data(a[1])
            if op == "roll":
                n = (32 - n) % 32
            wr(a[1], v if n == 0 else (v >> U32(n)) | (v << U32(32 - n)))
        elif op in ("addl", "subl"):
            dst = rd(a[1])
            k = int(a[0].lstrip("$"), 0)
            if isinstance(dst, int):
                wr(a[1], dst + (k if op == "addl" else -k))
            else:
                wr(a[1], dst + data(a[0]) if op == "addl" else dst - data(a[0]))
        elif op == "pushl":
            v = rd(a[0])
            reg["esp"] -= 4
            mem.set_sp(reg["esp"])
            wr("(%esp)", v)
        elif op == "popl":
            v = rd("(%esp)")
            reg["esp"] += 4
            mem.set_sp(reg["esp"])
            wr(a[0], v)
        elif op == "cmpl":
            flags[0] = (data(a[1]).copy(), data(a[0]).copy())
        elif op in ("je", "jne"):
            x, y = flags[0]
            r = (x == y) if op == "je" else (x != y)
            if not (r.all() or (~r).all()):
                raise EmuError("branch depends on the state")
            if r.all():
                pc = labels[a[0]]
        elif op == "jmp":
            pc = labels[a[0]]
        elif op == "ret":
            break
        else:
            raise EmuError("unknown instruction " + op)
    problems = list(mem.violations)
    for r, v in sent.items():
        cur = reg.get(r)
        if not isinstance(cur, np.ndarray) or not (cur == v).all():
            problems.append("callee-saved register %s not restored" % r)
    if reg["esp"] != SP0:
        problems.append("stack pointer at ret is entry%+d (must point at the return address)" % (reg["esp"] - SP0))
    ra = mem.cells.get((SP0, 4))
    if ra is None or not (ra == U32(0x0badc0de)).all():
        problems.append("return address slot overwritten")
    out = np.stack([mem.cells[(STATE + 4 * i, 4)] for i in range(10)])
    return out, steps, problems


def run(rep, variant, X, tier):
    text = preprocess("core/ascon-asm-i386.S", ["__i386__", "__i386"])
    prog, labels = parse(text, comment_chars=("#",))
    entry = "ascon_permute" if "ascon_permute" in labels else "_ascon_permute"
    if entry not in labels or len(prog) < 100:
        rep.fail("no-code", "ascon-asm-i386.S does not produce an ascon_permute function")
        return
    words = to_sliced32(list(X))
    total = 0
    for fr in range(12):
        try:
            out, steps, problems = run_one(prog, labels, entry, words, fr)
        except EmuError as e:
            rep.fail("execution", "first_round=%d: %s" % (fr, e))
            continue
        exp = to_sliced32(refperm(list(X), fr))
        bad = np.nonzero((out != exp).any(axis=0))[0]
        if len(bad):
            rep.fail("value", "first_round=%d: %d of %d states differ from the specification (first: state index %d)" % (fr, len(bad), X.shape[1], int(bad[0])))
        for pmsg in sorted(set(problems))[:4]:
            rep.fail("abi", "first_round=%d: %s" % (fr, pmsg))
        total += X.shape[1]
    rep.stat("evaluations", total)
    rep.stat("nontrivial", total)
    print("SAMPLE emulated i386: %d instructions, %d states x 12 starting rounds, cdecl callee-saved registers / esp / return address / load-store bounds checked" % (len(prog), X.shape[1]))
