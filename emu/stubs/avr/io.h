/* stub for text-level emulation: the AVR assembly only needs the header to exist */
