"""Xtensa text-level emulator for src/core/ascon-asm-xtensa.S (call0 and windowed ABIs, little-endian 64-bit words)."""
import re, numpy as np
from common import *
from machine import Mem


def run_one(prog, labels, words, first_round, windowed, entry="ascon_permute"):
    N = words.shape[1]
    mem = Mem(N, 4)
    if windowed:
        # windowed ABI: the 16 bytes below the caller's stack pointer are the save area of the register window of the caller's caller (window overflow / underflow handlers use it)
        mem.reserved.append((SP0 - 16, SP0, "the register-window save area below the caller's stack pointer"))
    mem.ptrcells = {}
    for i in range(10):
        mem.cells[(STATE + 4 * i, 4)] = words[i].copy()
    RET = ("return-address",)
    reg = {"a1": SP0, "a0": RET, "a2": STATE, "a3": np.full(N, first_round, U32)}
    saved = [] if windowed else ["a12", "a13", "a14", "a15"]
    sent = {r: np.full(N, 0xA5A50000 + i, U32) for i, r in enumerate(saved)}
    reg.update({k: v.copy() for k, v in sent.items()})
    sar = [None]

    def rn(r):
        r = r.strip().lower()
        return "a1" if r == "sp" else r

    def get(r):
        r = rn(r)
        if r not in reg:
            raise EmuError("register %s read before it is written" % r)
        return reg[r]

    def data(r):
        v = get(r)
        if not isinstance(v, np.ndarray):
            raise EmuError("pointer register %s used as data" % r)
        return v

    def put(r, v):
        r = rn(r)
        reg[r] = v
        if r == "a1":
            if not isinstance(v, int):
                raise EmuError("stack pointer loaded with data")
            mem.set_sp(v)

    pc, steps = labels[entry], 0
    while True:
        if pc >= len(prog):
            raise EmuError("fell off the end of the program")
        op, a = prog[pc]
        pc += 1
        steps += 1
        if steps > 400000:
            raise EmuError("too many steps")
        if op.endswith(".n"):
            op = op[:-2]
        if op == "entry":
            if not windowed:
                raise EmuError("entry instruction in the call0 variant")
            put(a[0], get(a[0]) - int(a[1], 0))
        elif op == "addi":
            v = get(a[1])
            if isinstance(v, int):
                put(a[0], v + int(a[2], 0))
            else:
                put(a[0], v + U32(int(a[2], 0) & 0xffffffff))
        elif op in ("l32i",):
            base = get(a[1])
            if not isinstance(base, int):
                raise EmuError("load through a data register")
            ad = base + int(a[2], 0)
            if ad in mem.ptrcells and (ad, 4) not in mem.cells:
                mem._check(ad, 4, False, ",".join(a))
                put(a[0], mem.ptrcells[ad])
            else:
                put(a[0], mem.load(ad, 4, ",".join(a)))
        elif op in ("s32i",):
            base = get(a[1])
            if not isinstance(base, int):
                raise EmuError("store through a data register")
            ad = base + int(a[2], 0)
            v = get(a[0])
            if isinstance(v, np.ndarray):
                mem.ptrcells.pop(ad, None)
                mem.store(ad, v, 4, ",".join(a))
            else:
                mem._check(ad, 4, True, ",".join(a))
                mem.cells.pop((ad, 4), None)
                mem.ptrcells[ad] = v
        elif op == "movi":
            put(a[0], np.full(N, int(a[1], 0) & 0xffffffff, U32))
        elif op == "mov":
            v = get(a[1])
            put(a[0], v.copy() if isinstance(v, np.ndarray) else v)
        elif op == "xor":
            put(a[0], data(a[1]) ^ data(a[2]))
        elif op == "and":
            put(a[0], data(a[1]) & data(a[2]))
        elif op == "or":
            put(a[0], data(a[1]) | data(a[2]))
        elif op == "ssai":
            sar[0] = int(a[0], 0)
        elif op == "src":
            if sar[0] is None:
                raise EmuError("src without ssai")
            n = sar[0]
            hi, lo = data(a[1]).astype(U64), data(a[2]).astype(U64)
            put(a[0], (((hi << U64(32)) | lo) >> U64(n)).astype(U32))
        elif op in ("beqi", "beq", "beqz", "bnez", "bnei", "bne"):
            x = data(a[0])
            if op in ("beqi", "bnei"):
                y = np.full(N, int(a[1], 0) & 0xffffffff, U32); target = a[2]
            elif op in ("beqz", "bnez"):
                y = np.zeros(N, U32); target = a[1]
            else:
                y = data(a[1]); target = a[2]
            r = (x == y) if op.startswith("beq") else (x != y)
            if not (r.all() or (~r).all()):
                raise EmuError("branch depends on the state")
            if r.all():
                pc = labels[target]
        elif op == "j":
            pc = labels[a[0]]
        elif op in ("ret", "retw"):
            if (op == "retw") != windowed:
                raise EmuError("%s in the wrong ABI variant" % op)
            break
        else:
            raise EmuError("unknown instruction " + op)
    problems = list(mem.violations)
    for r, v in sent.items():
        cur = reg.get(r)
        if not isinstance(cur, np.ndarray) or not (cur == v).all():
            problems.append("callee-saved register %s not restored" % r)
    if not windowed:
        if reg.get("a1") != SP0:
            problems.append("stack pointer not restored (entry%+d)" % (reg.get("a1", 0) - SP0))
        if reg.get("a0") != RET:
            problems.append("return address register a0 modified")
    else:
        if reg.get("a1") != SP0 - 32:
            problems.append("windowed frame pointer changed after entry")
    out = np.stack([mem.cells[(STATE + 4 * i, 4)] for i in range(10)])
    return out, steps, problems


def run(rep, variant, X, tier):
    total = 0
    for name, defs, windowed in (("call0", ["__XTENSA__", "__XTENSA_CALL0_ABI__"], False), ("windowed", ["__XTENSA__", "__XTENSA_WINDOWED_ABI__"], True)):
        text = preprocess("core/ascon-asm-xtensa.S", defs)
        prog, labels = parse(text, comment_chars=("#",))
        if "ascon_permute" not in labels or len(prog) < 100:
            rep.fail("no-code", "ascon-asm-xtensa.S does not produce an ascon_permute function (%s)" % name)
            return
        words = to_words64_le(list(X))
        for fr in range(12):
            try:
                out, steps, problems = run_one(prog, labels, words, fr, windowed)
            except EmuError as e:
                rep.fail("execution:" + name, "first_round=%d: %s" % (fr, e))
                continue
            exp = to_words64_le(refperm(list(X), fr))
            bad = np.nonzero((out != exp).any(axis=0))[0]
            if len(bad):
                rep.fail("value:" + name, "first_round=%d: %d of %d states differ from the specification (first: state index %d)" % (fr, len(bad), X.shape[1], int(bad[0])))
            for pmsg in sorted(set(problems))[:4]:
                rep.fail("abi:" + name, "first_round=%d: %s" % (fr, pmsg))
            total += X.shape[1]
        total += second_entry(rep, labels, lambda: run_one(prog, labels, words, 0, windowed, entry="ascon_backend_free")[::2], words, ":" + name)
        print("SAMPLE emulated xtensa (%s ABI): %d instructions, %d states x 12 starting rounds" % (name, len(prog), X.shape[1]))
    rep.stat("evaluations", total)
    rep.stat("nontrivial", total)
