"""Memory / pointer model shared by the emulators."""
import numpy as np
from common import STATE, SP0, EmuError


class Mem:
    def __init__(self, n, wordsize, arg_bytes=0, extra_regions=(), state=(STATE, STATE + 40), sp0=SP0):
        self.state_lo, self.state_hi = state
        self.sp0 = sp0
        self.n = n
        self.ws = wordsize
        self.cells = {}
        self.sp = sp0
        self.low = sp0          # lowest stack pointer value reached
        self.arg_bytes = arg_bytes
        self.extra = list(extra_regions)   # (lo, hi, writable)
        self.reserved = []                 # (lo, hi, what): inside the stack range but not the function's to touch
        self.violations = []
        self.loads = self.stores = 0

    def set_sp(self, v):
        self.sp = v
        if v < self.low:
            self.low = v
        if v > self.sp0:
            self.violations.append("stack pointer raised above its entry value (%#x)" % v)

    def _check(self, addr, size, write, what):
        STATE, SP0 = self.state_lo, self.sp0
        for lo, hi, whatr in self.reserved:
            if addr < hi and lo < addr + size:
                self.violations.append("%s of %d bytes at %s inside %s (address=entry_sp%+d)" % ("store" if write else "load", size, what, whatr, addr - SP0))
                return
        if STATE <= addr and addr + size <= self.state_hi:
            return
        if self.sp <= addr and addr + size <= SP0:
            return
        if not write and SP0 <= addr and addr + size <= SP0 + self.arg_bytes:
            return
        for lo, hi, wr in self.extra:
            if lo <= addr and addr + size <= hi and (wr or not write):
                return
        where = "below the stack pointer" if addr < self.sp and addr >= SP0 - 0x10000 else "outside the state and the function's own frame"
        self.violations.append("%s of %d bytes at %s (%s; sp=entry%+d, address=%s)" % ("store" if write else "load", size, what, where, self.sp - SP0,
                               "state%+d" % (addr - STATE) if abs(addr - STATE) < 4096 else "entry_sp%+d" % (addr - SP0)))

    def load(self, addr, size=None, what=""):
        size = size or self.ws
        self._check(addr, size, False, what)
        self.loads += 1
        if addr % size:
            self.violations.append("misaligned %d-byte load at %s" % (size, what))
        c = self.cells.get((addr, size))
        if c is None:
            # reading memory that was never written: model as an unknown constant (same in all lanes)
            c = np.full(self.n, 0xDEADBEEFCAFEF00D & ((1 << (8 * size)) - 1), dtype={1: np.uint8, 2: np.uint16, 4: np.uint32, 8: np.uint64}[size])
        return c.copy()

    def store(self, addr, val, size=None, what=""):
        size = size or self.ws
        self._check(addr, size, True, what)
        self.stores += 1
        self.cells[(addr, size)] = val.copy()
