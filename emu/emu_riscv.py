"""RV32I / RV32E / RV64I text-level emulator for src/core/ascon-asm-riscv*.S"""
import re, sys, numpy as np
from common import *
from machine import Mem

CALLEE_SAVED = ["s0", "s1", "s2", "s3", "s4", "s5", "s6", "s7", "s8", "s9", "s10", "s11", "ra", "gp", "tp"]
RV32E_REGS = {"zero", "x0", "ra", "sp", "gp", "tp", "t0", "t1", "t2", "s0", "s1", "a0", "a1", "a2", "a3", "a4", "a5"}


def run_one(prog, labels, words, first_round, xlen, rv32e, entry="ascon_permute"):
    T = U32 if xlen == 32 else U64
    ws = xlen // 8
    N = words.shape[1]
    mem = Mem(N, ws)
    nw = 40 // ws
    for i in range(nw):
        mem.cells[(STATE + ws * i, ws)] = words[i].copy()
    reg, ptr = {}, {"a0": STATE, "sp": SP0}
    sent = {}
    for i, r in enumerate(CALLEE_SAVED):
        if rv32e and r not in RV32E_REGS:
            continue
        sent[r] = np.full(N, (0xA5A50000 + i) & ((1 << xlen) - 1), T)
    reg.update({k: v.copy() for k, v in sent.items()})
    reg["a1"] = np.full(N, first_round, T)

    def get(r):
        if r in ("x0", "zero"):
            return np.zeros(N, T)
        if rv32e and r not in RV32E_REGS:
            raise EmuError("register %s does not exist on RV32E" % r)
        if r in ptr:
            raise EmuError("pointer register %s used as data" % r)
        if r not in reg:
            raise EmuError("read of register %s before it is written" % r)
        return reg[r]

    def put(r, v):
        if rv32e and r not in RV32E_REGS:
            raise EmuError("register %s does not exist on RV32E" % r)
        ptr.pop(r, None)
        reg[r] = v

    def addr(a):
        m = re.match(r"^(-?\d*)\((\w+)\)$", a)
        if not m or m.group(2) not in ptr:
            raise EmuError("memory operand %s does not use a known pointer" % a)
        return ptr[m.group(2)] + int(m.group(1) or 0)

    def imm(s):
        return int(s, 0)
    pc, steps = labels[entry], 0
    mask = (1 << xlen) - 1
    while True:
        if pc >= len(prog):
            raise EmuError("fell off the end of the program")
        op, a = prog[pc]
        pc += 1
        steps += 1
        if steps > 200000:
            raise EmuError("too many steps")
        if op == "ret":
            break
        elif op == "addi":
            if a[1] in ptr:
                v = ptr[a[1]] + imm(a[2])
                reg.pop(a[0], None)
                ptr[a[0]] = v
                if a[0] == "sp":
                    mem.set_sp(v)
            else:
                put(a[0], get(a[1]) + T(imm(a[2]) & mask))
        elif op in ("lw", "ld"):
            sz = 4 if op == "lw" else 8
            v = mem.load(addr(a[1]), sz, a[1])
            put(a[0], v.astype(T) if sz == ws else v.astype(np.int32).astype(np.int64).astype(T))
        elif op in ("sw", "sd"):
            sz = 4 if op == "sw" else 8
            v = get(a[0])
            mem.store(addr(a[1]), v.astype(U32) if sz == 4 else v, sz, a[1])
        elif op == "li":
            put(a[0], np.full(N, imm(a[1]) & mask, T))
        elif op == "mv":
            if a[1] in ptr:
                reg.pop(a[0], None); ptr[a[0]] = ptr[a[1]]
            else:
                put(a[0], get(a[1]).copy())
        elif op == "not":
            put(a[0], ~get(a[1]))
        elif op == "xor":
            put(a[0], get(a[1]) ^ get(a[2]))
        elif op == "and":
            put(a[0], get(a[1]) & get(a[2]))
        elif op == "or":
            put(a[0], get(a[1]) | get(a[2]))
        elif op == "xori":
            put(a[0], get(a[1]) ^ T(imm(a[2]) & mask))
        elif op == "srli":
            put(a[0], get(a[1]) >> T(imm(a[2])))
        elif op == "slli":
            put(a[0], get(a[1]) << T(imm(a[2])))
        elif op == "beq":
            x, y = get(a[0]), get(a[1])
            eq = x == y
            if not (eq.all() or (~eq).all()):
                raise EmuError("branch depends on the state (beq %s,%s)" % (a[0], a[1]))
            if eq.all():
                pc = labels[a[2]]
        elif op == "j":
            pc = labels[a[0]]
        else:
            raise EmuError("unknown instruction " + op)
    problems = list(mem.violations)
    for r, v in sent.items():
        if r in ptr or r not in reg or not (reg[r] == v).all():
            problems.append("callee-saved register %s not restored" % r)
    if ptr.get("sp") != SP0:
        problems.append("stack pointer not restored (entry%+d)" % (ptr.get("sp", 0) - SP0))
    out = np.stack([mem.cells[(STATE + ws * i, ws)] for i in range(nw)])
    return out, steps, problems, mem


def run(rep, variant, X, tier):
    relpath, defines, xlen, rv32e = {
        "riscv32i": ("core/ascon-asm-riscv32i.S", ["__riscv", "__riscv_xlen=32"], 32, False),
        "riscv32e": ("core/ascon-asm-riscv32e.S", ["__riscv", "__riscv_xlen=32", "__riscv_32e"], 32, True),
        "riscv64i": ("core/ascon-asm-riscv64i.S", ["__riscv", "__riscv_xlen=64"], 64, False),
    }[variant]
    text = preprocess(relpath, defines)
    prog, labels = parse(text, comment_chars=("#",))
    prog = [(op, [re.sub(r"\bfp\b", "s0", x) for x in a]) for op, a in prog]      # fp is the ABI alias of s0
    if "ascon_permute" not in labels or len(prog) < 100:
        rep.fail("no-code", "%s does not assemble to an ascon_permute function under %s" % (relpath, defines))
        return
    words = to_sliced32(list(X)) if xlen == 32 else np.stack(list(X))
    total = 0
    for fr in range(12):
        try:
            out, steps, problems, mem = run_one(prog, labels, words, fr, xlen, rv32e)
        except EmuError as e:
            rep.fail("execution", "first_round=%d: %s" % (fr, e))
            continue
        Y = refperm(list(X), fr)
        exp = to_sliced32(Y) if xlen == 32 else np.stack(Y)
        bad = np.nonzero((out != exp).any(axis=0))[0]
        if len(bad):
            rep.fail("value", "first_round=%d: %d of %d states differ from the specification (first: state index %d)" % (fr, len(bad), X.shape[1], int(bad[0])))
        for pmsg in sorted(set(problems))[:4]:
            rep.fail("abi", "first_round=%d: %s" % (fr, pmsg))
        total += X.shape[1]
    total += second_entry(rep, labels, lambda: run_one(prog, labels, words, 0, xlen, rv32e, entry="ascon_backend_free")[::2], words)
    rep.stat("evaluations", total)
    rep.stat("nontrivial", total)
    print("SAMPLE emulated %s: %d instructions, %d states x 12 starting rounds, callee-saved registers / sp / load-store bounds checked" % (variant, len(prog), X.shape[1]))
