"""AVR5 text-level emulator (8-bit registers, carry and T flags as per-lane vectors) for src/core/ascon-asm-avr5.S
and the masked x2/x3 variants."""
import re, numpy as np
from common import *
from machine import Mem

CALL_SAVED = [2, 3, 4, 5, 6, 7, 8, 9, 10, 11, 12, 13, 14, 15, 16, 17, 28, 29]


class Avr:
    STATE_BASE = 0x0400          # AVR data addresses are 16 bits
    SP_ENTRY = 0x2100            # modelled as real SP + 1 (address of the last pushed byte)

    def __init__(self, prog, labels, N, extra_regions=(), state_size=40):
        self.prog, self.labels, self.N = prog, labels, N
        self.mem = Mem(N, 1, extra_regions=extra_regions, state=(self.STATE_BASE, self.STATE_BASE + state_size), sp0=self.SP_ENTRY)
        self.mem.ptrbytes = {}
        self.pending_sub = None
        self.reg = {}
        self.C = np.zeros(N, U8)
        self.T = np.zeros(N, U8)
        self.Z = np.zeros(N, bool)      # zero flag of the last flag-setting instruction (lane vector)
        self.sent = {}
        for r in CALL_SAVED:
            self.sent[r] = np.full(N, (0xA0 + r) & 0xff, U8)
            self.reg[r] = self.sent[r].copy()
        self.reg[1] = np.zeros(N, U8)
        self.steps = 0

    def setptr(self, lo, addr):
        self.reg[lo] = ("lo", addr)
        self.reg[lo + 1] = ("hi", addr)

    def r(self, s):
        s = s.strip().lower()
        m = re.match(r"^r(\d+)$", s)
        if not m:
            raise EmuError("bad register " + s)
        return int(m.group(1))

    def get(self, n):
        if n not in self.reg:
            raise EmuError("register r%d read before it is written" % n)
        v = self.reg[n]
        if not isinstance(v, np.ndarray):
            raise EmuError("pointer half r%d used as data" % n)
        return v

    def pair(self, lo):
        a, b = self.reg.get(lo), self.reg.get(lo + 1)
        if isinstance(a, tuple) and isinstance(b, tuple) and a[0] == "lo" and b[0] == "hi" and a[1] == b[1]:
            return a[1]
        raise EmuError("r%d:r%d does not hold a pointer" % (lo + 1, lo))

    def ptr_operand(self, s):
        """'Z+12', 'Z', 'Y+3', 'X', 'X+', '-X' -> (address, post_increment_register or None)"""
        s = s.strip().upper()
        m = re.match(r"^(-?)([XYZ])(\+?)(\d*)$", s)
        if not m:
            raise EmuError("unsupported memory operand " + s)
        lo = {"X": 26, "Y": 28, "Z": 30}[m.group(2)]
        base = self.pair(lo)
        if m.group(1) == "-":
            self.setptr(lo, base - 1)
            return base - 1
        if m.group(3) == "+" and m.group(4) == "":
            self.setptr(lo, base + 1)
            return base
        return base + (int(m.group(4)) if m.group(4) else 0)

    def local_label(self, name, pc):
        m = re.match(r"^(\d+)([bf])$", name)
        if not m:
            return self.labels[name]
        cands = [i for (n, i) in self.numeric if n == m.group(1) and ((i <= pc - 1) if m.group(2) == "b" else (i >= pc))]
        if not cands:
            raise EmuError("local label %s not found" % name)
        return max(cands) if m.group(2) == "b" else min(cands)

    def uniform(self, v, what):
        if not (v == v[0]).all():
            raise EmuError("%s depends on the state" % what)
        return int(v[0])

    def run(self, entry):
        pc = self.labels[entry]
        P = self.prog
        g, N = self.get, self.N
        while True:
            if pc >= len(P):
                raise EmuError("fell off the end of the program")
            op, a = P[pc]
            pc += 1
            self.steps += 1
            if self.steps > 3000000:
                raise EmuError("too many steps")
            # interrupt flag: enabled on entry; cli clears it; writing the saved SREG back re-enables it after one more instruction.
            # While only one half of the stack pointer has been written, SP points outside the frame: an interrupt taken then would
            # push into the callers' frames, so the two writes must sit inside the cli ... restore-SREG bracket (avr-gcc's own idiom).
            if getattr(self, "irestore", 0) > 0:
                self.irestore -= 1
                if self.irestore == 0:
                    self.iflag = 1
            if getattr(self, "new_sph", None) is not None and getattr(self, "iflag", 1) == 1 and op != "out":
                self.mem.violations.append("the stack pointer is half-written while interrupts are enabled (an interrupt here pushes outside the function's frame)")
            if op == "push":
                self.mem.set_sp(self.mem.sp - 1)
                v = self.reg.get(self.r(a[0]))
                if isinstance(v, np.ndarray):
                    self.mem.ptrbytes.pop(self.mem.sp, None)
                    self.mem.store(self.mem.sp, v, 1, "push")
                else:
                    self.mem._check(self.mem.sp, 1, True, "push")
                    self.mem.cells.pop((self.mem.sp, 1), None)
                    self.mem.ptrbytes[self.mem.sp] = v
            elif op == "pop":
                ad = self.mem.sp
                if ad in self.mem.ptrbytes and (ad, 1) not in self.mem.cells:
                    self.reg[self.r(a[0])] = self.mem.ptrbytes[ad]
                else:
                    self.reg[self.r(a[0])] = self.mem.load(ad, 1, "pop")
                self.mem.set_sp(ad + 1)
            elif op == "movw":
                d, s = self.r(a[0]), self.r(a[1])
                for k in (0, 1):
                    v = self.reg[s + k]
                    self.reg[d + k] = v.copy() if isinstance(v, np.ndarray) else v
            elif op == "mov":
                v = self.reg[self.r(a[1])]
                self.reg[self.r(a[0])] = v.copy() if isinstance(v, np.ndarray) else v
            elif op == "ldi":
                self.reg[self.r(a[0])] = np.full(N, int(a[1], 0) & 0xff, U8)
            elif op in ("eor", "or", "and"):
                d = self.r(a[0])
                x, y = g(d), g(self.r(a[1]))
                self.reg[d] = x ^ y if op == "eor" else x | y if op == "or" else x & y
                self.Z = self.reg[d] == 0
            elif op in ("ori", "andi"):
                d = self.r(a[0]); k = U8(int(a[1], 0) & 0xff)
                self.reg[d] = g(d) | k if op == "ori" else g(d) & k
            elif op == "com":
                d = self.r(a[0]); self.reg[d] = ~g(d); self.C = np.ones(N, U8)
            elif op == "swap":
                d = self.r(a[0]); v = g(d); self.reg[d] = (v << U8(4)) | (v >> U8(4))
            elif op in ("subi", "sbci") and isinstance(self.reg.get(self.r(a[0])), tuple):
                d = self.r(a[0]); k = int(a[1], 0) & 0xff
                if op == "subi":
                    if self.reg[d][0] != "lo":
                        raise EmuError("subi on the high half of a pointer")
                    self.pending_sub = (d, k)
                else:
                    if self.pending_sub is None or self.pending_sub[0] != d - 1:
                        raise EmuError("sbci on a pointer half without the matching subi")
                    lo = d - 1
                    self.setptr(lo, (self.pair(lo) - ((k << 8) | self.pending_sub[1])) & 0xffff)
                    self.pending_sub = None
            elif op == "sbc" and isinstance(self.reg.get(self.r(a[0])), tuple):
                d = self.r(a[0]); y = g(self.r(a[1]))
                if y.any() or self.pending_sub is None or self.pending_sub[0] != d - 1:
                    raise EmuError("sbc on a pointer half is only understood as 'sbc hi, zero' after subi lo")
                self.setptr(d - 1, (self.pair(d - 1) - self.pending_sub[1]) & 0xffff)
                self.pending_sub = None
            elif op == "in":
                d = self.r(a[0]); port = int(a[1], 0)
                if port == 0x3d:
                    self.reg[d] = ("lo", self.mem.sp - 1)
                elif port == 0x3e:
                    self.reg[d] = ("hi", self.mem.sp - 1)
                elif port == 0x3f:
                    self.reg[d] = ("sreg",)
                else:
                    raise EmuError("in from unsupported port %#x" % port)
            elif op == "out":
                port = int(a[0], 0); v = self.reg.get(self.r(a[1]))
                if port == 0x3d:
                    if not (isinstance(v, tuple) and v[0] == "lo"):
                        raise EmuError("SPL written with a non-pointer")
                    self.new_spl = v[1]
                    if getattr(self, "new_sph", None) == v[1]:
                        self.mem.set_sp(v[1] + 1); self.new_sph = None
                elif port == 0x3e:
                    if not (isinstance(v, tuple) and v[0] == "hi"):
                        raise EmuError("SPH written with a non-pointer")
                    self.new_sph = v[1]
                    if getattr(self, "iflag", 1) == 1:
                        self.mem.violations.append("SPH written with interrupts enabled: until SPL follows, the stack pointer is outside the function's frame")
                elif port == 0x3f:
                    if v != ("sreg",):
                        raise EmuError("SREG restored from a register that does not hold the saved SREG")
                    self.irestore = 2      # takes effect after the next instruction
                else:
                    raise EmuError("out to unsupported port %#x" % port)
            elif op == "cli":
                self.iflag = 0; self.irestore = 0
            elif op in ("sub", "subi", "add", "adc", "sbc", "sbci", "inc", "dec"):
                d = self.r(a[0]); x = g(d).astype(np.int32)
                if op in ("subi", "sbci"):
                    y = np.full(N, int(a[1], 0) & 0xff, np.int32)
                elif op in ("inc", "dec"):
                    y = np.ones(N, np.int32)
                else:
                    y = g(self.r(a[1])).astype(np.int32)
                c = self.C.astype(np.int32)
                if op in ("sub", "subi", "dec"):
                    res = x - y
                elif op in ("sbc", "sbci"):
                    res = x - y - c
                elif op in ("add", "inc"):
                    res = x + y
                else:
                    res = x + y + c
                if op not in ("inc", "dec"):
                    self.C = ((res < 0) | (res > 255)).astype(U8)
                self.reg[d] = (res & 0xff).astype(U8)
                self.Z = self.reg[d] == 0
            elif op in ("lsl", "rol", "lsr", "ror"):
                d = self.r(a[0]); v = g(d)
                if op == "lsl":
                    newc = v >> U8(7); self.reg[d] = v << U8(1)
                elif op == "rol":
                    newc = v >> U8(7); self.reg[d] = (v << U8(1)) | self.C
                elif op == "lsr":
                    newc = v & U8(1); self.reg[d] = v >> U8(1)
                else:
                    newc = v & U8(1); self.reg[d] = (v >> U8(1)) | (self.C << U8(7))
                self.C = newc
            elif op == "bst":
                self.T = (g(self.r(a[0])) >> U8(int(a[1]))) & U8(1)
            elif op == "bld":
                d = self.r(a[0]); b = int(a[1])
                self.reg[d] = (g(d) & U8(~(1 << b) & 0xff)) | (self.T << U8(b))
            elif op in ("ldd", "ld"):
                ad = self.ptr_operand(a[1])
                if ad in self.mem.ptrbytes and (ad, 1) not in self.mem.cells:
                    self.mem._check(ad, 1, False, a[1])
                    self.reg[self.r(a[0])] = self.mem.ptrbytes[ad]
                else:
                    self.reg[self.r(a[0])] = self.mem.load(ad, 1, a[1])
            elif op in ("std", "st"):
                ad = self.ptr_operand(a[0])
                v = self.reg.get(self.r(a[1]))
                if isinstance(v, np.ndarray):
                    self.mem.ptrbytes.pop(ad, None)
                    self.mem.store(ad, v, 1, a[0])
                else:
                    self.mem._check(ad, 1, True, a[0])
                    self.mem.cells.pop((ad, 1), None)
                    self.mem.ptrbytes[ad] = v
            elif op in ("adiw", "sbiw"):
                lo = self.r(a[0]); k = int(a[1], 0)
                self.setptr(lo, self.pair(lo) + (k if op == "adiw" else -k))
            elif op == "cpse":
                x, y = g(self.r(a[0])), g(self.r(a[1]))
                eq = x == y
                if not (eq.all() or (~eq).all()):
                    raise EmuError("cpse depends on the state")
                if eq.all():
                    pc += 1
            elif op in ("cp", "cpi"):
                x = g(self.r(a[0])).astype(np.int32)
                y = np.full(N, int(a[1], 0) & 0xff, np.int32) if op == "cpi" else g(self.r(a[1])).astype(np.int32)
                self.Z = (x - y) == 0
                self.C = ((x - y) < 0).astype(U8)
            elif op in ("breq", "brne"):
                z = self.Z
                if not (z.all() or (~z).all()):
                    raise EmuError("branch depends on the state")
                if bool(z.all()) == (op == "breq"):
                    pc = self.local_label(a[0], pc)
            elif op in ("rjmp", "jmp"):
                pc = self.local_label(a[0], pc)
            elif op == "ret":
                return
            elif op == "nop":
                pass
            else:
                raise EmuError("unknown instruction " + op)


def parse_avr(text):
    prog, labels, numeric = [], {}, []
    for raw in text.splitlines():
        l = re.sub(r";.*$", "", raw).strip()
        if not l:
            continue
        m = re.match(r"^([.\w$]+):\s*(.*)$", l)
        if m:
            if m.group(1).isdigit():
                numeric.append((m.group(1), len(prog)))
            else:
                labels[m.group(1)] = len(prog)
            l = m.group(2).strip()
            if not l:
                continue
        if l.startswith(".") or re.match(r"^\.?L\w*\s*=", l):
            continue
        parts = l.split(None, 1)
        prog.append((parts[0].lower(), split_args(parts[1]) if len(parts) > 1 else []))
    return prog, labels, numeric


def finish_checks(m, problems):
    for r, v in m.sent.items():
        cur = m.reg.get(r)
        if not isinstance(cur, np.ndarray) or not (cur == v).all():
            problems.append("call-saved register r%d not restored" % r)
    z = m.reg.get(1)
    if not isinstance(z, np.ndarray) or z.any():
        problems.append("zero register r1 is not zero on return")
    if m.mem.sp != m.SP_ENTRY:
        problems.append("stack pointer not restored (entry%+d)" % (m.mem.sp - m.SP_ENTRY))


def run(rep, variant, X, tier):
    text = preprocess("core/ascon-asm-avr5.S", ["__AVR__", "__AVR_ARCH__=5"])
    prog, labels, numeric = parse_avr(text)
    if "ascon_permute" not in labels or len(prog) < 100:
        rep.fail("no-code", "ascon-asm-avr5.S does not produce an ascon_permute function")
        return
    B = to_bytes_be(list(X))
    total = 0
    for fr in range(12):
        try:
            m = Avr(prog, labels, X.shape[1]); m.numeric = numeric
            STATE = m.STATE_BASE
            for i in range(40):
                m.mem.cells[(STATE + i, 1)] = B[i].copy()
            m.setptr(24, STATE)
            m.reg[22] = np.full(X.shape[1], fr, U8)
            m.run("ascon_permute")
            out = np.stack([m.mem.cells[(STATE + i, 1)] for i in range(40)])
        except EmuError as e:
            rep.fail("execution", "first_round=%d: %s" % (fr, e))
            continue
        exp = to_bytes_be(refperm(list(X), fr))
        bad = np.nonzero((out != exp).any(axis=0))[0]
        if len(bad):
            rep.fail("value", "first_round=%d: %d of %d states differ from the specification (first: state index %d)" % (fr, len(bad), X.shape[1], int(bad[0])))
        problems = list(m.mem.violations)
        finish_checks(m, problems)
        for pmsg in sorted(set(problems))[:4]:
            rep.fail("abi", "first_round=%d: %s" % (fr, pmsg))
        total += X.shape[1]
    def free_call():
        m = Avr(prog, labels, X.shape[1]); m.numeric = numeric
        STATE = m.STATE_BASE
        for i in range(40):
            m.mem.cells[(STATE + i, 1)] = B[i].copy()
        m.setptr(24, STATE)
        m.run("ascon_backend_free")
        out = np.stack([m.mem.cells[(STATE + i, 1)] for i in range(40)])
        problems = list(m.mem.violations)
        finish_checks(m, problems)
        return out, problems
    total += second_entry(rep, labels, free_call, B)
    rep.stat("evaluations", total)
    rep.stat("nontrivial", total)
    print("SAMPLE emulated avr5: %d instructions, %d states x 12 starting rounds, r2-r17/r28/r29/r1/SP and load-store bounds checked" % (len(prog), X.shape[1]))


def run_masked(rep, variant, X, tier):
    shares = 2 if variant.endswith("x2") else 3
    total = 0
    for max_shares in ((2, 3) if shares == 2 else (3,)):
        name = "x%d-max%d" % (shares, max_shares)
        text = preprocess("masking/ascon-x%d-asm-avr5.S" % shares, ["__AVR__", "__AVR_ARCH__=5", "ASCON_MASKED_MAX_SHARES=%d" % max_shares])
        prog, labels, numeric = parse_avr(text)
        entry = "ascon_x%d_permute" % shares
        if entry not in labels or len(prog) < 100:
            rep.fail("no-code:" + name, "ascon-x%d-asm-avr5.S does not produce %s with MAX_SHARES=%d" % (shares, entry, max_shares))
            continue
        N = X.shape[1]
        B = to_bytes_be(list(X))
        stride = 8 * max_shares
        size = 5 * stride
        rng = np.random.RandomState(777 + shares)
        PRES = 0x0800
        for fr in range(12):
            try:
                m = Avr(prog, labels, N, extra_regions=[(PRES, PRES + 8 * (shares - 1), True)], state_size=size)
                m.numeric = numeric
                S = m.STATE_BASE
                masks = []
                for w in range(5):
                    acc = [B[8 * w + b].copy() for b in range(8)]
                    for k in range(1, shares):
                        for b in range(8):
                            r = rng.randint(0, 256, size=N).astype(U8)
                            m.mem.cells[(S + w * stride + 8 * k + b, 1)] = r
                            acc[b] = acc[b] ^ r
                    for b in range(8):
                        m.mem.cells[(S + w * stride + b, 1)] = acc[b]
                    for k in range(shares, max_shares):
                        for b in range(8):
                            m.mem.cells[(S + w * stride + 8 * k + b, 1)] = np.full(N, 0xEE, U8)   # unused share slots: stale data
                for i in range(8 * (shares - 1)):
                    m.mem.cells[(PRES + i, 1)] = rng.randint(0, 256, size=N).astype(U8)
                m.setptr(24, S)
                m.reg[22] = np.full(N, fr, U8)
                m.setptr(20, PRES)
                m.run(entry)
                out = []
                for w in range(5):
                    for b in range(8):
                        v = m.mem.cells[(S + w * stride + b, 1)].copy()
                        for k in range(1, shares):
                            v ^= m.mem.cells[(S + w * stride + 8 * k + b, 1)]
                        out.append(v)
                out = np.stack(out)
            except EmuError as e:
                rep.fail("execution:" + name, "first_round=%d: %s" % (fr, e))
                continue
            exp = to_bytes_be(refperm(list(X), fr))
            bad = np.nonzero((out != exp).any(axis=0))[0]
            if len(bad):
                rep.fail("value:" + name, "first_round=%d: unmasked result differs from the specification for %d of %d states (first: state index %d)" % (fr, len(bad), N, int(bad[0])))
            problems = list(m.mem.violations)
            finish_checks(m, problems)
            for pmsg in sorted(set(problems))[:4]:
                rep.fail("abi:" + name, "first_round=%d: %s" % (fr, pmsg))
            total += N
        print("SAMPLE emulated avr5 masked %s: %d instructions, %d states x 12 starting rounds with random share splittings and random preserve words" % (name, len(prog), N))
    rep.stat("evaluations", total)
    rep.stat("nontrivial", total)
