/* refsum <h|a|x|y> <file>: prints the reference digest (32 bytes hex) of a file */
#include "ref.h"
#include <stdio.h>
#include <stdlib.h>
int main(int argc, char **argv)
{
    if (argc < 3) return 2;
    FILE *f = fopen(argv[2], "rb"); if (!f) return 2;
    size_t cap = 1 << 20, n = 0; unsigned char *b = malloc(cap);
    for (;;) { size_t r = fread(b + n, 1, cap - n, f); n += r; if (r == 0) break; if (n == cap) { cap *= 2; b = realloc(b, cap); } }
    unsigned char d[32];
    switch (argv[1][0]) { case 'h': ref_hash(0, b, n, d); break; case 'a': ref_hash(1, b, n, d); break; case 'x': ref_xof(0, b, n, d, 32); break; default: ref_xof(1, b, n, d, 32); }
    for (int i = 0; i < 32; i++) printf("%02x", d[i]);
    printf("\n");
    return 0;
}
