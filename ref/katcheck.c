/* Binds the reference model to the shipped KAT corpus: katcheck <type> <file>
 * prints "<ok> <total>" and exits 0 iff every record matches. */
#include "ref.h"
#include <stdio.h>
#include <stdlib.h>
#include <string.h>

typedef struct { uint8_t *p; size_t n; int present; } field;
static field F[8]; /* Key Nonce PT AD CT Msg MD/Tag Custom */
static const char *names[] = {"Key", "Nonce", "PT", "AD", "CT", "Msg", "MD", "Custom"};

static int hexv(int c) { if (c >= '0' && c <= '9') return c - '0'; c |= 32; if (c >= 'a' && c <= 'f') return c - 'a' + 10; return -1; }
static void setf(int i, const char *hex)
{
    size_t n = strlen(hex) / 2;
    free(F[i].p); F[i].p = malloc(n + 1); F[i].n = n; F[i].present = 1;
    for (size_t j = 0; j < n; j++) F[i].p[j] = (uint8_t)(hexv(hex[2 * j]) * 16 + hexv(hex[2 * j + 1]));
}

static int check(const char *type)
{
    size_t n; uint8_t *out; int ok = 0;
#define KEY F[0]
#define NONCE F[1]
#define PT F[2]
#define AD F[3]
#define CT F[4]
#define MSG F[5]
#define MD F[6]
#define CUSTOM F[7]
    if (!strncmp(type, "aead", 4) || !strncmp(type, "siv", 3) || !strncmp(type, "isap", 4)) {
        n = PT.n + 16; out = malloc(n + 1); uint8_t *pt = malloc(PT.n + 1);
        int alg = atoi(strchr(type, ':') + 1), r;
        if (!strncmp(type, "aead", 4)) { ref_aead_encrypt(alg, KEY.p, NONCE.p, AD.p, AD.n, PT.p, PT.n, out); r = ref_aead_decrypt(alg, KEY.p, NONCE.p, AD.p, AD.n, CT.p, CT.n, pt); }
        else if (!strncmp(type, "siv", 3)) { ref_siv_encrypt(alg, KEY.p, NONCE.p, AD.p, AD.n, PT.p, PT.n, out); r = ref_siv_decrypt(alg, KEY.p, NONCE.p, AD.p, AD.n, CT.p, CT.n, pt); }
        else { ref_isap_encrypt(alg, KEY.p, NONCE.p, AD.p, AD.n, PT.p, PT.n, out); r = ref_isap_decrypt(alg, KEY.p, NONCE.p, AD.p, AD.n, CT.p, CT.n, pt); }
        ok = CT.n == n && !memcmp(out, CT.p, n) && r == 0 && !memcmp(pt, PT.p, PT.n);
        free(out); free(pt); return ok;
    }
    n = MD.n; out = malloc(n + 1);
    if (!strcmp(type, "hash")) ref_hash(0, MSG.p, MSG.n, out);
    else if (!strcmp(type, "hasha")) ref_hash(1, MSG.p, MSG.n, out);
    else if (!strcmp(type, "xof")) ref_xof(0, MSG.p, MSG.n, out, n);
    else if (!strcmp(type, "xofa")) ref_xof(1, MSG.p, MSG.n, out, n);
    else if (!strcmp(type, "prf")) ref_prf(KEY.p, 0, MSG.p, MSG.n, out, n);
    else if (!strcmp(type, "mac")) ref_prf(KEY.p, 16, MSG.p, MSG.n, out, n);
    else if (!strcmp(type, "prfshort")) { if (ref_prf_short(KEY.p, MSG.p, MSG.n, out, n) != 0) return 0; }
    else if (!strcmp(type, "hmac")) ref_hmac(0, KEY.p, KEY.n, MSG.p, MSG.n, out);
    else if (!strcmp(type, "hmaca")) ref_hmac(1, KEY.p, KEY.n, MSG.p, MSG.n, out);
    else if (!strcmp(type, "kmac")) ref_kmac(0, KEY.p, KEY.n, MSG.p, MSG.n, CUSTOM.p, CUSTOM.n, out, n);
    else if (!strcmp(type, "kmaca")) ref_kmac(1, KEY.p, KEY.n, MSG.p, MSG.n, CUSTOM.p, CUSTOM.n, out, n);
    else { fprintf(stderr, "unknown type %s\n", type); exit(2); }
    ok = !memcmp(out, MD.p, n);
    free(out);
    return ok;
}

int main(int argc, char **argv)
{
    if (argc < 3) return 2;
    FILE *f = fopen(argv[2], "r"); if (!f) { perror(argv[2]); return 2; }
    static char line[1 << 20];
    long okc = 0, tot = 0; int have = 0;
    for (int i = 0; i < 8; i++) setf(i, "");
    for (;;) {
        char *l = fgets(line, sizeof line, f);
        int blank = 1;
        if (l) { for (char *q = l; *q; q++) if (*q != ' ' && *q != '\n' && *q != '\r') blank = 0; }
        if (!l || blank) {
            if (have) { tot++; okc += check(argv[1]); have = 0; for (int i = 0; i < 8; i++) setf(i, ""); }
            if (!l) break;
            continue;
        }
        char *eq = strchr(l, '='); if (!eq) continue;
        char *name = l; char *e = eq; while (e > name && (e[-1] == ' ')) e--; *e = 0;
        char *v = eq + 1; while (*v == ' ') v++;
        char *ve = v + strlen(v); while (ve > v && (ve[-1] == '\n' || ve[-1] == '\r' || ve[-1] == ' ')) ve--; *ve = 0;
        if (!strcmp(name, "Count")) { have = 1; continue; }
        if (!strcmp(name, "Tag")) name = (char *)"MD";
        for (int i = 0; i < 8; i++) if (!strcmp(name, names[i])) { setf(i, v); have = 1; }
    }
    printf("%ld %ld\n", okc, tot);
    return okc == tot && tot > 0 ? 0 : 1;
}
