/* refperm_cli: stdin lines "<first_round> <80 hex digits>" -> stdout the permuted state (table-S-box reference) */
#include "ref.h"
#include <stdio.h>
int main(void)
{
    int r; char hex[128];
    while (scanf("%d %100s", &r, hex) == 2) {
        uint8_t s[40];
        for (int i = 0; i < 40; i++) { unsigned v; sscanf(hex + 2 * i, "%2x", &v); s[i] = (uint8_t)v; }
        ref_permute(s, r);
        for (int i = 0; i < 40; i++) printf("%02x", s[i]);
        printf("\n");
    }
    return 0;
}
