/* Reference model; see ref.h.  No code shared with /repo. */
#include "ref.h"
#include <stdlib.h>
#include <string.h>

static const uint8_t SBOX[32] = {
    0x04, 0x0b, 0x1f, 0x14, 0x1a, 0x15, 0x09, 0x02, 0x1b, 0x05, 0x08, 0x12, 0x1d, 0x03, 0x06, 0x1c,
    0x1e, 0x13, 0x07, 0x0e, 0x00, 0x0d, 0x11, 0x18, 0x10, 0x0c, 0x01, 0x19, 0x16, 0x0a, 0x0f, 0x17};
static uint8_t SBOX_INV[32];
static int sbox_inv_ready;
static const int ROT[5][2] = {{19, 28}, {61, 39}, {1, 6}, {10, 17}, {7, 41}};

void (*ref_permute_override)(uint8_t s[40], int first_round);

static uint64_t ld(const uint8_t *p)
{
    uint64_t v = 0;
    for (int i = 0; i < 8; i++) v = (v << 8) | p[i];
    return v;
}
static void st(uint8_t *p, uint64_t v)
{
    for (int i = 7; i >= 0; i--) { p[i] = (uint8_t)v; v >>= 8; }
}
static uint64_t ror(uint64_t x, int n) { return (x >> n) | (x << (64 - n)); }

static void sub_layer(uint64_t x[5], const uint8_t *box)
{
    uint64_t y[5] = {0, 0, 0, 0, 0};
    for (int b = 0; b < 64; b++) {
        unsigned v = 0;
        for (int i = 0; i < 5; i++) v = (v << 1) | (unsigned)((x[i] >> b) & 1);
        unsigned w = box[v];
        for (int i = 0; i < 5; i++) y[i] |= (uint64_t)((w >> (4 - i)) & 1) << b;
    }
    memcpy(x, y, sizeof(y));
}

void ref_round(uint8_t s[40], int r)
{
    uint64_t x[5];
    for (int i = 0; i < 5; i++) x[i] = ld(s + 8 * i);
    x[2] ^= (uint64_t)(((0xf - r) << 4) | r);
    sub_layer(x, SBOX);
    for (int i = 0; i < 5; i++) x[i] = x[i] ^ ror(x[i], ROT[i][0]) ^ ror(x[i], ROT[i][1]);
    for (int i = 0; i < 5; i++) st(s + 8 * i, x[i]);
}

void ref_permute(uint8_t s[40], int first_round)
{
    if (ref_permute_override) { ref_permute_override(s, first_round); return; }
    for (int r = first_round; r < 12; r++) ref_round(s, r);
}

/* inverse linear layer: solve y = x ^ ror(x,a) ^ ror(x,b) by iterating the
 * map (it has odd order dividing 2^k - 1 on the circulant ring; simplest
 * boring way: Gaussian elimination is overkill, use the fact that the linear
 * map L satisfies L^(2^6) = identity on GF(2)[x]/(x^64+1) ... not true in
 * general), so do bit-level Gaussian elimination once per rotation pair. */
static uint64_t LINV[5][64]; /* LINV[i][j] = preimage of unit bit j under L_i */
static int linv_ready;
static void build_linv(void)
{
    for (int i = 0; i < 5; i++) {
        /* matrix rows: image of unit vectors; invert by elimination on [M | I] */
        uint64_t m[64], inv[64];
        for (int j = 0; j < 64; j++) {
            uint64_t e = (uint64_t)1 << j;
            m[j] = e ^ ror(e, ROT[i][0]) ^ ror(e, ROT[i][1]); /* image of e_j */
            inv[j] = e;
        }
        /* we have L(e_j) = m[j]; want for each unit u: x with L(x) = u.
         * Row-reduce the set {(m[j], inv[j])} treating m as vectors. */
        for (int col = 0; col < 64; col++) {
            int piv = -1;
            for (int r = col; r < 64; r++) if ((m[r] >> col) & 1) { piv = r; break; }
            if (piv < 0) abort();
            uint64_t t = m[piv]; m[piv] = m[col]; m[col] = t;
            t = inv[piv]; inv[piv] = inv[col]; inv[col] = t;
            for (int r = 0; r < 64; r++)
                if (r != col && ((m[r] >> col) & 1)) { m[r] ^= m[col]; inv[r] ^= inv[col]; }
        }
        for (int j = 0; j < 64; j++) LINV[i][j] = inv[j]; /* now m[j] == e_j */
    }
    linv_ready = 1;
}

void ref_permute_inverse(uint8_t s[40], int first_round)
{
    if (!sbox_inv_ready) { for (int i = 0; i < 32; i++) SBOX_INV[SBOX[i]] = (uint8_t)i; sbox_inv_ready = 1; }
    if (!linv_ready) build_linv();
    uint64_t x[5];
    for (int i = 0; i < 5; i++) x[i] = ld(s + 8 * i);
    for (int r = 11; r >= first_round; r--) {
        for (int i = 0; i < 5; i++) {
            uint64_t y = 0;
            for (int j = 0; j < 64; j++) if ((x[i] >> j) & 1) y ^= LINV[i][j];
            x[i] = y;
        }
        sub_layer(x, SBOX_INV);
        x[2] ^= (uint64_t)(((0xf - r) << 4) | r);
    }
    for (int i = 0; i < 5; i++) st(s + 8 * i, x[i]);
}

static void xorb(uint8_t *d, const uint8_t *s, size_t n) { for (size_t i = 0; i < n; i++) d[i] ^= s[i]; }

/* ---- AEAD ---------------------------------------------------------- */
static void aead_params(int alg, uint8_t iv[8], int *ivlen, int *rate, int *b)
{
    static const uint8_t iv128[8] = {0x80, 0x40, 0x0c, 0x06, 0, 0, 0, 0};
    static const uint8_t iv128a[8] = {0x80, 0x80, 0x0c, 0x08, 0, 0, 0, 0};
    static const uint8_t iv80[4] = {0xa0, 0x40, 0x0c, 0x06};
    if (alg == REF_128) { memcpy(iv, iv128, 8); *ivlen = 8; *rate = 8; *b = 6; }
    else if (alg == REF_128A) { memcpy(iv, iv128a, 8); *ivlen = 8; *rate = 16; *b = 8; }
    else { memcpy(iv, iv80, 4); *ivlen = 4; *rate = 8; *b = 6; }
}

static void aead_init(int alg, int ivor, const uint8_t *k, const uint8_t *n, uint8_t s[40])
{
    uint8_t iv[8]; int ivlen, rate, b, kl = ref_keylen(alg);
    aead_params(alg, iv, &ivlen, &rate, &b);
    iv[0] |= (uint8_t)ivor;
    memcpy(s, iv, ivlen); memcpy(s + ivlen, k, kl); memcpy(s + ivlen + kl, n, 16);
    ref_permute(s, 0);
    xorb(s + 40 - kl, k, kl);
}

static void aead_ad(int alg, uint8_t s[40], const uint8_t *ad, size_t adlen)
{
    uint8_t iv[8]; int ivlen, rate, b;
    aead_params(alg, iv, &ivlen, &rate, &b);
    if (adlen) {
        while (adlen >= (size_t)rate) { xorb(s, ad, rate); ref_permute(s, 12 - b); ad += rate; adlen -= rate; }
        xorb(s, ad, adlen); s[adlen] ^= 0x80; ref_permute(s, 12 - b);
    }
    s[39] ^= 1;
}

static void aead_final(int alg, uint8_t s[40], const uint8_t *k, uint8_t tag[16])
{
    int kl = ref_keylen(alg), rate = ref_rate(alg);
    xorb(s + rate, k, kl);
    ref_permute(s, 0);
    for (int i = 0; i < 16; i++) tag[i] = s[24 + i] ^ k[kl - 16 + i];
}

void ref_aead_encrypt(int alg, const uint8_t *k, const uint8_t *n, const uint8_t *ad, size_t adlen,
                      const uint8_t *m, size_t mlen, uint8_t *out)
{
    uint8_t s[40]; int rate = ref_rate(alg), b = alg == REF_128A ? 8 : 6;
    aead_init(alg, 0, k, n, s);
    aead_ad(alg, s, ad, adlen);
    while (mlen >= (size_t)rate) {
        xorb(s, m, rate); memcpy(out, s, rate); ref_permute(s, 12 - b);
        m += rate; out += rate; mlen -= rate;
    }
    xorb(s, m, mlen); memcpy(out, s, mlen); s[mlen] ^= 0x80; out += mlen;
    aead_final(alg, s, k, out);
}

int ref_aead_decrypt(int alg, const uint8_t *k, const uint8_t *n, const uint8_t *ad, size_t adlen,
                     const uint8_t *c, size_t clen, uint8_t *m)
{
    uint8_t s[40], tag[16]; int rate = ref_rate(alg), b = alg == REF_128A ? 8 : 6;
    if (clen < 16) return -1;
    size_t mlen = clen - 16, total = mlen; uint8_t *m0 = m;
    aead_init(alg, 0, k, n, s);
    aead_ad(alg, s, ad, adlen);
    while (mlen >= (size_t)rate) {
        for (int i = 0; i < rate; i++) { m[i] = s[i] ^ c[i]; s[i] = c[i]; }
        ref_permute(s, 12 - b);
        m += rate; c += rate; mlen -= rate;
    }
    for (size_t i = 0; i < mlen; i++) { m[i] = s[i] ^ c[i]; s[i] = c[i]; }
    s[mlen] ^= 0x80; c += mlen;
    aead_final(alg, s, k, tag);
    if (memcmp(tag, c, 16) != 0) { memset(m0, 0, total); return -1; }
    return 0;
}

/* ---- SIV ------------------------------------------------------------ */
static void siv_tag(int alg, const uint8_t *k, const uint8_t *n, const uint8_t *ad, size_t adlen,
                    const uint8_t *m, size_t mlen, uint8_t tag[16])
{
    uint8_t s[40]; int rate = ref_rate(alg), b = alg == REF_128A ? 8 : 6;
    aead_init(alg, 1, k, n, s);
    aead_ad(alg, s, ad, adlen);
    while (mlen >= (size_t)rate) { xorb(s, m, rate); ref_permute(s, 12 - b); m += rate; mlen -= rate; }
    xorb(s, m, mlen); s[mlen] ^= 0x80;
    aead_final(alg, s, k, tag);
}
static void siv_stream(int alg, const uint8_t *k, const uint8_t tag[16], const uint8_t *in, size_t len, uint8_t *out)
{
    uint8_t s[40]; int rate = ref_rate(alg), b = alg == REF_128A ? 8 : 6;
    aead_init(alg, 2, k, tag, s);
    while (len) {
        size_t t = len < (size_t)rate ? len : (size_t)rate;
        ref_permute(s, 12 - b);
        for (size_t i = 0; i < t; i++) out[i] = in[i] ^ s[i];
        in += t; out += t; len -= t;
    }
}
void ref_siv_encrypt(int alg, const uint8_t *k, const uint8_t *n, const uint8_t *ad, size_t adlen,
                     const uint8_t *m, size_t mlen, uint8_t *out)
{
    uint8_t tag[16];
    siv_tag(alg, k, n, ad, adlen, m, mlen, tag);
    siv_stream(alg, k, tag, m, mlen, out);
    memcpy(out + mlen, tag, 16);
}
int ref_siv_decrypt(int alg, const uint8_t *k, const uint8_t *n, const uint8_t *ad, size_t adlen,
                    const uint8_t *c, size_t clen, uint8_t *m)
{
    uint8_t tag[16];
    if (clen < 16) return -1;
    size_t mlen = clen - 16;
    siv_stream(alg, k, c + mlen, c, mlen, m);
    siv_tag(alg, k, n, ad, adlen, m, mlen, tag);
    if (memcmp(tag, c + mlen, 16) != 0) { memset(m, 0, mlen); return -1; }
    return 0;
}

/* ---- ISAP ----------------------------------------------------------- */
static void isap_params(int alg, int *sH, int *sB, int *sE, int *sK)
{
    if (alg == REF_ISAP_128A) { *sH = 12; *sB = 1; *sE = 6; *sK = 12; }
    else { *sH = 12; *sB = 12; *sE = 12; *sK = 12; }
}
static void isap_iv(int alg, int type, uint8_t iv[8])
{
    int sH, sB, sE, sK; isap_params(alg, &sH, &sB, &sE, &sK);
    iv[0] = (uint8_t)type; iv[1] = (uint8_t)(ref_isap_keylen(alg) * 8); iv[2] = 64; iv[3] = 1;
    iv[4] = (uint8_t)sH; iv[5] = (uint8_t)sB; iv[6] = (uint8_t)sE; iv[7] = (uint8_t)sK;
}
static void isap_pre(int alg, int type, const uint8_t *k, uint8_t s[40])
{
    int sH, sB, sE, sK, kl = ref_isap_keylen(alg); isap_params(alg, &sH, &sB, &sE, &sK);
    memset(s, 0, 40); memcpy(s, k, kl); isap_iv(alg, type, s + kl);
    ref_permute(s, 12 - sK);
}
void ref_isap_precompute(int alg, const uint8_t *k, uint8_t ke[40], uint8_t ka[40])
{
    isap_pre(alg, 3, k, ke); isap_pre(alg, 2, k, ka);
}
static void isap_rekey(int alg, int type, const uint8_t *k, const uint8_t *y, size_t ylen, uint8_t *out, size_t outlen)
{
    int sH, sB, sE, sK; uint8_t s[40]; isap_params(alg, &sH, &sB, &sE, &sK);
    isap_pre(alg, type, k, s);
    size_t nb = ylen * 8;
    for (size_t i = 0; i < nb; i++) {
        int bit = (y[i / 8] >> (7 - i % 8)) & 1;
        s[0] ^= (uint8_t)(bit << 7);
        ref_permute(s, 12 - (i < nb - 1 ? sB : sK));
    }
    memcpy(out, s, outlen);
}
static void isap_enc(int alg, const uint8_t *k, const uint8_t *n, const uint8_t *in, size_t len, uint8_t *out)
{
    int sH, sB, sE, sK; uint8_t s[40]; isap_params(alg, &sH, &sB, &sE, &sK);
    isap_rekey(alg, 3, k, n, 16, s, 24);
    memcpy(s + 24, n, 16);
    while (len) {
        size_t t = len < 8 ? len : 8;
        ref_permute(s, 12 - sE);
        for (size_t i = 0; i < t; i++) out[i] = in[i] ^ s[i];
        in += t; out += t; len -= t;
    }
}
static void isap_mac(int alg, const uint8_t *k, const uint8_t *n, const uint8_t *ad, size_t adlen,
                     const uint8_t *c, size_t clen, uint8_t tag[16])
{
    int sH, sB, sE, sK, kl = ref_isap_keylen(alg); uint8_t s[40], y[20], ka[20];
    isap_params(alg, &sH, &sB, &sE, &sK);
    memset(s, 0, 40); memcpy(s, n, 16); isap_iv(alg, 1, s + 16);
    ref_permute(s, 12 - sH);
    while (adlen >= 8) { xorb(s, ad, 8); ref_permute(s, 12 - sH); ad += 8; adlen -= 8; }
    xorb(s, ad, adlen); s[adlen] ^= 0x80; ref_permute(s, 12 - sH);
    s[39] ^= 1;
    while (clen >= 8) { xorb(s, c, 8); ref_permute(s, 12 - sH); c += 8; clen -= 8; }
    xorb(s, c, clen); s[clen] ^= 0x80; ref_permute(s, 12 - sH);
    memcpy(y, s, kl);
    isap_rekey(alg, 2, k, y, kl, ka, kl);
    memcpy(s, ka, kl);
    ref_permute(s, 12 - sH);
    memcpy(tag, s, 16);
}
void ref_isap_encrypt(int alg, const uint8_t *k, const uint8_t *n, const uint8_t *ad, size_t adlen,
                      const uint8_t *m, size_t mlen, uint8_t *out)
{
    isap_enc(alg, k, n, m, mlen, out);
    isap_mac(alg, k, n, ad, adlen, out, mlen, out + mlen);
}
int ref_isap_decrypt(int alg, const uint8_t *k, const uint8_t *n, const uint8_t *ad, size_t adlen,
                     const uint8_t *c, size_t clen, uint8_t *m)
{
    uint8_t tag[16];
    if (clen < 16) return -1;
    isap_mac(alg, k, n, ad, adlen, c, clen - 16, tag);
    if (memcmp(tag, c + clen - 16, 16) != 0) { memset(m, 0, clen - 16); return -1; }
    isap_enc(alg, k, n, c, clen - 16, m);
    return 0;
}

/* ---- hash / XOF / cXOF ------------------------------------------------ */
static void xof_iv(int a, size_t declared, uint8_t s[40])
{
    uint32_t bits = (declared == 0 || declared >= ((size_t)1 << 29)) ? 0 : (uint32_t)(declared * 8);
    memset(s, 0, 40);
    s[0] = 0x00; s[1] = 0x40; s[2] = 0x0c; s[3] = a ? 0x04 : 0x00;
    s[4] = (uint8_t)(bits >> 24); s[5] = (uint8_t)(bits >> 16); s[6] = (uint8_t)(bits >> 8); s[7] = (uint8_t)bits;
}
typedef struct { uint8_t s[40]; size_t pos; int b; } sponge;
static void sp_absorb(sponge *sp, const uint8_t *m, size_t n)
{
    for (size_t i = 0; i < n; i++) {
        sp->s[sp->pos++] ^= m[i];
        if (sp->pos == 8) { ref_permute(sp->s, 12 - sp->b); sp->pos = 0; }
    }
}
static void sp_pad_then(sponge *sp, int rounds)
{
    sp->s[sp->pos] ^= 0x80; ref_permute(sp->s, 12 - rounds); sp->pos = 0;
}
static void sp_squeeze(sponge *sp, uint8_t *out, size_t n)
{
    /* call after sp_pad_then(12) */
    size_t got = 0;
    while (got < n) {
        if (sp->pos == 8) { ref_permute(sp->s, 12 - sp->b); sp->pos = 0; }
        out[got++] = sp->s[sp->pos++];
    }
}
void ref_xof_fixed(int a, size_t declared, const uint8_t *m, size_t mlen, uint8_t *out, size_t outlen)
{
    sponge sp; sp.pos = 0; sp.b = a ? 8 : 12;
    xof_iv(a, declared, sp.s); ref_permute(sp.s, 0);
    sp_absorb(&sp, m, mlen); sp_pad_then(&sp, 12); sp_squeeze(&sp, out, outlen);
}
void ref_xof(int a, const uint8_t *m, size_t mlen, uint8_t *out, size_t outlen) { ref_xof_fixed(a, 0, m, mlen, out, outlen); }
void ref_hash(int a, const uint8_t *m, size_t mlen, uint8_t out[32]) { ref_xof_fixed(a, 32, m, mlen, out, 32); }

static void cxof_start(sponge *sp, int a, const uint8_t *name, size_t namelen, const uint8_t *custom, size_t customlen, size_t declared)
{
    sp->pos = 0; sp->b = a ? 8 : 12;
    xof_iv(a, declared, sp->s);
    if (namelen > 32) ref_hash(a, name, namelen, sp->s + 8);
    else if (namelen) memcpy(sp->s + 8, name, namelen);
    ref_permute(sp->s, 0);
    if (customlen) {
        sp_absorb(sp, custom, customlen);
        sp_pad_then(sp, sp->b);
        sp->s[39] ^= 1;
    }
}
void ref_cxof2(int a, const uint8_t *name, size_t namelen, const uint8_t *custom, size_t customlen,
               size_t declared, const uint8_t *m1, size_t m1len, const uint8_t *m2, size_t m2len,
               uint8_t *out, size_t outlen)
{
    sponge sp;
    cxof_start(&sp, a, name, namelen, custom, customlen, declared);
    sp_absorb(&sp, m1, m1len); sp_absorb(&sp, m2, m2len);
    sp_pad_then(&sp, 12); sp_squeeze(&sp, out, outlen);
}
void ref_cxof(int a, const uint8_t *name, size_t namelen, const uint8_t *custom, size_t customlen,
              size_t declared, const uint8_t *m, size_t mlen, uint8_t *out, size_t outlen)
{
    ref_cxof2(a, name, namelen, custom, customlen, declared, m, mlen, 0, 0, out, outlen);
}
void ref_kmac(int a, const uint8_t *k, size_t klen, const uint8_t *m, size_t mlen,
              const uint8_t *custom, size_t customlen, uint8_t *out, size_t outlen)
{
    ref_cxof2(a, (const uint8_t *)"KMAC", 4, custom, customlen, outlen, k, klen, m, mlen, out, outlen);
}
void ref_kdf(int a, const uint8_t *k, size_t klen, const uint8_t *custom, size_t customlen, uint8_t *out, size_t outlen)
{
    ref_cxof(a, (const uint8_t *)"KDF", 3, custom, customlen, outlen, k, klen, out, outlen);
}

/* ---- PRF ------------------------------------------------------------- */
void ref_prf(const uint8_t k[16], size_t declared, const uint8_t *m, size_t mlen, uint8_t *out, size_t outlen)
{
    uint8_t s[40]; uint32_t bits = (uint32_t)(declared * 8);
    memset(s, 0, 40);
    s[0] = 0x80; s[1] = 0x80; s[2] = 0x8c; s[3] = 0x00;
    s[4] = (uint8_t)(bits >> 24); s[5] = (uint8_t)(bits >> 16); s[6] = (uint8_t)(bits >> 8); s[7] = (uint8_t)bits;
    memcpy(s + 8, k, 16);
    ref_permute(s, 0);
    while (mlen >= 32) { xorb(s, m, 32); ref_permute(s, 0); m += 32; mlen -= 32; }
    xorb(s, m, mlen); s[mlen] ^= 0x80; s[39] ^= 1;
    size_t got = 0;
    while (got < outlen) {
        ref_permute(s, 0);
        size_t t = outlen - got < 16 ? outlen - got : 16;
        memcpy(out + got, s, t); got += t;
    }
}
int ref_prf_short(const uint8_t k[16], const uint8_t *m, size_t mlen, uint8_t *out, size_t outlen)
{
    uint8_t s[40];
    if (mlen > 16 || outlen > 16) return -1;
    memset(s, 0, 40);
    s[0] = 0x80; s[1] = (uint8_t)(mlen * 8); s[2] = 0x4c; s[3] = 0x80;
    memcpy(s + 8, k, 16); memcpy(s + 24, m, mlen);
    ref_permute(s, 0);
    for (size_t i = 0; i < outlen; i++) out[i] = s[24 + i] ^ k[i];
    return 0;
}

/* ---- HMAC / HKDF / PBKDF2 ---------------------------------------------- */
static void hash2(int a, const uint8_t *p1, size_t n1, const uint8_t *p2, size_t n2, uint8_t out[32])
{
    uint8_t *buf = malloc(n1 + n2 + 1);
    memcpy(buf, p1, n1); if (n2) memcpy(buf + n1, p2, n2);
    ref_hash(a, buf, n1 + n2, out);
    free(buf);
}
void ref_hmac(int a, const uint8_t *k, size_t klen, const uint8_t *m, size_t mlen, uint8_t out[32])
{
    uint8_t kb[64], pad[64], inner[32];
    memset(kb, 0, 64);
    if (klen > 64) ref_hash(a, k, klen, kb); else if (klen) memcpy(kb, k, klen);
    for (int i = 0; i < 64; i++) pad[i] = kb[i] ^ 0x36;
    hash2(a, pad, 64, m, mlen, inner);
    for (int i = 0; i < 64; i++) pad[i] = kb[i] ^ 0x5c;
    hash2(a, pad, 64, inner, 32, out);
}
void ref_hkdf_extract(int a, const uint8_t *key, size_t keylen, const uint8_t *salt, size_t saltlen, uint8_t prk[32])
{
    /* RFC 5869: PRK = HMAC(salt, IKM); absent salt = HashLen zeros (same HMAC value as empty salt) */
    ref_hmac(a, salt, saltlen, key, keylen, prk);
}
void ref_hkdf_stream(int a, const uint8_t prk[32], const uint8_t *info, size_t infolen, uint8_t *out, size_t outlen)
{
    uint8_t t[32]; size_t tlen = 0, got = 0; unsigned ctr = 1;
    uint8_t *buf = malloc(32 + infolen + 1);
    while (got < outlen) {
        memcpy(buf, t, tlen); if (infolen) memcpy(buf + tlen, info, infolen); buf[tlen + infolen] = (uint8_t)ctr++;
        ref_hmac(a, prk, 32, buf, tlen + infolen + 1, t); tlen = 32;
        size_t c = outlen - got < 32 ? outlen - got : 32;
        memcpy(out + got, t, c); got += c;
    }
    free(buf);
}
int ref_hkdf(int a, const uint8_t *key, size_t keylen, const uint8_t *salt, size_t saltlen,
             const uint8_t *info, size_t infolen, uint8_t *out, size_t outlen)
{
    uint8_t prk[32];
    if (outlen > 255 * 32) return -1;
    ref_hkdf_extract(a, key, keylen, salt, saltlen, prk);
    ref_hkdf_stream(a, prk, info, infolen, out, outlen);
    return 0;
}
static void pbkdf2_generic(int hmac, const uint8_t *pw, size_t pwlen, const uint8_t *salt, size_t saltlen,
                           unsigned long count, uint8_t *out, size_t outlen)
{
    uint8_t u[32], t[32]; uint32_t idx = 1; size_t got = 0;
    uint8_t *buf = malloc(saltlen + 4 + 32);
    if (count == 0) count = 1;
    while (got < outlen) {
        if (saltlen) memcpy(buf, salt, saltlen);
        buf[saltlen] = (uint8_t)(idx >> 24); buf[saltlen + 1] = (uint8_t)(idx >> 16);
        buf[saltlen + 2] = (uint8_t)(idx >> 8); buf[saltlen + 3] = (uint8_t)idx;
        if (hmac) ref_hmac(0, pw, pwlen, buf, saltlen + 4, u);
        else ref_cxof(0, (const uint8_t *)"PBKDF2", 6, pw, pwlen, 32, buf, saltlen + 4, u, 32);
        memcpy(t, u, 32);
        for (unsigned long c = 1; c < count; c++) {
            if (hmac) ref_hmac(0, pw, pwlen, u, 32, u);
            else { uint8_t v[32]; ref_cxof(0, (const uint8_t *)"PBKDF2", 6, pw, pwlen, 32, u, 32, v, 32); memcpy(u, v, 32); }
            xorb(t, u, 32);
        }
        size_t c2 = outlen - got < 32 ? outlen - got : 32;
        memcpy(out + got, t, c2); got += c2; idx++;
    }
    free(buf);
}
void ref_pbkdf2(const uint8_t *pw, size_t pwlen, const uint8_t *salt, size_t saltlen, unsigned long count, uint8_t *out, size_t outlen)
{ pbkdf2_generic(0, pw, pwlen, salt, saltlen, count, out, outlen); }
void ref_pbkdf2_hmac(const uint8_t *pw, size_t pwlen, const uint8_t *salt, size_t saltlen, unsigned long count, uint8_t *out, size_t outlen)
{ pbkdf2_generic(1, pw, pwlen, salt, saltlen, count, out, outlen); }

/* ---- SpongePRNG --------------------------------------------------------- */
void ref_prng_init_state(ref_prng *p)
{
    sponge sp;
    cxof_start(&sp, 0, (const uint8_t *)"SpongePRNG", 10, 0, 0, 0);
    memcpy(p->s, sp.s, 40); p->counter = 0;
}
void ref_prng_rekey(ref_prng *p)
{
    for (int i = 0; i < 4; i++) { memset(p->s, 0, 8); ref_permute(p->s, 0); }
}

/* ---- misc ---------------------------------------------------------------- */
void ref_nonce_inc(uint8_t n[16])
{
    for (int i = 15; i >= 0; i--) { if (++n[i] != 0) break; }
}
int ref_hex_decode(uint8_t *out, size_t outlen, const char *in, size_t inlen)
{
    size_t cnt = 0; int have = 0, hi = 0;
    for (size_t i = 0; i < inlen; i++) {
        unsigned char ch = (unsigned char)in[i]; int d;
        if (ch >= '0' && ch <= '9') d = ch - '0';
        else if (ch >= 'a' && ch <= 'f') d = ch - 'a' + 10;
        else if (ch >= 'A' && ch <= 'F') d = ch - 'A' + 10;
        else if (ch == ' ' || ch == '\t' || ch == '\n' || ch == '\r' || ch == '\f' || ch == '\v') continue;
        else return -1;
        if (!have) { hi = d; have = 1; }
        else { if (cnt >= outlen) return -1; out[cnt++] = (uint8_t)(hi * 16 + d); have = 0; }
    }
    if (have) return -1;
    return (int)cnt;
}
