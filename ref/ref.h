/* Reference model of the ASCON family, written from the specifications
 * (ASCON v1.2, ASCON-PRF, ISAP v2.0, RFC 2104/5869/8018) and the library's
 * documentation (cXOF, KMAC, KDF, SIV, SpongePRNG).  Deliberately boring:
 * byte-oriented 40-byte big-endian state, table S-box evaluated column by
 * column, no bit-slicing, no pre-computed IVs, no sharing with /repo. */
#ifndef VERIF_REF_H
#define VERIF_REF_H
#include <stddef.h>
#include <stdint.h>

typedef struct { uint8_t b[40]; } ref_state;

void ref_permute(uint8_t s[40], int first_round);          /* rounds first_round..11 */
void ref_permute_inverse(uint8_t s[40], int first_round);  /* inverse of the above */
void ref_round(uint8_t s[40], int r);
/* optional substitution used by the linearised-permutation checks: when set,
 * ref_permute calls this instead of the real permutation */
extern void (*ref_permute_override)(uint8_t s[40], int first_round);

enum { REF_128 = 0, REF_128A = 1, REF_80PQ = 2 };
static inline int ref_keylen(int alg) { return alg == REF_80PQ ? 20 : 16; }
static inline int ref_rate(int alg) { return alg == REF_128A ? 16 : 8; }

/* out gets mlen + 16 bytes */
void ref_aead_encrypt(int alg, const uint8_t *k, const uint8_t *n, const uint8_t *ad, size_t adlen,
                      const uint8_t *m, size_t mlen, uint8_t *out);
/* returns 0 ok / -1 fail; m gets clen-16 bytes */
int ref_aead_decrypt(int alg, const uint8_t *k, const uint8_t *n, const uint8_t *ad, size_t adlen,
                     const uint8_t *c, size_t clen, uint8_t *m);
void ref_siv_encrypt(int alg, const uint8_t *k, const uint8_t *n, const uint8_t *ad, size_t adlen,
                     const uint8_t *m, size_t mlen, uint8_t *out);
int ref_siv_decrypt(int alg, const uint8_t *k, const uint8_t *n, const uint8_t *ad, size_t adlen,
                    const uint8_t *c, size_t clen, uint8_t *m);

enum { REF_ISAP_128A = 0, REF_ISAP_128 = 1, REF_ISAP_80PQ = 2 };
static inline int ref_isap_keylen(int alg) { return alg == REF_ISAP_80PQ ? 20 : 16; }
void ref_isap_encrypt(int alg, const uint8_t *k, const uint8_t *n, const uint8_t *ad, size_t adlen,
                      const uint8_t *m, size_t mlen, uint8_t *out);
int ref_isap_decrypt(int alg, const uint8_t *k, const uint8_t *n, const uint8_t *ad, size_t adlen,
                     const uint8_t *c, size_t clen, uint8_t *m);
/* the two 40-byte pre-computed states p_K(K || IV_KE), p_K(K || IV_KA) */
void ref_isap_precompute(int alg, const uint8_t *k, uint8_t ke[40], uint8_t ka[40]);

/* hash family: a = 0 (HASH/XOF, b = 12) or 1 (HASHA/XOFA, b = 8) */
void ref_hash(int a, const uint8_t *m, size_t mlen, uint8_t out[32]);
void ref_xof(int a, const uint8_t *m, size_t mlen, uint8_t *out, size_t outlen);
/* XOF with declared output length in the IV (declared 0 or >= 2^29 => plain XOF) */
void ref_xof_fixed(int a, size_t declared, const uint8_t *m, size_t mlen, uint8_t *out, size_t outlen);
void ref_cxof(int a, const uint8_t *name, size_t namelen, const uint8_t *custom, size_t customlen,
              size_t declared, const uint8_t *m, size_t mlen, uint8_t *out, size_t outlen);
/* two-part message (KMAC: key || message) */
void ref_cxof2(int a, const uint8_t *name, size_t namelen, const uint8_t *custom, size_t customlen,
               size_t declared, const uint8_t *m1, size_t m1len, const uint8_t *m2, size_t m2len,
               uint8_t *out, size_t outlen);

/* declared: value placed in the IV (bytes); 0 for arbitrary-length Prf */
void ref_prf(const uint8_t k[16], size_t declared, const uint8_t *m, size_t mlen, uint8_t *out, size_t outlen);
int ref_prf_short(const uint8_t k[16], const uint8_t *m, size_t mlen, uint8_t *out, size_t outlen);
void ref_hmac(int a, const uint8_t *k, size_t klen, const uint8_t *m, size_t mlen, uint8_t out[32]);
/* returns -1 when outlen > 255*32 */
int ref_hkdf(int a, const uint8_t *key, size_t keylen, const uint8_t *salt, size_t saltlen,
             const uint8_t *info, size_t infolen, uint8_t *out, size_t outlen);
void ref_hkdf_extract(int a, const uint8_t *key, size_t keylen, const uint8_t *salt, size_t saltlen, uint8_t prk[32]);
/* full 8160-byte stream */
void ref_hkdf_stream(int a, const uint8_t prk[32], const uint8_t *info, size_t infolen, uint8_t *out, size_t outlen);
void ref_pbkdf2(const uint8_t *pw, size_t pwlen, const uint8_t *salt, size_t saltlen,
                unsigned long count, uint8_t *out, size_t outlen);
void ref_pbkdf2_hmac(const uint8_t *pw, size_t pwlen, const uint8_t *salt, size_t saltlen,
                     unsigned long count, uint8_t *out, size_t outlen);
void ref_kmac(int a, const uint8_t *k, size_t klen, const uint8_t *m, size_t mlen,
              const uint8_t *custom, size_t customlen, uint8_t *out, size_t outlen);
void ref_kdf(int a, const uint8_t *k, size_t klen, const uint8_t *custom, size_t customlen,
             uint8_t *out, size_t outlen);

/* SpongePRNG model */
typedef struct { uint8_t s[40]; size_t counter; } ref_prng;
void ref_prng_init_state(ref_prng *p);                       /* cXOF("SpongePRNG") initial state */
void ref_prng_rekey(ref_prng *p);
void ref_prng_absorb(ref_prng *p, const uint8_t *d, size_t n); /* absorb + rekey as feed does */

/* 128-bit big-endian increment */
void ref_nonce_inc(uint8_t n[16]);
/* hex decoder reference: returns count or -1 */
int ref_hex_decode(uint8_t *out, size_t outlen, const char *in, size_t inlen);

#endif
